//go:build verif

package remote

// Hooks used by the instrumented copy of remote_counter.go that lib/props/c09.py generates from
// the CURRENT file on every build (time.Now -> verifNow, the watchdog ticker -> a ticker the
// harness fires, the worker goroutine not started in manual mode, the acquire goroutine counted),
// and accessors of the counter manager.  No logic of the counter layer lives here: resetCheck,
// acquireRequest, doAcquire and send are the real functions.

import (
	"sync"
	"sync/atomic"
	"time"
)

// VerifNow, when set, is the clock of remote_counter.go.
var VerifNow func() time.Time

// VerifManual: the harness plays the worker (doAcquire rounds) and fires the watchdog ticks.
var VerifManual bool

func verifNow() time.Time {
	if f := VerifNow; f != nil {
		return f()
	}
	return time.Now()
}

func verifStartWorker(f func()) {
	if VerifManual {
		return
	}
	go f()
}

type verifTicker struct {
	C    <-chan time.Time
	stop func()
}

func (t *verifTicker) Stop() { t.stop() }

var verifTickers sync.Map // *globalCounter -> chan time.Time

func verifNewTicker(g *globalCounter) *verifTicker {
	if !VerifManual {
		t := time.NewTicker(MaxIdealDuration)
		return &verifTicker{C: t.C, stop: t.Stop}
	}
	ch := make(chan time.Time)
	verifTickers.Store(g, ch)
	return &verifTicker{C: ch, stop: func() { verifTickers.Delete(g) }}
}

var verifAcquires sync.WaitGroup

func verifAcquireStart() { verifAcquires.Add(1) }
func verifAcquireDone()  { verifAcquires.Done() }

// VerifDoAcquire is one round of the worker: globalCounterManager.doAcquire, and the wait for its reply goroutine.
func VerifDoAcquire(p GlobalCounterProvider) {
	p.(*globalCounterManager).doAcquire()
	verifAcquires.Wait()
}

func verifCounter(p GlobalCounterProvider, name string) *globalCounter {
	m := p.(*globalCounterManager)
	m.lock.Lock()
	defer m.lock.Unlock()
	return m.counterMap[name]
}

// VerifCounterSettle waits until the counter registered for name (if any) runs its watchdog loop
// (its lastSyncTime is initialised before the ticker is created). Returns false if there is no counter.
func VerifCounterSettle(p GlobalCounterProvider, name string) bool {
	for i := 0; i < 2000; i++ {
		c := verifCounter(p, name)
		if c == nil {
			return false
		}
		if _, ok := verifTickers.Load(c); ok {
			return true
		}
		time.Sleep(100 * time.Microsecond)
	}
	panic("verif: watchdog of the counter did not start")
}

// VerifCounterGone waits until the manager has dropped the counter of name (the stop of a remote wrapper
// reaches the manager through a goroutine).
func VerifCounterGone(p GlobalCounterProvider, name string) {
	for i := 0; i < 2000; i++ {
		if verifCounter(p, name) == nil {
			return
		}
		time.Sleep(100 * time.Microsecond)
	}
	panic("verif: counter of a stopped remote wrapper was not dropped")
}

// VerifLastSync reads lastSyncTime of the counter registered for name.
func VerifLastSync(p GlobalCounterProvider, name string) (int64, bool) {
	if !VerifCounterSettle(p, name) {
		return 0, false
	}
	c := verifCounter(p, name)
	if c == nil {
		return 0, false
	}
	return atomic.LoadInt64(&c.lastSyncTime), true
}

// VerifWatchdogTick fires the ticker of the counter's resetCheck loop once and waits until the loop
// has handled it (a second send is accepted only when the loop is back at its select; the check is
// idempotent at a fixed clock).
func VerifWatchdogTick(p GlobalCounterProvider, name string) bool {
	if !VerifCounterSettle(p, name) {
		return false
	}
	c := verifCounter(p, name)
	v, ok := verifTickers.Load(c)
	if !ok {
		return false
	}
	ch := v.(chan time.Time)
	for i := 0; i < 2; i++ {
		select {
		case ch <- verifNow():
		case <-c.stopCh:
			return false
		}
	}
	return true
}

// VerifSetEvent: whether requests were counted since the last round (globalCounter.Count) or not.
func VerifSetEvent(p GlobalCounterProvider, name string, pending bool) {
	c := verifCounter(p, name)
	if c == nil {
		return
	}
	select {
	case <-c.eventCh:
	default:
	}
	if pending {
		c.Count(0)
	}
}
