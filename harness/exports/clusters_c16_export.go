//go:build verif

package clusters

// Add-only export for the C16 correspondence harness: stops the meters of the
// flow controls a ClusterInfo created (their ticker goroutines outlive
// ClusterInfo.Stop), so that thousands of objects can be applied in one process.

func VerifC16StopFlowControls(c *ClusterInfo) {
	if c == nil || c.flowcontrol == nil {
		return
	}
	for _, fc := range c.flowcontrol.AllFlowControls() {
		fc.Stop()
	}
}
