//go:build verif

package clusters

import "fmt"

// VerifC14Upstreams names the upstream list MatchAttributes handed to a picker.
func VerifC14Upstreams(p EndpointPicker) []string {
	if s, ok := p.(*endpointPickStrategy); ok {
		return s.upstreams
	}
	return nil
}

// VerifC14SetCursor stores a round-robin counter for the ready list eps (in this order), under the
// key Pop computes for it, so that the uint64 wrap can be reached.
func VerifC14SetCursor(c *ClusterInfo, eps []string, v uint64) bool {
	infos := []*EndpointInfo{}
	for _, ep := range eps {
		info, ok := c.Endpoints.Load(ep)
		if !ok {
			return false
		}
		infos = append(infos, info)
	}
	c.loadbalancer.Store(fmt.Sprintf("%v", infos), &v)
	return true
}
