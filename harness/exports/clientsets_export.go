//go:build verif

package clientsets

import "k8s.io/client-go/rest"

// VerifClientSets builds a clientSets value without starting its goroutines.
func VerifClientSets(shardCount int) ClientSets {
	return &clientSets{shardCount: shardCount, restConfig: &rest.Config{}, runId: "verif"}
}

// VerifSetLeader records server as leader endpoint of shard with the given readiness.
func VerifSetLeader(c ClientSets, shard int, server string, ready bool) {
	cs := c.(*clientSets)
	cs.leaderEndpoints.Store(shard, server)
	cs.leaderReady.Store(shard, &heartbeatStatus{ready: ready, lastState: ready})
}
