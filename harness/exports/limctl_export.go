//go:build verif

package controller

import "k8s.io/client-go/tools/cache"

// VerifIndexer exposes the informer's store so a harness can play the informer.
func VerifIndexer(c UpstreamController) cache.Indexer {
	return c.(*upstreamController).gatewayInformerFactory.Proxy().V1alpha1().UpstreamClusters().Informer().GetIndexer()
}
