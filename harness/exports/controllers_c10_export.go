//go:build verif

package controllers

// Add-only export for the C10/C11 correspondence harness: builds the real
// UpstreamClusterController around an injected lister (no informer, no queue,
// no rate-limiter client) and names the unexported sync handler.

import (
	"context"

	proxyv1alpha1 "github.com/kubewharf/kubegateway/pkg/apis/proxy/v1alpha1"
	proxylisters "github.com/kubewharf/kubegateway/pkg/client/listers/proxy/v1alpha1"
	"github.com/kubewharf/kubegateway/pkg/clusters"
	"github.com/kubewharf/kubegateway/pkg/syncqueue"
)

func VerifNewUpstreamClusterController(lister proxylisters.UpstreamClusterLister) *UpstreamClusterController {
	ctx, cancel := context.WithCancel(context.Background())
	return &UpstreamClusterController{
		ctx:     ctx,
		cancel:  cancel,
		lister:  lister,
		Manager: clusters.NewManager(),
	}
}

func (m *UpstreamClusterController) VerifSync(obj *proxyv1alpha1.UpstreamCluster) (syncqueue.Result, error) {
	return m.syncUpstreamCluster(obj)
}

// VerifQueue names the controller's sync queue (built by the real constructor).
func (m *UpstreamClusterController) VerifQueue() *syncqueue.SyncQueue { return m.queue }
