//go:build verif

package remote

// Add-only hooks for the C09 harness: build AcquireResult values (unexported
// fields), run the two steps of the reconcile loop without its goroutine,
// read the flags of the global-count wrappers, reach the meter.

import (
	"time"

	proxyv1alpha1 "github.com/kubewharf/kubegateway/pkg/apis/proxy/v1alpha1"
	"github.com/kubewharf/kubegateway/pkg/flowcontrols/util"
)

// VerifAcquireResult builds the value globalCounterManager.doAcquire hands to SetLimit.
func VerifAcquireResult(accept bool, limit int32, errText string, requestTime int64) *AcquireResult {
	return &AcquireResult{
		result:      &proxyv1alpha1.RateLimitAcquireResult{FlowControl: "", Accept: accept, Limit: limit, Error: errText},
		requestTime: requestTime,
	}
}

// VerifSetWaitAcquireTimeout shortens the time a TryAcquire waits for an answer of the limiter server.
func VerifSetWaitAcquireTimeout(d time.Duration) { waitAcquireTimeout = d }

// VerifUpdateGlobalCount runs the first half of reconcile.reconcile().
func VerifUpdateGlobalCount(r Reconcile) { r.(*reconcile).updateGlobalCuntFlowControls() }

// VerifUpdateFlowControls runs the last step of reconcile.reconcile() on a server answer.
func VerifUpdateFlowControls(r Reconcile, c *proxyv1alpha1.RateLimitCondition) {
	r.(*reconcile).updateFlowControls(c)
}

// VerifBuildLimitConditions builds the request of one allocate round (reconcile.reconcile()).
func VerifBuildLimitConditions(r Reconcile) *proxyv1alpha1.RateLimitCondition {
	return r.(*reconcile).buildLimitConditions()
}

// VerifInner names the limiter behind a remote wrapper and reads its flags.
func VerifInner(w RemoteFlowControlWrapper) (kind string, unavailable bool, overLimited bool) {
	rw, ok := w.(*remoteWrapper)
	if !ok || rw == nil || rw.GlobalCounterFlowControl == nil {
		return "none", false, false
	}
	switch g := rw.GlobalCounterFlowControl.(type) {
	case *emptyGlobalWrapper:
		return "empty", false, false
	case *maxInflightWrapper:
		g.lock.Lock()
		defer g.lock.Unlock()
		return "mi", g.serverUnavailable == 1, g.overLimited == 1
	case *tokenBucketWrapper:
		g.lock.Lock()
		defer g.lock.Unlock()
		return "tb", g.serverUnavailable == 1, false
	}
	return "other", false, false
}

// VerifMeter returns the meter shared by the local and the remote limiter of a schema.
func VerifMeter(c FlowControlCache) *util.Meter { return c.(*flowControlCache).meter }
