//go:build verif

package k8s

import (
	"time"

	gatewayclientset "github.com/kubewharf/kubegateway/pkg/client/kubernetes"
	_interface "github.com/kubewharf/kubegateway/pkg/ratelimiter/store/interface"
)

// VerifNewStore builds the store through the real constructor without the
// periodic goroutine (syncPeriod 0) and then sets the requested sync period,
// so that a harness can play the timer by calling Flush itself.
func VerifNewStore(gatewayClient gatewayclientset.Interface, syncPeriod time.Duration, shard, shardCount int) _interface.LimitStore {
	s := NewK8sCacheStore(gatewayClient, 0, shard, shardCount).(*objectStore)
	s.syncPeriod = syncPeriod
	return s
}

// VerifSync runs one pass of the periodic sync loop body.
func VerifSync(s _interface.LimitStore) { s.(*objectStore).sync() }
