//go:build verif

package elector

// Add-only hooks: drive the elector's callbacks the way client-go's
// leaderelection would (OnNewLeader / OnStartedLeading / OnStoppedLeading).

func VerifNewLeader(l LeaderElector, shard int, id string) { l.(*leaderElector).setLeader(shard, id) }
func VerifStartLeading(l LeaderElector, shard int)         { l.(*leaderElector).startLeading(shard) }
func VerifStopLeading(l LeaderElector, shard int)          { l.(*leaderElector).stopLeading(shard) }
