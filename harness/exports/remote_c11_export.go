//go:build verif

package remote

// Add-only export for the C11 correspondence harness: the limiter behind the stable wrappers
// (localWrapper -> meterWrapper -> the limiter that admits requests).

import "github.com/kubewharf/kubegateway/pkg/flowcontrols/flowcontrol"

func VerifC11Inner(fc flowcontrol.FlowControl) flowcontrol.FlowControl {
	for i := 0; i < 4; i++ {
		switch w := fc.(type) {
		case *localWrapper:
			fc = w.FlowControl
		case *meterWrapper:
			fc = w.FlowControl
		default:
			return fc
		}
	}
	return fc
}
