//go:build verif

package limiter

import proxyv1alpha1 "github.com/kubewharf/kubegateway/pkg/apis/proxy/v1alpha1"

func VerifCalculateNextQuota(
	upstreamTotal proxyv1alpha1.RateLimitItemConfiguration,
	upstreamUsed proxyv1alpha1.RateLimitItemStatus,
	flowControlConfig proxyv1alpha1.RateLimitItemConfiguration,
	flowControlStatus proxyv1alpha1.RateLimitItemStatus,
	clients int,
	condition *proxyv1alpha1.RateLimitCondition,
) proxyv1alpha1.RateLimitItemConfiguration {
	return calculateNextQuota(upstreamTotal, upstreamUsed, flowControlConfig, flowControlStatus, clients, condition)
}
