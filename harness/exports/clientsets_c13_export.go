//go:build verif

package clientsets

import "k8s.io/client-go/rest"

// Add-only accessors for the C13 harness (gateway side: sync / ClientFor).

// VerifClientSetsWithLookup builds a clientSets value without starting its goroutines;
// its service lookup answers with servers().
func VerifClientSetsWithLookup(servers func() []string) ClientSets {
	return &clientSets{
		service:    "verif",
		lookupFunc: func(string) []string { return servers() },
		restConfig: &rest.Config{},
		runId:      "verif",
		insecure:   true,
	}
}

// VerifSync runs one round of the periodic server-info sync.
func VerifSync(c ClientSets) { c.(*clientSets).sync() }

// VerifClientServer: the server address whose client ClientFor(cluster) hands out.
func VerifClientServer(c ClientSets, cluster string) (string, error) {
	cs := c.(*clientSets)
	cl, err := cs.ClientFor(cluster)
	if err != nil {
		return "", err
	}
	server := "?"
	cs.clientsCache.Range(func(k, v interface{}) bool {
		if v.(*clientCache).client == cl {
			server = k.(string)
			return false
		}
		return true
	})
	return server, nil
}
