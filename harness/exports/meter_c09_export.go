//go:build verif

package util

import "time"

// VerifSetReadings makes the meter report the given max in-flight and rate.
// Pending in-flight notifications are drained first so that the worker does not
// overwrite the reading with a stale sample.
func VerifSetReadings(m *Meter, maxInflight int32, rate float64) {
	for i := 0; i < 2; i++ {
		select {
		case <-m.inflightChan:
		default:
		}
		m.mu.Lock()
		m.inflightMax = maxInflight
		for k := range m.inflightBuckets {
			m.inflightBuckets[k] = maxInflight
		}
		m.rateAvg = rate
		m.mu.Unlock()
		time.Sleep(100 * time.Microsecond)
	}
}
