//go:build verif

package upstreamclusteradmission

// Add-only export for the C10/C11 correspondence harness: the real admission
// plugin with an injected lister that is ready at once.

import (
	"k8s.io/apiserver/pkg/admission"

	proxylisters "github.com/kubewharf/kubegateway/pkg/client/listers/proxy/v1alpha1"
)

func VerifNewPlugin(lister proxylisters.UpstreamClusterLister) admission.ValidationInterface {
	p := &upstreamclusterPlugin{
		Handler: admission.NewHandler(admission.Create, admission.Update),
		lister:  lister,
	}
	p.SetReadyFunc(func() bool { return true })
	return p
}
