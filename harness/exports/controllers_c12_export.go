//go:build verif

package controllers

// Add-only export for the C12 harness: the real UpstreamClusterController as the
// cluster manager / client provider (no informer, no queue, no rate-limiter
// client), so that server names are registered, moved and deleted through its
// own AddOrUpdateForServerNames / DeleteForServerNames.

import (
	"context"

	"github.com/kubewharf/kubegateway/pkg/clusters"
)

func VerifC12NewController() *UpstreamClusterController {
	ctx, cancel := context.WithCancel(context.Background())
	return &UpstreamClusterController{
		ctx:     ctx,
		cancel:  cancel,
		Manager: clusters.NewManager(),
	}
}
