//go:build verif

package clientsets

import "time"

// VerifHeartbeat feeds one heartbeat outcome to the real readiness bookkeeping.
func VerifHeartbeat(c ClientSets, shard int, server string, ok bool) {
	c.(*clientSets).setLeaderStatus(shard, server, ok)
}

// VerifAge lets d of (virtual) time pass for the readiness hysteresis of a shard.
func VerifAge(c ClientSets, shard int, d time.Duration) {
	if hs, ok := c.(*clientSets).leaderReady.Load(shard); ok {
		st := hs.(*heartbeatStatus)
		st.lastChange = st.lastChange.Add(-d)
	}
}
