//go:build verif

package clientsets

import (
	"time"

	gatewayclientset "github.com/kubewharf/kubegateway/pkg/client/kubernetes"
)

// VerifNow, when set, is the clock of clientsets.go (the instrumented copy that lib/props/c09.py generates from
// the CURRENT file replaces time.Now() by verifNow()).
var VerifNow func() time.Time

func verifNow() time.Time {
	if f := VerifNow; f != nil {
		return f()
	}
	return time.Now()
}

// VerifHeartbeatAt feeds one heartbeat outcome (or, with ok=true, the leader change of clientSets.sync)
// to the real readiness bookkeeping; the time is the virtual clock's.
func VerifHeartbeatAt(c ClientSets, shard int, server string, ok bool, nowMs int64) {
	c.(*clientSets).setLeaderStatus(shard, server, ok)
}

// VerifForget: nothing to forget since the clock is virtual.
func VerifForget(c ClientSets, shard int) {}

// VerifSetLookup sets the service lookup of the periodic info sync.
func VerifSetLookup(c ClientSets, servers func() []string) {
	cs := c.(*clientSets)
	cs.service = "verif"
	cs.lookupFunc = func(string) []string { return servers() }
}

// VerifSyncRound is one round of the periodic server-info sync (clientSets.sync).
func VerifSyncRound(c ClientSets) { c.(*clientSets).sync() }

// VerifHeartRound is one round of heartbeats to the shard leaders (clientSets.clientHeart).
func VerifHeartRound(c ClientSets) { c.(*clientSets).clientHeart() }

// VerifRealClient creates the client clientSets would create for server.
func VerifRealClient(c ClientSets, server string) gatewayclientset.Interface {
	cl, err := c.(*clientSets).createClient(server)
	if err != nil {
		panic(err)
	}
	return cl
}

// VerifSetClient makes client the (cached) client of the leader of shard, so that ClientFor returns it
// without creating a network client.
func VerifSetClient(c ClientSets, shard int, server string, client gatewayclientset.Interface) {
	cs := c.(*clientSets)
	cs.clientsCache.Store(server, &clientCache{expire: time.Now().Add(24 * time.Hour), client: client})
	cs.leaderEndpoints.Store(shard, server)
}
