//go:build verif

package clientsets

import (
	"sync"
	"time"

	gatewayclientset "github.com/kubewharf/kubegateway/pkg/client/kubernetes"
)

// Virtual time for the readiness hysteresis: setLeaderStatus reads time.Now()
// directly, so the harness keeps a virtual clock (milliseconds, advanced only by
// the case) and, right before each call, places lastChange at the real instant
// that lies "virtual age" in the past. The virtual instant at which the real code
// stamped lastChange is remembered per status object. No logic is re-implemented:
// when and whether lastChange is stamped is decided by setLeaderStatus alone.
var verifStamp sync.Map // *heartbeatStatus -> int64 (virtual ms)

func verifStatus(c ClientSets, shard int) *heartbeatStatus {
	if hs, ok := c.(*clientSets).leaderReady.Load(shard); ok {
		return hs.(*heartbeatStatus)
	}
	return nil
}

// VerifHeartbeatAt feeds one heartbeat outcome (or, with ok=true, the leader
// change of clientSets.sync) to the real readiness bookkeeping at virtual time nowMs.
func VerifHeartbeatAt(c ClientSets, shard int, server string, ok bool, nowMs int64) {
	st := verifStatus(c, shard)
	var before time.Time
	if st != nil {
		if v, found := verifStamp.Load(st); found {
			st.lastChange = time.Now().Add(-time.Duration(nowMs-v.(int64)) * time.Millisecond)
		}
		before = st.lastChange
	}
	c.(*clientSets).setLeaderStatus(shard, server, ok)
	after := verifStatus(c, shard)
	if after != nil && (st == nil || !after.lastChange.Equal(before)) {
		verifStamp.Store(after, nowMs)
	}
}

// VerifForget drops the bookkeeping of a finished case.
func VerifForget(c ClientSets, shard int) {
	if st := verifStatus(c, shard); st != nil {
		verifStamp.Delete(st)
	}
}

// VerifSetClient makes client the (cached) client of the leader of shard, so that ClientFor returns it
// without creating a network client.
func VerifSetClient(c ClientSets, shard int, server string, client gatewayclientset.Interface) {
	cs := c.(*clientSets)
	cs.clientsCache.Store(server, &clientCache{expire: time.Now().Add(24 * time.Hour), client: client})
	cs.leaderEndpoints.Store(shard, server)
}
