//go:build verif

package clusters

// Add-only export for the C10/C11 correspondence harness: the endpoint list a
// picker returned by MatchAttributes would choose from.

func VerifPickerUpstreams(p EndpointPicker) []string {
	s, ok := p.(*endpointPickStrategy)
	if !ok {
		return nil
	}
	return append([]string{}, s.upstreams...)
}
