//go:build verif

package flowcontrol

import "github.com/zoumo/golib/lock/maxinflight"

// VerifTokenBucket names the golib bucket embedded in a max-in-flight / exempt flowControl
// (nil for any other implementation of FlowControl).
func VerifTokenBucket(fc FlowControl) maxinflight.TokenBucket {
	if f, ok := fc.(*flowControl); ok {
		return f.TokenBucket
	}
	return nil
}
