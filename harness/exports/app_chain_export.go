//go:build verif

package app

import (
	"net/http"

	genericapiserver "k8s.io/apiserver/pkg/server"

	"github.com/kubewharf/kubegateway/pkg/clusters"
)

// VerifBuildProxyHandlerChain names the unexported builder of the proxy
// handler chain (filters + dispatcher) with default options.
func VerifBuildProxyHandlerChain(cm clusters.Manager) func(http.Handler, *genericapiserver.Config) http.Handler {
	return buildProxyHandlerChainFunc(&proxyHandlerOptions{clusterManager: cm})
}
