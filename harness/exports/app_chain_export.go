//go:build verif

package app

import (
	"net/http"

	genericapiserver "k8s.io/apiserver/pkg/server"

	"github.com/kubewharf/kubegateway/pkg/clusters"
)

// VerifBuildProxyHandlerChain names the unexported builder of the proxy
// handler chain (filters + dispatcher) with default options.
func VerifBuildProxyHandlerChain(cm clusters.Manager) func(http.Handler, *genericapiserver.Config) http.Handler {
	return buildProxyHandlerChainFunc(&proxyHandlerOptions{clusterManager: cm})
}

// VerifBuildProxyHandlerChainTraced: the same builder with proxy tracing enabled, as
// --enable-proxy-tracing does (WithTraceLog wraps the request body of non-long-running
// requests to clusters whose feature gate Tracing is on).
func VerifBuildProxyHandlerChainTraced(cm clusters.Manager) func(http.Handler, *genericapiserver.Config) http.Handler {
	return buildProxyHandlerChainFunc(&proxyHandlerOptions{clusterManager: cm, enableProxyTracing: true})
}
