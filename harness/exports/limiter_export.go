//go:build verif

package limiter

// Add-only accessors for the verification harness (never part of a normal build).

import (
	"time"

	"k8s.io/apimachinery/pkg/labels"

	proxyv1alpha1 "github.com/kubewharf/kubegateway/pkg/apis/proxy/v1alpha1"
	"github.com/kubewharf/kubegateway/pkg/ratelimiter/limiter/controller"
	"github.com/kubewharf/kubegateway/pkg/ratelimiter/limiter/elector"
	_interface "github.com/kubewharf/kubegateway/pkg/ratelimiter/store/interface"
)

type VerifLimiter struct{ R *rateLimiter }

func VerifUnwrap(r RateLimiter) VerifLimiter { return VerifLimiter{R: r.(*rateLimiter)} }

func (v VerifLimiter) Elector() elector.LeaderElector            { return v.R.leaderElector }
func (v VerifLimiter) SetElector(e elector.LeaderElector)        { v.R.leaderElector = e }
func (v VerifLimiter) Controller() controller.UpstreamController { return v.R.upstreamController }
func (v VerifLimiter) LeaderCheck()                              { v.R.leaderCheck() }
func (v VerifLimiter) CleanupTimeoutClient()                     { v.R.cleanupTimeoutClient() }
func (v VerifLimiter) CleanupUnknownCondition()                  { v.R.cleanupUnknownCondition() }
func (v VerifLimiter) Handler(c *proxyv1alpha1.UpstreamCluster) error {
	return v.R.UpstreamConditionHandler(c)
}
func (v VerifLimiter) SetHeartbeat(instance string, t time.Time) {
	v.R.clientCache.clientHeartbeats.Store(instance, t)
}
func (v VerifLimiter) Clients() map[string]time.Time {
	m, _ := v.R.clientCache.AllClients()
	return m
}
func (v VerifLimiter) Stores() map[int]_interface.LimitStore {
	v.R.limitStoreLock.RLock()
	defer v.R.limitStoreLock.RUnlock()
	out := map[int]_interface.LimitStore{}
	for k, s := range v.R.limitStoreMap {
		out[k] = s
	}
	return out
}
func (v VerifLimiter) StoreConditions(shard int) ([]*proxyv1alpha1.RateLimitCondition, bool) {
	s, ok := v.Stores()[shard]
	if !ok {
		return nil, false
	}
	return s.List(labels.Everything()), true
}
