//go:build verif

package upstreamclusteradmission

import (
	proxyv1alpha1 "github.com/kubewharf/kubegateway/pkg/apis/proxy/v1alpha1"
)

// Add-only export for the C17 correspondence harness: names the unexported
// admission-time rule normalisation.
func VerifNormalizeRules(in proxyv1alpha1.DispatchPolicyRule) proxyv1alpha1.DispatchPolicyRule {
	return normalizeRules(in)
}
