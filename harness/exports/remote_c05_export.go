//go:build verif

package remote

import "github.com/kubewharf/kubegateway/pkg/flowcontrols/flowcontrol"

// VerifUnwrapMeter names the limiter inside a meterWrapper (identity on anything else).
func VerifUnwrapMeter(fc flowcontrol.FlowControl) flowcontrol.FlowControl {
	if m, ok := fc.(*meterWrapper); ok {
		return m.FlowControl
	}
	return fc
}
