//go:build verif

package clientsets

import "k8s.io/client-go/rest"

// Add-only export for the C16 correspondence harness: a clientSets value with a
// chosen instance identity and without its goroutines (a second gateway replica).
func VerifC16ClientSets(shardCount int, id string) ClientSets {
	return &clientSets{shardCount: shardCount, restConfig: &rest.Config{}, runId: id}
}
