//go:build verif

package flowcontrols

import "github.com/kubewharf/kubegateway/pkg/flowcontrols/remote"

// VerifReconcile exposes the reconcile object of an upstream limiter so that a
// harness can play its loop step by step.
func VerifReconcile(l UpstreamLimiter) remote.Reconcile { return l.(*upstreamLimiter).reconcile }

// VerifCounterProvider exposes the global counter manager of an upstream limiter.
func VerifCounterProvider(l UpstreamLimiter) remote.GlobalCounterProvider {
	return l.(*upstreamLimiter).globalCounterProvider
}
