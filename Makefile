# /verif setup: build the Coq development (full .vo build) and warm the Go build cache.
.PHONY: setup coq clean
setup: coq
	@for p in $$(ls harness | grep '^c[0-9]'); do \
	  python3 bin/warm $$p || true; done
coq:
	cd coq && coq_makefile -f _CoqProject theories/*.v -o Makefile && timeout 3000 $(MAKE) -k -j16 || echo "coq build incomplete (each check re-runs make and reports its own obligations)"
clean:
	rm -rf build; cd coq && rm -f Makefile Makefile.conf .Makefile.d theories/*.vo theories/*.vok theories/*.vos theories/*.glob theories/.*.aux
