(* C08 — property theorems (statements only; proofs live in C08_Proofs.v).

   [gstep]/[grun_state] run sequences of ATOMIC operations on one globalMaxInflight: a report or the
   removal of an instance (GSet, one critical section under the object's write lock, reading the limit
   once) and a limit change (GResize, one atomic store).  Every interleaving of concurrent SetState /
   Resize calls is such a sequence, so theorems over all sequences cover all interleavings.
   [Inv] is what every reachable state satisfies (Inv_new, Inv_step); values stay below 2^30. *)
From KG Require Import Prelude C06_Model C06_Spec C06_Check C06_Proofs C08_Model C08_Spec C08_Check C08_Proofs.
Open Scope Z_scope.

(* after every operation of every history: running total = sum of the per-instance counts *)
Theorem C08_total_exact : forall max0 ops, 0 <= max0 < lim30 -> Forall op_ok ops ->
  let m := grun_state (mif_new max0) ops in mcount m = inst_total m.
Proof. exact total_exact. Qed.
Print Assumptions C08_total_exact.

(* one operation: a report or removal never takes the total above max(total before, limit) — within the
   limit it stays within, above a lowered limit no increase is accepted; a limit change keeps the total *)
Theorem C08_bound : forall m o, Inv m -> op_ok o ->
  let m' := fst (gstep m o) in
  match o with
  | GSet _ _ _ => mcount m' <= Z.max (mcount m) (mmax m) /\ mmax m' = mmax m
  | GResize n => mcount m' = mcount m /\ mmax m' = n
  end.
Proof. exact bound_step. Qed.
Print Assumptions C08_bound.

(* while the limit is unchanged the accepted counts sum to at most the limit *)
Theorem C08_bound_history : forall ops m, Inv m -> Forall op_ok ops -> no_resize ops -> mcount m <= mmax m ->
  mcount (grun_state m ops) <= mmax m /\ mmax (grun_state m ops) = mmax m.
Proof. exact bound_history. Qed.
Print Assumptions C08_bound_history.

(* a report that does not raise the instance's count (and is not stale) is always applied, also while
   the total is above a lowered limit *)
Theorem C08_decrease_applied : forall m i rid cur, Inv m -> 0 <= cur <= cur_of m i -> is_stale m i rid = false ->
  let m' := fst (set_state m i rid cur) in let r := snd (set_state m i rid cur) in
  s_latest r = cur /\ s_err r = false /\ cur_of m' i = cur /\ mcount m' = mcount m - (cur_of m i - cur).
Proof. exact decrease_applied. Qed.
Print Assumptions C08_decrease_applied.

(* a report whose id is not newer than the last processed one is refused and changes nothing; a processed
   id is recorded even when the increase it carried was rolled back (id_recorded) *)
Theorem C08_stale_id_refused : forall m i rid cur, Inv m -> 0 <= cur < lim30 -> is_stale m i rid = true ->
  let m' := fst (set_state m i rid cur) in let r := snd (set_state m i rid cur) in
  s_err r = true /\ s_accept r = false /\ m' = m.
Proof. exact stale_id_refused. Qed.
Print Assumptions C08_stale_id_refused.

Theorem C08_id_recorded : forall m i rid cur, Inv m -> 0 <= cur < lim30 -> 0 < rid -> is_stale m i rid = false ->
  req_of (fst (set_state m i rid cur)) i = rid.
Proof. exact id_recorded. Qed.
Print Assumptions C08_id_recorded.

(* every history: the model's observations satisfy the executable specification (total, bound, decrease,
   stale) that the check evaluates on the real observations *)
Theorem C08_spec_history : forall max0 ops,
  mif_ok max0 (model_hist (mif_new max0) ops) = [true; true; true; true].
Proof. exact spec_history. Qed.
Print Assumptions C08_spec_history.

(* token bucket through DoAcquire: each grant lies between 0 and the amount asked *)
Theorem C08_grant_range : forall c s now n, 0 <= n ->
  let r := snd (acquire_tb c s now n) in
  0 <= a_limit r <= n /\ (a_accept r = false -> a_limit r = 0) /\ a_err r = false.
Proof. exact grant_range. Qed.
Print Assumptions C08_grant_range.

(* negative asks are refused before any flow control is touched, for both schema types *)
Theorem C08_negative_refused : forall n, n < 0 ->
  (forall c s now, acquire_tb c s now n = (s, {| a_accept := false; a_limit := 0; a_err := true |})) /\
  (forall m i rid, acquire_mif m i rid n = (m, {| a_accept := false; a_limit := 0; a_err := true |})).
Proof. intros n H. split; intros; [apply negative_refused_tb|apply negative_refused_mif]; exact H. Qed.
Print Assumptions C08_negative_refused.

(* tokens granted to all instances in any window of consecutive DoAcquire requests [t0 .. t_end] of any
   history (l1 = what came before) total less than burst + qps*(t_end - t0 + 1ns) *)
Theorem C08_tokens_rate : forall c l1 w t0, cfg_ok c -> ops_sorted t0 w ->
  let s1 := acq_state c init_st l1 in
  NS * granted_total (acq_results c s1 w) < cap c + qps c * (ops_end t0 w - t0 + 1).
Proof. exact tokens_rate. Qed.
Print Assumptions C08_tokens_rate.

(* any number of concurrent instances: TryAcquireN reads the clock under the bucket's lock, so in order
   of decision the readings never step back and each lies between the call's invocation and completion;
   then whatever is granted entirely inside [a, b] totals at most burst + qps*(b - a + 1ns) *)
Theorem C08_tokens_rate_concurrent : forall c calls l a b, cfg_ok c ->
  (match trace c init_st calls with [] => true | e :: r => sorted_from (etime e) r end) = true ->
  Forall2 wcall_of (trace c init_st calls) l -> a <= b ->
  NS * conc_sum a b l <= cap c + qps c * (b - a + 1).
Proof. exact tokens_rate_concurrent. Qed.
Print Assumptions C08_tokens_rate_concurrent.

(* outside the stated range (values >= 2^30) int32 arithmetic wraps and the bound fails *)
Theorem C08_wrap_refuted :
  let ops := [GSet "gw1" 0 2147483647; GResize 0; GSet "gw2" 0 2147483647] in
  let m := grun_state (mif_new 2147483647) ops in
  mcount m = -2 /\ inst_total m = 4294967294 /\ mmax m = 0 /\
  s_accept (snd (gstep (grun_state (mif_new 2147483647) [GSet "gw1" 0 2147483647; GResize 0]) (GSet "gw2" 0 2147483647))) = true.
Proof. exact wrap_refuted. Qed.
Print Assumptions C08_wrap_refuted.

(* ---------- non-vacuity ---------- *)
(* limit 100 -> 50 with 60 + 30 recorded: the decrease to 55 is applied, the increase to 70 is refused,
   a stale id is refused, a removal subtracts exactly once *)
Example C08_history_nonvacuous :
  let ops := [GSet "gw1" 1 60; GSet "gw2" 1 30; GResize 50; GSet "gw1" 2 55; GSet "gw1" 3 70; GSet "gw1" 3 1;
              GSet "gw2" (-1) (-1); GSet "gw2" (-1) (-1)] in
  Forall op_ok ops /\
  map (fun p => (s_accept (fst p), s_latest (fst p), s_err (fst p), mcount (snd p))) (grun (mif_new 100) ops)
  = [(true, 60, false, 60); (true, 30, false, 90); (true, 0, false, 90); (false, 55, false, 85);
     (false, 55, false, 85); (false, 1, true, 85); (false, -1, false, 55); (false, -1, false, 55)].
Proof. split; [repeat constructor; unfold lim30; simpl; lia|vm_compute; reflexivity]. Qed.

Example C08_decrease_nonvacuous :
  let m := grun_state (mif_new 100) [GSet "gw1" 1 60; GSet "gw2" 1 30; GResize 50] in
  Inv m /\ 0 <= 55 <= cur_of m "gw1" /\ is_stale m "gw1" 2 = false /\ mcount m > mmax m.
Proof.
  split; [apply Inv_run; [apply Inv_new; unfold lim30; lia|repeat constructor; unfold lim30; simpl; lia]|].
  vm_compute. repeat split; intros H; discriminate H.
Qed.

(* (qps 10, burst 8): asking 20 is granted 5 (20 -> 10 -> 5), asking again at once 2 (20,10,5 fail; 2 = 20/8);
   a negative ask is refused; half a second later 8 is halved to 4 *)
Example C08_tokens_nonvacuous :
  let c := {| qps := 10; burst := 8 |} in
  map (fun r => (a_accept r, a_limit r, a_err r)) (acq_results c init_st [(0, 20); (0, 20); (0, -5); (500000000, 8)])
  = [(true, 5, false); (true, 2, false); (false, 0, true); (true, 4, false)]
  /\ ops_sorted 0 [(0, 20); (0, 20); (0, -5); (500000000, 8)] /\ cfg_ok c.
Proof. split; [vm_compute; reflexivity|]. split; [simpl; lia|unfold cfg_ok, cap, max_dur, NS; simpl; lia]. Qed.
