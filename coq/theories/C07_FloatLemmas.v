(* C07 — exactness lemmas about the binary64 operations of C07_Float.v:
   int32-sized integers, their sums and differences are exact; comparisons of
   finite values are real comparisons; ceil of a float is the integer ceiling;
   the difference n - c of a float and a smaller non-negative integer is exact
   below 2^53 and at least 2^52 above; the burst formula is monotone. *)
From Coq Require Import ZArith Reals Lia Lra Psatz Bool.
From Flocq Require Import Core IEEE754.BinarySingleNaN.
From KG Require Import Prelude C07_Float.
Open Scope Z_scope.

Notation fexp := (FLT_exp (3 - emax - prec) prec).
Notation RN := (round radix2 fexp ZnearestE).

Definition isint (x : f64) (n : Z) : Prop := is_finite x = true /\ B2R x = IZR n.

Lemma bpow_IZR (e : Z) : 0 <= e -> bpow radix2 e = IZR (2 ^ e).
Proof. intros H. rewrite <- (IZR_Zpower radix2 e H). reflexivity. Qed.

Lemma int_format (m : Z) : Z.abs m < 2 ^ 53 -> generic_format radix2 fexp (IZR m).
Proof.
  intros H.
  replace (IZR m) with (F2R (Float radix2 m 0)) by (unfold F2R; simpl; lra).
  apply generic_format_F2R. intros Hm.
  unfold cexp, FLT_exp.
  assert (mag radix2 (F2R (Float radix2 m 0)) <= 53)%Z.
  { apply mag_le_bpow.
    - apply F2R_neq_0; exact Hm.
    - unfold F2R; simpl. rewrite Rmult_1_r. rewrite <- abs_IZR.
      change (bpow radix2 53) with (IZR (2 ^ 53)). apply IZR_lt. exact H. }
  unfold prec, emax. lia.
Qed.

Lemma lt_emax_of_le (r : R) (k : Z) : (Rabs r <= IZR k)%R -> k <= 2 ^ 60 -> (Rabs r < bpow radix2 emax)%R.
Proof.
  intros H Hk. apply Rle_lt_trans with (1 := H).
  apply Rle_lt_trans with (IZR (2 ^ 60)). apply IZR_le; exact Hk.
  change (IZR (2 ^ 60)) with (bpow radix2 60). apply bpow_lt. unfold emax; lia.
Qed.

Lemma small_lt_emax (m : Z) : Z.abs m < 2 ^ 53 -> (Rabs (IZR m) < bpow radix2 emax)%R.
Proof.
  intros H. apply lt_emax_of_le with (k := Z.abs m). rewrite <- abs_IZR; lra. lia.
Qed.

Lemma ofZ_correct (m : Z) : Z.abs m < 2 ^ 53 -> isint (ofZ m) m.
Proof.
  intros H. unfold isint, ofZ.
  pose proof (binary_normalize_correct prec emax Hprec Hpe mode_NE m 0 false) as C.
  cbv zeta in C.
  replace (F2R (Float radix2 m 0)) with (IZR m) in C by (unfold F2R; simpl; lra).
  rewrite round_generic in C; [| apply valid_rnd_round_mode | apply int_format; exact H].
  rewrite Rlt_bool_true in C by (apply small_lt_emax; exact H).
  destruct C as (C1 & C2 & _). split; assumption.
Qed.

Lemma ofZ32 (m : Z) : in_int32 m -> isint (ofZ m) m.
Proof. unfold in_int32, two31. intros H. apply ofZ_correct. lia. Qed.

Lemma fzero_int : isint fzero 0.
Proof. apply ofZ_correct. simpl. lia. Qed.
Lemma fone_int : isint fone 1.
Proof. apply ofZ_correct. simpl. lia. Qed.

Lemma fadd_int (x y : f64) (a b : Z) :
  isint x a -> isint y b -> Z.abs (a + b) < 2 ^ 53 -> isint (fadd x y) (a + b).
Proof.
  intros (Fx & Rx) (Fy & Ry) Hs.
  pose proof (Bplus_correct prec emax Hprec Hpe mode_NE x y Fx Fy) as C.
  rewrite Rx, Ry, <- plus_IZR in C.
  rewrite round_generic in C; [| apply valid_rnd_round_mode | apply int_format; exact Hs].
  rewrite Rlt_bool_true in C by (apply small_lt_emax; exact Hs).
  destruct C as (C1 & C2 & _). split; assumption.
Qed.

Lemma fsub_int (x y : f64) (a b : Z) :
  isint x a -> isint y b -> Z.abs (a - b) < 2 ^ 53 -> isint (fsub x y) (a - b).
Proof.
  intros (Fx & Rx) (Fy & Ry) Hs.
  pose proof (Bminus_correct prec emax Hprec Hpe mode_NE x y Fx Fy) as C.
  rewrite Rx, Ry, <- minus_IZR in C.
  rewrite round_generic in C; [| apply valid_rnd_round_mode | apply int_format; exact Hs].
  rewrite Rlt_bool_true in C by (apply small_lt_emax; exact Hs).
  destruct C as (C1 & C2 & _). split; assumption.
Qed.

(* ---------- comparisons ---------- *)
Lemma flt_real (x y : f64) : is_finite x = true -> is_finite y = true ->
  flt x y = Rlt_bool (B2R x) (B2R y).
Proof. intros; unfold flt; apply Bltb_correct; assumption. Qed.
Lemma fle_real (x y : f64) : is_finite x = true -> is_finite y = true ->
  fle x y = Rle_bool (B2R x) (B2R y).
Proof. intros; unfold fle; apply Bleb_correct; assumption. Qed.

Lemma flt_true (x y : f64) : is_finite x = true -> is_finite y = true ->
  flt x y = true -> (B2R x < B2R y)%R.
Proof. intros Fx Fy H. rewrite flt_real in H by assumption. revert H. case Rlt_bool_spec; [tauto|discriminate]. Qed.
Lemma flt_false (x y : f64) : is_finite x = true -> is_finite y = true ->
  flt x y = false -> (B2R y <= B2R x)%R.
Proof. intros Fx Fy H. rewrite flt_real in H by assumption. revert H. case Rlt_bool_spec; [discriminate|tauto]. Qed.
Lemma fle_true (x y : f64) : is_finite x = true -> is_finite y = true ->
  fle x y = true -> (B2R x <= B2R y)%R.
Proof. intros Fx Fy H. rewrite fle_real in H by assumption. revert H. case Rle_bool_spec; [tauto|discriminate]. Qed.
Lemma fle_intro (x y : f64) : is_finite x = true -> is_finite y = true ->
  (B2R x <= B2R y)%R -> fle x y = true.
Proof. intros Fx Fy H. rewrite fle_real by assumption. apply Rle_bool_true; exact H. Qed.

(* a true comparison against a finite value excludes NaN and the wrong infinity *)
Lemma flt_finite_l (x y : f64) : is_finite x = true -> flt x y = true -> is_finite y = true \/ y = B754_infinity false.
Proof.
  unfold flt, Bltb, SpecFloat.SFltb, SpecFloat.SFcompare.
  destruct x as [sx|sx| |sx mx ex Hx]; try discriminate;
  destruct y as [sy|[|]| |sy my ey Hy]; simpl; intros _ H; try discriminate; auto.
Qed.
Lemma fle_finite_l (x y : f64) : is_finite x = true -> fle x y = true -> is_finite y = true \/ y = B754_infinity false.
Proof.
  unfold fle, Bleb, SpecFloat.SFleb, SpecFloat.SFcompare.
  destruct x as [sx|sx| |sx mx ex Hx]; try discriminate;
  destruct y as [sy|[|]| |sy my ey Hy]; simpl; intros _ H; try discriminate; auto.
Qed.
Lemma flt_pinf (x : f64) : is_finite x = true -> flt x (B754_infinity false) = true.
Proof. destruct x as [sx|sx| |[|] mx ex Hx]; try discriminate; reflexivity. Qed.

(* ---------- ceil ---------- *)
Lemma round_FIX0 (rnd : R -> Z) (r : R) : round radix2 (FIX_exp 0) rnd r = IZR (rnd r).
Proof.
  unfold round, F2R, scaled_mantissa, cexp, FIX_exp. simpl.
  rewrite Rmult_1_r. rewrite Rmult_1_r. reflexivity.
Qed.

Lemma fceil_correct (x : f64) :
  B2R (fceil x) = IZR (Zceil (B2R x)) /\ is_finite (fceil x) = is_finite x.
Proof.
  destruct (Bnearbyint_correct prec emax _ mode_UP x) as (H1 & H2 & _).
  unfold fceil. split; [|exact H2]. rewrite H1. simpl round_mode. apply round_FIX0.
Qed.

(* ---------- int32(f) ---------- *)
Lemma toInt32_int (x : f64) (n : Z) : isint x n -> in_int32 n -> toInt32 x = n.
Proof.
  intros (Fx & Rx) Hn.
  assert (Ht : Btrunc x = n).
  { apply eq_IZR. rewrite (Btrunc_correct prec emax _ x). rewrite round_FIX0, Rx, Ztrunc_IZR. reflexivity. }
  unfold toInt32. destruct x as [sx|sx| |sx mx ex Hx]; try discriminate.
  - rewrite Ht. unfold in_int32b. unfold in_int32 in Hn.
    destruct (Z.leb_spec (- two31) n); destruct (Z.ltb_spec n two31); simpl; try reflexivity; lia.
  - rewrite Ht. unfold in_int32b. unfold in_int32 in Hn.
    destruct (Z.leb_spec (- two31) n); destruct (Z.ltb_spec n two31); simpl; try reflexivity; lia.
Qed.

Lemma toInt32_int_gen (x : f64) (n : Z) : isint x n -> toInt32 x = if in_int32b n then n else - two31.
Proof.
  intros (Fx & Rx).
  assert (Ht : Btrunc x = n).
  { apply eq_IZR. rewrite (Btrunc_correct prec emax _ x). rewrite round_FIX0, Rx, Ztrunc_IZR. reflexivity. }
  unfold toInt32. destruct x as [sx|sx| |sx mx ex Hx]; try discriminate; rewrite Ht; reflexivity.
Qed.

Lemma fle_finite_r (x y : f64) : is_finite y = true -> fle x y = true -> is_finite x = true \/ x = B754_infinity true.
Proof.
  unfold fle, Bleb, SpecFloat.SFleb, SpecFloat.SFcompare.
  destruct y as [sy|sy| |sy my ey Hy]; try discriminate;
  destruct x as [sx|[|]| |sx mx ex Hx]; simpl; intros _ H; try discriminate; auto.
Qed.

(* ---------- math.Max(x, 0) on a finite x ---------- *)
Lemma fzero_eq : fzero = B754_zero false.
Proof. reflexivity. Qed.

Lemma fmax_zero_int (x : f64) (a : Z) : isint x a -> isint (fmax x fzero) (Z.max a 0).
Proof.
  intros (Fx & Rx). rewrite fzero_eq. unfold fmax, isint.
  destruct x as [sx|sx| |sx mx ex Hx]; try discriminate.
  - simpl in Rx. assert (a = 0) by (apply eq_IZR; lra). subst a. simpl. destruct sx; simpl; split; reflexivity.
  - cbn [is_pinf is_nan is_zero orb andb].
    assert (Fz : is_finite (B754_zero false : f64) = true) by reflexivity.
    assert (Fx' : is_finite (B754_finite sx mx ex Hx : f64) = true) by reflexivity.
    unfold fgt. fold (flt (B754_zero false) (B754_finite sx mx ex Hx)).
    rewrite (flt_real _ _ Fz Fx'). rewrite Rx. change (B2R (B754_zero false)) with 0%R.
    case Rlt_bool_spec; intros H.
    + apply lt_IZR in H. rewrite Z.max_l by lia. split; assumption.
    + apply le_IZR in H. rewrite Z.max_r by lia. split; reflexivity.
Qed.

(* ---------- finite values are below 2^emax and in the format ---------- *)
Lemma finite_lt_emax (x : f64) : is_finite x = true -> (Rabs (B2R x) < bpow radix2 emax)%R.
Proof.
  intros Fx. destruct x as [sx|sx| |sx mx ex Hx]; try discriminate.
  - unfold B2R. rewrite Rabs_R0. apply bpow_gt_0.
  - apply abs_B2R_lt_emax.
Qed.

Lemma finite_format (x : f64) : generic_format radix2 fexp (B2R x).
Proof. apply generic_format_B2R. Qed.

(* ---------- n - c for a float n above a non-negative integer c ---------- *)
Lemma sub_int_format (r : R) (c : Z) :
  generic_format radix2 fexp r -> 0 <= c -> (IZR c < r)%R -> (r < IZR (2 ^ 53))%R ->
  generic_format radix2 fexp (r - IZR c).
Proof.
  intros Gr Hc Hlt Hsmall.
  destruct (FLT_format_generic radix2 (3 - emax - prec) prec r Gr) as [[m e] Hr Hm He].
  simpl in Hm, He.
  destruct (Z_lt_le_dec e 0) as [Hneg|Hpos].
  - (* the float has a fractional part: same exponent, smaller mantissa *)
    apply generic_format_FLT.
    apply FLT_spec with (f := Float radix2 (m - c * 2 ^ (- e)) e); simpl; [| |exact He].
    + rewrite Hr. unfold F2R; simpl. rewrite minus_IZR, mult_IZR.
      rewrite <- bpow_IZR by lia.
      rewrite Rmult_minus_distr_r. rewrite Rmult_assoc. rewrite <- bpow_plus.
      replace (- e + e) with 0 by lia. simpl. lra.
    + assert (Hb : (0 < bpow radix2 e)%R) by apply bpow_gt_0.
      assert (E : (r - IZR c = IZR (m - c * 2 ^ (- e)) * bpow radix2 e)%R).
      { rewrite Hr. unfold F2R; simpl. rewrite minus_IZR, mult_IZR.
        rewrite <- bpow_IZR by lia.
        rewrite Rmult_minus_distr_r. rewrite Rmult_assoc. rewrite <- bpow_plus.
        replace (- e + e) with 0 by lia. simpl. lra. }
      assert (Hpos' : 0 < m - c * 2 ^ (- e)).
      { apply lt_IZR. apply Rmult_lt_reg_r with (1 := Hb). rewrite <- E. lra. }
      assert (Hle : m - c * 2 ^ (- e) <= m).
      { assert (0 <= c * 2 ^ (- e)) by (apply Z.mul_nonneg_nonneg; [lia| apply Z.pow_nonneg; lia]). lia. }
      change (Zpower radix2 prec) with (2 ^ 53) in *. lia.
  - (* the float is an integer *)
    assert (Er : r = IZR (m * 2 ^ e)).
    { rewrite Hr. unfold F2R; simpl. rewrite mult_IZR. rewrite <- bpow_IZR by lia. reflexivity. }
    rewrite Er, <- minus_IZR. apply int_format.
    rewrite Er in Hlt, Hsmall. apply lt_IZR in Hlt. apply lt_IZR in Hsmall. lia.
Qed.

Lemma format_2_52 : generic_format radix2 fexp (IZR (2 ^ 52)).
Proof. apply int_format. simpl. lia. Qed.

Lemma fsub_above_int (x : f64) (c : Z) :
  is_finite x = true -> 0 <= c < two31 -> (IZR c < B2R x)%R ->
  let d := fsub x (ofZ c) in
  is_finite d = true /\
  ((B2R x < IZR (2 ^ 53))%R -> B2R d = (B2R x - IZR c)%R) /\
  ((IZR (2 ^ 53) <= B2R x)%R -> (IZR (2 ^ 52) <= B2R d)%R).
Proof.
  intros Fx Hc Hlt d. subst d. unfold fsub.
  assert (Ic : isint (ofZ c) c) by (apply ofZ_correct; unfold two31 in Hc; lia).
  destruct Ic as (Fc & Rc).
  pose proof (Bminus_correct prec emax Hprec Hpe mode_NE x (ofZ c) Fx Fc) as C.
  rewrite Rc in C. simpl round_mode in C.
  assert (Vr : Valid_rnd ZnearestE) by apply valid_rnd_N.
  assert (Hc0 : (0 <= IZR c)%R) by (apply IZR_le; lia).
  assert (Hlo : (0 <= RN (B2R x - IZR c))%R).
  { apply round_ge_generic; [apply FLT_exp_valid; reflexivity|exact Vr|apply generic_format_0|lra]. }
  assert (Hhi : (RN (B2R x - IZR c) <= B2R x)%R).
  { apply round_le_generic; [apply FLT_exp_valid; reflexivity|exact Vr|apply finite_format|lra]. }
  assert (Hov : (Rabs (RN (B2R x - IZR c)) < bpow radix2 emax)%R).
  { rewrite Rabs_pos_eq by exact Hlo. apply Rle_lt_trans with (1 := Hhi).
    apply Rle_lt_trans with (Rabs (B2R x)); [apply Rle_abs|apply finite_lt_emax; exact Fx]. }
  rewrite Rlt_bool_true in C by exact Hov.
  destruct C as (C1 & C2 & _).
  split; [exact C2|]. split.
  - intros Hs. rewrite C1. apply round_generic; [exact Vr|].
    apply sub_int_format; [apply finite_format|lia|exact Hlt|exact Hs].
  - intros Hb. rewrite C1.
    apply round_ge_generic; [apply FLT_exp_valid; reflexivity|exact Vr|apply format_2_52|].
    assert (IZR c <= IZR (2 ^ 52))%R by (apply IZR_le; unfold two31 in Hc; lia).
    replace (IZR (2 ^ 53)) with (IZR (2 ^ 52) + IZR (2 ^ 52))%R in Hb by (rewrite <- plus_IZR; reflexivity).
    lra.
Qed.

(* ---------- the burst formula ---------- *)
Definition burst_real (q t g : Z) : Z := Zceil (RN (RN (IZR q / IZR t) * IZR g)).

Lemma RN_valid : Valid_rnd ZnearestE. Proof. apply valid_rnd_N. Qed.
Lemma fexp_valid : Valid_exp fexp. Proof. apply FLT_exp_valid; reflexivity. Qed.

Lemma format_IZR32 (n : Z) : Z.abs n < 2 ^ 53 -> generic_format radix2 fexp (IZR n).
Proof. apply int_format. Qed.

Lemma ratio_bounds (q t : Z) : 1 <= q <= t ->
  (0 <= RN (IZR q / IZR t) <= 1)%R.
Proof.
  intros H.
  assert (Ht : (0 < IZR t)%R) by (apply IZR_lt; lia).
  assert (Hq : (0 <= IZR q)%R) by (apply IZR_le; lia).
  assert (Hqt : (IZR q <= IZR t)%R) by (apply IZR_le; lia).
  split.
  - apply round_ge_generic; [apply fexp_valid|apply RN_valid|apply generic_format_0|].
    apply Rmult_le_pos; [exact Hq|]. left. apply Rinv_0_lt_compat; exact Ht.
  - apply round_le_generic; [apply fexp_valid|apply RN_valid|apply (format_IZR32 1); simpl; lia|].
    apply Rmult_le_reg_r with (IZR t); [exact Ht|]. unfold Rdiv. rewrite Rmult_assoc, Rinv_l by lra. lra.
Qed.

Lemma scaled_bounds (q t g : Z) : 1 <= q <= t -> 0 <= g < 2 ^ 53 ->
  (0 <= RN (RN (IZR q / IZR t) * IZR g) <= IZR g)%R.
Proof.
  intros H Hg. destruct (ratio_bounds q t H) as (L & U).
  assert (G0 : (0 <= IZR g)%R) by (apply IZR_le; lia).
  split.
  - apply round_ge_generic; [apply fexp_valid|apply RN_valid|apply generic_format_0|].
    apply Rmult_le_pos; assumption.
  - apply round_le_generic; [apply fexp_valid|apply RN_valid|apply format_IZR32; lia|].
    replace (IZR g) with (1 * IZR g)%R at 2 by lra. apply Rmult_le_compat_r; assumption.
Qed.

Lemma burst_real_range (q t g : Z) : 1 <= q <= t -> 0 <= g < 2 ^ 53 -> 0 <= burst_real q t g <= g.
Proof.
  intros H Hg. destruct (scaled_bounds q t g H Hg) as (L & U). unfold burst_real. split.
  - apply le_IZR. apply Rle_trans with (1 := L). apply Zceil_ub.
  - apply Z.le_trans with (Zceil (IZR g)); [apply Zceil_le; exact U|rewrite Zceil_IZR; lia].
Qed.

Lemma burst_real_mono (q1 q2 t g : Z) : 1 <= q1 -> q1 <= q2 -> q2 <= t -> 0 <= g ->
  burst_real q1 t g <= burst_real q2 t g.
Proof.
  intros H1 H12 H2 Hg. unfold burst_real. apply Zceil_le.
  apply round_le; [apply fexp_valid|apply RN_valid|].
  apply Rmult_le_compat_r; [apply IZR_le; exact Hg|].
  apply round_le; [apply fexp_valid|apply RN_valid|].
  unfold Rdiv. apply Rmult_le_compat_r.
  - left. apply Rinv_0_lt_compat. apply IZR_lt. lia.
  - apply IZR_le; exact H12.
Qed.

Lemma burst_real_full (t g : Z) : 1 <= t -> Z.abs g < 2 ^ 53 -> burst_real t t g = g.
Proof.
  intros Ht Hg. unfold burst_real.
  replace (IZR t / IZR t)%R with 1%R by (field; apply not_0_IZR; lia).
  rewrite (round_generic radix2 fexp ZnearestE 1%R); [|first [apply RN_valid|apply (format_IZR32 1); simpl; lia] ..].
  rewrite Rmult_1_l. rewrite round_generic; [|first [apply RN_valid|apply format_IZR32; exact Hg] ..].
  apply Zceil_IZR.
Qed.

(* the float computation of the burst is [burst_real] *)
Lemma burst_float (nf tot gb : f64) (q t g : Z) :
  isint nf q -> isint tot t -> isint gb g -> 1 <= q <= t -> 0 <= g < two31 ->
  let b := fceil (fmul (fdiv nf tot) gb) in
  isint b (burst_real q t g) /\ fle b gb = true.
Proof.
  intros (Fn & Rn) (Ft & Rt) (Fg & Rg) Hq Hg b.
  assert (Hg' : 0 <= g < 2 ^ 53) by (unfold two31 in Hg; lia).
  assert (Tnz : B2R tot <> 0%R) by (rewrite Rt; apply not_0_IZR; lia).
  pose proof (Bdiv_correct prec emax Hprec Hpe mode_NE nf tot Tnz) as D.
  rewrite Rn, Rt in D. simpl round_mode in D.
  destruct (ratio_bounds q t Hq) as (L1 & U1).
  rewrite Rlt_bool_true in D
    by (apply lt_emax_of_le with (k := 1); [rewrite Rabs_pos_eq by exact L1; exact U1|lia]).
  destruct D as (D1 & D2 & _). rewrite Fn in D2.
  pose proof (Bmult_correct prec emax Hprec Hpe mode_NE (fdiv nf tot) gb) as M.
  fold (fdiv nf tot) in D1, D2. unfold fdiv in M at 1 2. fold (fdiv nf tot) in M.
  rewrite D1, Rg in M. simpl round_mode in M.
  destruct (scaled_bounds q t g Hq Hg') as (L2 & U2).
  rewrite Rlt_bool_true in M
    by (apply lt_emax_of_le with (k := g); [rewrite Rabs_pos_eq by exact L2; exact U2|lia]).
  destruct M as (M1 & M2 & _). rewrite D2, Fg in M2. simpl in M2.
  fold (fmul (fdiv nf tot) gb) in M1, M2.
  destruct (fceil_correct (fmul (fdiv nf tot) gb)) as (C1 & C2). fold b in C1, C2.
  rewrite M2 in C2. rewrite M1 in C1.
  split; [split; [exact C2|exact C1]|].
  apply fle_intro; [exact C2|exact Fg|].
  rewrite C1, Rg. apply IZR_le. apply (burst_real_range q t g Hq Hg').
Qed.
