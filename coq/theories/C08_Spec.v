(* C08 — the property as an executable checker over OBSERVATIONS only.

   Max-in-flight schema.  A history is a list of operations on one server-side object, each with
   what was observed: the answer of the call and DebugInfo() afterwards (running total [count], the
   sum [total] over the per-instance records, the limit).  The checker keeps, from the answers
   alone, the "latest accepted count" and the "last processed request id" of every instance:
     - removal (current < 0)                      : the instance is forgotten (also its request ids)
     - answer RequestIDTooOld                     : nothing changes
     - answer (_, latest = current)               : the instance now counts [current]
     - answer (false, latest <> current)          : the report was refused, the instance keeps its count
   Clauses, after every operation:
     total    : count = sum of the latest accepted counts, and DebugInfo's own total agrees
     bound    : count <= max(count before, limit)     (within the limit it stays within; above a
                lowered limit it never grows)
     decrease : a report that does not raise the instance's count and is not stale is applied
     stale    : a report with 0 < id <= last processed id of that instance is refused with
                RequestIDTooOld and changes nothing; nothing else is answered RequestIDTooOld
   All clauses are stated for histories whose limits and reported counts stay below 2^30 (no int32
   wrap-around), see [in_range].

   Token-bucket schema: answers (accept, limit) of DoAcquire for asks n at clock readings t:
     range    : 0 <= limit <= n, and limit = 0 when not accepted
     negative : n < 0 is refused (not accepted, limit 0, error)
     rate     : C06_Spec.closed_ok on the granted amounts: every window [t_i, t_j] grants at most
                burst + qps*(t_j - t_i + 1ns) *)
From KG Require Import Prelude C06_Model C06_Spec C08_Model.
Open Scope Z_scope.

Record gobs := { o_res : sres; o_count : Z; o_total : Z; o_max : Z; o_insts : list (string * Z) }.

Definition lim30 : Z := 1073741824.
Definition op_in_range (o : gop) : bool :=
  match o with
  | GSet _ _ cur => cur <? lim30
  | GResize n => (0 <=? n) && (n <? lim30)
  end.
Definition in_range (max0 : Z) (ops : list gop) : bool :=
  ((0 <=? max0) && (max0 <? lim30) && forallb op_in_range ops)%bool.

(* tracked per instance: (latest accepted count, last processed request id) *)
Definition tracked := list (string * (Z * Z)).
Fixpoint tlookup (k : string) (l : tracked) : option (Z * Z) :=
  match l with [] => None | (k', v) :: r => if String.eqb k k' then Some v else tlookup k r end.
Fixpoint tremove (k : string) (l : tracked) : tracked :=
  match l with [] => [] | (k', v) :: r => if String.eqb k k' then tremove k r else (k', v) :: tremove k r end.
Definition tsum (l : tracked) : Z := sumZ (map (fun p => fst (snd p)) l).

Record sstate := { t_insts : tracked; t_count : Z; t_max : Z }.
Definition sinit (max0 : Z) : sstate := {| t_insts := []; t_count := 0; t_max := max0 |}.

(* clause results of one step: total, bound, decrease, stale *)
Definition spec_step (s : sstate) (o : gop) (b : gobs) : sstate * (bool * bool * bool * bool) :=
  match o with
  | GResize n =>
      let s' := {| t_insts := t_insts s; t_count := o_count b; t_max := n |} in
      (s', (((o_count b =? tsum (t_insts s)) && (o_total b =? o_count b))%bool,
            o_count b <=? t_count s, true, true))
  | GSet i rid cur =>
      let r := o_res b in
      let '(known, (a, d)) := match tlookup i (t_insts s) with Some v => (true, v) | None => (false, (0, 0)) end in
      if cur <? 0 then
        let ins := tremove i (t_insts s) in
        ({| t_insts := ins; t_count := o_count b; t_max := t_max s |},
         (((o_count b =? tsum ins) && (o_total b =? o_count b))%bool,
          o_count b <=? Z.max (t_count s) (t_max s), true, negb (s_err r)))
      else
        let stale := ((rid >? 0) && (rid <=? d))%bool in
        if stale then
          ({| t_insts := t_insts s; t_count := o_count b; t_max := t_max s |},
           (((o_count b =? tsum (t_insts s)) && (o_total b =? o_count b))%bool,
            o_count b <=? Z.max (t_count s) (t_max s), true,
            (s_err r && negb (s_accept r))%bool))
        else
          let a' := if s_latest r =? cur then cur else a in
          let d' := if rid >? 0 then rid else d in
          let ins := (i, (a', d')) :: tremove i (t_insts s) in
          ({| t_insts := ins; t_count := o_count b; t_max := t_max s |},
           (((o_count b =? tsum ins) && (o_total b =? o_count b))%bool,
            o_count b <=? Z.max (t_count s) (t_max s),
            (if cur <=? a then (s_latest r =? cur) && negb (s_err r) else true)%bool,
            negb (s_err r)))
  end.

Fixpoint spec_run (s : sstate) (tr : list (gop * gobs)) : list (bool * bool * bool * bool) :=
  match tr with
  | [] => []
  | (o, b) :: r => let '(s', c) := spec_step s o b in c :: spec_run s' r
  end.

Definition mif_ok (max0 : Z) (tr : list (gop * gobs)) : list bool :=
  if in_range max0 (map fst tr) then
    let cs := spec_run (sinit max0) tr in
    [ forallb (fun c => fst (fst (fst c))) cs; forallb (fun c => snd (fst (fst c))) cs;
      forallb (fun c => snd (fst c)) cs; forallb (fun c => snd c) cs ]
  else [true; true; true; true].

(* ---- token bucket answers ---- *)
Definition range_ok (n : Z) (r : ares) : bool :=
  if n <? 0 then true
  else ((0 <=? a_limit r) && (a_limit r <=? n) && (a_accept r || (a_limit r =? 0)))%bool.
Definition negative_ok (n : Z) (r : ares) : bool :=
  if n <? 0 then (negb (a_accept r) && (a_limit r =? 0) && a_err r)%bool else true.

(* the granted amounts as C06 events: asked = the amount granted, ok = accepted *)
Definition grant_event (t : Z) (r : ares) : ev := {| etime := t; easked := a_limit r; eok := a_accept r |}.

(* overlapping TryAcquireN calls (concurrent instances): a call is known by its invocation time, its
   completion time, the amount asked and whether it was granted; whatever is granted entirely inside
   [a, b] counts against burst + qps*(b - a + 1ns) *)
Record wcev := { winv : Z; wresp : Z; wn : Z; wadm : bool }.
Definition conc_sum (a b : Z) (l : list wcev) : Z :=
  sumZ (map (fun x => if (wadm x && (a <=? winv x) && (wresp x <=? b))%bool then wn x else 0) l).
Definition conc_rate_ok (c : cfg) (l : list wcev) : bool :=
  forallb (fun x => forallb (fun y =>
     let a := winv x in let b := wresp y in
     if a <=? b then NS * conc_sum a b l <=? cap c + qps c * (b - a + 1) else true) l) l.

(* at quiescence after concurrent reports/removals/resizes *)
Definition quiescent_ok (count total : Z) (insts : list (string * Z)) : bool :=
  ((count =? total) && (total =? sumZ (map snd insts)))%bool.
