(* C04 — property theorems (statements only; proofs live in C04_Proofs.v).
   Partial proof: the URL / query / header transforms of the gateway and the percent codec are proved
   for all inputs; net/url and net/http (parsing, EscapedPath, ParseQuery/Encode, framing, header
   reading and writing) are part of the model and validated by the correspondence run only.  Method
   and body pass through the model unchanged by construction: their fidelity rests on the
   correspondence run (digest and length compared).  For connection upgrades the request the upstream receives
   is modelled (C04_upgrade_forwarded); the tunnel after the upstream's answer is not. *)
From KG Require Import Prelude C02_Model C02_Spec C02_Proofs C04_Model C04_Spec C04_Proofs.
Open Scope Z_scope.
Open Scope string_scope.
Open Scope list_scope.

(* For every request-target the Go server accepts: the path the upstream receives has the same SEGMENT
   LIST as the client's path (raw path split on literal '/', each segment percent-decoded).
   Holds for the code repaired by e0b198a + c778678. *)
Theorem C04_path_segments_preserved : forall t uri,
  rebuild_target t = Some uri ->
  segments (path_of uri) = segments (path_of t) /\ segments (path_of t) <> None.
Proof. exact path_segments_preserved. Qed.
Print Assumptions C04_path_segments_preserved.

(* ... and the query the upstream receives is the same multimap (every key: same values, same order) as
   url.ParseQuery yields for the client's query *)
Theorem C04_query_multimap_preserved : forall t uri,
  rebuild_target t = Some uri ->
  forall k, values_of k (parse_query (query_of uri)) = values_of k (parse_query (query_of t)).
Proof. exact query_multimap_preserved. Qed.
Print Assumptions C04_query_multimap_preserved.

(* For every forwarded request whose header set has canonical keys (as the Go server delivers it):
   (1) every end-to-end header of the client (not hop-by-hop, not named by Connection, not gateway-owned)
       arrives with the same values in the same order (field values as net/http writes them: trimmed);
   (2) every header that arrives is such a client header or is gateway-owned (Authorization,
       Impersonate-*, X-Forwarded-For, User-Agent, Accept-Encoding, Te, framing);
   (3) X-Forwarded-For is the client's non-hop-by-hop values joined by ", " with the client address appended. *)
Theorem C04_headers_end_to_end : forall token ip c q id authz reply up r,
  gateway token ip c q id authz reply = Relayed up r -> from_server (q_headers q) ->
  (forall k, e2e_key (q_headers q) k = true -> h_values k (p_headers up) = map trim_ows (h_values k (q_headers q))) /\
  (forall e, In e (p_headers up) ->
     (e2e_key (q_headers q) (fst e) = true /\ h_has (fst e) (q_headers q) = true) \/ gateway_owned (fst e) = true) /\
  h_values "X-Forwarded-For" (p_headers up) =
    [trim_ows (match own (q_headers q) "X-Forwarded-For" with [] => ip | p => join ", " p +++ ", " +++ ip end)].
Proof. exact headers_end_to_end. Qed.
Print Assumptions C04_headers_end_to_end.

(* the upstream's status and body are relayed unchanged (no body for HEAD/204/304), every header of the
   answer that is not hop-by-hop / named by its Connection header / framing arrives with the same values,
   and the gateway adds no header of its own (repaired by ed0d98d: no extra Cache-Control) *)
Theorem C04_response_relayed : forall token ip c q id authz reply up r,
  gateway token ip c q id authz reply = Relayed up r ->
  r_status r = r_status reply /\
  r_body r = (if no_body (q_method q) (r_status reply) then "" else r_body reply) /\
  (forall k, resp_key (read_headers (r_headers reply)) k = true ->
             h_values k (r_headers r) = h_values k (read_headers (r_headers reply))) /\
  (forall e, In e (r_headers r) ->
     In e (read_headers (r_headers reply)) /\ str_in (fst e) hop_headers = false /\
     str_in (fst e) (connection_named (read_headers (r_headers reply))) = false).
Proof. exact response_relayed. Qed.
Print Assumptions C04_response_relayed.

(* every termination class has its code, its Retry-After and a Status body, and a terminated request is
   not forwarded (the result carries no upstream request): 503 + Retry-After 60 when the cluster is not
   proxied or has no ready endpoint, 403 for a refused impersonation, 429 + Retry-After 1 (none for events)
   when flow-controlled, 502 when the upstream cannot be reached; the only termination without a Status
   body is the malformed impersonation (500, text/plain, C02) *)
Theorem C04_terminated_not_forwarded : forall token ip c q id authz reply,
  (c = CUnknown -> gateway token ip c q id authz reply = Terminated NotProxied (mkTerm 503 ["60"] true)) /\
  (c <> CUnknown -> asks (q_headers q) = true ->
   forallb authz (asked_items (q_headers q)) = false ->
   gateway token ip c q id authz reply = Terminated ImpersonationRefused (mkTerm 403 [] true)) /\
  (forall hc id1, filters_core (q_headers q) id authz = Pass hc id1 ->
     (c = CLimited -> gateway token ip c q id authz reply =
                      Terminated (RateLimited (q_events q)) (mkTerm 429 (if q_events q then [] else ["1"]) true)) /\
     (c = CNoEndpoint -> gateway token ip c q id authz reply = Terminated NoReadyEndpoint (mkTerm 503 ["60"] true)) /\
     (c = CDead -> gateway token ip c q id authz reply = Terminated UpstreamError (mkTerm 502 [] true))) /\
  (forall rs t, gateway token ip c q id authz reply = Terminated rs t ->
     forwarded (gateway token ip c q id authz reply) = false /\ t = terminate rs /\
     (t_status_body t = false -> rs = ImpersonationMalformed)).
Proof. exact terminated_not_forwarded. Qed.
Print Assumptions C04_terminated_not_forwarded.

(* a forwarded request keeps its method, body and Host, and its request-target is the rebuilt one
   (trivial in the model: these values are passed through; validated by the correspondence run) *)
Theorem C04_method_body_preserved : forall token ip c q id authz reply up r,
  gateway token ip c q id authz reply = Relayed up r ->
  p_method up = q_method q /\ p_body up = q_body q /\ p_host up = q_host q /\
  rebuild_target (q_target q) = Some (p_uri up).
Proof. exact method_body_preserved. Qed.
Print Assumptions C04_method_body_preserved.

(* a connection upgrade (exec / attach / port-forward) reaches the upstream with the same method, body, Host,
   path segment list and query multimap, and every client header that the gateway does not own (Authorization,
   Impersonate-*, X-Forwarded-For, User-Agent, framing) arrives unchanged - Connection, Upgrade and the other
   hop-by-hop headers included, which are forwarded on this path by design *)
Theorem C04_upgrade_forwarded : forall token ip c q id authz reply up,
  gateway token ip c q id authz reply = Upgraded up ->
  p_method up = q_method q /\ p_body up = q_body q /\ p_host up = q_host q /\
  segments (path_of (p_uri up)) = segments (path_of (q_target q)) /\ segments (path_of (q_target q)) <> None /\
  (forall k, values_of k (parse_query (query_of (p_uri up))) = values_of k (parse_query (query_of (q_target q)))) /\
  (from_server (q_headers q) ->
   forall k, upgrade_owned k = false -> h_values k (p_headers up) = map trim_ows (h_values k (q_headers q))).
Proof. exact upgrade_forwarded. Qed.
Print Assumptions C04_upgrade_forwarded.

(* ---- non-vacuity *)
Example C04_upgrade_nonvacuous :
  gateway "tok" "10.0.0.9" COk
    (mkReq "POST" "/api/v1/namespaces/n/pods/a%2Fb/exec?command=ls&x=%zz" "ok.test"
           [("Connection", ["Upgrade"]); ("Keep-Alive", ["5"]); ("Upgrade", ["SPDY/3.1"]); ("X-Custom", ["1"])] "" false)
    (mkId "alice" ["g1"] []) (fun _ => true) (mkResp 101 [] "x") =
  Upgraded (mkUp "POST" "/api/v1/namespaces/n/pods/a%2Fb/exec?command=ls" "ok.test"
              [("Connection", ["Upgrade"]); ("Keep-Alive", ["5"]); ("Upgrade", ["SPDY/3.1"]); ("X-Custom", ["1"]);
               ("X-Forwarded-For", ["10.0.0.9"]); ("User-Agent", ["Go-http-client/1.1"]);
               ("Impersonate-User", ["alice"]); ("Impersonate-Group", ["g1"])] "").
Proof. vm_compute. reflexivity. Qed.

Example C04_path_nonvacuous :
  rebuild_target "/apis/x/v1/things/a%2Fb/sub%41?b=2&a=1&a=%zz&c;d=1&a=0&e" =
    Some "/apis/x/v1/things/a%2Fb/sub%41?a=1&a=0&b=2&e=" /\
  rebuild_target "/apis/x/v1/things/a%2Fb/""x" = Some "/apis/x/v1/things/a%2Fb/%22x" /\
  segments "/apis/x/v1/things/a%2Fb/""x" = Some [""; "apis"; "x"; "v1"; "things"; "a/b"; """x"] /\
  values_of "a" (parse_query "b=2&a=1&a=%zz&c;d=1&a=0&e") = ["1"; "0"].
Proof. vm_compute. repeat split. Qed.

Definition ex_req : request :=
  mkReq "POST" "/api/v1/namespaces/n/pods?x=1" "ok.test"
        [("Accept", ["*/*"]); ("Authorization", ["Bearer client"]); ("Connection", ["x-foo, keep-alive"]);
         ("Impersonate-Uid", ["7"]); ("Keep-Alive", ["5"]); ("X-Custom", ["1"; "2"]); ("X-Foo", ["hop"]);
         ("X-Forwarded-For", ["1.2.3.4"])] "digest:10" false.
Definition ex_reply : response :=
  mkResp 418 [("Cache-Control", ["max-age=3"]); ("Connection", ["x-bar"]); ("X-Bar", ["hop"]); ("x-up", ["1"])] "body:3".

(* a POST with a body (in the check also sent through the chain instance with proxy tracing enabled, to a cluster
   with feature gate Tracing=true: the tracing filters are the identity on the request) *)
Example C04_gateway_nonvacuous :
  gateway "tok" "10.0.0.9" COk ex_req (mkId "alice" ["g1"] []) (fun _ => true) ex_reply =
    Relayed (mkUp "POST" "/api/v1/namespaces/n/pods?x=1" "ok.test"
               [("Accept", ["*/*"]); ("X-Custom", ["1"; "2"]); ("X-Forwarded-For", ["1.2.3.4, 10.0.0.9"]);
                ("Authorization", ["Bearer tok"]); ("Impersonate-User", ["alice"]); ("Impersonate-Group", ["g1"]);
                ("User-Agent", ["<gateway-user-agent>"]); ("Accept-Encoding", ["gzip"])] "digest:10")
            (mkResp 418 [("Cache-Control", ["max-age=3"]); ("X-Up", ["1"])] "body:3")
  /\ e2e_key (q_headers ex_req) "X-Custom" = true /\ e2e_key (q_headers ex_req) "X-Foo" = false
  /\ forallb (fun e => String.eqb (canonical_key (fst e)) (fst e)) (q_headers ex_req) = true.
Proof. vm_compute. repeat split. Qed.

Example C04_terminations_nonvacuous :
  gateway "tok" "ip" CLimited ex_req (mkId "alice" [] []) (fun _ => true) ex_reply =
    Terminated (RateLimited false) (mkTerm 429 ["1"] true) /\
  gateway "tok" "ip" CNoEndpoint ex_req (mkId "alice" [] []) (fun _ => true) ex_reply =
    Terminated NoReadyEndpoint (mkTerm 503 ["60"] true) /\
  gateway "tok" "ip" CUnknown ex_req (mkId "alice" [] []) (fun _ => true) ex_reply =
    Terminated NotProxied (mkTerm 503 ["60"] true).
Proof. vm_compute. repeat split. Qed.
