(* C04 — proofs: for all targets, header sets and upstream answers the model meets the spec. *)
From KG Require Import Prelude C02_Model C02_Spec C02_Proofs C04_Model C04_Spec.
Open Scope Z_scope.
Open Scope string_scope.
Open Scope list_scope.

(* ------------------------------------------------------------------ induction along url.unescape *)
Lemma unescape_ind (P : string -> Prop) :
  P "" ->
  (forall a b r, P r -> P (String "%" (String a (String b r)))) ->
  (forall c r, Ascii.eqb c "%" = false -> P r -> P (String c r)) ->
  P "%" -> (forall a, P (String "%" (String a ""))) ->
  forall s, P s.
Proof.
  intros H0 Hp Hl H1 H2.
  assert (forall n s, (String.length s <= n)%nat -> P s) as X.
  { induction n as [|n IH]; intros s Hs.
    - destruct s; [exact H0|simpl in Hs; lia].
    - destruct s as [|c r]; [exact H0|].
      destruct (Ascii.eqb c "%") eqn:E.
      + apply Ascii.eqb_eq in E. subst c.
        destruct r as [|a [|b r]]; [exact H1|apply H2|].
        apply Hp. apply IH. simpl in Hs. lia.
      + apply Hl; [exact E|]. apply IH. simpl in Hs. lia. }
  intros s. apply (X (String.length s)). lia.
Qed.

Lemma unescape_short1 plus : unescape plus "%" = None.
Proof. reflexivity. Qed.
Lemma unescape_short2 plus a : unescape plus (String "%" (String a "")) = None.
Proof. reflexivity. Qed.

Lemma unescape_app : forall a a' b,
  unescape false a = Some a' ->
  unescape false (a +++ b) = match unescape false b with Some t => Some (a' +++ t) | None => None end.
Proof.
  intros a. pattern a. apply unescape_ind; clear a.
  - intros a' b H. inversion H. simpl. destruct (unescape false b); reflexivity.
  - intros x y r IH a' b H. rewrite unescape_pct in H. cbn [String.append]. rewrite unescape_pct.
    destruct (dec2 x y) as [c|]; [|discriminate]. destruct (unescape false r) as [t|] eqn:E; [|discriminate].
    inversion H; subst a'. rewrite (IH t b eq_refl). destruct (unescape false b); reflexivity.
  - intros c r Hc IH a' b H. rewrite unescape_lit in H by exact Hc. cbn [String.append]. rewrite unescape_lit by exact Hc.
    destruct (unescape false r) as [t|] eqn:E; [|discriminate]. inversion H; subst a'.
    rewrite (IH t b eq_refl). destruct (unescape false b); reflexivity.
  - intros a' b H. discriminate.
  - intros x a' b H. discriminate.
Qed.

(* ------------------------------------------------------------------ split / join / cut *)
Lemma char_in_app x a b : char_in x (a +++ b) = (char_in x a || char_in x b)%bool.
Proof. induction a as [|c a IH]; [reflexivity|]. simpl. destruct (Ascii.eqb x c); [reflexivity|exact IH]. Qed.

Lemma split_no_sep c s : char_in c s = false -> split_on c s = [s].
Proof.
  induction s as [|a r IH]; [reflexivity|]. simpl. intros H.
  destruct (Ascii.eqb_spec c a) as [->|Hne]; [discriminate|].
  destruct (Ascii.eqb_spec a c) as [->|_]; [congruence|]. rewrite (IH H). reflexivity.
Qed.

Lemma split_app_sep c x y : char_in c x = false -> split_on c (x +++ String c y) = x :: split_on c y.
Proof.
  induction x as [|a r IH]; intros H.
  - simpl. rewrite Ascii.eqb_refl. reflexivity.
  - simpl in H. destruct (Ascii.eqb_spec c a) as [->|Hne]; [discriminate|].
    cbn [String.append split_on]. destruct (Ascii.eqb_spec a c) as [->|_]; [congruence|].
    rewrite (IH H). reflexivity.
Qed.

Lemma split_join c l :
  l <> [] -> (forall x, In x l -> char_in c x = false) -> split_on c (join (String c "") l) = l.
Proof.
  induction l as [|x l IH]; [congruence|]. intros _ H.
  destruct l as [|y t].
  - simpl. apply split_no_sep. apply H. left. reflexivity.
  - rewrite join_cons2. cbn [String.append]. rewrite split_app_sep by (apply H; left; reflexivity).
    f_equal. apply IH; [discriminate|]. intros z Hz. apply H. right. exact Hz.
Qed.

Lemma cut_no_sep c s : char_in c s = false -> cut c s = (s, "").
Proof.
  induction s as [|a r IH]; [reflexivity|]. simpl. intros H.
  destruct (Ascii.eqb_spec c a) as [->|Hne]; [discriminate|].
  destruct (Ascii.eqb_spec a c) as [->|_]; [congruence|]. rewrite (IH H). reflexivity.
Qed.
Lemma cut_app_sep c x y : char_in c x = false -> cut c (x +++ String c y) = (x, y).
Proof.
  induction x as [|a r IH]; intros H.
  - simpl. rewrite Ascii.eqb_refl. reflexivity.
  - simpl in H. destruct (Ascii.eqb_spec c a) as [->|Hne]; [discriminate|].
    cbn [String.append cut]. destruct (Ascii.eqb_spec a c) as [->|_]; [congruence|].
    rewrite (IH H). reflexivity.
Qed.
Lemma cut_fst_no_sep c s : char_in c (fst (cut c s)) = false.
Proof.
  induction s as [|a r IH]; [reflexivity|]. simpl.
  destruct (Ascii.eqb_spec a c) as [->|Hne]; [reflexivity|]. cbn [fst char_in].
  destruct (Ascii.eqb_spec c a) as [->|_]; [congruence|exact IH].
Qed.

Lemma char_in_join x sep l :
  char_in x sep = false -> (forall y, In y l -> char_in x y = false) -> char_in x (join sep l) = false.
Proof.
  intros Hs. induction l as [|y l IH]; intros H; [reflexivity|].
  destruct l as [|z t]; [apply H; left; reflexivity|].
  rewrite join_cons2, !char_in_app, Hs, (H y (or_introl eq_refl)). cbn [orb].
  apply IH. intros w Hw. apply H. right. exact Hw.
Qed.

Lemma map_opt_some {A B} (f : A -> option B) g l : (forall x, In x l -> f (g x) = Some x) -> map_opt f (map g l) = Some l.
Proof.
  induction l as [|x l IH]; intros H; [reflexivity|].
  cbn [map map_opt]. rewrite (H x (or_introl eq_refl)), IH; [reflexivity|]. intros y Hy. apply H. right. exact Hy.
Qed.
Lemma map_opt_length {A B} (f : A -> option B) l r : map_opt f l = Some r -> List.length r = List.length l.
Proof.
  revert r. induction l as [|x l IH]; intros r H; [inversion H; reflexivity|].
  cbn [map_opt] in H. destruct (f x); [|discriminate]. destruct (map_opt f l) eqn:E; [|discriminate].
  inversion H. simpl. rewrite (IH _ eq_refl). reflexivity.
Qed.

(* ------------------------------------------------------------------ escape tables: exhaustive byte facts *)
Lemma esc_path_pct : esc_path "%" = true. Proof. reflexivity. Qed.
Lemma esc_seg_pct : esc_seg "%" = true. Proof. reflexivity. Qed.
Lemma esc_query_pct : esc_query "%" = true. Proof. reflexivity. Qed.
Lemma esc_query_plus : esc_query "+" = true. Proof. reflexivity. Qed.

Lemma hex_hi_alnum c : is_alnum (hex_hi c) = true. Proof. all_bytes c; vm_compute; reflexivity. Qed.
Lemma hex_lo_alnum c : is_alnum (hex_lo c) = true. Proof. all_bytes c; vm_compute; reflexivity. Qed.
Lemma valid_alnum c : is_alnum c = true -> valid_enc_char c = true.
Proof. all_bytes c; vm_compute; intros H; try reflexivity; discriminate H. Qed.
Lemma valid_unescaped_seg c : esc_seg c = false -> valid_enc_char c = true.
Proof. all_bytes c; vm_compute; intros H; try reflexivity; discriminate H. Qed.
Lemma unhex_not_slash a x : unhex a = Some x -> Ascii.eqb a "/" = false.
Proof. all_bytes a; vm_compute; intros H; try reflexivity; discriminate H. Qed.

(* the output of url.escape never contains a byte that the mode escapes, other than '%' and '+' *)
Lemma escape_avoids should plus x s :
  should x = true -> is_alnum x = false -> Ascii.eqb x "%" = false -> Ascii.eqb x "+" = false ->
  char_in x (escape should plus s) = false.
Proof.
  intros Hs Ha Hp Hq. induction s as [|c r IH]; [reflexivity|].
  cbn [escape]. destruct (plus && Ascii.eqb c " ")%bool.
  - cbn [char_in]. rewrite Hq. exact IH.
  - destruct (should c) eqn:Hc.
    + cbn [char_in]. rewrite Hp.
      destruct (Ascii.eqb_spec x (hex_hi c)) as [E|_]; [rewrite E, hex_hi_alnum in Ha; discriminate|].
      destruct (Ascii.eqb_spec x (hex_lo c)) as [E|_]; [rewrite E, hex_lo_alnum in Ha; discriminate|].
      exact IH.
    + cbn [char_in]. destruct (Ascii.eqb_spec x c) as [E|_]; [rewrite E in Hs; congruence|exact IH].
Qed.

Lemma all_chars_app f a b : all_chars f (a +++ b) = (all_chars f a && all_chars f b)%bool.
Proof. induction a as [|c a IH]; [reflexivity|]. simpl. rewrite IH, Bool.andb_assoc. reflexivity. Qed.

Lemma valid_seg_escape d : valid_encoded (seg_escape d) = true.
Proof.
  unfold valid_encoded, seg_escape. induction d as [|c r IH]; [reflexivity|].
  cbn [escape andb]. destruct (esc_seg c) eqn:E; cbn [all_chars].
  - rewrite (valid_alnum _ (hex_hi_alnum c)), (valid_alnum _ (hex_lo_alnum c)), IH. reflexivity.
  - rewrite (valid_unescaped_seg c E), IH. reflexivity.
Qed.

(* ------------------------------------------------------------------ segments *)
Lemma split_hd c a r : Ascii.eqb a c = false ->
  exists w ws, split_on c r = w :: ws /\ split_on c (String a r) = String a w :: ws.
Proof.
  intros H. destruct (split_on c r) as [|w ws] eqn:E; [exfalso; exact (split_on_nonempty c r E)|].
  exists w, ws. split; [reflexivity|]. simpl. rewrite H, E. reflexivity.
Qed.

Lemma split_on_sep c r : split_on c (String c r) = "" :: split_on c r.
Proof. simpl. rewrite Ascii.eqb_refl. reflexivity. Qed.

Lemma join_cons_char sep c x l : join sep (String c x :: l) = String c (join sep (x :: l)).
Proof. destruct l; reflexivity. Qed.

Lemma dec2_some x y c : dec2 x y = Some c -> exists n m, unhex x = Some n /\ unhex y = Some m.
Proof. unfold dec2. destruct (unhex x) as [n|], (unhex y) as [m|]; try discriminate. eauto. Qed.

Lemma unescape_split : forall s t, unescape false s = Some t ->
  exists ds, map_opt (unescape false) (split_on "/" s) = Some ds /\ t = join "/" ds /\ ds <> [].
Proof.
  intros s. pattern s. apply unescape_ind; clear s.
  - intros t H. inversion H. exists [""]. repeat split. discriminate.
  - intros x y r IH t H. rewrite unescape_pct in H.
    destruct (dec2 x y) as [c|] eqn:D; [|discriminate]. destruct (unescape false r) as [t'|] eqn:E; [|discriminate].
    inversion H; subst t; clear H. destruct (IH t' eq_refl) as [ds' [Hm [Hj Hne]]].
    destruct (dec2_some _ _ _ D) as [n [m [Hx Hy]]].
    destruct (split_hd "/" y r (unhex_not_slash _ _ Hy)) as [w [ws [Hs1 Hs2]]].
    assert (Hs3 : split_on "/" (String x (String y r)) = String x (String y w) :: ws).
    { simpl. rewrite (unhex_not_slash _ _ Hx). simpl in Hs2. rewrite Hs2. reflexivity. }
    assert (Hs4 : split_on "/" (String "%" (String x (String y r))) = String "%" (String x (String y w)) :: ws).
    { change (split_on "/" (String "%" (String x (String y r)))) with
        (match split_on "/" (String x (String y r)) with z :: tl => String "%" z :: tl | [] => [String "%" ""] end).
      rewrite Hs3. reflexivity. }
    rewrite Hs4. rewrite Hs1 in Hm. cbn [map_opt] in Hm.
    destruct (unescape false w) as [dw|] eqn:Ew; [|discriminate].
    destruct (map_opt (unescape false) ws) as [dws|] eqn:Ews; [|discriminate].
    inversion Hm; subst ds'; clear Hm.
    exists (String c dw :: dws). cbn [map_opt]. rewrite unescape_pct, D, Ew, Ews.
    split; [reflexivity|]. split; [|discriminate]. rewrite join_cons_char, Hj. reflexivity.
  - intros c r Hc IH t H. rewrite unescape_lit in H by exact Hc.
    destruct (unescape false r) as [t'|] eqn:E; [|discriminate]. cbn [andb] in H.
    inversion H; subst t; clear H. destruct (IH t' eq_refl) as [ds' [Hm [Hj Hne]]].
    destruct (Ascii.eqb_spec c "/") as [->|Hsl].
    + exists ("" :: ds'). rewrite split_on_sep. cbn [map_opt]. change (unescape false "") with (Some "").
      rewrite Hm. split; [reflexivity|]. split; [|discriminate].
      destruct ds' as [|d1 dt]; [congruence|]. rewrite join_cons2, Hj. reflexivity.
    + assert (Hsl' : Ascii.eqb c "/" = false) by (apply Ascii.eqb_neq; exact Hsl).
      destruct (split_hd "/" c r Hsl') as [w [ws [Hs1 Hs2]]]. rewrite Hs2. rewrite Hs1 in Hm. cbn [map_opt] in Hm.
      destruct (unescape false w) as [dw|] eqn:Ew; [|discriminate].
      destruct (map_opt (unescape false) ws) as [dws|] eqn:Ews; [|discriminate].
      inversion Hm; subst ds'; clear Hm.
      exists (String c dw :: dws). cbn [map_opt]. rewrite unescape_lit by exact Hc. rewrite Ew, Ews. cbn [andb].
      split; [reflexivity|]. split; [|discriminate]. rewrite join_cons_char, Hj. reflexivity.
  - intros t H. discriminate.
  - intros x t H. discriminate.
Qed.

Definition reenc (ds : list string) : string := join "/" (map seg_escape ds).

Lemma unescape_seg d : unescape false (seg_escape d) = Some d.
Proof. apply unescape_escape; [reflexivity|discriminate]. Qed.

Lemma unescape_reenc ds : ds <> [] -> unescape false (reenc ds) = Some (join "/" ds).
Proof.
  unfold reenc. induction ds as [|d l IH]; [congruence|]. intros _.
  destruct l as [|d2 t]; [apply unescape_seg|].
  cbn [map]. rewrite !join_cons2. rewrite (unescape_app _ _ _ (unescape_seg d)).
  cbn [String.append]. rewrite unescape_lit by reflexivity. cbn [map] in IH. rewrite IH by discriminate. reflexivity.
Qed.

Lemma valid_reenc ds : valid_encoded (reenc ds) = true.
Proof.
  unfold reenc. induction ds as [|d l IH]; [reflexivity|].
  destruct l as [|d2 t]; [apply valid_seg_escape|].
  cbn [map]. rewrite join_cons2. pose proof (valid_seg_escape d) as Hd. unfold valid_encoded in *.
  rewrite !all_chars_app, Hd. cbn [map] in IH. rewrite IH. reflexivity.
Qed.

Lemma seg_no x d : esc_seg x = true -> is_alnum x = false -> Ascii.eqb x "%" = false -> Ascii.eqb x "+" = false ->
  char_in x (seg_escape d) = false.
Proof. intros. apply escape_avoids; assumption. Qed.

Lemma segments_reenc ds : ds <> [] -> segments (reenc ds) = Some ds.
Proof.
  intros Hne. unfold segments, reenc. rewrite split_join.
  - apply map_opt_some. intros d _. apply unescape_seg.
  - destruct ds; [congruence|discriminate].
  - intros x Hx. apply in_map_iff in Hx. destruct Hx as [d [<- _]]. apply seg_no; reflexivity.
Qed.

Lemma reenc_no_q ds : char_in "?" (reenc ds) = false.
Proof.
  unfold reenc. apply char_in_join; [reflexivity|]. intros y Hy. apply in_map_iff in Hy. destruct Hy as [d [<- _]].
  apply seg_no; reflexivity.
Qed.

Lemma reencode_spec p path :
  unescape false p = Some path ->
  exists ds, ds <> [] /\ segments p = Some ds /\ path = join "/" ds /\ reencode_segments p = reenc ds.
Proof.
  intros H. destruct (unescape_split _ _ H) as [ds [Hm [Hj Hne]]]. exists ds.
  unfold segments, reencode_segments. rewrite Hm. auto.
Qed.

Lemma rooted_inv s : has_prefix s "/" = true -> exists r, s = String "/" r.
Proof. intros H. exists (str_drop 1 s). exact (has_prefix_split "/" s H). Qed.

Lemma rooted_segments p ds : has_prefix p "/" = true -> segments p = Some ds -> exists ds', ds = "" :: ds' /\ ds' <> [].
Proof.
  intros Hroot. destruct (rooted_inv p Hroot) as [r ->]. clear Hroot.
  unfold segments. rewrite split_on_sep. cbn [map_opt]. change (unescape false "") with (Some "").
  destruct (map_opt (unescape false) (split_on "/" r)) as [l|] eqn:E; [|discriminate].
  intros H. inversion H. exists l. split; [reflexivity|]. intros ->.
  apply map_opt_length in E. destruct (split_on "/" r) eqn:S; [exact (split_on_nonempty _ _ S)|discriminate].
Qed.

Lemma rooted_join ds' sep : ds' <> [] -> join sep ("" :: ds') = sep +++ join sep ds'.
Proof. destruct ds'; [congruence|reflexivity]. Qed.

Lemma escaped_path_reenc ds : ds <> [] -> reenc ds <> "" -> escaped_path (join "/" ds) (reenc ds) = reenc ds.
Proof.
  intros Hne Hnz. unfold escaped_path. destruct (String.eqb_spec (reenc ds) "") as [E|_]; [contradiction|].
  rewrite valid_reenc, (unescape_reenc ds Hne), String.eqb_refl. reflexivity.
Qed.

(* the path string the upstream receives *)
Definition final_path (u : url) : string :=
  let v := director_path (dispatch_location u) in escaped_path (u_path v) (u_rawpath v).

Lemma rooted_not_star s : has_prefix s "/" = true -> String.eqb s "*" = false.
Proof. intros H. destruct (rooted_inv s H) as [r ->]. reflexivity. Qed.
Lemma rooted_nonempty s : has_prefix s "/" = true -> s <> "".
Proof. intros H. destruct (rooted_inv s H) as [r ->]. discriminate. Qed.

Lemma final_path_spec t u :
  parse_target t = Some u ->
  has_prefix (final_path u) "/" = true /\ char_in "?" (final_path u) = false /\
  segments (final_path u) = segments (fst (cut "?" t)) /\ segments (fst (cut "?" t)) <> None /\
  u_query u = snd (cut "?" t).
Proof.
  unfold parse_target. destruct (has_ctl t); [discriminate|].
  set (p := fst (cut "?" t)). set (q := snd (cut "?" t)).
  destruct (has_prefix p "/") eqn:Hroot; [|discriminate]. cbn [negb].
  destruct (unescape false p) as [path|] eqn:Hun; [|discriminate].
  intros H. inversion H; subst u; clear H.
  destruct (reencode_spec p path Hun) as [ds [Hne [Hseg [Hpath Hre]]]].
  destruct (rooted_segments p ds Hroot Hseg) as [ds' [Hds Hne']].
  assert (Hproot : has_prefix path "/" = true).
  { rewrite Hpath, Hds, rooted_join by exact Hne'. apply has_prefix_app. }
  assert (Hrroot : has_prefix (reenc ds) "/" = true).
  { unfold reenc. rewrite Hds. cbn [map]. change (seg_escape "") with "".
    rewrite rooted_join; [apply has_prefix_app|]. destruct ds'; [congruence|discriminate]. }
  assert (Hpq : char_in "?" p = false) by apply cut_fst_no_sep.
  assert (Hsome : segments p <> None) by (rewrite Hseg; discriminate).
  unfold final_path, dispatch_location, director_path. cbn [u_path u_rawpath u_query].
  destruct (String.eqb_spec p (path_escape path)) as [Hdef|Hraw].
  - (* default encoding: RawPath is empty *)
    cbn [negb andb]. rewrite String.eqb_refl. rewrite Hproot. cbn [u_path u_rawpath].
    unfold escaped_path. cbn [String.eqb negb andb]. unfold default_escaped. rewrite (rooted_not_star _ Hproot).
    rewrite <- Hdef. auto.
  - destruct (String.eqb_spec p "") as [E|_]; [exfalso; exact (rooted_nonempty _ Hroot E)|]. cbn [negb andb].
    destruct (String.eqb_spec (escaped_path path p) p) as [Hv|Hinv]; cbn [negb].
    + (* net/url accepts the client's encoding *)
      destruct (String.eqb_spec p "") as [E|_]; [exfalso; exact (rooted_nonempty _ Hroot E)|].
      rewrite Hv, Hroot. cbn [u_path u_rawpath]. rewrite Hv. auto.
    + (* net/url would re-encode the decoded path: the dispatcher re-encodes per segment *)
      rewrite Hre. destruct (String.eqb_spec (reenc ds) "") as [E|Hnz]; [exfalso; exact (rooted_nonempty _ Hrroot E)|].
      rewrite Hpath, (escaped_path_reenc ds Hne Hnz), Hrroot. cbn [u_path u_rawpath].
      rewrite (escaped_path_reenc ds Hne Hnz). rewrite (segments_reenc ds Hne), reenc_no_q, Hseg.
      repeat split; try assumption; discriminate.
Qed.

(* ------------------------------------------------------------------ query *)
Lemma str_leb_refl s : str_leb s s = true.
Proof. induction s as [|c s IH]; [reflexivity|]. simpl. rewrite N.ltb_irrefl. exact IH. Qed.

Lemma values_cons k p l : values_of k (p :: l) = (if String.eqb (fst p) k then [snd p] else []) ++ values_of k l.
Proof. unfold values_of. cbn [filter]. destruct (String.eqb (fst p) k); reflexivity. Qed.

Lemma values_insert k p l : values_of k (insert_pair p l) = values_of k (p :: l).
Proof.
  induction l as [|x r IH]; [reflexivity|].
  cbn [insert_pair]. destruct (str_leb (fst p) (fst x)) eqn:L; [reflexivity|].
  rewrite values_cons, IH, !values_cons.
  destruct (String.eqb_spec (fst p) k) as [Ep|_]; destruct (String.eqb_spec (fst x) k) as [Ex|_]; try reflexivity.
  rewrite Ep, Ex, str_leb_refl in L. discriminate.
Qed.

(* Values.Encode keeps, for every key, its values in insertion order *)
Lemma values_sort k l : values_of k (sort_pairs l) = values_of k l.
Proof.
  induction l as [|p l IH]; [reflexivity|].
  cbn [sort_pairs fold_right]. fold (sort_pairs l). rewrite values_insert, !values_cons, IH. reflexivity.
Qed.

Lemma qesc_no x s :
  esc_query x = true -> is_alnum x = false -> Ascii.eqb x "%" = false -> Ascii.eqb x "+" = false ->
  char_in x (query_escape s) = false.
Proof. intros. apply escape_avoids; assumption. Qed.

Lemma unescape_qesc s : unescape true (query_escape s) = Some s.
Proof. apply unescape_escape; [reflexivity|intros _; reflexivity]. Qed.

Lemma encode_pair_no x p :
  esc_query x = true -> is_alnum x = false -> Ascii.eqb x "%" = false -> Ascii.eqb x "+" = false -> Ascii.eqb x "=" = false ->
  char_in x (encode_pair p) = false.
Proof.
  intros H1 H2 H3 H4 H5. unfold encode_pair. rewrite !char_in_app, !qesc_no by assumption.
  cbn [char_in orb]. rewrite H5. reflexivity.
Qed.

Lemma parse_encode_pair p : parse_pair (encode_pair p) = [p].
Proof.
  unfold parse_pair. rewrite encode_pair_no by reflexivity.
  unfold encode_pair. cbn [String.append].
  destruct (String.eqb_spec (query_escape (fst p) +++ String "=" (query_escape (snd p))) "") as [E|_].
  - destruct (query_escape (fst p)); discriminate.
  - rewrite cut_app_sep by (apply qesc_no; reflexivity). cbn [fst snd].
    rewrite !unescape_qesc. destruct p; reflexivity.
Qed.

Lemma parse_encode l : parse_query (encode_query l) = sort_pairs l.
Proof.
  unfold parse_query, encode_query. destruct (sort_pairs l) as [|p L] eqn:E; [reflexivity|].
  rewrite split_join.
  - clear E. generalize (p :: L). intros M. induction M as [|x M IH]; [reflexivity|].
    cbn [map flat_map]. rewrite parse_encode_pair, IH. reflexivity.
  - discriminate.
  - intros x Hx. apply in_map_iff in Hx. destruct Hx as [y [<- _]]. apply encode_pair_no; reflexivity.
Qed.

(* ------------------------------------------------------------------ the rebuilt request-target *)
Lemma director_query u : u_query (director_path u) = u_query u.
Proof.
  unfold director_path. destruct (String.eqb (u_rawpath u) ""); [reflexivity|].
  destruct (has_prefix (escaped_path (u_path u) (u_rawpath u)) "/"); reflexivity.
Qed.

Lemma append_nil_r s : s +++ "" = s.
Proof. induction s as [|c s IH]; [reflexivity|]. simpl. rewrite IH. reflexivity. Qed.

Lemma rebuild_spec t uri :
  rebuild_target t = Some uri ->
  exists u, parse_target t = Some u /\ path_of uri = final_path u /\
            query_of uri = encode_query (parse_query (query_of t)).
Proof.
  unfold rebuild_target. destruct (parse_target t) as [u|] eqn:P; [|discriminate].
  intros H. inversion H; subst uri; clear H. exists u. split; [reflexivity|].
  destruct (final_path_spec t u P) as [Hroot [Hq [_ [_ Hquery]]]].
  unfold request_uri. fold (final_path u). rewrite director_query.
  unfold dispatch_location. cbn [u_query]. rewrite Hquery. fold (query_of t).
  destruct (String.eqb_spec (final_path u) "") as [E|_]; [exfalso; exact (rooted_nonempty _ Hroot E)|].
  unfold path_of, query_of.
  destruct (String.eqb_spec (encode_query (parse_query (snd (cut "?" t)))) "") as [E|_].
  - rewrite append_nil_r, (cut_no_sep _ _ Hq), E. split; reflexivity.
  - cbn [String.append]. rewrite (cut_app_sep _ _ _ Hq). split; reflexivity.
Qed.

Theorem path_segments_preserved t uri :
  rebuild_target t = Some uri ->
  segments (path_of uri) = segments (path_of t) /\ segments (path_of t) <> None.
Proof.
  intros H. destruct (rebuild_spec t uri H) as [u [P [Hp _]]].
  destruct (final_path_spec t u P) as [_ [_ [Hs [Hn _]]]]. rewrite Hp. split; assumption.
Qed.

Theorem query_multimap_preserved t uri :
  rebuild_target t = Some uri ->
  forall k, values_of k (parse_query (query_of uri)) = values_of k (parse_query (query_of t)).
Proof.
  intros H k. destruct (rebuild_spec t uri H) as [u [_ [_ Hq]]].
  rewrite Hq, parse_encode. apply values_sort.
Qed.

(* ------------------------------------------------------------------ header sets, continued *)
Lemma hv_set_other k K v h : String.eqb k K = false -> h_values k (h_set K v h) = h_values k h.
Proof. intros H. rewrite hv_set, String.eqb_sym, H. reflexivity. Qed.
Lemma hv_del_other k K h : String.eqb k K = false -> h_values k (h_del K h) = h_values k h.
Proof. intros H. rewrite hv_del, String.eqb_sym, H. reflexivity. Qed.
Lemma hv_add k K v h : h_values k (h_add K v h) = h_values k h ++ (if String.eqb K k then [v] else []).
Proof. unfold h_add. rewrite hv_app, hv_cons, hv_nil, app_nil_r. reflexivity. Qed.
Lemma hv_add_other k K v h : String.eqb k K = false -> h_values k (h_add K v h) = h_values k h.
Proof. intros H. rewrite hv_add, String.eqb_sym, H, app_nil_r. reflexivity. Qed.

Lemma hv_del_all k ks h : h_values k (del_all ks h) = if str_in k ks then [] else h_values k h.
Proof.
  unfold del_all, str_in. revert h. induction ks as [|k0 ks IH]; intros h; [reflexivity|].
  cbn [fold_left existsb]. rewrite IH, hv_del, String.eqb_sym.
  destruct (String.eqb k k0); cbn [orb]; [destruct (existsb (String.eqb k) ks); reflexivity|reflexivity].
Qed.

Lemma in_del_all' e ks h : In e (del_all ks h) -> In e h /\ str_in (fst e) ks = false.
Proof.
  unfold del_all, str_in. revert h. induction ks as [|k0 ks IH]; intros h H; [auto|].
  cbn [fold_left] in H. apply IH in H. destruct H as [H1 H2]. apply in_del in H1. destruct H1 as [H1 H3].
  split; [exact H1|]. cbn [existsb]. rewrite H3, H2. reflexivity.
Qed.

Lemma hv_filter k f h :
  (forall e, In e h -> fst e = k -> f e = true) -> h_values k (filter f h) = h_values k h.
Proof.
  induction h as [|[x vs] r IH]; intros H; [reflexivity|].
  cbn [filter]. destruct (f (x, vs)) eqn:F.
  - rewrite !hv_cons, IH; [reflexivity|]. intros e He. apply H. right. exact He.
  - rewrite hv_cons, IH by (intros e He; apply H; right; exact He).
    destruct (String.eqb_spec x k) as [E|_]; [|reflexivity].
    rewrite (H (x, vs) (or_introl eq_refl) E) in F. discriminate.
Qed.

Lemma in_has e h : In e h -> h_has (fst e) h = true.
Proof. intros H. unfold h_has. apply existsb_exists. exists e. split; [exact H|apply String.eqb_refl]. Qed.

Lemma connection_named_ext a b : h_values "Connection" a = h_values "Connection" b -> connection_named a = connection_named b.
Proof. unfold connection_named. intros ->. reflexivity. Qed.

(* header sets as the Go server delivers them: canonical keys *)
Definition from_server (h : headers) : Prop := forall e, In e h -> canonical_key (fst e) = fst e.

Lemma hv_clear k h :
  from_server h -> has_prefix k H_IMP = false -> String.eqb k H_AUTH = false ->
  h_values k (clear_imp (h_del H_AUTH h)) = h_values k h.
Proof.
  intros Hs Hk Ha. unfold clear_imp. rewrite hv_filter.
  - apply hv_del_other. exact Ha.
  - intros e He Ek. apply in_del in He. destruct He as [He _]. rewrite (Hs e He), Ek, Hk. reflexivity.
Qed.

Lemma in_clear e h : In e (clear_imp (h_del H_AUTH h)) -> In e h.
Proof. unfold clear_imp. intros H. apply filter_In in H. destruct H as [H _]. apply in_del in H. tauto. Qed.

(* ------------------------------------------------------------------ the request headers on the last hop *)
Definition ua_rp (ip : string) (hc : headers) : headers := user_agent_wrapper (reverse_proxy_headers ip hc).
Definition last_hop (token ip : string) (id : identity) (hc : headers) : headers :=
  wire (h_del H_USER (h_set H_AUTH ("Bearer " +++ token) (ua_rp ip hc)) ++ generated_headers id).

Lemma send_explicit token ip id hc h' :
  clean hc -> send token ip id hc = Forwarded h' -> h' = last_hop token ip id hc.
Proof.
  intros Hc Hs. unfold send in Hs. fold (ua_rp ip hc) in Hs.
  assert (Hc3 : clean (ua_rp ip hc)) by (apply clean_user_agent, clean_reverse_proxy; exact Hc).
  unfold bearer_wrapper, h_get in Hs. rewrite (clean_values H_AUTH _ Hc3 eq_refl) in Hs. cbn [negb String.eqb] in Hs.
  set (hb := h_set H_AUTH ("Bearer " +++ token) (ua_rp ip hc)) in *.
  assert (Hub : h_values H_USER hb = []).
  { unfold hb. rewrite hv_set. change (String.eqb H_AUTH H_USER) with false. apply (clean_values H_USER _ Hc3 eq_refl). }
  destruct (String.eqb_spec (uname id) "") as [E|Hn].
  - unfold wrap_request, h_get in Hs. rewrite Hub, E in Hs. discriminate.
  - rewrite (wrap_shape id hb Hub Hn) in Hs. destruct (all_values_valid _); [|discriminate].
    inversion Hs. reflexivity.
Qed.

Record e2e_facts (h : headers) (k : string) : Prop := mkFacts {
  f_hop : str_in k hop_headers = false;
  f_named : str_in k (connection_named h) = false;
  f_auth : String.eqb k H_AUTH = false;
  f_imp : has_prefix k H_IMP = false;
  f_xff : String.eqb k "X-Forwarded-For" = false;
  f_ua : String.eqb k "User-Agent" = false;
  f_ae : String.eqb k "Accept-Encoding" = false;
  f_te : String.eqb k "Te" = false;
}.

Lemma e2e_key_facts h k : e2e_key h k = true -> e2e_facts h k.
Proof.
  unfold e2e_key, gateway_owned. intros H. apply Bool.negb_true_iff in H.
  repeat (apply Bool.orb_false_iff in H; let H' := fresh "H" in destruct H as [H H']).
  unfold str_in, hop_headers in *. cbn [existsb] in *.
  repeat match goal with
         | X : (_ || _)%bool = false |- _ => apply Bool.orb_false_iff in X; let X' := fresh "H" in destruct X as [X X']
         end.
  constructor; unfold str_in, hop_headers; cbn [existsb]; try assumption;
    repeat match goal with X : ?a = false |- context [?a] => rewrite X end; reflexivity.
Qed.

Lemma e2e_key_of_facts h k :
  str_in k hop_headers = false -> str_in k (connection_named h) = false -> gateway_owned k = false -> e2e_key h k = true.
Proof. intros A B C. unfold e2e_key. rewrite A, B, C. reflexivity. Qed.

Lemma named_same h : from_server h ->
  connection_named (if h_has "User-Agent" (clear_imp (h_del H_AUTH h)) then clear_imp (h_del H_AUTH h)
                    else h_set "User-Agent" "" (clear_imp (h_del H_AUTH h))) = connection_named h.
Proof.
  intros Hs. apply connection_named_ext.
  destruct (h_has "User-Agent" (clear_imp (h_del H_AUTH h))).
  - apply hv_clear; [exact Hs|reflexivity|reflexivity].
  - rewrite hv_set_other by reflexivity. apply hv_clear; [exact Hs|reflexivity|reflexivity].
Qed.

Lemma rp_values ip h k :
  from_server h -> e2e_facts h k ->
  h_values k (reverse_proxy_headers ip (clear_imp (h_del H_AUTH h))) = h_values k h.
Proof.
  intros Hs F. destruct F. unfold reverse_proxy_headers. set (hc := clear_imp (h_del H_AUTH h)).
  rewrite hv_set_other by assumption.
  assert (X : h_values k (del_all hop_headers
                 (del_all (connection_named (if h_has "User-Agent" hc then hc else h_set "User-Agent" "" hc))
                          (if h_has "User-Agent" hc then hc else h_set "User-Agent" "" hc))) = h_values k h).
  { rewrite hv_del_all, f_hop0, hv_del_all. unfold hc. rewrite (named_same h Hs), f_named0.
    destruct (h_has "User-Agent" (clear_imp (h_del H_AUTH h))).
    - apply hv_clear; assumption.
    - rewrite hv_set_other by assumption. apply hv_clear; assumption. }
  destruct (values_have_token "trailers" (h_values "Te" hc)); [rewrite hv_set_other by assumption|]; exact X.
Qed.

Lemma last_hop_values token ip id h k :
  from_server h -> e2e_facts h k ->
  h_values k (last_hop token ip id (clear_imp (h_del H_AUTH h))) = map trim_ows (h_values k h).
Proof.
  intros Hs F. unfold last_hop. rewrite hv_wire, hv_app. f_equal.
  rewrite (allimp_values k _ (allimp_generated id) (f_imp _ _ F)), app_nil_r.
  assert (Hu : String.eqb k H_USER = false).
  { destruct (String.eqb_spec k H_USER) as [E|]; [|reflexivity]. pose proof (f_imp _ _ F) as X. rewrite E in X. discriminate. }
  rewrite hv_del_other by exact Hu. rewrite hv_set_other by (apply (f_auth _ _ F)).
  unfold ua_rp, user_agent_wrapper.
  destruct (negb (String.eqb (h_get "User-Agent" (reverse_proxy_headers ip (clear_imp (h_del H_AUTH h)))) ""));
    [|rewrite hv_set_other by (apply (f_ua _ _ F))]; apply rp_values; assumption.
Qed.

Lemma transport_values method h2 k :
  String.eqb k "User-Agent" = false -> String.eqb k "Accept-Encoding" = false ->
  h_values k (transport_headers method h2) = h_values k h2.
Proof.
  intros Hu Ha. unfold transport_headers.
  set (h1 := if h_has "User-Agent" h2 then h_set "User-Agent" (h_get "User-Agent" h2) h2 else h2).
  assert (X : h_values k h1 = h_values k h2).
  { unfold h1. destruct (h_has "User-Agent" h2); [apply hv_set_other; exact Hu|reflexivity]. }
  destruct (String.eqb (h_get "Accept-Encoding" h1) "" && String.eqb (h_get "Range" h1) "" && negb (String.eqb method "HEAD"))%bool;
    [rewrite hv_add_other by exact Ha|]; exact X.
Qed.

(* ------------------------------------------------------------------ the gateway *)
Lemma filters_pass_hc h id authz hc id1 : filters_core h id authz = Pass hc id1 -> hc = clear_imp (h_del H_AUTH h).
Proof.
  rewrite filters_core_spec. destruct (asks h).
  - destruct (forallb authz (asked_items h)); [|discriminate]. intros H. inversion H. reflexivity.
  - destruct (malformed h); [discriminate|]. intros H. inversion H. reflexivity.
Qed.

Lemma relayed_inv token ip c q id authz reply up r :
  gateway token ip c q id authz reply = Relayed up r ->
  exists id1 uri,
    c = COk /\ is_upgrade_request (q_headers q) = false /\
    filters_core (q_headers q) id authz = Pass (clear_imp (h_del H_AUTH (q_headers q))) id1 /\
    rebuild_target (q_target q) = Some uri /\
    up = mkUp (q_method q) uri (q_host q)
              (transport_headers (q_method q) (last_hop token ip id1 (clear_imp (h_del H_AUTH (q_headers q))))) (q_body q) /\
    r = relay_response (q_method q) reply.
Proof.
  unfold gateway, term. destruct c; try discriminate;
    destruct (filters_core (q_headers q) id authz) as [h1 id1|code|] eqn:F; try discriminate;
    try (destruct (Z.eqb code 403); discriminate).
  pose proof (filters_pass_hc _ _ _ _ _ F) as Hh. subst h1.
  destruct (is_upgrade_request (q_headers q)) eqn:U.
  { destruct (upgrade_target (q_target q)); [|discriminate].
    destruct (upgrade_send ip id1 (clear_imp (h_del H_AUTH (q_headers q)))); discriminate. }
  destruct (rebuild_target (q_target q)) as [uri|]; [|discriminate].
  destruct (send token ip id1 (clear_imp (h_del H_AUTH (q_headers q)))) as [h2|code|] eqn:S; try discriminate.
  intros H. inversion H; subst up r; clear H.
  rewrite (send_explicit _ _ _ _ _ (clean_clear (q_headers q)) S).
  exists id1, uri. repeat split; auto.
Qed.

Theorem method_body_preserved token ip c q id authz reply up r :
  gateway token ip c q id authz reply = Relayed up r ->
  p_method up = q_method q /\ p_body up = q_body q /\ p_host up = q_host q /\
  rebuild_target (q_target q) = Some (p_uri up).
Proof.
  intros H. destruct (relayed_inv _ _ _ _ _ _ _ _ _ H) as [id1 [uri [_ [_ [_ [Hu [-> _]]]]]]]. cbn. auto.
Qed.

Lemma transport_in method h2 e : In e (transport_headers method h2) -> In e h2 \/ gateway_owned (fst e) = true.
Proof.
  unfold transport_headers.
  set (h1 := if h_has "User-Agent" h2 then h_set "User-Agent" (h_get "User-Agent" h2) h2 else h2).
  assert (X : In e h1 -> In e h2 \/ gateway_owned (fst e) = true).
  { unfold h1. destruct (h_has "User-Agent" h2); [|auto]. intros H. apply in_set in H. destruct H as [->|H]; [right; reflexivity|auto]. }
  destruct (String.eqb (h_get "Accept-Encoding" h1) "" && String.eqb (h_get "Range" h1) "" && negb (String.eqb method "HEAD"))%bool; [|exact X].
  unfold h_add. intros H. apply in_app_iff in H. destruct H as [H|[<-|[]]]; [auto|right; reflexivity].
Qed.

Lemma last_hop_in token ip id h e :
  from_server h -> In e (last_hop token ip id (clear_imp (h_del H_AUTH h))) ->
  gateway_owned (fst e) = true \/
  (exists e0, In e0 h /\ fst e = fst e0 /\ str_in (fst e0) hop_headers = false /\ str_in (fst e0) (connection_named h) = false).
Proof.
  intros Hs He. unfold last_hop in He. apply in_wire in He. destruct He as [e1 [He1 ->]]. cbn [fst].
  apply in_app_iff in He1. destruct He1 as [He1|He1].
  2:{ left. unfold gateway_owned. rewrite (allimp_generated id e1 He1). rewrite Bool.orb_true_r. reflexivity. }
  apply in_del in He1. destruct He1 as [He1 _]. apply in_set in He1. destruct He1 as [->|He1]; [left; reflexivity|].
  unfold ua_rp, user_agent_wrapper in He1.
  assert (Hrp : In e1 (reverse_proxy_headers ip (clear_imp (h_del H_AUTH h))) \/ gateway_owned (fst e1) = true).
  { destruct (negb (String.eqb (h_get "User-Agent" (reverse_proxy_headers ip (clear_imp (h_del H_AUTH h)))) "")); [auto|].
    apply in_set in He1. destruct He1 as [->|He1]; [right; reflexivity|auto]. }
  destruct Hrp as [Hrp|Ho]; [|auto]. unfold reverse_proxy_headers in Hrp. set (hc := clear_imp (h_del H_AUTH h)) in *.
  apply in_set in Hrp. destruct Hrp as [->|Hrp]; [left; reflexivity|].
  assert (H3 : In e1 (del_all hop_headers
                 (del_all (connection_named (if h_has "User-Agent" hc then hc else h_set "User-Agent" "" hc))
                          (if h_has "User-Agent" hc then hc else h_set "User-Agent" "" hc))) \/ gateway_owned (fst e1) = true).
  { destruct (values_have_token "trailers" (h_values "Te" hc)); [|auto].
    apply in_set in Hrp. destruct Hrp as [->|Hrp]; [right; reflexivity|auto]. }
  destruct H3 as [H3|Ho]; [|auto].
  apply in_del_all' in H3. destruct H3 as [H3 Hhop]. apply in_del_all' in H3. destruct H3 as [H3 Hnamed].
  unfold hc in Hnamed. rewrite (named_same h Hs) in Hnamed.
  assert (H1 : In e1 hc \/ gateway_owned (fst e1) = true).
  { destruct (h_has "User-Agent" hc); [auto|]. apply in_set in H3. destruct H3 as [->|H3]; [right; reflexivity|auto]. }
  destruct H1 as [H1|Ho]; [|auto]. right. exists e1. split; [apply in_clear; exact H1|auto].
Qed.

Theorem headers_end_to_end token ip c q id authz reply up r :
  gateway token ip c q id authz reply = Relayed up r -> from_server (q_headers q) ->
  (forall k, e2e_key (q_headers q) k = true -> h_values k (p_headers up) = map trim_ows (h_values k (q_headers q))) /\
  (forall e, In e (p_headers up) ->
     (e2e_key (q_headers q) (fst e) = true /\ h_has (fst e) (q_headers q) = true) \/ gateway_owned (fst e) = true) /\
  h_values "X-Forwarded-For" (p_headers up) =
    [trim_ows (match own (q_headers q) "X-Forwarded-For" with [] => ip | p => join ", " p +++ ", " +++ ip end)].
Proof.
  intros H Hs. destruct (relayed_inv _ _ _ _ _ _ _ _ _ H) as [id1 [uri [_ [_ [_ [_ [-> _]]]]]]]. cbn [p_headers].
  set (h := q_headers q) in *. split; [|split].
  - intros k Hk. pose proof (e2e_key_facts h k Hk) as F.
    rewrite transport_values by (apply F). apply last_hop_values; assumption.
  - intros e He. apply transport_in in He. destruct He as [He|Ho]; [|auto].
    apply (last_hop_in _ _ _ h e Hs) in He. destruct He as [Ho|[e0 [Hin [Hk [Hhop Hnamed]]]]]; [auto|].
    destruct (gateway_owned (fst e)) eqn:G; [auto|]. left. rewrite Hk in *. split.
    + apply e2e_key_of_facts; assumption.
    + apply in_has. exact Hin.
  - rewrite transport_values by reflexivity. unfold last_hop. rewrite hv_wire, hv_app.
    rewrite (allimp_values "X-Forwarded-For" _ (allimp_generated id1) eq_refl), app_nil_r.
    rewrite hv_del_other, hv_set_other by reflexivity.
    unfold ua_rp, user_agent_wrapper.
    assert (X : h_values "X-Forwarded-For" (reverse_proxy_headers ip (clear_imp (h_del H_AUTH h))) =
                [match own h "X-Forwarded-For" with [] => ip | p => join ", " p +++ ", " +++ ip end]).
    { unfold reverse_proxy_headers. set (hc := clear_imp (h_del H_AUTH h)). rewrite hv_set, String.eqb_refl. f_equal.
      assert (P : h_values "X-Forwarded-For"
                    (if values_have_token "trailers" (h_values "Te" hc)
                     then h_set "Te" "trailers"
                            (del_all hop_headers (del_all (connection_named (if h_has "User-Agent" hc then hc else h_set "User-Agent" "" hc))
                                                          (if h_has "User-Agent" hc then hc else h_set "User-Agent" "" hc)))
                     else del_all hop_headers (del_all (connection_named (if h_has "User-Agent" hc then hc else h_set "User-Agent" "" hc))
                                                       (if h_has "User-Agent" hc then hc else h_set "User-Agent" "" hc)))
                  = own h "X-Forwarded-For").
      { assert (Q : h_values "X-Forwarded-For"
                      (del_all hop_headers (del_all (connection_named (if h_has "User-Agent" hc then hc else h_set "User-Agent" "" hc))
                                                    (if h_has "User-Agent" hc then hc else h_set "User-Agent" "" hc)))
                    = own h "X-Forwarded-For").
        { rewrite hv_del_all. change (str_in "X-Forwarded-For" hop_headers) with false. cbv iota.
          rewrite hv_del_all. unfold hc. rewrite (named_same h Hs). unfold own.
          destruct (str_in "X-Forwarded-For" (connection_named h)); [reflexivity|].
          destruct (h_has "User-Agent" (clear_imp (h_del H_AUTH h)));
            [|rewrite hv_set_other by reflexivity]; apply hv_clear; try assumption; reflexivity. }
        destruct (values_have_token "trailers" (h_values "Te" hc)); [rewrite hv_set_other by reflexivity|]; exact Q. }
      rewrite P. destruct (own h "X-Forwarded-For"); reflexivity. }
    destruct (negb (String.eqb (h_get "User-Agent" (reverse_proxy_headers ip (clear_imp (h_del H_AUTH h)))) ""));
      [|rewrite hv_set_other by reflexivity]; rewrite X; reflexivity.
Qed.

Theorem response_relayed token ip c q id authz reply up r :
  gateway token ip c q id authz reply = Relayed up r ->
  r_status r = r_status reply /\
  r_body r = (if no_body (q_method q) (r_status reply) then "" else r_body reply) /\
  (forall k, resp_key (read_headers (r_headers reply)) k = true ->
             h_values k (r_headers r) = h_values k (read_headers (r_headers reply))) /\
  (forall e, In e (r_headers r) ->
     In e (read_headers (r_headers reply)) /\ str_in (fst e) hop_headers = false /\
     str_in (fst e) (connection_named (read_headers (r_headers reply))) = false).
Proof.
  intros H. destruct (relayed_inv _ _ _ _ _ _ _ _ _ H) as [id1 [uri [_ [_ [_ [_ [_ ->]]]]]]].
  unfold relay_response, relay_headers. cbn [r_status r_body r_headers].
  split; [reflexivity|]. split; [reflexivity|]. split.
  - intros k Hk. rewrite !hv_del_all. unfold resp_key in Hk. apply Bool.negb_true_iff in Hk.
    apply Bool.orb_false_iff in Hk. destruct Hk as [Hk _]. apply Bool.orb_false_iff in Hk. destruct Hk as [A B].
    rewrite A, B. reflexivity.
  - intros e He. apply in_del_all' in He. destruct He as [He Hhop]. apply in_del_all' in He. destruct He as [He Hn]. auto.
Qed.

Definition forwarded (x : result) : bool := match x with Relayed _ _ | Upgraded _ => true | _ => false end.

Theorem terminated_not_forwarded token ip c q id authz reply :
  (c = CUnknown -> gateway token ip c q id authz reply = Terminated NotProxied (mkTerm 503 ["60"] true)) /\
  (c <> CUnknown -> asks (q_headers q) = true ->
   forallb authz (asked_items (q_headers q)) = false ->
   gateway token ip c q id authz reply = Terminated ImpersonationRefused (mkTerm 403 [] true)) /\
  (forall hc id1, filters_core (q_headers q) id authz = Pass hc id1 ->
     (c = CLimited -> gateway token ip c q id authz reply =
                      Terminated (RateLimited (q_events q)) (mkTerm 429 (if q_events q then [] else ["1"]) true)) /\
     (c = CNoEndpoint -> gateway token ip c q id authz reply = Terminated NoReadyEndpoint (mkTerm 503 ["60"] true)) /\
     (c = CDead -> gateway token ip c q id authz reply = Terminated UpstreamError (mkTerm 502 [] true))) /\
  (forall rs t, gateway token ip c q id authz reply = Terminated rs t ->
     forwarded (gateway token ip c q id authz reply) = false /\ t = terminate rs /\
     (t_status_body t = false -> rs = ImpersonationMalformed)).
Proof.
  split; [|split; [|split]].
  - intros ->. reflexivity.
  - intros Hc Ha Hz. unfold gateway. rewrite filters_core_spec, Ha, Hz. destruct c; [congruence|reflexivity..].
  - intros hc id1 F. unfold gateway. rewrite F. repeat split; intros ->; try reflexivity.
    destruct (q_events q); reflexivity.
  - intros rs t H. rewrite H. split; [reflexivity|].
    assert (X : forall rs', term rs' = Terminated rs t -> t = terminate rs) by (unfold term; intros ? E; inversion E; reflexivity).
    assert (T : t = terminate rs).
    { unfold gateway in H. destruct c;
        try (apply (X _ H));
        destruct (filters_core (q_headers q) id authz) as [h1 id1|code|]; try discriminate;
        try (destruct (Z.eqb code 403); apply (X _ H)); try (apply (X _ H)).
      destruct (is_upgrade_request (q_headers q)).
      - destruct (upgrade_target (q_target q)); [|discriminate].
        destruct (upgrade_send ip id1 h1); try discriminate. apply (X _ H).
      - destruct (rebuild_target (q_target q)); [|discriminate].
        destruct (send token ip id1 h1); try discriminate. apply (X _ H). }
    split; [exact T|]. subst t. destruct rs as [| |[]| | |]; cbn; intros E; try discriminate; reflexivity.
Qed.

(* ------------------------------------------------------------------ connection upgrades *)
Lemma dispatch_cases t u :
  parse_target t = Some u ->
  has_prefix (u_path (dispatch_location u)) "/" = true /\
  (u_rawpath (dispatch_location u) = "" \/
   (escaped_path (u_path (dispatch_location u)) (u_rawpath (dispatch_location u)) = u_rawpath (dispatch_location u) /\
    has_prefix (u_rawpath (dispatch_location u)) "/" = true)).
Proof.
  unfold parse_target. destruct (has_ctl t); [discriminate|].
  set (p := fst (cut "?" t)). set (q := snd (cut "?" t)).
  destruct (has_prefix p "/") eqn:Hroot; [|discriminate]. cbn [negb].
  destruct (unescape false p) as [path|] eqn:Hun; [|discriminate].
  intros H. inversion H; subst u; clear H.
  destruct (reencode_spec p path Hun) as [ds [Hne [Hseg [Hpath Hre]]]].
  destruct (rooted_segments p ds Hroot Hseg) as [ds' [Hds Hne']].
  assert (Hproot : has_prefix path "/" = true).
  { rewrite Hpath, Hds, rooted_join by exact Hne'. apply has_prefix_app. }
  assert (Hrroot : has_prefix (reenc ds) "/" = true).
  { unfold reenc. rewrite Hds. cbn [map]. change (seg_escape "") with "".
    rewrite rooted_join; [apply has_prefix_app|]. destruct ds'; [congruence|discriminate]. }
  unfold dispatch_location. cbn [u_path u_rawpath u_query]. split; [exact Hproot|].
  destruct (String.eqb_spec p (path_escape path)) as [Hdef|Hraw].
  - left. reflexivity.
  - destruct (String.eqb_spec p "") as [E|_]; [exfalso; exact (rooted_nonempty _ Hroot E)|]. cbn [negb andb].
    destruct (String.eqb_spec (escaped_path path p) p) as [Hv|Hinv]; cbn [negb]; right.
    + split; assumption.
    + rewrite Hre. split; [|exact Hrroot].
      destruct (String.eqb_spec (reenc ds) "") as [E|Hnz]; [exfalso; exact (rooted_nonempty _ Hrroot E)|].
      rewrite Hpath. apply (escaped_path_reenc ds Hne Hnz).
Qed.

(* without the Director in between, the request line is the same *)
Lemma upgrade_target_eq t : upgrade_target t = rebuild_target t.
Proof.
  unfold upgrade_target, rebuild_target. destruct (parse_target t) as [u|] eqn:P; [|reflexivity]. f_equal.
  destruct (dispatch_cases t u P) as [Hroot [Hr|[Hidem Hrr]]];
    set (v := dispatch_location u) in *; unfold request_uri, director_path.
  - rewrite Hr. cbn [String.eqb]. rewrite Hroot. cbn [u_path u_rawpath u_query]. reflexivity.
  - destruct (String.eqb_spec (u_rawpath v) "") as [E|_]; [rewrite E in Hrr; discriminate|].
    rewrite Hidem, Hrr. cbn [u_path u_rawpath u_query]. rewrite Hidem. reflexivity.
Qed.

Lemma upgraded_inv token ip c q id authz reply up :
  gateway token ip c q id authz reply = Upgraded up ->
  exists id1 uri h2,
    c = COk /\ is_upgrade_request (q_headers q) = true /\
    filters_core (q_headers q) id authz = Pass (clear_imp (h_del H_AUTH (q_headers q))) id1 /\
    rebuild_target (q_target q) = Some uri /\
    upgrade_send ip id1 (clear_imp (h_del H_AUTH (q_headers q))) = Forwarded h2 /\
    up = mkUp (q_method q) uri (q_host q) h2 (q_body q).
Proof.
  unfold gateway, term. destruct c; try discriminate;
    destruct (filters_core (q_headers q) id authz) as [h1 id1|code|] eqn:F; try discriminate;
    try (destruct (Z.eqb code 403); discriminate).
  pose proof (filters_pass_hc _ _ _ _ _ F) as Hh. subst h1.
  destruct (is_upgrade_request (q_headers q)) eqn:U.
  - rewrite upgrade_target_eq. destruct (rebuild_target (q_target q)) as [uri|]; [|discriminate].
    destruct (upgrade_send ip id1 (clear_imp (h_del H_AUTH (q_headers q)))) as [h2|code|] eqn:S; try discriminate.
    intros H. inversion H; subst up; clear H. exists id1, uri, h2. repeat split; auto.
  - destruct (rebuild_target (q_target q)); [|discriminate].
    destruct (send token ip id1 (clear_imp (h_del H_AUTH (q_headers q)))); discriminate.
Qed.

Lemma request_write_values k h :
  String.eqb k "User-Agent" = false -> h_values k (request_write_headers h) = h_values k h.
Proof.
  intros Hk. unfold request_write_headers. destruct (h_has "User-Agent" h).
  - destruct (String.eqb (h_get "User-Agent" h) ""); [apply hv_del_other|apply hv_set_other]; exact Hk.
  - apply hv_set_other. exact Hk.
Qed.

(* a connection upgrade reaches the upstream with the same method, body, Host, path segments and query
   multimap, and with every client header other than the gateway-owned ones unchanged (Connection, Upgrade and
   the other hop-by-hop headers included: they are forwarded on this path by design) *)
Theorem upgrade_forwarded token ip c q id authz reply up :
  gateway token ip c q id authz reply = Upgraded up ->
  p_method up = q_method q /\ p_body up = q_body q /\ p_host up = q_host q /\
  segments (path_of (p_uri up)) = segments (path_of (q_target q)) /\ segments (path_of (q_target q)) <> None /\
  (forall k, values_of k (parse_query (query_of (p_uri up))) = values_of k (parse_query (query_of (q_target q)))) /\
  (from_server (q_headers q) ->
   forall k, upgrade_owned k = false -> h_values k (p_headers up) = map trim_ows (h_values k (q_headers q))).
Proof.
  intros H. destruct (upgraded_inv _ _ _ _ _ _ _ _ H) as [id1 [uri [h2 [_ [_ [_ [Hu [Hs ->]]]]]]]].
  cbn [p_method p_body p_host p_uri p_headers].
  destruct (path_segments_preserved _ _ Hu) as [Hseg Hnn].
  repeat split; try assumption.
  - apply (query_multimap_preserved _ _ Hu).
  - intros Hfs k Hk. unfold upgrade_owned in Hk.
    apply Bool.orb_false_iff in Hk. destruct Hk as [Hk _].
    apply Bool.orb_false_iff in Hk. destruct Hk as [Hk Hxu].
    apply Bool.orb_false_iff in Hk. destruct Hk as [Ha Hi].
    unfold str_in in Hxu. cbn [existsb] in Hxu.
    apply Bool.orb_false_iff in Hxu. destruct Hxu as [Hx Hxu]. apply Bool.orb_false_iff in Hxu. destruct Hxu as [Hua _].
    set (hc := clear_imp (h_del H_AUTH (q_headers q))) in *.
    assert (Hc : clean hc) by apply clean_clear.
    unfold upgrade_send in Hs.
    set (hb := request_write_headers (upgrade_headers ip hc)) in *.
    assert (Hcb : clean hb).
    { apply clean_request_write. unfold upgrade_headers. apply clean_set; [reflexivity|exact Hc]. }
    assert (Hub : h_values H_USER hb = []) by (apply (clean_values H_USER hb Hcb eq_refl)).
    destruct (String.eqb_spec (uname id1) "") as [E|Hn].
    { unfold wrap_request, h_get in Hs. rewrite Hub, E in Hs. discriminate. }
    rewrite (wrap_shape id1 hb Hub Hn) in Hs. inversion Hs; subst h2; clear Hs.
    rewrite hv_wire, hv_app, (allimp_values k _ (allimp_generated id1) Hi), app_nil_r. f_equal.
    assert (Hku : String.eqb k H_USER = false).
    { destruct (String.eqb_spec k H_USER) as [E|]; [|reflexivity]. rewrite E in Hi. discriminate. }
    rewrite hv_del_other by exact Hku. unfold hb. rewrite request_write_values by exact Hua.
    unfold upgrade_headers. rewrite hv_set_other by exact Hx.
    unfold hc. apply hv_clear; assumption.
Qed.
