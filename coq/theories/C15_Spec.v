(* C15 — specification as an executable checker over observed removal scenarios.
   Inputs: the scenario (clusters with their endpoints, requests brought to a phase of their life,
   one removal, requests sent afterwards).  Observations: what the real gateway showed — per request
   the client-side outcome and the upstream-side view, per cluster / endpoint whether names still
   resolve, whether contexts are done, whether probes still arrive.  Nothing here looks at the model.

   Property text: "When a cluster is deleted, or an endpoint is removed from its server list, new
   requests stop being routed to it at once (503 for the cluster, no pick for the endpoint), requests
   already being proxied to it are cancelled promptly instead of being left hanging, and health
   probing of it stops.  Other clusters, and the other endpoints of the same cluster, are unaffected." *)
From KG Require Import Prelude.
Open Scope Z_scope.

Inductive qphase := QBefore | QConnecting | QStreaming | QPlain.
(* s_pre: the server lists synced before the requests start, one entry per sync, each giving the state of
   endpoints 0..s_neps-1 (0 = not in the list, 1 = enabled, 2 = disabled:true); after them one more sync
   lists every endpoint enabled — that is the state in which the requests run and the removal happens *)
Record scl := mkScl { s_name : Z; s_aliases : list Z; s_neps : Z; s_pre : list (list Z) }.
Record sreq := mkSreq { qcl : nat; qep : Z; qph : qphase; qvia : nat }.   (* qep = -1: catch-all policy *)
(* AGhost g: the g-th "ghost" object is deleted — an UpstreamCluster object that was never admitted because
   its name or one of its server names belongs to another cluster.  For the property it is a removal of
   nothing: every cluster must be unaffected. *)
(* [drain]: endpoints (local numbers) of the cluster concerned that are first marked disabled:true by a
   sync of their own — while requests are in flight on them — before the removal ("drain, then remove");
   a drained endpoint that is not removed stays in the server list, disabled. *)
Inductive saction := ADelete (cl : nat) (drain : list Z) | ARemove (cl : nat) (eps : list Z) (drain : list Z)
                   | ANone | AGhost (g : nat).

Inductive upend := UNone | UCtx | UComplete.
Record robs := mkRobs {
  o_reached : bool; o_code : Z; o_complete : bool; o_hang : bool;
  o_stub : Z;        (* endpoint (global number) whose answer the client got, -1 none *)
  o_upseen : bool; o_upstub : Z; o_upended : upend;
  o_endms : Z; o_upms : Z;
}.
Record eobs := mkEobs { o_inmap : bool; o_ectx : bool; o_hits : Z }.
(* o_pre: after every sync of the pre-history (and the final all-enabled one), per endpoint: is an
   EndpointInfo for it in the cluster's endpoint map, and is the context of the EndpointInfo that was
   in the map BEFORE that sync done now *)
Record clobs := mkClobs { o_resolves : list bool; o_cctx : bool; o_eps : list eobs; o_pre : list (list (bool * bool)) }.

(* "promptly": a measurement against a generous bound.  A request that is NOT cut stays open (the stub
   upstreams hold connecting requests and keep streams going until the harness lets them finish, 20 s
   after the removal at the earliest), so a hang is caught by inflight_cut; the bound only has to separate
   "cut by the cancellation" from that, on a machine that may be heavily loaded.  Typical values are a few
   ms (see the cut-latency histogram in the evidence). *)
Definition bound_ms : Z := 10000.

(* global number of endpoint e of cluster ci *)
Fixpoint offset (cls : list scl) (ci : nat) : Z :=
  match cls, ci with
  | c :: r, S k => s_neps c + offset r k
  | _, _ => 0
  end.
Definition neps_of (cls : list scl) (ci : nat) : Z := match nth_error cls ci with Some c => s_neps c | None => 0 end.
Definition zin (x : Z) (l : list Z) : bool := existsb (Z.eqb x) l.

Definition cluster_deleted (act : saction) (ci : nat) : bool :=
  match act with ADelete c _ => Nat.eqb c ci | _ => false end.
(* endpoint e (local number) of cluster ci is taken away by the action *)
Definition ep_removed (act : saction) (ci : nat) (e : Z) : bool :=
  match act with
  | ADelete c _ => Nat.eqb c ci
  | ARemove c eps _ => Nat.eqb c ci && zin e eps
  | ANone | AGhost _ => false
  end.
(* endpoint e of cluster ci was marked disabled before the removal (and, if not removed, still is) *)
Definition drained (act : saction) (ci : nat) (e : Z) : bool :=
  match act with
  | ADelete c d | ARemove c _ d => Nat.eqb c ci && zin e d
  | _ => false
  end.
Definition local_of (cls : list scl) (ci : nat) (g : Z) : Z := g - offset cls ci.
Definition in_cluster (cls : list scl) (ci : nat) (g : Z) : bool :=
  (offset cls ci <=? g) && (g <? offset cls ci + neps_of cls ci).

Fixpoint zrange (a : Z) (n : nat) : list Z := match n with O => [] | S k => a :: zrange (a + 1) k end.
Definition survivors (cls : list scl) (act : saction) (ci : nat) : list Z :=
  filter (fun e => negb (ep_removed act ci e) && negb (drained act ci e)) (zrange 0 (Z.to_nat (neps_of cls ci))).

Definition refused (o : robs) : bool := (o_code o =? 503) && negb (o_upseen o) && negb (o_complete o) && negb (o_hang o).
Definition completed_on (cls : list scl) (act : saction) (q : sreq) (o : robs) : bool :=
  o_complete o && negb (o_hang o) && in_cluster cls (qcl q) (o_stub o)
  && negb (ep_removed act (qcl q) (local_of cls (qcl q) (o_stub o)))
  && negb (drained act (qcl q) (local_of cls (qcl q) (o_stub o)))
  && (if 0 <=? qep q then o_stub o =? offset cls (qcl q) + qep q else true).

(* a request that arrives (or picks) after the removal: what the property allows *)
Definition fresh_ok (cls : list scl) (act : saction) (q : sreq) (o : robs) : bool :=
  if cluster_deleted act (qcl q) then refused o
  else if 0 <=? qep q then
         (if ep_removed act (qcl q) (qep q) || drained act (qcl q) (qep q) then refused o else completed_on cls act q o)
       else match survivors cls act (qcl q) with
            | [] => refused o
            | _ => completed_on cls act q o
            end.

(* the endpoint a forwarded request was on *)
Definition target (cls : list scl) (q : sreq) (o : robs) : Z :=
  if 0 <=? qep q then offset cls (qcl q) + qep q else o_upstub o.
Definition is_victim (cls : list scl) (act : saction) (q : sreq) (o : robs) : bool :=
  match qph q with
  | QConnecting | QStreaming => ep_removed act (qcl q) (local_of cls (qcl q) (target cls q o))
  | QBefore => cluster_deleted act (qcl q)
  | QPlain => false
  end.

(* clause 1: nothing is routed to what was removed *)
Definition not_routed_req (cls : list scl) (act : saction) (q : sreq) (o : robs) : bool :=
  match qph q with
  | QBefore => if cluster_deleted act (qcl q) then negb (o_upseen o) && negb (o_complete o)   (* not forwarded at all *)
               else if (0 <=? qep q) && ep_removed act (qcl q) (qep q) then refused o else true
  | _ => true
  end.
Definition not_routed_after (cls : list scl) (act : saction) (q : sreq) (o : robs) : bool :=
  if cluster_deleted act (qcl q) || ((0 <=? qep q) && ep_removed act (qcl q) (qep q)) then refused o
  else if o_complete o then negb (ep_removed act (qcl q) (local_of cls (qcl q) (o_stub o)))
                            && negb (drained act (qcl q) (local_of cls (qcl q) (o_stub o))) else true.
Definition names_gone (act : saction) (ci : nat) (c : clobs) : bool :=
  if cluster_deleted act ci then forallb negb (o_resolves c) else true.

(* clause 2: what was running on it is cut, not left hanging *)
Definition inflight_cut_req (cls : list scl) (act : saction) (q : sreq) (o : robs) : bool :=
  if is_victim cls act q o then
    negb (o_complete o) && negb (o_hang o)
    && match qph q with
       | QConnecting | QStreaming => match o_upended o with UCtx => true | _ => false end
       | _ => true
       end
  else true.
Definition ctx_done_cl (act : saction) (ci : nat) (c : clobs) : bool :=
  (if cluster_deleted act ci then o_cctx c else true)
  && forallb (fun p => if ep_removed act ci (fst p) then o_ectx (snd p) else true)
             (combine (zrange 0 (List.length (o_eps c))) (o_eps c)).

(* clause 3: promptly (a measurement against a generous bound) *)
Definition prompt_req (cls : list scl) (act : saction) (q : sreq) (o : robs) : bool :=
  if is_victim cls act q o then
    match qph q with
    | QConnecting | QStreaming => (o_endms o <=? bound_ms) && (o_upms o <=? bound_ms)
    | _ => true    (* a request that was not forwarded yet has nothing to be cut; when it ends depends on the harness *)
    end
  else true.

(* clause 4: probing of it stops; removed endpoints are out of the pick set *)
Definition probing_stops_cl (act : saction) (ci : nat) (c : clobs) : bool :=
  forallb (fun p => if ep_removed act ci (fst p)
                    then (o_hits (snd p) =? 0) && (if cluster_deleted act ci then true else negb (o_inmap (snd p)))
                    else true)
          (combine (zrange 0 (List.length (o_eps c))) (o_eps c)).

(* clause 5: everything else is unaffected *)
Definition unaffected_req (cls : list scl) (act : saction) (q : sreq) (o : robs) : bool :=
  if is_victim cls act q o then true else
  match qph q with
  | QConnecting | QStreaming =>
      o_complete o && negb (o_hang o) && match o_upended o with UComplete => true | _ => false end
  | QBefore => if (0 <=? qep q) && ep_removed act (qcl q) (qep q) then true else fresh_ok cls act q o
  | QPlain => true
  end.
Definition unaffected_after (cls : list scl) (act : saction) (q : sreq) (o : robs) : bool :=
  if cluster_deleted act (qcl q) || ((0 <=? qep q) && ep_removed act (qcl q) (qep q)) then true
  else fresh_ok cls act q o.
Definition unaffected_cl (act : saction) (ci : nat) (c : clobs) : bool :=
  (if cluster_deleted act ci then true else forallb (fun b => b) (o_resolves c) && negb (o_cctx c))
  && forallb (fun p => if ep_removed act ci (fst p) then true
                       else o_inmap (snd p) && negb (o_ectx (snd p))
                            && (if drained act ci (fst p) then o_hits (snd p) =? 0 else 1 <=? o_hits (snd p)))
             (combine (zrange 0 (List.length (o_eps c))) (o_eps c)).

(* the syncs before the scenario proper: after a sync whose server list lacks E — whatever E's disabled
   or health state was — E is not in the endpoint map and the context of the EndpointInfo that was
   there is done (clause 4); an endpoint that stays listed keeps its EndpointInfo and its context (clause 5) *)
Fixpoint pre_walk (gone : bool) (prev : list Z) (states : list (list Z)) (obs : list (list (bool * bool))) : bool :=
  match states, obs with
  | st :: sr, ob :: obr =>
      (fix row (p s : list Z) (o : list (bool * bool)) : bool :=
         match s, o with
         | x :: s', (inmap, prevdone) :: o' =>
             let was := match p with y :: _ => negb (y =? 0) | [] => false end in
             (if gone
              then (if x =? 0 then negb inmap && (if was then prevdone else true) else true)
              else (if x =? 0 then true else inmap && (if was then negb prevdone else true)))
             && row (match p with _ :: p' => p' | [] => [] end) s' o'
         | [], [] => true
         | _, _ => false
         end) prev st ob
      && pre_walk gone st sr obr
  | [], [] => true
  | _, _ => false
  end.
Definition pre_states (c : scl) : list (list Z) :=
  map (fun st => firstn (Z.to_nat (s_neps c)) (st ++ repeat 1 (Z.to_nat (s_neps c)))) (s_pre c)
  ++ [repeat 1 (Z.to_nat (s_neps c))].
Definition pre_ok (gone : bool) (cls : list scl) (ci : nat) (c : clobs) : bool :=
  match nth_error cls ci with
  | Some sc => pre_walk gone [] (pre_states sc) (o_pre c)
  | None => false
  end.

Fixpoint all2 {A B} (f : A -> B -> bool) (a : list A) (b : list B) : bool :=
  match a, b with
  | [], [] => true
  | x :: a', y :: b' => f x y && all2 f a' b'
  | _, _ => false
  end.
Fixpoint alli {A} (k : nat) (f : nat -> A -> bool) (l : list A) : bool :=
  match l with [] => true | x :: r => f k x && alli (S k) f r end.

Definition scen_ok (cls : list scl) (reqs : list sreq) (act : saction) (after : list sreq)
                   (ro ao : list robs) (co : list clobs) : list bool :=
  [ all2 (not_routed_req cls act) reqs ro && all2 (not_routed_after cls act) after ao && alli O (names_gone act) co;
    all2 (inflight_cut_req cls act) reqs ro && alli O (ctx_done_cl act) co;
    all2 (prompt_req cls act) reqs ro;
    alli O (probing_stops_cl act) co && alli O (pre_ok true cls) co;
    all2 (unaffected_req cls act) reqs ro && all2 (unaffected_after cls act) after ao && alli O (unaffected_cl act) co && alli O (pre_ok false cls) co ].
