(* C05 — property theorems (statements only; proofs live in C05_Proofs.v). *)
From KG Require Import Prelude Sched C05_Model C05_Spec C05_Proofs.
Open Scope Z_scope.

(* ---------------- (a) the atomic counter, every interleaving ---------------- *)

(* for EVERY number of goroutines, EVERY program of TryAcquire(+Release)/Resize calls and EVERY
   schedule: never more than M holders of a slot, provided no limit above M is ever in force
   (initial limit m0 <= M and every Resize argument <= M; with no Resize, M = m0) *)
Theorem C05_counter_inv : forall M m0 progs sched,
  0 <= m0 <= M -> Forall (Forall (cmd_ok M)) progs ->
  holders (crun (init m0 progs) sched) <= M.
Proof. exact counter_inv. Qed.
Print Assumptions C05_counter_inv.

(* at every instant: count = holders + acquirers between their Add(+1) and Add(-1);
   0 <= holders <= count <= number of goroutines (so the int64 never wraps) *)
Theorem C05_counter_shape : forall m0 progs sched,
  let st := crun (init m0 progs) sched in
  count (fst st) = sumT weight (snd st) /\
  0 <= holders st <= count (fst st) /\ count (fst st) <= Z.of_nat (List.length progs).
Proof. exact counter_shape. Qed.
Print Assumptions C05_counter_shape.

(* an admission (Add step that ends in "admitted") leaves at most m holders, m = the max this
   TryAcquire loaded; i.e. it happens only while fewer than m hold a slot — whatever Resizes run *)
Theorem C05_admit_le_read : forall m0 progs sched i t m,
  let st := crun (init m0 progs) sched in
  nth_error (snd st) i = Some t -> tpc t = PAdd m ->
  tpc (snd (step (fst st) t)) = PHold ->
  holders (crun1 st i) <= m /\ holders st < m.
Proof. exact admit_le_read. Qed.
Print Assumptions C05_admit_le_read.

(* after a completed Resize to M' (none pending, none left) max stays M' and a TryAcquire that loads
   max afterwards is admitted only while fewer than M' hold a slot *)
Theorem C05_resize : forall m0 progs sched0 M' sched i t0 t m,
  let st0 := crun (init m0 progs) sched0 in
  let st := crun st0 sched in
  max (fst st0) = M' -> Forall no_resize_left (snd st0) ->
  nth_error (snd st0) i = Some t0 -> (forall m', ~ carries t0 m') ->
  nth_error (snd st) i = Some t -> tpc t = PAdd m ->
  tpc (snd (step (fst st) t)) = PHold ->
  max (fst st) = M' /\ m = M' /\ holders st < M' /\ holders (crun1 st i) <= M'.
Proof. exact resize_bound. Qed.
Print Assumptions C05_resize.

(* Release of a holder never takes the early return, decrements exactly once, never reaches the
   "count < 0 -> Store 0" repair *)
Theorem C05_release_once : forall m0 progs sched i t,
  let st := crun (init m0 progs) sched in
  nth_error (snd st) i = Some t ->
  tpc t <> PRel2 /\
  (tpc t = PHold -> 0 < count (fst st) /\
                    fst (step (fst st) t) = fst st /\ tpc (snd (step (fst st) t)) = PRel1) /\
  (tpc t = PRel1 -> count (fst (step (fst st) t)) = count (fst st) - 1 /\
                    0 <= count (fst st) - 1 /\
                    snd (step (fst st) t) = finish t None).
Proof. exact release_once. Qed.
Print Assumptions C05_release_once.

(* once every goroutine has finished, no slot is taken *)
Theorem C05_quiescent_zero : forall m0 progs sched,
  let st := crun (init m0 progs) sched in
  Forall (fun t => tpc t = PDone) (snd st) -> count (fst st) = 0 /\ holders st = 0.
Proof. exact quiescent_zero. Qed.
Print Assumptions C05_quiescent_zero.

(* ... and then exactly M new requests are admitted and the (M+1)-th is rejected *)
Theorem C05_refill : forall (M : nat) s,
  count s = 0 -> max s = Z.of_nat M -> snd (try_n (M + 1) s) = repeat true M ++ [false].
Proof. exact refill. Qed.
Print Assumptions C05_refill.

(* the sequential TryAcquire / Release used by the wrapper layer are the solo runs of the
   interleaving model *)
Theorem C05_seq_refines_solo : forall s t,
  (tpc t = PAcq0 -> 0 <= max s ->
   let '(s', t') := steps (solo_len_try s) s t in
   s' = fst (seq_try s) /\ (if snd (seq_try s) then t' = grant t else t' = finish t (Some false))) /\
  (tpc t = PHold ->
   let '(s', t') := steps (solo_len_rel s) s t in
   s' = seq_release s /\ (0 < count s -> t' = finish t None)).
Proof. intros s t. split; [apply seq_try_refines_solo|apply seq_release_refines_solo]. Qed.
Print Assumptions C05_seq_refines_solo.

(* the model's trace passes the executable schedule spec, for all inputs *)
Theorem C05_sched_spec : forall m0 progs sched,
  0 <= m0 ->
  let o := model_sched m0 progs sched in
  sched_bound_ok m0 (o_trace o) = true /\
  sched_admit_ok m0 (o_trace o) = true /\
  refill_ok m0 (o_trace o) (o_max o) (-1) = true /\
  (first_live (snd (fst (drain (drain_fuel progs) (fst (exec (init m0 progs) sched))))) 0 = None ->
   quiescent_ok m0 (o_trace o) (o_count o) = true).
Proof. exact sched_spec. Qed.
Print Assumptions C05_sched_spec.

(* ---------------- (b) reconfiguration histories through the wrapper ---------------- *)

Theorem C05_isolation :
  (forall w c sp c' n', c' <> c ->
     caches (sync w c sp) c' n' = caches w c' n' /\ specs (sync w c sp) c' = specs w c') /\
  (forall w c n r c' n', (c, n) <> (c', n') ->
     caches (fst (acquire w c n r)) c' n' = caches w c' n') /\
  (forall w r c' n',
     (forall g, lookup_req r (reqs w) <> Some (PinObj c' n' g)) ->
     caches (release w r) c' n' = caches w c' n').
Proof. exact isolation. Qed.
Print Assumptions C05_isolation.

(* limits are per schema NAME, compared byte by byte: for ANY two different names (equal up to case or not)
   a request under one never touches the limiter of the other *)
Theorem C05_schemas_isolated_exact_names : forall w c n1 n2 r,
  n1 <> n2 -> caches (fst (acquire w c n1 r)) c n2 = caches w c n2.
Proof.
  intros w c n1 n2 r H. destruct C05_isolation as (_ & I & _). apply I. intros Q. injection Q as Q. exact (H Q).
Qed.
Print Assumptions C05_schemas_isolated_exact_names.

(* over EVERY history of resize / limit-strategy change / type change / delete / re-add / acquire / pinned
   release (a schema carries its strategy; only a TYPE change starts a new limiter and a new epoch):
   admitted only while fewer than M of the requests admitted since the schema last became
   max-in-flight are unfinished; rejected only when M of its own are (never because of another
   schema or cluster, never under exempt / no schema) *)
Theorem C05_reconfig_bound : forall ops,
  Forall wf_op ops ->
  hist_bound_ok (model_hist world0 ops) = true /\ hist_noleak_ok (model_hist world0 ops) = true.
Proof. exact hist_spec. Qed.
Print Assumptions C05_reconfig_bound.

(* ---------------- (c) exits ---------------- *)
Theorem C05_every_exit_releases : forall ok x,
  exit_ok (serve ok x) = true /\
  (admitted (serve ok x) = true -> releases (serve ok x) = 1%nat) /\
  (admitted (serve ok x) = false -> releases (serve ok x) = 0%nat).
Proof. exact every_exit_releases. Qed.
Print Assumptions C05_every_exit_releases.

(* ---------------- non-vacuity ---------------- *)

(* limit 1, two goroutines both pass the `count >= max` test: one holds, the other is a transient
   failer (count = 2 > holders = 1 = M) *)
Example C05_counter_nonvacuous :
  let st := crun (init 1 [[CAcq]; [CAcq]]) [0; 1; 0; 1; 0; 1]%nat in
  holders st = 1 /\ count (fst st) = 2 /\ map tpc (snd st) = [PHold; PUndo] /\
  Forall (Forall (cmd_ok 1)) [[CAcq]; [CAcq]].
Proof. vm_compute. repeat split; repeat constructor. Qed.

(* a Resize(1) completes while two hold under limit 2; the third goroutine then starts: hypotheses of
   C05_resize hold and it is pushed back (holders 2 >= 1) *)
Example C05_resize_nonvacuous :
  let st0 := crun (init 2 [[CAcq]; [CAcq]; [CRes 1]; [CAcq]]) [0; 0; 0; 1; 1; 1; 2; 2]%nat in
  max (fst st0) = 1 /\ Forall no_resize_left (snd st0) /\ holders st0 = 2 /\
  (exists t0, nth_error (snd st0) 3 = Some t0 /\ tpc t0 = PAcq0) /\
  map results (snd (crun st0 [3; 3]%nat)) = [[true]; [true]; []; [false]].
Proof. vm_compute. repeat split; repeat constructor; eauto. Qed.

Local Open Scope string_scope.
(* the old defect history is well-formed, and the model rejects C while B is in flight *)
Example C05_reconfig_nonvacuous :
  let ops := [WSync "A" [("x", STb 1000 1000 0)]; WAcq "A" "x" 1; WSync "A" [("x", SMif 1 1)];
              WAcq "A" "x" 2; WRel 1; WAcq "A" "x" 3; WRel 2; WAcq "A" "x" 4;
              (* strategy-only change with request 4 in flight: still the same limiter, 5 is rejected *)
              WSync "A" [("x", SMif 1 3)]; WAcq "A" "x" 5; WRel 4; WAcq "A" "x" 6] in
  Forall wf_op ops /\ map snd (model_hist world0 ops) = [0; 2; 0; 2; 0; 1; 0; 2; 0; 1; 0; 2].
Proof.
  split; [|vm_compute; reflexivity].
  repeat constructor; simpl; try tauto; unfold two32; try lia.
Qed.

(* "Batch" (max 1) and "batch" (max 3) are two schemas: exhausting the first rejects only its own requests, the
   second still admits three; deleting "Batch" leaves "batch" limited *)
Example C05_exact_names_nonvacuous :
  let ops := [WSync "A" [("Batch", SMif 1 0); ("batch", SMif 3 0)]; WAcq "A" "Batch" 1; WAcq "A" "Batch" 2;
              WAcq "A" "batch" 3; WAcq "A" "batch" 4; WAcq "A" "batch" 5; WAcq "A" "batch" 6;
              WSync "A" [("batch", SMif 3 0)]; WAcq "A" "batch" 7; WAcq "A" "Batch" 8] in
  Forall wf_op ops /\ "Batch" <> "batch" /\
  map snd (model_hist world0 ops) = [0; 2; 1; 2; 2; 2; 1; 0; 1; 2].
Proof.
  split; [|split; [discriminate|vm_compute; reflexivity]].
  repeat constructor; simpl; try tauto; unfold two32; try lia; intros [H|[]]; discriminate.
Qed.

Local Close Scope string_scope.
Example C05_sched_spec_nonvacuous :
  first_live (snd (fst (drain (drain_fuel [[CAcq; CAcq]; [CAcq]; [CRes 2]])
                    (fst (exec (init 1 [[CAcq; CAcq]; [CAcq]; [CRes 2]]) [0; 1; 0; 1; 2; 0]%nat))))) 0 = None.
Proof. vm_compute. reflexivity. Qed.
