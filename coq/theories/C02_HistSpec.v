(* C02 — histories: specification as an executable checker over observations only (the ops of the
   history with their scripted policies, and what was observed: status, which incarnation's upstream
   received the request with which Impersonate-User, which incarnation answered which
   SubjectAccessReview how).

   Reading of "only when the TARGET CLUSTER's authorizer allowed every requested impersonation":
   the target is the incarnation that owns the request's host NOW.  A forwarded impersonation must be
   permitted by that incarnation: its policy allows it now, or it answered "allow" to the same question
   within the allow-TTL (a cached decision of THIS incarnation).  Otherwise the request is answered 403 by
   the gateway and nothing is forwarded.  An answer of another incarnation - a deleted cluster of the
   same name, or the previous owner of a server name that moved to another live cluster - never permits anything. *)
From KG Require Import Prelude C02_Model C02_HistModel.
Open Scope Z_scope.
Open Scope string_scope.
Open Scope list_scope.

Definition grant := (Z * question * Z)%type.          (* incarnation, question, time of an observed "allow" answer *)

Definition justified (attl : Z) (gs : list grant) (id : Z) (q : question) (now : Z) : bool :=
  existsb (fun g => (Z.eqb (fst (fst g)) id && q_eqb (snd (fst g)) q && Z.leb now (snd g + attl))%bool) gs.

Definition permitted (attl : Z) (gs : list grant) (id : Z) (p : policy) (q : question) (now : Z) : bool :=
  (answer_eqb (answer_of p q) AAllow || justified attl gs id q now)%bool.

Definition fwd_is (o : hobs) (id : Z) (u : string) : bool :=
  match h_fwd o with
  | [(i, [v])] => (Z.eqb i id && String.eqb v u)%bool
  | _ => false
  end.
Definition fwd_none (o : hobs) : bool := match h_fwd o with [] => true | _ => false end.

(* the two clauses for one request: (forward_justified, denied_not_forwarded) *)
Definition req_ok (attl : Z) (w : world) (gs : list grant) (host requestor imp : string) (o : hobs) : bool * bool :=
  match owner w host with
  | None => (fwd_none o, true)
  | Some (id, p) =>
      if String.eqb imp EmptyString then ((fwd_none o || fwd_is o id requestor)%bool, true)
      else
        let ok := permitted attl gs id p (requestor, imp) (w_now w) in
        ((fwd_none o || (fwd_is o id imp && ok))%bool,
         if ok then true else (fwd_none o && Z.eqb (h_status o) 403)%bool)
  end.

Definition new_grants (now : Z) (o : hobs) : list grant :=
  flat_map (fun s => match snd s with AAllow => [(fst s, now)] | _ => [] end) (h_sar o).

Fixpoint hcheck (attl : Z) (w : world) (gs : list grant) (tr : list (hop * hobs)) : bool * bool :=
  match tr with
  | [] => (true, true)
  | (o, b) :: r =>
      let here := match o with
                  | HReq host requestor imp => req_ok attl w gs host requestor imp b
                  | _ => (true, true)
                  end in
      let rest := hcheck attl (fst (wstep w o)) (new_grants (w_now w) b ++ gs) r in
      ((fst here && fst rest)%bool, (snd here && snd rest)%bool)
  end.
