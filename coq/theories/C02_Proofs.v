(* C02 — proofs: for all header sets, identities and authorizers the model meets the spec. *)
From KG Require Import Prelude C02_Model C02_Spec.
From Coq Require Import Permutation.
Open Scope Z_scope.
Open Scope string_scope.
Open Scope list_scope.

(* ------------------------------------------------------------------ bytes: exhaustive case analysis *)
Ltac all_bytes c :=
  destruct c as [b0 b1 b2 b3 b4 b5 b6 b7];
  destruct b0, b1, b2, b3, b4, b5, b6, b7.

Definition dec2 (a b : ascii) : option ascii :=
  match unhex a, unhex b with
  | Some x, Some y => Some (ascii_of_N (16 * x + y)%N)
  | _, _ => None
  end.

Lemma dec2_hex c : dec2 (hex_hi c) (hex_lo c) = Some c.
Proof. all_bytes c; vm_compute; reflexivity. Qed.
Lemma dec2_hex_lower c : dec2 (lower_ascii (hex_hi c)) (lower_ascii (hex_lo c)) = Some c.
Proof. all_bytes c; vm_compute; reflexivity. Qed.
Lemma lower_lower c : lower_ascii (lower_ascii c) = lower_ascii c.
Proof. all_bytes c; vm_compute; reflexivity. Qed.
Lemma lower_upper c : lower_ascii (upper_ascii c) = lower_ascii c.
Proof. all_bytes c; vm_compute; reflexivity. Qed.
(* escaped bytes are never ASCII letters: case folding does not touch them *)
Lemma escaped_not_folded c : hk_should_escape c = true -> lower_ascii c = c.
Proof. all_bytes c; vm_compute; intros H; try reflexivity; discriminate H. Qed.
Lemma unescaped_lower_not_percent c : hk_should_escape c = false -> Ascii.eqb (lower_ascii c) "%" = false.
Proof. all_bytes c; vm_compute; intros H; try reflexivity; discriminate H. Qed.
Lemma hex_hi_token c : is_token_byte (hex_hi c) = true.
Proof. all_bytes c; vm_compute; reflexivity. Qed.
Lemma hex_lo_token c : is_token_byte (hex_lo c) = true.
Proof. all_bytes c; vm_compute; reflexivity. Qed.
Lemma unescaped_token c : hk_should_escape c = false -> is_token_byte c = true.
Proof. all_bytes c; vm_compute; intros H; try reflexivity; discriminate H. Qed.

Lemma unescape_pct plus a b r :
  unescape plus (String "%" (String a (String b r))) =
  match dec2 a b, unescape plus r with
  | Some c, Some t => Some (String c t)
  | _, _ => None
  end.
Proof.
  simpl. unfold dec2. destruct (unhex a), (unhex b); reflexivity.
Qed.

Lemma unescape_lit plus c r :
  Ascii.eqb c "%" = false ->
  unescape plus (String c r) =
  match unescape plus r with
  | Some t => Some (String (if (plus && Ascii.eqb c "+")%bool then " "%char else c) t)
  | None => None
  end.
Proof. intros H. simpl. rewrite H. reflexivity. Qed.

(* ------------------------------------------------------------------ url.escape / url.unescape round trip *)
Lemma unescape_escape should plus s :
  should "%"%char = true -> (plus = true -> should "+"%char = true) ->
  unescape plus (escape should plus s) = Some s.
Proof.
  intros Hpct Hplus. induction s as [|c r IH]; [reflexivity|].
  cbn [escape].
  destruct (plus && Ascii.eqb c " ")%bool eqn:Hsp.
  - apply Bool.andb_true_iff in Hsp. destruct Hsp as [Hp Hc].
    apply Ascii.eqb_eq in Hc. subst c plus.
    rewrite unescape_lit by reflexivity. rewrite IH. reflexivity.
  - destruct (should c) eqn:Hs.
    + rewrite unescape_pct, dec2_hex, IH. reflexivity.
    + assert (Hne : Ascii.eqb c "%" = false).
      { destruct (Ascii.eqb c "%") eqn:E; [|reflexivity]. apply Ascii.eqb_eq in E. subst c. congruence. }
      rewrite unescape_lit by exact Hne. rewrite IH.
      destruct plus; [|reflexivity].
      destruct (Ascii.eqb c "+") eqn:E; [|reflexivity].
      apply Ascii.eqb_eq in E. subst c. rewrite (Hplus eq_refl) in Hs. discriminate.
Qed.

(* ------------------------------------------------------------------ header-key codec (C02_escape_roundtrip) *)
Lemma to_lower_app a b : to_lower (a +++ b) = to_lower a +++ to_lower b.
Proof. induction a as [|c a IH]; simpl; [reflexivity|]. rewrite IH. reflexivity. Qed.
Lemma to_lower_idem s : to_lower (to_lower s) = to_lower s.
Proof. induction s as [|c s IH]; simpl; [reflexivity|]. rewrite lower_lower, IH. reflexivity. Qed.

Lemma to_lower_canon_loop u s : to_lower (canon_loop u s) = to_lower s.
Proof.
  revert u. induction s as [|c s IH]; intros u; [reflexivity|].
  cbn [canon_loop to_lower]. rewrite IH. f_equal.
  destruct (u && is_lower c)%bool; [apply lower_upper|].
  destruct (negb u && is_upper c)%bool; [apply lower_lower|reflexivity].
Qed.
(* canonicalisation only changes the case of ASCII letters *)
Lemma to_lower_canonical_key s : to_lower (canonical_key s) = to_lower s.
Proof. unfold canonical_key. destruct (all_token s); [apply to_lower_canon_loop|reflexivity]. Qed.

Lemma unescape_lower_escape k :
  unescape false (to_lower (header_key_escape k)) = Some (to_lower k).
Proof.
  unfold header_key_escape. induction k as [|c r IH]; [reflexivity|].
  cbn [escape andb]. destruct (hk_should_escape c) eqn:Hs.
  - cbn [to_lower]. change (lower_ascii "%") with "%"%char.
    rewrite unescape_pct, dec2_hex_lower, IH, (escaped_not_folded c Hs). reflexivity.
  - cbn [to_lower]. rewrite unescape_lit by (apply unescaped_lower_not_percent; exact Hs).
    rewrite IH. reflexivity.
Qed.

Lemma all_token_escape k : all_token (header_key_escape k) = true.
Proof.
  unfold header_key_escape. induction k as [|c r IH]; [reflexivity|].
  cbn [escape andb]. destruct (hk_should_escape c) eqn:Hs; cbn [all_token].
  - rewrite hex_hi_token, hex_lo_token, IH. reflexivity.
  - rewrite (unescaped_token c Hs), IH. reflexivity.
Qed.

Lemma all_token_app a b : all_token (a +++ b) = (all_token a && all_token b)%bool.
Proof. induction a as [|c a IH]; simpl; [reflexivity|]. rewrite IH, Bool.andb_assoc. reflexivity. Qed.

Lemma canon_extra_prefix e : canon_loop true (H_EXTRA +++ e) = H_EXTRA +++ canon_loop true e.
Proof. reflexivity. Qed.

Lemma extra_header_shape k : extra_header k = H_EXTRA +++ canon_loop true (header_key_escape k).
Proof.
  unfold extra_header, canonical_key. rewrite all_token_app, all_token_escape.
  change (all_token H_EXTRA) with true. cbn [andb]. apply canon_extra_prefix.
Qed.

Lemma has_prefix_app p s : has_prefix (p +++ s) p = true.
Proof. induction p as [|c p IH]; simpl; [destruct s; reflexivity|]. rewrite Ascii.eqb_refl. exact IH. Qed.
Lemma str_drop_app p s : str_drop (String.length p) (p +++ s) = s.
Proof. induction p as [|c p IH]; simpl; [reflexivity|exact IH]. Qed.

(* what the receiving apiserver makes of the header name the gateway emits for extra key k *)
Lemma extra_key_roundtrip k :
  has_prefix (extra_header k) H_EXTRA = true /\
  unescape_extra_key (to_lower (str_drop (String.length H_EXTRA) (extra_header k))) = to_lower k.
Proof.
  rewrite extra_header_shape. split; [apply has_prefix_app|].
  rewrite str_drop_app, to_lower_canon_loop. unfold unescape_extra_key.
  rewrite unescape_lower_escape. reflexivity.
Qed.

(* ------------------------------------------------------------------ header-set algebra *)
Lemma hv_nil k : h_values k [] = [].
Proof. reflexivity. Qed.
Lemma hv_cons k x vs r : h_values k ((x, vs) :: r) = (if String.eqb x k then vs else []) ++ h_values k r.
Proof. reflexivity. Qed.
Lemma hv_app k a b : h_values k (a ++ b) = h_values k a ++ h_values k b.
Proof. unfold h_values. apply flat_map_app. Qed.

Lemma hv_del k k' h : h_values k (h_del k' h) = if String.eqb k' k then [] else h_values k h.
Proof.
  induction h as [|[x vs] r IH].
  - simpl. destruct (String.eqb k' k); reflexivity.
  - unfold h_del in *. cbn [filter fst]. destruct (String.eqb_spec x k') as [->|Hx]; cbn [negb].
    + rewrite IH, hv_cons. destruct (String.eqb k' k); reflexivity.
    + rewrite !hv_cons, IH. destruct (String.eqb_spec k' k) as [->|Hk].
      * destruct (String.eqb_spec x k); [congruence|reflexivity].
      * reflexivity.
Qed.

Lemma hv_set k k' v h : h_values k (h_set k' v h) = if String.eqb k' k then [v] else h_values k h.
Proof.
  unfold h_set. rewrite hv_app, hv_del, hv_cons, hv_nil.
  destruct (String.eqb k' k); [reflexivity|]. rewrite !app_nil_r. reflexivity.
Qed.

Lemma in_del e k h : In e (h_del k h) <-> In e h /\ String.eqb (fst e) k = false.
Proof. unfold h_del. rewrite filter_In, Bool.negb_true_iff. tauto. Qed.
Lemma in_set e k v h : In e (h_set k v h) -> e = (k, [v]) \/ In e h.
Proof.
  unfold h_set. rewrite in_app_iff. intros [H|[H|[]]]; [right; apply in_del in H; tauto|left; auto].
Qed.
Lemma in_del_all e ks h : In e (del_all ks h) -> In e h.
Proof.
  unfold del_all. revert h. induction ks as [|k ks IH]; intros h; simpl; [auto|].
  intros H. apply IH in H. apply in_del in H. tauto.
Qed.

Lemma fold_add K gs h : fold_left (fun acc g => h_add K g acc) gs h = h ++ map (fun g => (K, [g])) gs.
Proof.
  revert h. induction gs as [|g gs IH]; intros h; simpl; [rewrite app_nil_r; reflexivity|].
  rewrite IH. unfold h_add. rewrite <- app_assoc. reflexivity.
Qed.
Lemma add_extra_shape h e : add_extra h e = h ++ map (fun v => (extra_header (fst e), [v])) (snd e).
Proof. unfold add_extra. apply fold_add. Qed.
Lemma fold_add_extra ex h :
  fold_left add_extra ex h = h ++ flat_map (fun kv => map (fun v => (extra_header (fst kv), [v])) (snd kv)) ex.
Proof.
  revert h. induction ex as [|e ex IH]; intros h; simpl; [rewrite app_nil_r; reflexivity|].
  rewrite IH, add_extra_shape, <- app_assoc. reflexivity.
Qed.

(* ------------------------------------------------------------------ identity-bearing keys *)
Definition idkey (k : string) : bool := (String.eqb k H_AUTH || has_prefix k H_IMP)%bool.
Definition clean (h : headers) : Prop := forall e, In e h -> idkey (fst e) = false.
Definition noimp (h : headers) : Prop := forall e, In e h -> has_prefix (fst e) H_IMP = false.
Definition allimp (h : headers) : Prop := forall e, In e h -> has_prefix (fst e) H_IMP = true.

Lemma has_prefix_split p : forall s, has_prefix s p = true -> s = p +++ str_drop (String.length p) s.
Proof.
  induction p as [|c p IH]; intros s H; [reflexivity|].
  destruct s as [|d s]; [discriminate|]. simpl in H. destruct (Ascii.eqb_spec c d) as [->|]; [|discriminate].
  simpl. f_equal. apply IH. exact H.
Qed.

Lemma canon_imp_prefix r : canon_loop true (H_IMP +++ r) = H_IMP +++ canon_loop true r.
Proof. reflexivity. Qed.

Lemma prefix_canon k : has_prefix k H_IMP = true -> has_prefix (canonical_key k) H_IMP = true.
Proof.
  intros H. unfold canonical_key. destruct (all_token k); [|exact H].
  rewrite (has_prefix_split _ _ H), canon_imp_prefix. apply has_prefix_app.
Qed.

Lemma extra_is_imp k : has_prefix k H_EXTRA = true -> has_prefix k H_IMP = true.
Proof.
  intros H. rewrite (has_prefix_split _ _ H). reflexivity.
Qed.

Lemma hv_absent k h : (forall e, In e h -> String.eqb (fst e) k = false) -> h_values k h = [].
Proof.
  induction h as [|[x vs] r IH]; intros H; [reflexivity|].
  rewrite hv_cons. pose proof (H (x, vs) (or_introl eq_refl)) as Hx. cbn [fst] in Hx. rewrite Hx. cbn [app].
  apply IH. intros e He. apply H. right. exact He.
Qed.

Lemma noimp_values k h : noimp h -> has_prefix k H_IMP = true -> h_values k h = [].
Proof.
  intros Hn Hk. apply hv_absent. intros e He. destruct (String.eqb_spec (fst e) k) as [E|]; [|reflexivity].
  rewrite <- E in Hk. rewrite (Hn e He) in Hk. discriminate.
Qed.
Lemma allimp_values k h : allimp h -> has_prefix k H_IMP = false -> h_values k h = [].
Proof.
  intros Ha Hk. apply hv_absent. intros e He. destruct (String.eqb_spec (fst e) k) as [E|]; [|reflexivity].
  rewrite <- E in Hk. rewrite (Ha e He) in Hk. discriminate.
Qed.
Lemma clean_noimp h : clean h -> noimp h.
Proof. intros H e He. specialize (H e He). unfold idkey in H. apply Bool.orb_false_iff in H. tauto. Qed.
Lemma clean_values k h : clean h -> idkey k = true -> h_values k h = [].
Proof.
  intros Hc Hk. apply hv_absent. intros e He. destruct (String.eqb_spec (fst e) k) as [E|]; [|reflexivity].
  rewrite <- E in Hk. rewrite (Hc e He) in Hk. discriminate.
Qed.

Lemma clean_clear h : clean (clear_imp (h_del H_AUTH h)).
Proof.
  intros e He. unfold clear_imp in He. apply filter_In in He. destruct He as [He Hp].
  apply in_del in He. destruct He as [_ Ha]. unfold idkey. rewrite Ha. cbn [orb].
  destruct (has_prefix (fst e) H_IMP) eqn:E; [|reflexivity].
  rewrite (prefix_canon _ E) in Hp. discriminate.
Qed.

Lemma clean_set k v h : idkey k = false -> clean h -> clean (h_set k v h).
Proof. intros Hk Hc e He. apply in_set in He. destruct He as [->|He]; [exact Hk|apply Hc; exact He]. Qed.

Lemma clean_reverse_proxy ip h : clean h -> clean (reverse_proxy_headers ip h).
Proof.
  intros Hc. unfold reverse_proxy_headers.
  apply clean_set; [reflexivity|].
  assert (H1 : clean (if h_has "User-Agent" h then h else h_set "User-Agent" "" h)).
  { destruct (h_has "User-Agent" h); [exact Hc|apply clean_set; [reflexivity|exact Hc]]. }
  set (h1 := if h_has "User-Agent" h then h else h_set "User-Agent" "" h) in *.
  assert (H3 : clean (del_all hop_headers (del_all (connection_named h1) h1))).
  { intros e He. apply in_del_all, in_del_all in He. apply H1. exact He. }
  destruct (values_have_token "trailers" (h_values "Te" h)); [apply clean_set; [reflexivity|exact H3]|exact H3].
Qed.

Lemma clean_user_agent h : clean h -> clean (user_agent_wrapper h).
Proof.
  intros Hc. unfold user_agent_wrapper.
  destruct (negb (String.eqb (h_get "User-Agent" h) "")); [exact Hc|apply clean_set; [reflexivity|exact Hc]].
Qed.

(* ------------------------------------------------------------------ the generated headers *)
Lemma allimp_generated id : allimp (generated_headers id).
Proof.
  intros e He. unfold generated_headers in He. destruct He as [<-|He]; [reflexivity|].
  apply in_app_iff in He. destruct He as [He|He].
  - apply in_map_iff in He. destruct He as [g [<- _]]. reflexivity.
  - apply in_flat_map in He. destruct He as [kv [_ He]]. apply in_map_iff in He. destruct He as [v [<- _]].
    cbn [fst]. apply extra_is_imp. apply (extra_key_roundtrip (fst kv)).
Qed.

Lemma extra_header_not k : String.eqb (extra_header k) H_USER = false /\ String.eqb (extra_header k) H_GROUP = false.
Proof.
  destruct (extra_key_roundtrip k) as [Hp _]. split.
  - destruct (String.eqb_spec (extra_header k) H_USER) as [E|]; [|reflexivity]. rewrite E in Hp. discriminate.
  - destruct (String.eqb_spec (extra_header k) H_GROUP) as [E|]; [|reflexivity]. rewrite E in Hp. discriminate.
Qed.

Lemma hv_extras_other K ex :
  (forall k, String.eqb (extra_header k) K = false) ->
  h_values K (flat_map (fun kv => map (fun v => (extra_header (fst kv), [v])) (snd kv)) ex) = [].
Proof.
  intros HK. apply hv_absent. intros e He. apply in_flat_map in He. destruct He as [kv [_ He]].
  apply in_map_iff in He. destruct He as [v [<- _]]. apply HK.
Qed.

Lemma hv_map_same K gs : h_values K (map (fun g => (K, [g])) gs) = gs.
Proof. induction gs as [|g gs IH]; [reflexivity|]. cbn [map]. rewrite hv_cons, String.eqb_refl, IH. reflexivity. Qed.
Lemma hv_map_other K K' gs : String.eqb K' K = false -> h_values K (map (fun g => (K', [g])) gs) = [].
Proof. intros H. induction gs as [|g gs IH]; [reflexivity|]. cbn [map]. rewrite hv_cons, H, IH. reflexivity. Qed.

Lemma generated_user id : h_values H_USER (generated_headers id) = [uname id].
Proof.
  unfold generated_headers. rewrite hv_cons, String.eqb_refl, hv_app.
  rewrite (hv_map_other H_USER H_GROUP) by reflexivity.
  rewrite hv_extras_other by (intros k; apply extra_header_not). reflexivity.
Qed.
Lemma generated_groups id : h_values H_GROUP (generated_headers id) = ugroups id.
Proof.
  unfold generated_headers. rewrite hv_cons. change (String.eqb H_USER H_GROUP) with false. cbn [app].
  rewrite hv_app, hv_map_same. rewrite hv_extras_other by (intros k; apply extra_header_not). apply app_nil_r.
Qed.

Lemma extra_pairs_app a b : extra_pairs (a ++ b) = extra_pairs a ++ extra_pairs b.
Proof. unfold extra_pairs. apply flat_map_app. Qed.
Lemma extra_pairs_noextra h : (forall e, In e h -> has_prefix (fst e) H_EXTRA = false) -> extra_pairs h = [].
Proof.
  induction h as [|e r IH]; intros H; [reflexivity|].
  unfold extra_pairs in *. cbn [flat_map]. rewrite (H e (or_introl eq_refl)). cbn [app].
  apply IH. intros x Hx. apply H. right. exact Hx.
Qed.
Lemma noimp_noextra h : noimp h -> forall e, In e h -> has_prefix (fst e) H_EXTRA = false.
Proof.
  intros Hn e He. destruct (has_prefix (fst e) H_EXTRA) eqn:E; [|reflexivity].
  pose proof (extra_is_imp _ E) as X. rewrite (Hn e He) in X. discriminate.
Qed.

Definition lowkey (p : string * string) : string * string := (to_lower (fst p), snd p).

Lemma generated_extra id : extra_pairs (generated_headers id) = map lowkey (id_pairs (uextra id)).
Proof.
  unfold generated_headers.
  change ((H_USER, [uname id]) :: ?x) with ([(H_USER, [uname id])] ++ x).
  rewrite !extra_pairs_app.
  rewrite (extra_pairs_noextra [(H_USER, [uname id])]) by (intros e [<-|[]]; reflexivity).
  rewrite (extra_pairs_noextra (map _ (ugroups id))) by (intros e He; apply in_map_iff in He; destruct He as [g [<- _]]; reflexivity).
  cbn [app]. unfold id_pairs. induction (uextra id) as [|[k vs] ex IH]; [reflexivity|].
  cbn [flat_map]. rewrite extra_pairs_app, map_app, IH. f_equal. cbn [fst snd]. clear IH.
  destruct (extra_key_roundtrip k) as [Hp Hk].
  induction vs as [|v vs IHv]; [reflexivity|].
  cbn [map]. unfold extra_pairs in *. cbn [flat_map fst snd]. rewrite Hp. cbn [map app].
  rewrite Hk. f_equal. exact IHv.
Qed.

(* ------------------------------------------------------------------ the wire *)
Lemma hv_wire k h : h_values k (wire h) = map trim_ows (h_values k h).
Proof.
  induction h as [|[x vs] r IH]; [reflexivity|].
  unfold wire in *. cbn [map fst snd]. rewrite !hv_cons, map_app, IH. destruct (String.eqb x k); reflexivity.
Qed.
Lemma extra_pairs_wire h : extra_pairs (wire h) = map (fun p => (fst p, trim_ows (snd p))) (extra_pairs h).
Proof.
  induction h as [|[x vs] r IH]; [reflexivity|].
  unfold wire, extra_pairs in *. cbn [map flat_map fst snd]. rewrite map_app, IH. f_equal.
  destruct (has_prefix x H_EXTRA); [|reflexivity]. rewrite !map_map. reflexivity.
Qed.
Lemma in_wire e h : In e (wire h) -> exists e0, In e0 h /\ e = (fst e0, map trim_ows (snd e0)).
Proof. unfold wire. intros H. apply in_map_iff in H. destruct H as [e0 [<- H]]. exists e0. auto. Qed.

(* ------------------------------------------------------------------ send *)
Lemma wrap_shape id h :
  h_values H_USER h = [] -> uname id <> "" ->
  wrap_request id h = Some (h_del H_USER h ++ generated_headers id).
Proof.
  intros Hu Hn. unfold wrap_request, h_get. rewrite Hu. cbn [negb String.eqb].
  destruct (String.eqb_spec (uname id) "") as [E|_]; [contradiction|].
  rewrite fold_add_extra, fold_add. unfold h_set, generated_headers.
  rewrite <- !app_assoc. reflexivity.
Qed.

Lemma send_shape token ip id h h' :
  clean h -> send token ip id h = Forwarded h' ->
  uname id <> "" /\
  exists base, noimp base /\ h_values H_AUTH base = ["Bearer " +++ token] /\ h' = wire (base ++ generated_headers id).
Proof.
  intros Hc Hs. unfold send in Hs.
  set (h3 := user_agent_wrapper (reverse_proxy_headers ip h)) in *.
  assert (Hc3 : clean h3) by (apply clean_user_agent, clean_reverse_proxy; exact Hc).
  unfold bearer_wrapper, h_get in Hs. rewrite (clean_values H_AUTH h3 Hc3 eq_refl) in Hs. cbn [negb String.eqb] in Hs.
  set (hb := h_set H_AUTH ("Bearer " +++ token) h3) in *.
  assert (Hub : h_values H_USER hb = []).
  { unfold hb. rewrite hv_set. change (String.eqb H_AUTH H_USER) with false. apply (clean_values H_USER h3 Hc3 eq_refl). }
  destruct (String.eqb_spec (uname id) "") as [E|Hn].
  - unfold wrap_request, h_get in Hs. rewrite Hub, E in Hs. discriminate.
  - split; [exact Hn|]. rewrite (wrap_shape id hb Hub Hn) in Hs.
    destruct (all_values_valid _); [|discriminate]. inversion Hs; subst h'; clear Hs.
    exists (h_del H_USER hb). split; [|split; [|reflexivity]].
    + intros e He. apply in_del in He. destruct He as [He _]. unfold hb in He. apply in_set in He.
      destruct He as [->|He]; [reflexivity|]. apply (clean_noimp _ Hc3 e He).
    + rewrite hv_del. change (String.eqb H_USER H_AUTH) with false. unfold hb. rewrite hv_set, String.eqb_refl. reflexivity.
Qed.

(* ------------------------------------------------------------------ strings.Split / strings.Join *)
Lemma split_on_nonempty c s : split_on c s <> [].
Proof.
  induction s as [|a r IH]; simpl; [discriminate|].
  destruct (Ascii.eqb a c); [discriminate|]. destruct (split_on c r); discriminate.
Qed.

Lemma join_cons2 sep x y t : join sep (x :: y :: t) = x +++ sep +++ join sep (y :: t).
Proof. reflexivity. Qed.

Lemma join_split c s : join (String c "") (split_on c s) = s.
Proof.
  induction s as [|a r IH]; [reflexivity|].
  cbn [split_on]. destruct (Ascii.eqb_spec a c) as [->|Hne].
  - destruct (split_on c r) as [|y t] eqn:E; [exfalso; exact (split_on_nonempty c r E)|].
    rewrite join_cons2, IH. reflexivity.
  - destruct (split_on c r) as [|y t] eqn:E; [exfalso; exact (split_on_nonempty c r E)|].
    destruct t as [|z t].
    + simpl in IH. simpl. rewrite IH. reflexivity.
    + rewrite join_cons2 in *. simpl. rewrite <- IH. reflexivity.
Qed.

Lemma sa_username u ns n : split_sa_username u = Some (ns, n) -> sa_prefix +++ ns +++ ":" +++ n = u.
Proof.
  unfold split_sa_username. destruct (has_prefix u sa_prefix) eqn:Hp; [|discriminate].
  destruct (split_on ":" (str_drop (String.length sa_prefix) u)) as [|a [|b [|c l]]] eqn:E; try discriminate.
  destruct (is_dns_label a && is_dns_subdomain b)%bool; [|discriminate].
  intros H. inversion H; subst a b; clear H.
  pose proof (join_split ":" (str_drop (String.length sa_prefix) u)) as J. rewrite E in J.
  rewrite (has_prefix_split _ _ Hp). f_equal. exact J.
Qed.

(* ------------------------------------------------------------------ the impersonation filter *)
Definition user_req (h : headers) : imp_req :=
  match split_sa_username (h_get H_USER h) with
  | Some (ns, n) => RSa ns n
  | None => RUser (h_get H_USER h)
  end.
Definition pair_req (p : string * string) : imp_req := RExtra (fst p) (snd p).

Lemma extra_reqs_pairs h : extra_reqs h = map pair_req (extra_pairs h).
Proof.
  induction h as [|e r IH]; [reflexivity|].
  unfold extra_reqs, extra_pairs in *. cbn [flat_map]. rewrite map_app, IH. f_equal.
  destruct (has_prefix (fst e) H_EXTRA); [|reflexivity]. rewrite map_map. reflexivity.
Qed.

Lemma no_extra_hdr h : has_extra_hdr h = false -> extra_pairs h = [].
Proof.
  intros H. apply extra_pairs_noextra. intros e He. unfold has_extra_hdr in H.
  destruct (has_prefix (fst e) H_EXTRA) eqn:E; [|reflexivity].
  assert (X : existsb (fun e => has_prefix (fst e) H_EXTRA) h = true) by (apply existsb_exists; exists e; auto).
  congruence.
Qed.

Lemma build_spec h :
  build_imp_requests h =
  if asks h then Some (user_req h :: map RGroup (h_values H_GROUP h) ++ extra_reqs h)
  else if (has_group_hdr h || has_extra_hdr h)%bool then None else Some [].
Proof.
  unfold build_imp_requests, asks, has_group_hdr, user_req.
  destruct (String.eqb (h_get H_USER h) "") eqn:E; cbn [negb andb].
  - rewrite Bool.andb_true_r.
    destruct (h_values H_GROUP h) as [|g gs] eqn:G; cbn [orb].
    + destruct (has_extra_hdr h) eqn:X; [reflexivity|].
      rewrite extra_reqs_pairs, (no_extra_hdr h X). reflexivity.
    + reflexivity.
  - rewrite Bool.andb_false_r. destruct (split_sa_username (h_get H_USER h)) as [[ns n]|]; reflexivity.
Qed.

Lemma fold_groups gs l a :
  fold_left (imp_step gs) (map RGroup l) a = mkAcc (a_user a) (a_groups a ++ l) (a_extra a).
Proof.
  revert a. induction l as [|g l IH]; intros a; cbn [map fold_left].
  - rewrite app_nil_r. destruct a; reflexivity.
  - rewrite IH. cbn [imp_step a_user a_groups a_extra]. rewrite <- app_assoc. reflexivity.
Qed.

Definition ext_fold (ps : list (string * string)) (e : list (string * list string)) :=
  fold_left (fun e p => ext_add (fst p) (snd p) e) ps e.

Lemma fold_extras gs ps a :
  fold_left (imp_step gs) (map pair_req ps) a = mkAcc (a_user a) (a_groups a) (ext_fold ps (a_extra a)).
Proof.
  revert a. induction ps as [|p ps IH]; intros a; cbn [map fold_left].
  - destruct a; reflexivity.
  - rewrite IH. reflexivity.
Qed.

Lemma id_pairs_cons k vs r : id_pairs ((k, vs) :: r) = map (pair k) vs ++ id_pairs r.
Proof. reflexivity. Qed.

Lemma id_pairs_ext_add k v e : Permutation (id_pairs (ext_add k v e)) (id_pairs e ++ [(k, v)]).
Proof.
  induction e as [|[k' vs] r IH]; [reflexivity|].
  cbn [ext_add]. destruct (String.eqb_spec k' k) as [->|Hne].
  - rewrite !id_pairs_cons, map_app, <- !app_assoc. apply Permutation_app_head.
    cbn [map app]. apply Permutation_cons_append.
  - rewrite !id_pairs_cons, <- app_assoc. apply Permutation_app_head. exact IH.
Qed.

Lemma ext_fold_perm ps e0 : Permutation (id_pairs (ext_fold ps e0)) (id_pairs e0 ++ ps).
Proof.
  revert e0. induction ps as [|p ps IH]; intros e0; cbn [ext_fold fold_left].
  - rewrite app_nil_r. reflexivity.
  - fold (ext_fold ps (ext_add (fst p) (snd p) e0)). rewrite IH.
    rewrite (id_pairs_ext_add (fst p) (snd p) e0), <- app_assoc. destruct p; reflexivity.
Qed.

Definition matches_expected (id1 : identity) (t : told) : Prop :=
  uname id1 = t_user t /\ ugroups id1 = t_groups t /\ Permutation (id_pairs (uextra id1)) (t_extra t).

Lemma impersonated_spec h id :
  asks h = true ->
  matches_expected (impersonated h (user_req h :: map RGroup (h_values H_GROUP h) ++ extra_reqs h)) (expected h id).
Proof.
  intros Ha. unfold impersonated, expected. rewrite Ha.
  cbn [fold_left]. rewrite fold_left_app, fold_groups, extra_reqs_pairs, fold_extras.
  cbn [a_user a_groups a_extra].
  set (u := h_get H_USER h).
  assert (Hu : a_user (imp_step (match h_values H_GROUP h with [] => false | _ => true end)
                                (mkAcc "" [] []) (user_req h)) = u).
  { unfold user_req. fold u. destruct (split_sa_username u) as [[ns n]|] eqn:E; cbn [imp_step a_user]; [|reflexivity].
    apply sa_username. exact E. }
  assert (Hg : a_groups (imp_step (match h_values H_GROUP h with [] => false | _ => true end)
                                  (mkAcc "" [] []) (user_req h)) ++ h_values H_GROUP h =
               match h_values H_GROUP h with
               | [] => match split_sa_username u with
                       | Some (ns, _) => ["system:serviceaccounts"; "system:serviceaccounts:" +++ ns]
                       | None => []
                       end
               | l => l
               end).
  { unfold user_req. fold u. destruct (split_sa_username u) as [[ns n]|] eqn:E; cbn [imp_step a_groups];
    destruct (h_values H_GROUP h); reflexivity. }
  assert (He : a_extra (imp_step (match h_values H_GROUP h with [] => false | _ => true end)
                                  (mkAcc "" [] []) (user_req h)) = []).
  { unfold user_req. destruct (split_sa_username (h_get H_USER h)) as [[ns n]|]; reflexivity. }
  unfold matches_expected. cbn [uname ugroups uextra t_user t_groups t_extra].
  rewrite Hu, Hg, He. split; [reflexivity|split; [reflexivity|]].
  apply (ext_fold_perm (extra_pairs h) []).
Qed.

(* the spec functions do not look at Authorization *)
Lemma extra_pairs_del k h : has_prefix k H_EXTRA = false -> extra_pairs (h_del k h) = extra_pairs h.
Proof.
  intros Hk. induction h as [|e r IH]; [reflexivity|].
  unfold h_del, extra_pairs in *. cbn [filter flat_map]. destruct (String.eqb_spec (fst e) k) as [E|_]; cbn [negb].
  - rewrite IH, E, Hk. reflexivity.
  - cbn [flat_map]. rewrite IH. reflexivity.
Qed.
Lemma has_extra_hdr_del k h : has_prefix k H_EXTRA = false -> has_extra_hdr (h_del k h) = has_extra_hdr h.
Proof.
  intros Hk. induction h as [|e r IH]; [reflexivity|].
  unfold h_del, has_extra_hdr in *. cbn [filter existsb]. destruct (String.eqb_spec (fst e) k) as [E|_]; cbn [negb].
  - rewrite IH, E, Hk. reflexivity.
  - cbn [existsb]. rewrite IH. reflexivity.
Qed.

Lemma get_del_auth k h : String.eqb H_AUTH k = false -> h_get k (h_del H_AUTH h) = h_get k h.
Proof. intros H. unfold h_get. rewrite hv_del, H. reflexivity. Qed.

Lemma asks_del h : asks (h_del H_AUTH h) = asks h.
Proof. unfold asks. rewrite get_del_auth by reflexivity. reflexivity. Qed.
Lemma malformed_del h : malformed (h_del H_AUTH h) = malformed h.
Proof.
  unfold malformed, has_group_hdr. rewrite asks_del, hv_del, has_extra_hdr_del by reflexivity.
  change (String.eqb H_AUTH H_GROUP) with false. reflexivity.
Qed.
Lemma asked_items_del h : asked_items (h_del H_AUTH h) = asked_items h.
Proof.
  unfold asked_items. rewrite get_del_auth, hv_del, extra_pairs_del by reflexivity.
  change (String.eqb H_AUTH H_GROUP) with false. reflexivity.
Qed.
Lemma expected_del h id : expected (h_del H_AUTH h) id = expected h id.
Proof.
  unfold expected. rewrite asks_del, get_del_auth, hv_del, extra_pairs_del by reflexivity.
  change (String.eqb H_AUTH H_GROUP) with false. reflexivity.
Qed.

Lemma items_of_reqs h :
  map item_of (user_req h :: map RGroup (h_values H_GROUP h) ++ extra_reqs h) = asked_items h.
Proof.
  unfold asked_items. cbn [map]. f_equal.
  - unfold user_req. destruct (split_sa_username (h_get H_USER h)) as [[ns n]|]; reflexivity.
  - rewrite map_app, extra_reqs_pairs, !map_map. reflexivity.
Qed.

Lemma forallb_items authz reqs : forallb (fun r => authz (item_of r)) reqs = forallb authz (map item_of reqs).
Proof. induction reqs as [|r l IH]; [reflexivity|]. cbn [forallb map]. rewrite IH. reflexivity. Qed.

Lemma filters_core_spec h id authz :
  filters_core h id authz =
  if asks h then
    if forallb authz (asked_items h)
    then Pass (clear_imp (h_del H_AUTH h))
              (impersonated (h_del H_AUTH h)
                 (user_req (h_del H_AUTH h) :: map RGroup (h_values H_GROUP (h_del H_AUTH h)) ++ extra_reqs (h_del H_AUTH h)))
    else Refuse 403
  else if malformed h then Refuse 500 else Pass (clear_imp (h_del H_AUTH h)) id.
Proof.
  unfold filters_core.
  rewrite build_spec, asks_del. destruct (asks h) eqn:Ha.
  - rewrite forallb_items, items_of_reqs, asked_items_del. reflexivity.
  - rewrite <- (malformed_del h). unfold malformed. rewrite asks_del, Ha. cbn [negb andb].
    destruct (has_group_hdr (h_del H_AUTH h) || has_extra_hdr (h_del H_AUTH h))%bool; reflexivity.
Qed.

Lemma filters_spec h id authz :
  filters h id authz =
  if is_upgrade_request h then Upgrade
  else if asks h then
         if forallb authz (asked_items h)
         then Pass (clear_imp (h_del H_AUTH h))
                   (impersonated (h_del H_AUTH h)
                      (user_req (h_del H_AUTH h) :: map RGroup (h_values H_GROUP (h_del H_AUTH h)) ++ extra_reqs (h_del H_AUTH h)))
         else Refuse 403
       else if malformed h then Refuse 500 else Pass (clear_imp (h_del H_AUTH h)) id.
Proof. unfold filters. rewrite filters_core_spec. reflexivity. Qed.

Lemma filters_core_pass h id authz hc id1 :
  filters_core h id authz = Pass hc id1 ->
  clean hc /\ matches_expected id1 (expected h id) /\
  (asks h = true -> forallb authz (asked_items h) = true) /\ (asks h = false -> id1 = id).
Proof.
  rewrite filters_core_spec.
  destruct (asks h) eqn:Ha.
  - destruct (forallb authz (asked_items h)) eqn:Hz; [|discriminate].
    intros H. inversion H; subst hc id1; clear H.
    split; [apply clean_clear|]. split; [|split; [auto|discriminate]].
    rewrite <- (expected_del h id). apply impersonated_spec. rewrite asks_del. exact Ha.
  - destruct (malformed h); [discriminate|]. intros H. inversion H; subst hc id1; clear H.
    split; [apply clean_clear|]. split; [|split; [discriminate|auto]].
    unfold matches_expected, expected. rewrite Ha. cbn. auto.
Qed.

Lemma filters_pass h id authz hc id1 :
  filters h id authz = Pass hc id1 ->
  clean hc /\ matches_expected id1 (expected h id) /\
  (asks h = true -> forallb authz (asked_items h) = true) /\ (asks h = false -> id1 = id).
Proof. unfold filters. destruct (is_upgrade_request h); [discriminate|apply filters_core_pass]. Qed.

(* ------------------------------------------------------------------ multisets by counting *)
Lemma count_perm x a b : Permutation a b -> count x a = count x b.
Proof.
  unfold count. intros P. induction P as [|y a b P IH|y z a|a b c P1 IH1 P2 IH2].
  - reflexivity.
  - cbn [filter]. destruct (pair_eqb x y); cbn [List.length]; rewrite IH; reflexivity.
  - cbn [filter]. destruct (pair_eqb x y), (pair_eqb x z); reflexivity.
  - rewrite IH1. exact IH2.
Qed.
Lemma perm_ms_eqb a b : Permutation a b -> ms_eqb a b = true.
Proof.
  intros P. unfold ms_eqb. apply forallb_forall. intros x _. apply Nat.eqb_eq. apply count_perm. exact P.
Qed.
Lemma list_eqb_refl l : list_eqb String.eqb l l = true.
Proof. induction l as [|x l IH]; [reflexivity|]. cbn. rewrite String.eqb_refl, IH. reflexivity. Qed.

Lemma clean_trim v : wire_clean_str v = true -> trim_ows v = v.
Proof. unfold wire_clean_str. intros H. apply Bool.andb_true_iff in H. apply String.eqb_eq. tauto. Qed.
Lemma clean_trim_all l : forallb wire_clean_str l = true -> map trim_ows l = l.
Proof.
  induction l as [|v l IH]; [reflexivity|]. cbn. intros H. apply Bool.andb_true_iff in H.
  rewrite (clean_trim v), IH by tauto. reflexivity.
Qed.

Lemma lowkeys_lowkey X : lowkeys (map lowkey X) = map lowkey X.
Proof.
  unfold lowkeys. rewrite map_map. apply map_ext. intros [k v]. unfold lowkey. cbn [fst snd].
  rewrite to_lower_idem. reflexivity.
Qed.

Lemma told_of_generated base id1 :
  noimp base ->
  told_identity (wire (base ++ generated_headers id1)) =
  if String.eqb (trim_ows (uname id1)) "" then None
  else Some (mkTold (trim_ows (uname id1)) (map trim_ows (ugroups id1))
                    (map (fun p => (fst p, trim_ows (snd p))) (map lowkey (id_pairs (uextra id1))))).
Proof.
  intros Hn. unfold told_identity, h_get.
  rewrite !hv_wire, !hv_app, extra_pairs_wire, extra_pairs_app.
  rewrite (noimp_values H_USER base Hn eq_refl), (noimp_values H_GROUP base Hn eq_refl).
  rewrite (extra_pairs_noextra base (noimp_noextra base Hn)).
  rewrite generated_user, generated_groups, generated_extra. reflexivity.
Qed.

(* ------------------------------------------------------------------ the theorems *)
Lemma clean_del k h : clean h -> clean (h_del k h).
Proof. intros Hc e He. apply in_del in He. apply Hc. tauto. Qed.

Lemma clean_request_write h : clean h -> clean (request_write_headers h).
Proof.
  intros Hc. unfold request_write_headers. destruct (h_has "User-Agent" h).
  - destruct (String.eqb (h_get "User-Agent" h) ""); [apply clean_del; exact Hc|apply clean_set; [reflexivity|exact Hc]].
  - apply clean_set; [reflexivity|exact Hc].
Qed.

Lemma upgrade_shape ip id h h' :
  clean h -> upgrade_send ip id h = Forwarded h' ->
  uname id <> "" /\
  exists base, noimp base /\ h_values H_AUTH base = [] /\ h' = wire (base ++ generated_headers id).
Proof.
  intros Hc Hs. unfold upgrade_send in Hs.
  set (hb := request_write_headers (upgrade_headers ip h)) in *.
  assert (Hcb : clean hb).
  { apply clean_request_write. unfold upgrade_headers. apply clean_set; [reflexivity|exact Hc]. }
  assert (Hub : h_values H_USER hb = []) by (apply (clean_values H_USER hb Hcb eq_refl)).
  destruct (String.eqb_spec (uname id) "") as [E|Hn].
  - unfold wrap_request, h_get in Hs. rewrite Hub, E in Hs. discriminate.
  - split; [exact Hn|]. rewrite (wrap_shape id hb Hub Hn) in Hs. inversion Hs; subst h'; clear Hs.
    exists (h_del H_USER hb). split; [|split; [|reflexivity]].
    + intros e He. apply in_del in He. destruct He as [He _]. apply (clean_noimp _ Hcb e He).
    + rewrite hv_del. change (String.eqb H_USER H_AUTH) with false. apply (clean_values H_AUTH hb Hcb eq_refl).
Qed.

Lemma forwarded_facts token ip h id authz h' :
  pipeline token ip h id authz = Forwarded h' ->
  exists hc id1 base,
    filters_core h id authz = Pass hc id1 /\ matches_expected id1 (expected h id) /\ uname id1 <> "" /\
    noimp base /\
    h_values H_AUTH base = (if is_upgrade_request h then [] else ["Bearer " +++ token]) /\
    h' = wire (base ++ generated_headers id1) /\
    (asks h = true -> forallb authz (asked_items h) = true) /\ (asks h = false -> id1 = id).
Proof.
  unfold pipeline. destruct (filters_core h id authz) as [hc id1| |] eqn:F; try discriminate.
  intros Hs. destruct (filters_core_pass _ _ _ _ _ F) as [Hc [Hm [Hz Hself]]].
  destruct (is_upgrade_request h).
  - destruct (upgrade_shape _ _ _ _ Hc Hs) as [Hn [base [Hb [Ha Hh]]]]. exists hc, id1, base. auto 10.
  - destruct (send_shape _ _ _ _ _ Hc Hs) as [Hn [base [Hb [Ha Hh]]]]. exists hc, id1, base. auto 10.
Qed.

Theorem identity_exact token ip h id authz h' :
  pipeline token ip h id authz = Forwarded h' ->
  told_clean (expected h id) = true ->
  told_matches (told_identity h') (expected h id) = true.
Proof.
  intros Hp Hclean. destruct (forwarded_facts _ _ _ _ _ _ Hp) as [hc [id1 [base [_ [[Hu [Hg Hx]] [Hn [Hb [_ [Hh _]]]]]]]]].
  subst h'. rewrite (told_of_generated base id1 Hb).
  unfold told_clean in Hclean. apply Bool.andb_true_iff in Hclean. destruct Hclean as [Hclean Hcx].
  apply Bool.andb_true_iff in Hclean. destruct Hclean as [Hcu Hcg].
  rewrite Hu, Hg. rewrite (clean_trim _ Hcu), (clean_trim_all _ Hcg).
  destruct (String.eqb_spec (t_user (expected h id)) "") as [E|_]; [rewrite <- Hu in E; contradiction|].
  assert (Hvals : map (fun p => (fst p, trim_ows (snd p))) (map lowkey (id_pairs (uextra id1))) =
                  map lowkey (id_pairs (uextra id1))).
  { rewrite map_map. apply map_ext_in. intros [k v] Hin. unfold lowkey. cbn [fst snd]. f_equal.
    apply clean_trim. rewrite forallb_forall in Hcx. apply (Hcx (k, v)).
    apply (Permutation_in _ Hx). exact Hin. }
  rewrite Hvals. unfold told_matches. cbn [t_user t_groups t_extra].
  rewrite String.eqb_refl, list_eqb_refl, lowkeys_lowkey. cbn [andb].
  apply perm_ms_eqb. unfold lowkeys. apply Permutation_map. exact Hx.
Qed.

Theorem forwarded_only_if_allowed token ip h id authz h' :
  pipeline token ip h id authz = Forwarded h' ->
  (asks h = true -> forallb authz (asked_items h) = true) /\ (asks h = false -> uname id <> "").
Proof.
  intros Hp. destruct (forwarded_facts _ _ _ _ _ _ Hp) as [hc [id1 [base [_ [_ [Hn [_ [_ [_ [Hz Hs]]]]]]]]]].
  split; [exact Hz|]. intros Ha. rewrite <- (Hs Ha). exact Hn.
Qed.

Theorem denied_not_forwarded token ip h id authz :
  asks h = true -> forallb authz (asked_items h) = false ->
  pipeline token ip h id authz = Answered 403.
Proof. intros Ha Hz. unfold pipeline. rewrite filters_core_spec, Ha, Hz. reflexivity. Qed.

Theorem malformed_not_forwarded token ip h id authz :
  malformed h = true ->
  pipeline token ip h id authz = Answered 500.
Proof.
  intros Hm. unfold pipeline. rewrite filters_core_spec, Hm.
  unfold malformed in Hm. apply Bool.andb_true_iff in Hm. destruct Hm as [Ha _].
  apply Bool.negb_true_iff in Ha. rewrite Ha. reflexivity.
Qed.

Theorem unnamed_not_forwarded token ip h id authz :
  asks h = false -> uname id = "" -> forall h', pipeline token ip h id authz <> Forwarded h'.
Proof.
  intros Ha Hn h' Hp. destruct (forwarded_only_if_allowed _ _ _ _ _ _ Hp) as [_ H]. exact (H Ha Hn).
Qed.

Theorem no_client_identity_header_survives token ip h id authz h' :
  pipeline token ip h id authz = Forwarded h' ->
  exists id1, matches_expected id1 (expected h id) /\
    h_values H_AUTH h' = (if is_upgrade_request h then [] else [trim_ows ("Bearer " +++ token)]) /\
    forall e, In e h' -> has_prefix (fst e) H_IMP = true -> In e (wire (generated_headers id1)).
Proof.
  intros Hp. destruct (forwarded_facts _ _ _ _ _ _ Hp) as [hc [id1 [base [_ [Hm [_ [Hb [Ha [Hh _]]]]]]]]].
  exists id1. split; [exact Hm|]. subst h'. split.
  - rewrite hv_wire, hv_app, Ha, (allimp_values H_AUTH _ (allimp_generated id1) eq_refl).
    destruct (is_upgrade_request h); reflexivity.
  - intros e He Hpre. unfold wire in He. rewrite map_app in He. apply in_app_iff in He. destruct He as [He|He]; [|exact He].
    apply in_map_iff in He. destruct He as [e0 [<- He0]]. cbn [fst] in Hpre. rewrite (Hb e0 He0) in Hpre. discriminate.
Qed.

Theorem escape_roundtrip k :
  has_prefix (extra_header k) H_EXTRA = true /\
  unescape_extra_key (to_lower (str_drop (String.length H_EXTRA) (extra_header k))) = to_lower k /\
  (forall c, hk_should_escape c = true -> lower_ascii c = c).
Proof. destruct (extra_key_roundtrip k) as [A B]. split; [exact A|split; [exact B|exact escaped_not_folded]]. Qed.

(* ------------------------------------------------------------------ the model meets the executable spec *)
Definition obs_of (o : outcome) : obs :=
  match o with
  | Forwarded h' => mkObs 200 [h']
  | Answered c => mkObs c []
  | NotModelled => mkObs 0 []
  end.

Lemma generated_key_kind id e :
  In e (generated_headers id) ->
  fst e = H_USER \/ fst e = H_GROUP \/ has_prefix (fst e) H_EXTRA = true.
Proof.
  unfold generated_headers. intros [<-|He]; [left; reflexivity|].
  apply in_app_iff in He. destruct He as [He|He].
  - apply in_map_iff in He. destruct He as [g [<- _]]. right; left; reflexivity.
  - apply in_flat_map in He. destruct He as [kv [_ He]]. apply in_map_iff in He. destruct He as [v [<- _]].
    right; right. apply (extra_key_roundtrip (fst kv)).
Qed.

Theorem model_meets_spec token ip h id deny :
  spec_clauses token h id deny (obs_of (pipeline token ip h id (allowed deny))) = [true; true; true; true].
Proof.
  unfold spec_clauses.
  assert (C1 : identity_ok h id deny (obs_of (pipeline token ip h id (allowed deny))) = true).
  { destruct (pipeline token ip h id (allowed deny)) as [h'| |] eqn:P; [|reflexivity|reflexivity].
    unfold identity_ok, obs_of. cbn [o_ups].
    destruct (forwarded_only_if_allowed _ _ _ _ _ _ P) as [Hz Hn].
    destruct (asks h) eqn:Ha.
    - rewrite (Hz eq_refl). cbn [negb andb].
      destruct (told_clean (expected h id)) eqn:Hc; [|reflexivity]. apply (identity_exact _ _ _ _ _ _ P Hc).
    - cbn [negb andb]. destruct (String.eqb_spec (uname id) "") as [E|_]; [exfalso; exact (Hn eq_refl E)|].
      destruct (told_clean (expected h id)) eqn:Hc; [|reflexivity]. apply (identity_exact _ _ _ _ _ _ P Hc). }
  assert (C2 : denied_ok h deny (obs_of (pipeline token ip h id (allowed deny))) = true).
  { unfold denied_ok. destruct (asks h && negb (forallb (allowed deny) (asked_items h)))%bool eqn:D; [|reflexivity].
    apply Bool.andb_true_iff in D. destruct D as [Ha Hz]. apply Bool.negb_true_iff in Hz.
    rewrite (denied_not_forwarded token ip h id _ Ha Hz). reflexivity. }
  assert (C3 : malformed_ok h (obs_of (pipeline token ip h id (allowed deny))) = true).
  { unfold malformed_ok. destruct (malformed h) eqn:M; [|reflexivity].
    rewrite (malformed_not_forwarded token ip h id _ M). reflexivity. }
  assert (C4 : no_client_header_ok token (is_upgrade_request h) (obs_of (pipeline token ip h id (allowed deny))) = true).
  { destruct (pipeline token ip h id (allowed deny)) as [h'| |] eqn:P; [|reflexivity|reflexivity].
    unfold no_client_header_ok, obs_of. cbn [o_ups forallb]. rewrite Bool.andb_true_r.
    destruct (forwarded_facts _ _ _ _ _ _ P) as [hc [id1 [base [_ [_ [_ [Hb [Ha [Hh _]]]]]]]]].
    destruct (no_client_identity_header_survives _ _ _ _ _ _ P) as [id2 [_ [Hauth _]]].
    assert (Hauthb : (list_eqb String.eqb (h_values H_AUTH h') [trim_ows ("Bearer " +++ token)]
                      || (is_upgrade_request h && match h_values H_AUTH h' with [] => true | _ => false end))%bool = true).
    { rewrite Hauth. destruct (is_upgrade_request h); [reflexivity|]. rewrite list_eqb_refl. reflexivity. }
    rewrite Hauthb. cbn [andb].
    assert (Hone : List.length (h_values H_USER h') = 1%nat).
    { subst h'. rewrite hv_wire, hv_app, (noimp_values H_USER base Hb eq_refl), generated_user. reflexivity. }
    apply forallb_forall. intros e He. destruct (has_prefix (fst e) H_IMP) eqn:Hp; [|reflexivity].
    subst h'. unfold wire in He. rewrite map_app in He. apply in_app_iff in He. destruct He as [He|He].
    - apply in_map_iff in He. destruct He as [e0 [<- He0]]. cbn [fst] in Hp. rewrite (Hb e0 He0) in Hp. discriminate.
    - apply in_map_iff in He. destruct He as [e0 [<- He0]]. cbn [fst].
      destruct (generated_key_kind id1 e0 He0) as [->|[->|Hx]].
      + rewrite String.eqb_refl, Hone. reflexivity.
      + rewrite Bool.orb_true_iff. left. rewrite Bool.orb_true_iff. right. reflexivity.
      + rewrite Hx. apply Bool.orb_true_r. }
  rewrite C1, C2, C3, C4. reflexivity.
Qed.

Theorem identity_exact_full token ip h id authz h' :
  pipeline token ip h id authz = Forwarded h' ->
  told_clean (expected h id) = true ->
  told_matches (told_identity h') (expected h id) = true
  /\ (asks h = true -> forallb authz (asked_items h) = true)
  /\ (asks h = false -> uname id <> "").
Proof.
  intros P C. split; [exact (identity_exact _ _ _ _ _ _ P C)|exact (forwarded_only_if_allowed _ _ _ _ _ _ P)].
Qed.

(* ------------------------------------------------------------------ transport generations *)
Lemma after_resets_ok n e : ep_wrap e = true -> ep_imp e = true -> ep_imp (after_resets n e) = true.
Proof.
  revert e. induction n as [|n IH]; intros e Hw Hi; [exact Hi|].
  cbn [after_resets]. apply IH; unfold reset_transport, create_transport; cbn; exact Hw.
Qed.

Lemma send_with_true token ip id h : send_with true token ip id h = send token ip id h.
Proof. reflexivity. Qed.

(* rebuilding the endpoint's transports (any number of times) is invisible: the request is forwarded through a
   transport that still contains the impersonating round tripper, so everything proved about [pipeline] holds *)
Theorem identity_survives_transport_reset n token ip h id authz :
  pipeline_ep (after_resets n new_endpoint) token ip h id authz = pipeline token ip h id authz.
Proof.
  unfold pipeline_ep, pipeline. rewrite (after_resets_ok n new_endpoint eq_refl eq_refl).
  destruct (filters_core h id authz); try reflexivity.
Qed.
