(* C09 — proofs about the model of the REPAIRED tree (fx = fy = fz = true): for every valid
   schema, every static setting and every event sequence the state invariant holds,
   and every clause of the specification holds on the trace the model produces. *)
From KG Require Import Prelude C09_Model C09_Spec.
From Coq Require Import ZifyBool ZifyNat ZifyN.
Open Scope Z_scope.

Arguments Z.add : simpl never.
Arguments Z.sub : simpl never.
Arguments Z.mul : simpl never.
Arguments Z.leb : simpl never.
Arguments Z.ltb : simpl never.
Arguments Z.eqb : simpl never.
Arguments Z.quot : simpl never.
Arguments wrapu32 : simpl never.
Arguments wrap32 : simpl never.

Ltac zcases :=
  repeat match goal with
         | |- context [if ?x <? ?y then _ else _] => let E := fresh "E" in destruct (x <? y) eqn:E
         end.

(* ---------- valid schemas (ValidateFlowControlConfiguration + int32) ---------- *)
Definition valid_cfg (c : config) : Prop :=
  match ck c with
  | KMI => 0 <= l1 c <= g1 c /\ g1 c < two31
  | KTB => 1 <= l1 c <= g1 c /\ g1 c < two31 /\ 0 <= l2 c <= g2 c /\ g2 c < two31
  end.

(* ---------- arithmetic helpers ---------- *)
Lemma wrapu32_id x : 0 <= x < two32 -> wrapu32 x = x.
Proof. unfold wrapu32, two32. intros H. apply Z.mod_small. lia. Qed.

Lemma wrapu32_id31 x : 0 <= x < two31 -> wrapu32 x = x.
Proof. intros H. apply wrapu32_id. unfold two31, two32 in *. lia. Qed.

Lemma wrap32_id31 x : 0 <= x < two31 -> wrap32 x = x.
Proof. intros H. apply wrap32_id. unfold in_int32, two31 in *. lia. Qed.

Lemma clamp_range v lo hi : lo <= hi -> lo <= clamp v lo hi <= hi.
Proof. unfold clamp. intros H. destruct (hi <? v) eqn:E1; destruct (_ <? lo) eqn:E2; lia. Qed.

Lemma clamp_id v lo hi : lo <= v <= hi -> clamp v lo hi = v.
Proof. unfold clamp. intros H. destruct (hi <? v) eqn:E1; [lia|]. destruct (v <? lo) eqn:E2; lia. Qed.

Lemma reserve_raw_ge1 mx : 1 <= reserve_raw mx.
Proof. unfold reserve_raw. destruct (_ <? 1) eqn:E; lia. Qed.

Lemma reserve_range m : 0 <= m -> 0 <= reserve_of true m <= m.
Proof.
  unfold reserve_of. intros H. pose proof (reserve_raw_ge1 m) as H1. simpl.
  destruct (m <? reserve_raw m) eqn:E; lia.
Qed.

Lemma strategy_eqb_eq a b : strategy_eqb a b = true <-> a = b.
Proof. destruct a, b; simpl; split; intros H; try reflexivity; try discriminate. Qed.

Lemma strategy_eqb_refl a : strategy_eqb a a = true.
Proof. apply strategy_eqb_eq. reflexivity. Qed.

Lemma detail_eqb_eq a b : detail_eqb a b = true <-> a = b.
Proof.
  destruct a, b; simpl; split; intros H; try reflexivity; try discriminate.
  - f_equal. lia.
  - inversion H. lia.
  - apply andb_true_iff in H. destruct H as [H1 H2]. f_equal; lia.
  - inversion H. subst. apply andb_true_iff. split; lia.
  - apply andb_true_iff in H. destruct H as [H H3]. apply andb_true_iff in H. destruct H as [H1 H2]. f_equal; lia.
  - inversion H. subst. rewrite !andb_true_iff. repeat split; lia.
Qed.

Lemma item_eqb_eq a b : item_eqb a b = true <-> a = b.
Proof.
  unfold item_eqb. rewrite andb_true_iff, detail_eqb_eq, strategy_eqb_eq.
  destruct a, b; simpl. split.
  - intros [-> ->]. reflexivity.
  - intros H. inversion H. split; reflexivity.
Qed.

Lemma lim_eqb_refl l : lim_eqb l l = true.
Proof. destruct l; simpl; try reflexivity; try apply andb_true_iff; try split; lia. Qed.

(* ---------- the state invariant ---------- *)
Definition lim_of (d : detail) : lim :=
  match d with DMI m => LMI m | DTB q b => LTB q b | _ => LInf end.

(* an item as the repaired Sync keeps it: of the schema's type, within [0, global] of the CURRENT schema *)
Definition item_ok (c : config) (it : item) : Prop :=
  match ck c, idet it with
  | KMI, DMI m => 0 <= m <= g1 c
  | KTB, DTB q b => 0 <= q <= g1 c /\ 0 <= b <= g2 c
  | _, _ => False
  end.

(* the limiter behind the remote wrapper is bounded by the item it was synced from;
   only the schema's type matters here, not its limits *)
Definition inner_ok (k : kind) (maxrt : Z) (i : inner) (it : item) : Prop :=
  match iw i with
  | WEmpty => istr it <> SCount /\ il i = lim_of (idet it) /\ iun i = false /\ iover i = false
  | WMI => istr it = SCount /\ k = KMI /\
           exists m n, idet it = DMI m /\ imax i = m /\ irsv i = reserve_of true m /\
                       il i = LMI n /\ 0 <= n <= m /\ ilast i <= maxrt /\ 0 <= ifb i
  | WTB => istr it = SCount /\ k = KTB /\ iover i = false /\
           exists q b q' b', idet it = DTB q b /\ iqps i = q /\ iburst i = b /\
                             il i = LTB q' b' /\ 0 <= q' <= q /\ 0 <= b' <= b /\
                             (iun i = false -> q' = q /\ b' = b) /\ 0 <= ifb i
  end.

Definition wrap_ok (c : config) (maxrt : Z) (w : rwrap) : Prop :=
  match rin w with
  | None => rcfg w = None
  | Some i => exists it, rcfg w = Some it /\ item_ok c it /\ inner_ok (ck c) maxrt i it
  end.

Definition Inv (maxrt : Z) (s : state) : Prop :=
  crashed s = false /\ valid_cfg (scfg s) /\ (present s = false -> rem s = None) /\
  (enable_global (sstr s) = false -> rem s = None) /\
  match rem s with None => True | Some w => wrap_ok (scfg s) maxrt w end.

(* the events of a history: schema updates carry valid limits (the API server validates them) *)
Definition ev_ok (e : ev) : Prop :=
  match e with
  | ESchema k _ a b g h => valid_cfg {| ck := k; l1 := a; l2 := b; g1 := g; g2 := h |}
  | _ => True
  end.

Lemma inner_ok_mono k m m' i it : m <= m' -> inner_ok k m i it -> inner_ok k m' i it.
Proof.
  unfold inner_ok. intros Hm H. destruct (iw i); auto.
  destruct H as (H1 & H2 & mm & n & H3 & H4 & H5 & H6 & H7 & H8 & H9).
  repeat split; auto. exists mm, n. repeat split; auto; lia.
Qed.

Lemma wrap_ok_mono c m m' w : m <= m' -> wrap_ok c m w -> wrap_ok c m' w.
Proof.
  unfold wrap_ok. intros Hm H. destruct (rin w); auto.
  destruct H as (it & H1 & H2 & H3). exists it. repeat split; auto. eapply inner_ok_mono; eauto.
Qed.

Lemma Inv_mono m m' s : m <= m' -> Inv m s -> Inv m' s.
Proof.
  unfold Inv. intros Hm (H1 & H2 & H3 & H4 & H5). repeat split; auto.
  destruct (rem s); auto. eapply wrap_ok_mono; eauto.
Qed.

Lemma sanitize_ok c it0 it : valid_cfg c -> sanitize c it0 = Some it ->
  item_ok c it /\ istr it = istr it0 /\ granted c (idet it0) = Some (lim_of (idet it)).
Proof.
  unfold valid_cfg, sanitize, item_ok, granted. intros V H.
  destruct (ck c) eqn:K; destruct (idet it0) eqn:D; try discriminate; inversion H; subst; simpl;
    (split; [|split; reflexivity]); try split; apply clamp_range; lia.
Qed.

Lemma sanitize_none c it0 : sanitize c it0 = None -> granted c (idet it0) = None.
Proof. unfold sanitize, granted. destruct (ck c), (idet it0); intros H; try discriminate; reflexivity. Qed.

(* an item that was fine under a schema of the same type is never rejected *)
Lemma sanitize_same_kind c0 c it : ck c0 = ck c -> item_ok c0 it -> exists it', sanitize c it = Some it'.
Proof.
  unfold item_ok, sanitize. intros K H. rewrite <- K.
  destruct (ck c0); destruct (idet it); try contradiction; eexists; reflexivity.
Qed.

Lemma new_lim_ok c it : valid_cfg c -> item_ok c it -> new_lim (idet it) = lim_of (idet it).
Proof.
  unfold valid_cfg, item_ok. intros V H.
  destruct (ck c) eqn:K; destruct (idet it) eqn:D; try contradiction; simpl.
  - rewrite wrapu32_id31; [reflexivity|lia].
  - rewrite !wrapu32_id31; [reflexivity|lia|lia].
Qed.

Lemma new_inner_ok c maxrt t it : valid_cfg c -> item_ok c it -> 0 <= maxrt ->
  exists i, new_inner true true t it = Some i /\ inner_ok (ck c) maxrt i it /\ isync i = t.
Proof.
  intros V H Hm. unfold new_inner. rewrite (new_lim_ok c it V H).
  destruct (strategy_eqb (istr it) SCount) eqn:S; simpl.
  - apply strategy_eqb_eq in S.
    unfold valid_cfg, item_ok in *.
    destruct (ck c) eqn:K; destruct (idet it) eqn:D; try contradiction.
    + eexists. split; [reflexivity|]. unfold inner_ok, mi_resize. simpl.
      rewrite wrapu32_id31 by lia. rewrite wrap32_id31 by lia.
      pose proof (reserve_range m ltac:(lia)) as R.
      repeat split; auto. exists m, (reserve_of true m).
      rewrite wrapu32_id31 by lia. repeat split; auto; lia.
    + eexists. split; [reflexivity|]. unfold inner_ok, tb_resize. simpl.
      rewrite !wrapu32_id31 by lia.
      repeat split; auto. exists q, b, q, b. repeat split; auto; lia.
  - eexists. split; [reflexivity|]. unfold inner_ok. simpl. repeat split; auto.
    intros E. rewrite E in S. discriminate.
Qed.

(* the resize path of Sync; the limiter may have been synced under earlier limits [c0] of the same type *)
Lemma inner_resize_ok c0 c maxrt i ito it : valid_cfg c -> ck c0 = ck c ->
  item_ok c0 ito -> inner_ok (ck c) maxrt i ito -> item_ok c it -> istr ito = istr it ->
  match idet it with
  | DMI m => inner_ok (ck c) maxrt (inner_resize true true i (wrapu32 m) 0) it
  | DTB q b => inner_ok (ck c) maxrt (inner_resize true true i (wrapu32 q) (wrapu32 b)) it
  | _ => True
  end.
Proof.
  intros V K0 Ho Hi Hn Hs. unfold valid_cfg, item_ok, inner_ok, inner_resize in *. rewrite K0 in Ho.
  destruct (iw i) eqn:W.
  - (* emptyGlobalWrapper *)
    destruct Hi as (H1 & H2 & H3 & H4).
    destruct (ck c) eqn:K; destruct (idet it) eqn:D; try contradiction;
      destruct (idet ito) eqn:Do; try contradiction; simpl in *; rewrite W, H2; simpl.
    + rewrite wrapu32_id31 by lia. repeat split; auto. congruence.
    + rewrite !wrapu32_id31 by lia. repeat split; auto. congruence.
  - (* maxInflightWrapper *)
    destruct Hi as (H1 & H2 & m0 & n & H3 & H4 & H5 & H6 & H7 & H8 & H9).
    rewrite H2 in *. destruct (idet it) eqn:D; try contradiction.
    unfold mi_resize. simpl. rewrite W.
    rewrite wrapu32_id31 by lia. rewrite wrap32_id31 by lia.
    pose proof (reserve_range m ltac:(lia)) as R.
    repeat split; auto; [congruence|].
    destruct (iun i).
    + set (v := if m <? ifb i then m else ifb i).
      assert (0 <= v <= m) by (subst v; destruct (m <? ifb i) eqn:E; lia).
      exists m, v. rewrite H6. simpl. rewrite wrapu32_id31 by lia. repeat split; auto; lia.
    + exists m, (reserve_of true m). rewrite H6. simpl. rewrite wrapu32_id31 by lia.
      repeat split; auto; lia.
  - (* tokenBucketWrapper *)
    destruct Hi as (H1 & H2 & H3 & q0 & b0 & q' & b' & H4 & H5 & H6 & H7 & H8 & H9 & H10 & H11).
    rewrite H2 in *. destruct (idet it) eqn:D; try contradiction.
    unfold tb_resize. simpl. rewrite W.
    rewrite !wrapu32_id31 by lia.
    repeat split; auto; [congruence|].
    destruct (iun i) eqn:U.
    + set (v := if q <? ifb i then q else ifb i). set (u := if b <? ifb i then b else ifb i).
      assert (0 <= v <= q /\ 0 <= u <= b) by (subst v u; destruct (q <? ifb i) eqn:E; destruct (b <? ifb i) eqn:E'; lia).
      exists q, b, v, u. rewrite H7. simpl. rewrite !wrapu32_id31 by lia.
      repeat split; auto; try lia; discriminate.
    + exists q, b, q, b. rewrite H7. simpl. repeat split; auto; lia.
Qed.

(* remoteWrapper.Sync under the limits [c]; the wrapper may have been kept under earlier limits [c0] *)
Lemma rw_sync_ok c0 c maxrt t w it0 : valid_cfg c -> ck c0 = ck c -> 0 <= maxrt -> wrap_ok c0 maxrt w ->
  exists w', rw_sync true true c t w it0 = Some w' /\
    match sanitize c it0 with
    | None => w' = w
    | Some it => wrap_ok c maxrt w' /\ rcfg w' = Some it /\ rin w' <> None
    end.
Proof.
  intros V K0 Hm Hw. unfold rw_sync.
  destruct (sanitize c it0) as [it|] eqn:S; [|exists w; auto].
  destruct (sanitize_ok c it0 it V S) as (Hit & _ & _).
  destruct (rcfg_is w it) eqn:E.
  { exists w. split; [reflexivity|].
    unfold rcfg_is in E. destruct (rcfg w) as [x|] eqn:R; [|discriminate].
    apply item_eqb_eq in E. subst x.
    unfold wrap_ok in *. destruct (rin w) as [i|]; [|congruence].
    destruct Hw as (it' & R' & _ & Hi). rewrite R in R'. inversion R'; subst it'.
    split; [|split; [reflexivity|discriminate]]. exists it. rewrite <- K0. auto. }
  destruct (new_inner_ok c maxrt t it V Hit Hm) as (i' & Hn & Hi' & _).
  assert (Rec : exists w', match new_inner true true t it with
                           | Some i => Some {| rin := Some i; rcfg := Some it |}
                           | None => None end = Some w' /\ wrap_ok c maxrt w' /\ rcfg w' = Some it /\ rin w' <> None).
  { rewrite Hn. eexists. split; [reflexivity|]. unfold wrap_ok. simpl.
    split; [exists it; auto|]. split; [reflexivity|discriminate]. }
  destruct (rin w) as [i|] eqn:Ri; [|exact Rec].
  destruct (negb (ltype_eqb (lim_type (il i)) (det_type (idet it))) || negb (strategy_eqb (rcfg_strategy w) (istr it))) eqn:B;
    [exact Rec|].
  apply orb_false_iff in B. destruct B as [_ B]. apply negb_false_iff, strategy_eqb_eq in B.
  unfold wrap_ok in Hw. rewrite Ri in Hw. destruct Hw as (ito & Ro & Hito & Hio).
  unfold rcfg_strategy in B. rewrite Ro in B. rewrite K0 in Hio.
  pose proof (inner_resize_ok c0 c maxrt i ito it V K0 Hito Hio Hit B) as HR.
  unfold item_ok in Hit.
  destruct (idet it) eqn:D; destruct (ck c) eqn:K; try contradiction.
  - assert (G : (if g1 c <? m then g1 c else m) = m) by (destruct (g1 c <? m) eqn:G; lia).
    rewrite G. eexists. split; [reflexivity|]. unfold wrap_ok. simpl.
    split; [exists it; repeat split; auto; [unfold item_ok; rewrite D, K; auto|rewrite K; exact HR]|].
    split; [reflexivity|discriminate].
  - assert (G : (if g1 c <? q then g1 c else q) = q) by (destruct (g1 c <? q) eqn:G; lia).
    rewrite G. eexists. split; [reflexivity|]. unfold wrap_ok. simpl.
    split; [exists it; repeat split; auto; [unfold item_ok; rewrite D, K; auto|rewrite K; exact HR]|].
    split; [reflexivity|discriminate].
Qed.

Lemma zmax_ge a b : a <= zmax a b /\ b <= zmax a b.
Proof. unfold zmax. destruct (a <? b) eqn:E; lia. Qed.

Lemma set_limit_ok c maxrt i it r rt : valid_cfg c -> item_ok c it -> inner_ok (ck c) maxrt i it ->
  exists i', set_limit true c i r rt = Some i' /\ inner_ok (ck c) (zmax maxrt rt) i' it.
Proof.
  intros V Hit Hi. pose proof (zmax_ge maxrt rt) as [Z1 Z2].
  assert (Hmono : inner_ok (ck c) (zmax maxrt rt) i it) by (apply inner_ok_mono with (m := maxrt); assumption).
  unfold set_limit. destruct (iw i) eqn:W; [exists i; auto| |].
  - (* maxInflightWrapper *)
    destruct ((0 <? rt) && (rt <=? ilast i)) eqn:St; [exists i; auto|].
    unfold inner_ok in Hi. rewrite W in Hi.
    destruct Hi as (H1 & H2 & m & n & H3 & H4 & H5 & H6 & H7 & H8 & H9).
    unfold valid_cfg, item_ok in *. rewrite H2 in *. rewrite H3 in Hit.
    pose proof (reserve_range m ltac:(lia)) as R.
    destruct r as [mx rate| |[|] limit]; [|exists i; auto| |].
    + destruct (iun i) eqn:U; [exists i; auto|].
      eexists. split; [reflexivity|]. unfold inner_ok. simpl.
      repeat split; auto. rewrite H6. simpl.
      set (x := if mx <? l1 c then l1 c else mx).
      set (y := if imax i <? x then imax i else x).
      assert (0 <= y <= m /\ 0 <= x) by (subst x y; rewrite H4; destruct (mx <? l1 c) eqn:E1; destruct (m <? _) eqn:E2; lia).
      exists m, y. rewrite wrapu32_id31 by lia. repeat split; auto; lia.
    + eexists. split; [reflexivity|]. unfold inner_ok. simpl.
      repeat split; auto. rewrite H6. simpl.
      set (x := if limit <? irsv i then irsv i else limit).
      set (y := if imax i <? x then imax i else x).
      assert (0 <= y <= m) by (subst x y; rewrite H4, H5; destruct (limit <? _) eqn:E1; destruct (m <? _) eqn:E2; lia).
      exists m, y. rewrite wrapu32_id31 by lia. repeat split; auto; lia.
    + eexists. split; [reflexivity|]. unfold inner_ok. simpl.
      repeat split; auto. rewrite H6. simpl. rewrite H4.
      pose proof (clamp_range limit 0 m ltac:(lia)) as C.
      exists m, (clamp limit 0 m). rewrite wrapu32_id31 by lia. repeat split; auto; lia.
  - (* tokenBucketWrapper *)
    unfold inner_ok in Hi. rewrite W in Hi.
    destruct Hi as (H1 & H2 & H3 & q & b & q' & b' & H4 & H5 & H6 & H7 & H8 & H9 & H10 & H11).
    unfold valid_cfg, item_ok in *. rewrite H2 in *. rewrite H4 in Hit.
    destruct r as [mx rate| |[|] limit]; [|exists i; auto| |exists i; auto].
    + destruct (iun i) eqn:U; [exists i; auto|].
      eexists. split; [reflexivity|]. unfold inner_ok. simpl.
      repeat split; auto. rewrite H7. simpl.
      set (x := if rate <? l1 c then l1 c else rate).
      set (y := if iqps i <? x then iqps i else x).
      set (z := if iburst i <? x then iburst i else x).
      assert (0 <= y <= q /\ 0 <= z <= b /\ 0 <= x)
        by (subst x y z; rewrite H5, H6; destruct (rate <? l1 c) eqn:E1; destruct (q <? _) eqn:E2; destruct (b <? _) eqn:E3; lia).
      exists q, b, y, z. rewrite !wrapu32_id31 by lia. repeat split; auto; try lia; discriminate.
    + destruct (iun i) eqn:U; [|exists i; auto].
      eexists. split; [reflexivity|]. unfold inner_ok. simpl.
      repeat split; auto. rewrite H7, H5, H6. simpl.
      exists q, b, q, b. repeat split; auto; lia.
Qed.

(* ---------- the invariant is preserved by every event ---------- *)
Lemma apply_sync_inv maxrt s it : 0 <= maxrt -> present s = true ->
  enable_global (sstr s) = true -> Inv maxrt s -> Inv maxrt (apply_sync true true (scfg s) s it).
Proof.
  intros Hm P G (I1 & V & Ip & I2 & I3). unfold apply_sync.
  assert (Hw : wrap_ok (scfg s) maxrt (match rem s with Some w => w | None => empty_rw end)).
  { destruct (rem s); [assumption|]. unfold wrap_ok, empty_rw. reflexivity. }
  destruct (rw_sync_ok (scfg s) (scfg s) maxrt (now_sec s) _ it V eq_refl Hm Hw) as (w' & E & X). rewrite E.
  unfold Inv, set_rem. simpl. repeat split; auto; try (intros Y; congruence).
  destruct (sanitize (scfg s) it); [tauto|]. subst w'. exact Hw.
Qed.

Lemma config_eqb_eq c c' : kind_eqb (ck c') (ck c) && config_eqb c' c = true -> c' = c.
Proof.
  unfold config_eqb, kind_eqb. destruct c, c'. simpl. intros H.
  apply andb_true_iff in H. destruct H as [Hk H].
  apply andb_true_iff in H. destruct H as [H H4]. apply andb_true_iff in H. destruct H as [H H3].
  apply andb_true_iff in H. destruct H as [H1 H2].
  destruct ck, ck0; try discriminate; f_equal; lia.
Qed.

Lemma kind_eqb_eq a b : kind_eqb a b = true -> a = b.
Proof. destruct a, b; simpl; intros H; try discriminate; reflexivity. Qed.

(* UpstreamLimiter.Sync with a valid schema: added again, unchanged, another type, another strategy, other limits *)
Lemma sync_schema_inv maxrt s c' x : 0 <= maxrt -> valid_cfg c' -> Inv maxrt s ->
  Inv maxrt (sync_schema true true true s c' x).
Proof.
  intros Hm V' I. pose proof I as (I1 & V & Ip & I2 & I3). unfold sync_schema.
  destruct (present s) eqn:P; simpl.
  2:{ unfold Inv, set_cfg. simpl. repeat split; auto. }
  destruct (kind_eqb (ck c') (ck (scfg s)) && config_eqb c' (scfg s) && strategy_eqb x (sstr s)); [assumption|].
  destruct (kind_eqb (ck c') (ck (scfg s))) eqn:K; simpl.
  2:{ unfold Inv, set_cfg. simpl. repeat split; auto. }
  apply kind_eqb_eq in K.
  destruct (enable_global x) eqn:G; simpl.
  2:{ unfold Inv, set_cfg. simpl. repeat split; auto. }
  destruct (rem s) as [w|] eqn:R.
  - unfold wrap_ok in I3.
    destruct (rin w) as [i|] eqn:Ri.
    + destruct I3 as (it & Rc & Hit & Hi). rewrite Rc.
      assert (Hw : wrap_ok (scfg s) maxrt w) by (unfold wrap_ok; rewrite Ri; exists it; auto).
      destruct (rw_sync_ok (scfg s) c' maxrt (now_sec s) w it V' (eq_sym K) Hm Hw) as (w' & E & X). rewrite E.
      destruct (sanitize_same_kind (scfg s) c' it (eq_sym K) Hit) as (it' & Sa). rewrite Sa in X.
      unfold Inv, set_cfg. simpl. repeat split; auto; try (intros Y; congruence). tauto.
    + unfold Inv, set_cfg. simpl. repeat split; auto; try (intros Y; congruence).
      unfold wrap_ok. rewrite Ri. exact I3.
  - unfold Inv, set_cfg. simpl. repeat split; auto.
Qed.

(* the clock of the specification, read off a state *)
Definition clk_of (s : state) (q : Z) : clk := {| k_now := snow s; k_rounds := srounds s; k_quiet := q; k_fail := None |}.

Lemma set_sync_ok k m i it t : inner_ok k m i it -> inner_ok k m (set_sync i t) it.
Proof. unfold inner_ok, set_sync. simpl. auto. Qed.

Lemma Inv_rounds maxrt s n : Inv maxrt s -> Inv maxrt (set_rounds s n).
Proof. unfold Inv, set_rounds. simpl. auto. Qed.

Lemma worker_target_some st s idle w i : worker_target st s idle = Some (w, i) ->
  cs st = CSOk /\ rem s = Some w /\ rin w = Some i /\ has_counter i = true /\
  (idle = false \/ 2 < now_sec s - isync i).
Proof.
  unfold worker_target. destruct (cs st); try discriminate.
  destruct (rem s) as [w0|]; [|discriminate]. destruct (rin w0) as [i0|] eqn:Ri; [|discriminate].
  destruct (has_counter i0 && (negb idle || (2 <? now_sec s - isync i0))) eqn:E; [|discriminate].
  intros H. inversion H; subst. apply andb_true_iff in E. destruct E as [E1 E2].
  repeat split; auto. apply orb_true_iff in E2. destruct E2 as [E2|E2]; [left; destruct idle; auto; discriminate|right; lia].
Qed.

Lemma step_inv st maxrt s e q : 0 <= maxrt -> ev_ok e ->
  Inv maxrt s -> Inv (next_rt maxrt (clk_of s q) e) (step true true true st s e).
Proof.
  intros Hm Ev I. pose proof I as (I1 & V & Ip & I2 & I3).
  unfold step. rewrite I1.
  destruct e as [it|idle sv mx rate|mx rate| |r rt|ok| |ms|x|k x a b g h| |]; simpl next_rt; try assumption.
  - destruct (present s) eqn:P; [|assumption]. simpl.
    destruct (enable_global (sstr s)) eqn:G; [|assumption]. apply apply_sync_inv; auto.
  - (* a worker round *)
    pose proof (zmax_ge maxrt (worker_rt (clk_of s q))) as [Z1 Z2].
    assert (I1' : Inv (zmax maxrt (worker_rt (clk_of s q))) (set_rounds s (srounds s + 1)))
      by (apply Inv_rounds; apply Inv_mono with (m := maxrt); assumption).
    destruct (worker_target st s idle) as [[w i]|] eqn:T; [|exact I1'].
    destruct (worker_target_some st s idle w i T) as (_ & R & Ri & _).
    rewrite R in I3. unfold wrap_ok in I3. rewrite Ri in I3. destruct I3 as (it & Rc & Hit & Hi).
    destruct (set_limit_ok (scfg s) maxrt i it (reply_of sv mx rate) (request_time s) V Hit Hi) as (i' & E & Hi').
    destruct sv; try exact I1'; rewrite E;
      (unfold Inv, set_rem, set_rounds; simpl; repeat split; auto;
       try (intros X; specialize (I2 X); congruence); try (intros X; specialize (Ip X); congruence);
       unfold wrap_ok; simpl; exists it; repeat split; auto; apply set_sync_ok; exact Hi').
  - (* a watchdog tick *)
    destruct (rem s) as [w|] eqn:R; [|assumption].
    destruct (rin w) as [i|] eqn:Ri; [|assumption].
    destruct (has_counter i && (4 <? now_sec s - isync i)); [|assumption].
    unfold wrap_ok in I3. rewrite Ri in I3. destruct I3 as (it & Rc & Hit & Hi).
    destruct (set_limit_ok (scfg s) maxrt i it (RErr mx rate) 0 V Hit Hi) as (i' & E & Hi'). rewrite E.
    unfold Inv, set_rem. simpl. repeat split; auto; try (intros X; specialize (I2 X); discriminate);
      try (intros X; specialize (Ip X); discriminate).
    unfold wrap_ok. simpl. exists it. repeat split; auto.
    apply inner_ok_mono with (m := zmax maxrt 0); [|exact Hi']. unfold zmax. destruct (maxrt <? 0) eqn:X; lia.
  - destruct (present s) eqn:P; [|assumption]. simpl.
    destruct (strategy_eqb (sstr s) SCount) eqn:G; [|assumption].
    apply strategy_eqb_eq in G. apply apply_sync_inv; auto. rewrite G. reflexivity.
  - pose proof (zmax_ge maxrt rt) as [Z1 Z2].
    destruct (rem s) as [w|] eqn:R; [|apply Inv_mono with (m := maxrt); assumption].
    destruct (rin w) as [i|] eqn:Ri; [|apply Inv_mono with (m := maxrt); assumption].
    unfold wrap_ok in I3. rewrite Ri in I3. destruct I3 as (it & Rc & Hit & Hi).
    destruct (set_limit_ok (scfg s) maxrt i it r rt V Hit Hi) as (i' & E & Hi'). rewrite E.
    unfold Inv, set_rem. simpl. repeat split; auto; try (intros X; specialize (I2 X); discriminate);
      try (intros X; specialize (Ip X); discriminate).
    unfold wrap_ok. simpl. exists it. auto.
  - unfold Inv. simpl. auto.
  - apply sync_schema_inv; auto.
  - apply sync_schema_inv; auto.
  - destruct (present s); [|assumption]. unfold Inv. simpl. auto.
  - destruct (present s) eqn:P; [|assumption]. simpl.
    destruct (enable_global (sstr s)) eqn:G; [|assumption].
    destruct (rem s) eqn:R; [assumption|].
    unfold Inv, set_rem. simpl. repeat split; auto; try congruence.
Qed.

(* ---------- which limiter a request meets ---------- *)
Definition has_inner (s : state) : bool :=
  match rem s with
  | Some w => match rin w with Some _ => true | None => false end
  | None => false
  end.
Definition elig (st : static) (s : state) : bool :=
  match md st, cs st with
  | MRemote, CSOk => enable_global (sstr s) && hready s && has_inner s
  | _, _ => false
  end.
Definition remote_lim (s : state) : option lim :=
  match rem s with
  | Some w => match rin w with Some i => Some (il i) | None => None end
  | None => None
  end.

Lemma select_elig st maxrt s : Inv maxrt s -> present s = true ->
  select true st s = if elig st s then SelRemote else SelLocal.
Proof.
  intros (I1 & _ & _ & I2 & _) P. unfold select, elig, is_ready, has_inner. rewrite P. simpl.
  destruct (md st); try reflexivity.
  destruct (sstr s) eqn:S; simpl in *; destruct (cs st); simpl; try reflexivity;
    try (rewrite (I2 eq_refl); destruct (hready s); reflexivity);
    destruct (hready s); simpl; try reflexivity;
    destruct (rem s) as [w|]; try reflexivity; destruct (rin w); reflexivity.
Qed.

Lemma observe_shape st maxrt s : Inv maxrt s -> present s = true ->
  observe true st s =
  let l := if elig st s then remote_lim s else Some (local_lim (scfg s)) in
  {| o_evp := false; o_sel := if elig st s then SelRemote else SelLocal; o_lim := l;
     o_adm := admitted (scfg s) l; o_ready := is_ready st s; o_rem := observe_rem s;
     o_sync := observe_sync s; o_sent := false |}.
Proof.
  intros I P. pose proof I as (I1 & _). unfold observe. rewrite I1.
  rewrite (select_elig st maxrt s I P). unfold remote_lim.
  destruct (elig st s); reflexivity.
Qed.

Lemma observe_absent st maxrt s : Inv maxrt s -> present s = false ->
  observe true st s =
  {| o_evp := false; o_sel := SelDefault; o_lim := Some LInf; o_adm := -1; o_ready := is_ready st s; o_rem := None;
     o_sync := -1; o_sent := false |}.
Proof.
  intros (I1 & _ & Ip & _) P. unfold observe, select, observe_rem, observe_sync. rewrite I1, P, (Ip P). reflexivity.
Qed.

Lemma eligible_observe st maxrt s : Inv maxrt s -> present s = true ->
  eligible st (sstr s) (observe true st s) = elig st s.
Proof.
  intros I P. rewrite (observe_shape st maxrt s I P).
  unfold eligible, elig, synced, has_inner, observe_rem, is_ready, global_strategy, enable_global. simpl.
  destruct (md st); try reflexivity. destruct (cs st); try reflexivity.
  destruct (rem s) as [w|]; [|reflexivity]. destruct (rin w); reflexivity.
Qed.

Lemma local_lim_spec c : valid_cfg c -> local_lim c = local_spec c.
Proof.
  unfold valid_cfg, local_lim, local_spec. intros V. destruct (ck c).
  - rewrite wrapu32_id31 by lia. reflexivity.
  - rewrite !wrapu32_id31 by lia. reflexivity.
Qed.

Lemma remote_bounded maxrt s l : Inv maxrt s -> remote_lim s = Some l ->
  lim_bounded (scfg s) l = true.
Proof.
  intros (_ & V & _ & _ & I3) R. unfold remote_lim in R.
  destruct (rem s) as [w|]; [|discriminate]. unfold wrap_ok in I3.
  destruct (rin w) as [i|]; [|discriminate]. inversion R; subst l; clear R.
  destruct I3 as (it & _ & Hit & Hi). unfold inner_ok in Hi. unfold item_ok in Hit.
  unfold lim_bounded, in_range, valid_cfg in *.
  destruct (iw i).
  - destruct Hi as (_ & E & _). rewrite E.
    destruct (ck (scfg s)); destruct (idet it); try contradiction; simpl; lia.
  - destruct Hi as (_ & K & m & n & D & _ & _ & E & Hn & _). rewrite E, K in *. rewrite D in Hit. lia.
  - destruct Hi as (_ & K & _ & q & b & q' & b' & D & _ & _ & E & Hq & Hb & _). rewrite E, K in *. rewrite D in Hit. lia.
Qed.

Lemma admitted_le c n : admitted c (Some (LMI n)) <= n.
Proof. unfold admitted. destruct (probe_cap c <? n) eqn:E; lia. Qed.

(* ---------- the state clauses of the specification ---------- *)
Lemma bound_holds st maxrt s : Inv maxrt s -> present s = true -> bound_ok (scfg s) (observe true st s) = true.
Proof.
  intros I P. pose proof I as (_ & V & _). rewrite (observe_shape st maxrt s I P). unfold bound_ok. simpl.
  destruct (elig st s) eqn:E.
  - unfold elig in E. destruct (md st); try discriminate. destruct (cs st); try discriminate.
    apply andb_true_iff in E. destruct E as [_ E]. unfold has_inner in E.
    destruct (remote_lim s) as [l|] eqn:R.
    + pose proof (remote_bounded maxrt s l I R) as B. rewrite B. simpl.
      unfold lim_bounded, in_range in B. destruct (ck (scfg s)); [|reflexivity].
      destruct l; try discriminate. pose proof (admitted_le (scfg s) n) as A. unfold admitted in *. lia.
    + unfold remote_lim in R. destruct (rem s) as [w|]; [|discriminate]. destruct (rin w); discriminate.
  - rewrite (local_lim_spec _ V). unfold local_spec, lim_bounded, in_range, valid_cfg in *.
    destruct (ck (scfg s)); simpl.
    + pose proof (admitted_le (scfg s) (l1 (scfg s))) as A. unfold admitted in *. lia.
    + lia.
Qed.

Lemma absent_holds st maxrt s : Inv maxrt s -> present s = false -> absent_ok (observe true st s) = true.
Proof. intros I P. rewrite (observe_absent st maxrt s I P). reflexivity. Qed.

Lemma fallback_holds st maxrt s : Inv maxrt s -> present s = true ->
  fallback_ok st (scfg s) (sstr s) (observe true st s) = true.
Proof.
  intros I P. pose proof I as (_ & V & _). unfold fallback_ok. rewrite (eligible_observe st maxrt s I P).
  rewrite (observe_shape st maxrt s I P). simpl.
  destruct (elig st s); [reflexivity|]. rewrite (local_lim_spec _ V). apply lim_eqb_refl.
Qed.

Lemma inforce_holds st maxrt s : Inv maxrt s -> present s = true ->
  inforce_ok st (sstr s) (observe true st s) = true.
Proof.
  intros I P. unfold inforce_ok. rewrite (eligible_observe st maxrt s I P).
  rewrite (observe_shape st maxrt s I P). simpl.
  destruct (elig st s) eqn:E; [|reflexivity].
  unfold elig in E. destruct (md st); try discriminate. destruct (cs st); try discriminate.
  apply andb_true_iff in E. destruct E as [_ E]. unfold has_inner in E.
  unfold remote_lim, observe_rem. destruct (rem s) as [w|]; [|discriminate].
  destruct (rin w); [|discriminate]. simpl. apply lim_eqb_refl.
Qed.

Lemma observe_rem_eq st maxrt s : Inv maxrt s ->
  o_rem (observe true st s) = observe_rem s /\ o_evp (observe true st s) = false.
Proof.
  intros I. destruct (present s) eqn:P.
  - rewrite (observe_shape st maxrt s I P). simpl. auto.
  - rewrite (observe_absent st maxrt s I P). simpl. destruct I as (_ & _ & Ip & _).
    unfold observe_rem. rewrite (Ip P). auto.
Qed.

Lemma nopanic_holds st maxrt s : Inv maxrt s -> nopanic_ok (observe true st s) = true.
Proof.
  intros I. destruct (present s) eqn:P.
  - rewrite (observe_shape st maxrt s I P). unfold nopanic_ok. simpl. destruct (elig st s); reflexivity.
  - rewrite (observe_absent st maxrt s I P). reflexivity.
Qed.
Lemma not_stale maxrt rt last : fresh maxrt rt = true -> last <= maxrt ->
  (0 <? rt) && (rt <=? last) = false.
Proof. unfold fresh. intros F L. destruct (0 <? rt) eqn:A; destruct (rt <=? last) eqn:B; simpl; try reflexivity. lia. Qed.

Lemma ilast_le k maxrt i it : inner_ok k maxrt i it -> iw i = WMI -> ilast i <= maxrt.
Proof. unfold inner_ok. intros H W. rewrite W in H. destruct H as (_ & _ & m & n & _ & _ & _ & _ & _ & H & _). exact H. Qed.

Lemma zmin_zmax_eq a b m : (if m <? (if a <? b then b else a) then m else (if a <? b then b else a)) = zmin (zmax a b) m.
Proof. unfold zmin, zmax. destruct (a <? b) eqn:E1; destruct (m <? _) eqn:E2; destruct (_ <? m) eqn:E3; lia. Qed.

Lemma set_limit_mi_err c maxrt i it m mx rate rt : valid_cfg c -> item_ok c it -> inner_ok (ck c) maxrt i it ->
  iw i = WMI -> iun i = false -> (0 <? rt) && (rt <=? ilast i) = false -> idet it = DMI m ->
  exists i', set_limit true c i (RErr mx rate) rt = Some i' /\ iw i' = WMI /\ iun i' = true /\
             il i' = LMI (zmin (zmax mx (l1 c)) m).
Proof.
  intros V Hit Hi W U F D. unfold inner_ok in Hi. rewrite W in Hi.
  destruct Hi as (H1 & H2 & m0 & n & H3 & H4 & H5 & H6 & H7 & H8 & H9).
  rewrite D in H3. injection H3 as Hm0. rewrite <- Hm0 in *. clear Hm0.
  unfold set_limit. rewrite W, F, U, H2.
  eexists. split; [reflexivity|]. simpl. repeat split.
  rewrite H6, H4. simpl. rewrite zmin_zmax_eq.
  unfold valid_cfg, item_ok in *. rewrite H2 in *. rewrite D in Hit.
  rewrite wrapu32_id31; [reflexivity|].
  unfold zmin, zmax. zcases; lia.
Qed.

Lemma set_limit_mi_accept c maxrt i it m limit rt : valid_cfg c -> item_ok c it -> inner_ok (ck c) maxrt i it ->
  iw i = WMI -> (0 <? rt) && (rt <=? ilast i) = false -> idet it = DMI m ->
  exists i', set_limit true c i (ROk true limit) rt = Some i' /\ iw i' = WMI /\ iun i' = false /\ iover i' = false /\
             il i' = LMI (zmin (zmax limit (reserve_of true m)) m).
Proof.
  intros V Hit Hi W F D. unfold inner_ok in Hi. rewrite W in Hi.
  destruct Hi as (H1 & H2 & m0 & n & H3 & H4 & H5 & H6 & H7 & H8 & H9).
  rewrite D in H3. injection H3 as Hm0. rewrite <- Hm0 in *. clear Hm0.
  unfold set_limit. rewrite W, F.
  eexists. split; [reflexivity|]. simpl. repeat split.
  rewrite H6, H4, H5. simpl. rewrite zmin_zmax_eq.
  unfold valid_cfg, item_ok in *. rewrite H2 in *. rewrite D in Hit.
  pose proof (reserve_range m ltac:(lia)) as R.
  rewrite wrapu32_id31; [reflexivity|].
  unfold zmin, zmax. zcases; lia.
Qed.

Lemma set_limit_tb_err c maxrt i it q b mx rate rt : valid_cfg c -> item_ok c it -> inner_ok (ck c) maxrt i it ->
  iw i = WTB -> iun i = false -> idet it = DTB q b ->
  exists i', set_limit true c i (RErr mx rate) rt = Some i' /\ iw i' = WTB /\ iun i' = true /\
             il i' = LTB (zmin (zmax rate (l1 c)) q) (zmin (zmax rate (l1 c)) b).
Proof.
  intros V Hit Hi W U D. unfold inner_ok in Hi. rewrite W in Hi.
  destruct Hi as (H1 & H2 & H3 & q0 & b0 & q' & b' & H4 & H5 & H6 & H7 & H8 & H9 & H10 & H11).
  rewrite D in H4. injection H4 as Hq0 Hb0. rewrite <- Hq0, <- Hb0 in *. clear Hq0 Hb0.
  unfold set_limit. rewrite W, U, H2.
  eexists. split; [reflexivity|]. simpl. repeat split.
  rewrite H7, H5, H6. simpl. rewrite !zmin_zmax_eq.
  unfold valid_cfg, item_ok in *. rewrite H2 in *. rewrite D in Hit.
  rewrite !wrapu32_id31; [reflexivity| |]; unfold zmin, zmax; zcases; lia.
Qed.

Lemma set_limit_tb_accept c maxrt i it q b limit rt : valid_cfg c -> item_ok c it -> inner_ok (ck c) maxrt i it ->
  iw i = WTB -> idet it = DTB q b ->
  exists i', set_limit true c i (ROk true limit) rt = Some i' /\ iw i' = WTB /\ iun i' = false /\ il i' = LTB q b.
Proof.
  intros V Hit Hi W D. unfold inner_ok in Hi. rewrite W in Hi.
  destruct Hi as (H1 & H2 & H3 & q0 & b0 & q' & b' & H4 & H5 & H6 & H7 & H8 & H9 & H10 & H11).
  rewrite D in H4. injection H4 as Hq0 Hb0. rewrite <- Hq0, <- Hb0 in *. clear Hq0 Hb0.
  unfold set_limit. rewrite W. destruct (iun i) eqn:U.
  - eexists. split; [reflexivity|]. simpl. repeat split. rewrite H7, H5, H6. reflexivity.
  - exists i. repeat split; auto. destruct (H10 eq_refl) as [-> ->]. exact H7.
Qed.

(* ---------- the counter of the schema and the clock of the specification ---------- *)
Definition counter_of (s : state) : option inner :=
  match rem s with
  | Some w => match rin w with Some i => if has_counter i then Some i else None | None => None end
  | None => None
  end.

(* the specification's clock agrees with the state, and the silence it measures is not longer than the
   one the watchdog of the counter sees: lastSync <= the time of the last noisy event *)
Definition HbCtx (k : clk) (s : state) : Prop :=
  0 <= hage s /\ match k_fail k with Some t0 => hlast s = false /\ k_now k - t0 <= hage s | None => True end.

Definition Ctx (k : clk) (s : state) : Prop :=
  snow s = k_now k /\ srounds s = k_rounds k /\ 0 <= k_quiet k <= k_now k /\
  (forall i, counter_of s = Some i -> isync i <= k_quiet k / 1000) /\ HbCtx k s.

Lemma has_counter_kind i : has_counter i = true <-> (iw i = WMI \/ iw i = WTB).
Proof. unfold has_counter. destruct (iw i); split; intros H; auto; try discriminate; destruct H; discriminate. Qed.

Lemma has_counter_obs_eq st maxrt s : Inv maxrt s ->
  has_counter_obs (observe true st s) = match counter_of s with Some _ => true | None => false end.
Proof.
  intros I. unfold has_counter_obs, inner_is, rem_of. destruct (observe_rem_eq st maxrt s I) as [-> _].
  unfold observe_rem, counter_of, has_counter. destruct (rem s) as [w|]; [|reflexivity].
  destruct (rin w) as [i|]; [|reflexivity]. simpl. destruct (iw i); reflexivity.
Qed.

Lemma new_inner_sync fx fy t it i : new_inner fx fy t it = Some i -> isync i = t.
Proof.
  unfold new_inner. destruct (negb (strategy_eqb (istr it) SCount)); [intros H; inversion H; reflexivity|].
  destruct (idet it); intros H; inversion H; reflexivity.
Qed.

Lemma inner_resize_sync fx fy i n b : isync (inner_resize fx fy i n b) = isync i /\ iw (inner_resize fx fy i n b) = iw i.
Proof. unfold inner_resize. destruct (iw i) eqn:W; simpl; auto. Qed.

Lemma set_limit_keep fx c i r rt i' : set_limit fx c i r rt = Some i' -> isync i' = isync i /\ iw i' = iw i.
Proof.
  unfold set_limit. destruct (iw i) eqn:W.
  - intros H; inversion H; subst; auto.
  - destruct ((0 <? rt) && (rt <=? ilast i)); [intros H; inversion H; subst; auto|].
    destruct r as [mx rate| |[|] limit]; try (intros H; inversion H; subst; simpl; auto; fail).
    destruct (iun i); [intros H; inversion H; subst; auto|]. destruct (ck c); intros H; inversion H; subst; simpl; auto.
  - destruct r as [mx rate| |[|] limit]; try (intros H; inversion H; subst; simpl; auto; fail).
    + destruct (iun i); [intros H; inversion H; subst; auto|]. destruct (ck c); intros H; inversion H; subst; simpl; auto.
    + destruct (iun i); intros H; inversion H; subst; simpl; auto.
Qed.

(* Sync either keeps the limiter (and its counter) or builds a new one whose counter starts now *)
Lemma rw_sync_sync fx fy c t w it0 w' i' : rw_sync fx fy c t w it0 = Some w' -> rin w' = Some i' ->
  isync i' = t \/ (exists i, rin w = Some i /\ isync i' = isync i /\ iw i' = iw i).
Proof.
  unfold rw_sync. destruct (if fx then sanitize c it0 else Some it0) as [it|].
  2:{ intros H R. inversion H; subst. right. exists i'. auto. }
  destruct (rcfg_is w it). { intros H R. inversion H; subst. right. exists i'. auto. }
  assert (Rec : match new_inner fx fy t it with
                | Some i => Some {| rin := Some i; rcfg := Some it |} | None => None end = Some w' ->
                rin w' = Some i' -> isync i' = t).
  { destruct (new_inner fx fy t it) as [i|] eqn:N; [|discriminate]. intros H R. inversion H; subst. simpl in R.
    inversion R; subst. eapply new_inner_sync; eauto. }
  destruct (rin w) as [i|] eqn:Ri; [|intros H R; left; auto].
  destruct (negb (ltype_eqb (lim_type (il i)) (det_type (idet it))) || negb (strategy_eqb (rcfg_strategy w) (istr it)));
    [intros H R; left; auto|].
  destruct (idet it); destruct (ck c); try (intros H R; left; auto; fail); try discriminate;
    intros H R; inversion H; subst; simpl in R; inversion R; subst; right; exists i;
    (split; [reflexivity|apply inner_resize_sync]).
Qed.

(* the periodic config sync of a global-count schema never replaces an existing counter *)
Lemma cfgsync_keeps maxrt s i : Inv maxrt s -> counter_of s = Some i ->
  exists w', rw_sync true true (scfg s) (now_sec s) (match rem s with Some w => w | None => empty_rw end)
                     {| idet := global_detail (scfg s); istr := SCount |} = Some w' /\
             exists i', rin w' = Some i' /\ isync i' = isync i /\ iw i' = iw i.
Proof.
  intros (I1 & V & Ip & I2 & I3) C. unfold counter_of in C.
  destruct (rem s) as [w|] eqn:R; [|discriminate]. destruct (rin w) as [i0|] eqn:Ri; [|discriminate].
  destruct (has_counter i0) eqn:H; [|discriminate]. inversion C; subst i0; clear C.
  unfold wrap_ok in I3. rewrite Ri in I3. destruct I3 as (it & Rc & Hit & Hi).
  unfold rw_sync.
  assert (Sa : sanitize (scfg s) {| idet := global_detail (scfg s); istr := SCount |}
               = Some {| idet := global_detail (scfg s); istr := SCount |}).
  { unfold sanitize, global_detail, valid_cfg in *. destruct (ck (scfg s)); simpl; rewrite !clamp_id by lia; reflexivity. }
  rewrite Sa. destruct (rcfg_is w _). { eexists. split; [reflexivity|]. exists i. auto. }
  rewrite Ri. unfold inner_ok in Hi. unfold rcfg_strategy. rewrite Rc.
  apply has_counter_kind in H. unfold global_detail.
  destruct H as [W|W]; rewrite W in Hi.
  - destruct Hi as (S & K & m & n & D & _ & _ & L & _). rewrite K, L, S. simpl.
    eexists. split; [reflexivity|]. eexists. split; [reflexivity|]. apply inner_resize_sync.
  - destruct Hi as (S & K & _ & q & b & q' & b' & D & _ & _ & L & _). rewrite K, L, S. simpl.
    eexists. split; [reflexivity|]. eexists. split; [reflexivity|]. apply inner_resize_sync.
Qed.

(* ---------- what a step does to presence, schema, strategy and clock ---------- *)
Lemma sync_schema_proj s c' x :
  let s' := sync_schema true true true s c' x in
  present s' = true /\ scfg s' = c' /\ sstr s' = x /\ hage s' = hage s /\ snow s' = snow s /\ srounds s' = srounds s.
Proof.
  unfold sync_schema. destruct (present s) eqn:P; simpl; [|repeat split; auto].
  destruct (kind_eqb (ck c') (ck (scfg s)) && config_eqb c' (scfg s) && strategy_eqb x (sstr s)) eqn:E.
  - apply andb_true_iff in E. destruct E as [E1 E2]. apply config_eqb_eq in E1. apply strategy_eqb_eq in E2. subst. repeat split; auto.
  - destruct (kind_eqb _ _); simpl; [|repeat split; auto]. destruct (enable_global x); simpl; [|repeat split; auto].
    destruct (rem s) as [w|]; [|repeat split; auto]. destruct (rin w); [|repeat split; auto]. destruct (rcfg w); [|repeat split; auto].
    destruct (rw_sync _ _ _ _ _ _); repeat split; auto.
Qed.

Definition next_now (n : Z) (e : ev) : Z := match e with EElapse ms => n + (if ms <? 0 then 0 else ms) | _ => n end.
Definition next_rounds (n : Z) (e : ev) : Z := match e with EWorker _ _ _ _ => n + 1 | _ => n end.

Lemma step_proj st s e : crashed s = false ->
  let s' := step true true true st s e in
  present s' = next_present (present s) e /\ scfg s' = next_cfg (scfg s) e /\ sstr s' = next_str (sstr s) e /\
  snow s' = next_now (snow s) e /\ srounds s' = next_rounds (srounds s) e.
Proof.
  intros Cr. unfold step. rewrite Cr.
  destruct e as [it|idle sv mx rate|mx rate| |r rt|ok| |ms|x|k x a b g h| |]; simpl.
  - destruct (present s && enable_global (sstr s)); [|repeat split; auto]. unfold apply_sync. destruct (rw_sync _ _ _ _ _ _); repeat split; auto.
  - destruct (worker_target st s idle) as [[w i]|]; [|repeat split; auto].
    destruct sv; try (repeat split; auto; fail); destruct (set_limit _ _ _ _ _); repeat split; auto.
  - destruct (rem s) as [w|]; [|repeat split; auto]. destruct (rin w) as [i|]; [|repeat split; auto].
    destruct (has_counter i && _); [|repeat split; auto]. destruct (set_limit _ _ _ _ _); repeat split; auto.
  - destruct (present s && strategy_eqb (sstr s) SCount); [|repeat split; auto]. unfold apply_sync. destruct (rw_sync _ _ _ _ _ _); repeat split; auto.
  - destruct (rem s) as [w|]; [|repeat split; auto]. destruct (rin w); [|repeat split; auto]. destruct (set_limit _ _ _ _ _); repeat split; auto.
  - repeat split; auto.
  - repeat split; auto.
  - repeat split; auto.
  - destruct (sync_schema_proj s (scfg s) x) as (A & B & C & _ & D & E). repeat split; auto.
  - destruct (sync_schema_proj s {| ck := k; l1 := a; l2 := b; g1 := g; g2 := h |} x) as (A & B & C & _ & D & E). repeat split; auto.
  - destruct (present s) eqn:P; simpl; repeat split; auto.
  - destruct (present s && enable_global (sstr s)); [|repeat split; auto]. destruct (rem s); repeat split; auto.
Qed.

(* the counter after a step: the old one (same lastSync), or one whose lastSync is "now" — and then the
   specification's silence starts anew as well (the event is noisy) *)
Definition stamp_cond (st : static) (s : state) (e : ev) : Prop :=
  match e with
  | EQuota _ | EStrategy _ | ESchema _ _ _ _ _ _ | EDelete | EEnable => True
  | ECfgSync => counter_of s = None
  | EWorker _ sv _ _ => sent_in st s e = true /\ is_omit sv = false
  | _ => False
  end.

Arguments stamp_cond : simpl never.
Arguments sent_in : simpl never.

Lemma counter_of_set_rem s w' :
  counter_of (set_rem s (Some w')) = match rin w' with Some i => if has_counter i then Some i else None | None => None end.
Proof. reflexivity. Qed.

Lemma counter_via_sync s t w it0 w' i' :
  rw_sync true true (scfg s) t (match rem s with Some w => w | None => empty_rw end) it0 = Some w' ->
  rem s = w -> rin w' = Some i' -> has_counter i' = true ->
  isync i' = t \/ (exists i, counter_of s = Some i /\ isync i' = isync i).
Proof.
  intros E _ R H. destruct (rw_sync_sync _ _ _ _ _ _ _ _ E R) as [X|(i & Ri & X & W)]; [left; exact X|].
  right. exists i. split; [|exact X]. unfold counter_of. destruct (rem s) as [w0|]; [|discriminate].
  rewrite Ri. unfold has_counter in *. rewrite <- W. rewrite H. reflexivity.
Qed.

Lemma sync_schema_counter s c' x i' : counter_of (sync_schema true true true s c' x) = Some i' ->
  isync i' = now_sec s \/ exists i, counter_of s = Some i /\ isync i' = isync i.
Proof.
  unfold sync_schema. destruct (present s); simpl; [|unfold counter_of; simpl; discriminate].
  destruct (_ && _ && _); [intros C; right; exists i'; auto|].
  destruct (kind_eqb _ _); simpl; [|unfold counter_of; simpl; discriminate].
  destruct (enable_global x); simpl; [|unfold counter_of; simpl; discriminate].
  destruct (rem s) as [w|] eqn:R; [|unfold counter_of; simpl; discriminate].
  assert (Same : counter_of (set_cfg s c' x (Some w)) = Some i' ->
                 isync i' = now_sec s \/ exists i, counter_of s = Some i /\ isync i' = isync i).
  { intros C. right. exists i'. split; [|reflexivity]. unfold counter_of in *. simpl in C. rewrite R. exact C. }
  destruct (rin w) as [i|] eqn:Ri; [|exact Same].
  destruct (rcfg w) as [it|]; [|exact Same].
  destruct (rw_sync _ _ _ _ _ _) as [w'|] eqn:E.
  - unfold counter_of at 1. simpl. destruct (rin w') as [j|] eqn:Rj; [|discriminate].
    destruct (has_counter j) eqn:H; [|discriminate]. intros C. inversion C; subst j.
    destruct (rw_sync_sync _ _ _ _ _ _ _ _ E Rj) as [X|(i0 & Ri0 & X & W)]; [left; exact X|].
    right. exists i0. split; [|exact X]. unfold counter_of. rewrite R, Ri0. unfold has_counter in *. rewrite <- W, H. reflexivity.
  - intros C. apply Same. unfold counter_of in *. simpl in *. exact C.
Qed.

Lemma counter_step st maxrt s e i' : Inv maxrt s -> ev_ok e ->
  counter_of (step true true true st s e) = Some i' ->
  (exists i, counter_of s = Some i /\ isync i' = isync i) \/ (isync i' = now_sec s /\ stamp_cond st s e).
Proof.
  intros I Ev. pose proof I as (I1 & V & Ip & I2 & I3). unfold step. rewrite I1.
  assert (Keep : forall s', rem s' = rem s -> counter_of s' = Some i' ->
                 (exists i, counter_of s = Some i /\ isync i' = isync i) \/ (isync i' = now_sec s /\ stamp_cond st s e)).
  { intros s' R C. left. exists i'. split; [|reflexivity]. unfold counter_of in *. rewrite <- R. exact C. }
  destruct e as [it|idle sv mx rate|mx rate| |r rt|ok| |ms|x|k x a b g h| |]; simpl.
  - (* quota *)
    destruct (present s && enable_global (sstr s)); [|apply Keep; reflexivity].
    unfold apply_sync. destruct (rw_sync _ _ _ _ _ _) as [w'|] eqn:E; [|apply Keep; reflexivity].
    rewrite counter_of_set_rem. destruct (rin w') as [j|] eqn:R; [|discriminate].
    destruct (has_counter j) eqn:H; [|discriminate]. intros C. inversion C; subst j.
    destruct (counter_via_sync s _ _ it w' i' E eq_refl R H) as [X|X]; [right; split; [exact X|exact Logic.I]|left; exact X].
  - (* worker round *)
    destruct (worker_target st s idle) as [[w i]|] eqn:T; [|apply Keep; reflexivity].
    destruct (worker_target_some st s idle w i T) as (Cs & R & Ri & H & _).
    assert (Sent : sent_in st s (EWorker idle sv mx rate) = true) by (unfold sent_in; rewrite I1, T; reflexivity).
    assert (Del : forall r j, is_omit sv = false ->
              set_limit true (scfg s) i r (request_time s) = Some j ->
              counter_of (set_rem (set_rounds s (srounds s + 1)) (Some {| rin := Some (set_sync j (now_sec s)); rcfg := rcfg w |})) = Some i' ->
              (exists i0, counter_of s = Some i0 /\ isync i' = isync i0) \/ (isync i' = now_sec s /\ stamp_cond st s (EWorker idle sv mx rate))).
    { intros r j Om E C. unfold counter_of, set_rem in C. simpl in C.
      destruct (set_limit_keep _ _ _ _ _ _ E) as [_ W]. unfold has_counter in *. simpl in C. rewrite W in C.
      destruct (iw i); try discriminate; inversion C; subst; simpl; right; (split; [reflexivity|unfold stamp_cond; auto]). }
    destruct sv; try (apply Keep; reflexivity);
      (destruct (set_limit _ _ _ _ _) as [j|] eqn:E; [eapply Del; [reflexivity|exact E]|apply Keep; reflexivity]).
  - (* watchdog *)
    destruct (rem s) as [w|] eqn:R; [|apply Keep; auto].
    destruct (rin w) as [i|] eqn:Ri; [|apply Keep; auto].
    destruct (has_counter i && _); [|apply Keep; auto].
    destruct (set_limit _ _ _ _ _) as [j|] eqn:E; [|apply Keep; auto].
    destruct (set_limit_keep _ _ _ _ _ _ E) as [Sy W].
    unfold set_rem, counter_of at 1. simpl. unfold has_counter. rewrite W. intros C. left. exists i.
    unfold counter_of. rewrite R, Ri. unfold has_counter. destruct (iw i); try discriminate; inversion C; subst; auto.
  - (* config sync *)
    destruct (present s && strategy_eqb (sstr s) SCount); [|apply Keep; reflexivity].
    unfold apply_sync. destruct (counter_of s) as [i|] eqn:Cn.
    + destruct (cfgsync_keeps maxrt s i I Cn) as (w' & E & j & Rj & Sy & W). rewrite E.
      rewrite counter_of_set_rem, Rj. destruct (has_counter j); [|discriminate]. intros C. inversion C; subst j.
      left. exists i. auto.
    + destruct (rw_sync _ _ _ _ _ _) as [w'|] eqn:E; [|intros C; unfold crash, counter_of in C; simpl in C; unfold counter_of in Cn; rewrite Cn in C; discriminate].
      rewrite counter_of_set_rem. destruct (rin w') as [j|] eqn:R; [|discriminate].
      destruct (has_counter j) eqn:H; [|discriminate]. intros C. inversion C; subst j.
      destruct (counter_via_sync s _ _ _ w' i' E eq_refl R H) as [X|(i & X & _)]; [right; split; [exact X|unfold stamp_cond; exact Cn]|].
      rewrite Cn in X. discriminate.
  - (* count reply *)
    destruct (rem s) as [w|] eqn:R; [|apply Keep; auto].
    destruct (rin w) as [i|] eqn:Ri; [|apply Keep; auto].
    destruct (set_limit _ _ _ _ _) as [j|] eqn:E; [|apply Keep; auto].
    destruct (set_limit_keep _ _ _ _ _ _ E) as [Sy W].
    unfold set_rem, counter_of at 1. simpl. unfold has_counter. rewrite W. intros C. left. exists i.
    unfold counter_of. rewrite R, Ri. unfold has_counter. destruct (iw i); try discriminate; inversion C; subst; auto.
  - apply Keep; reflexivity.
  - apply Keep; reflexivity.
  - apply Keep; reflexivity.
  - (* strategy *) intros C. destruct (sync_schema_counter s _ _ _ C) as [G|G];
      [right; split; [exact G|exact Logic.I]|left; exact G].
  - (* schema *) intros C. destruct (sync_schema_counter s _ _ _ C) as [G|G];
      [right; split; [exact G|exact Logic.I]|left; exact G].
  - (* delete *) destruct (present s); [unfold counter_of; simpl; discriminate|apply Keep; reflexivity].
  - (* enable *) destruct (present s && enable_global (sstr s)); [|apply Keep; reflexivity].
    destruct (rem s) eqn:R; [apply Keep; auto|]. unfold counter_of, set_rem. simpl. discriminate.
Qed.

Lemma div1000_mono a b : a <= b -> a / 1000 <= b / 1000.
Proof. intros H. apply Z.div_le_mono; lia. Qed.

Lemma sync_schema_hb s c' x :
  hlast (sync_schema true true true s c' x) = hlast s /\ hage (sync_schema true true true s c' x) = hage s.
Proof.
  unfold sync_schema. destruct (present s); simpl; [|auto].
  destruct (_ && _ && _); [auto|]. destruct (kind_eqb _ _); simpl; [|auto]. destruct (enable_global x); simpl; [|auto].
  destruct (rem s) as [w|]; [|auto]. destruct (rin w); [|auto]. destruct (rcfg w); [|auto].
  destruct (rw_sync _ _ _ _ _ _); auto.
Qed.

(* what a step does to the heartbeat bookkeeping *)
Lemma step_hb st s e : crashed s = false ->
  let s' := step true true true st s e in
  match e with
  | EHb ok => hlast s' = ok /\ hage s' = (if Bool.eqb (hlast s) ok then hage s else 0)
  | ELeader => hlast s' = true /\ hage s' = (if Bool.eqb (hlast s) true then hage s else 0)
  | EElapse ms => hlast s' = hlast s /\ hage s' = hage s + (if ms <? 0 then 0 else ms)
  | _ => hlast s' = hlast s /\ hage s' = hage s
  end.
Proof.
  intros Cr. unfold step. rewrite Cr.
  destruct e as [it|idle sv mx rate|mx rate| |r rt|ok| |ms|x|k x a b g h| |]; simpl.
  - destruct (present s && enable_global (sstr s)); [|auto]. unfold apply_sync. destruct (rw_sync _ _ _ _ _ _); auto.
  - destruct (worker_target st s idle) as [[w i]|]; [|auto].
    destruct sv; auto; destruct (set_limit _ _ _ _ _); auto.
  - destruct (rem s) as [w|]; [|auto]. destruct (rin w) as [i|]; [|auto].
    destruct (has_counter i && _); [|auto]. destruct (set_limit _ _ _ _ _); auto.
  - destruct (present s && strategy_eqb (sstr s) SCount); [|auto]. unfold apply_sync. destruct (rw_sync _ _ _ _ _ _); auto.
  - destruct (rem s) as [w|]; [|auto]. destruct (rin w); [|auto]. destruct (set_limit _ _ _ _ _); auto.
  - unfold heartbeat. simpl. destruct (hlast s), ok; auto.
  - unfold heartbeat. simpl. destruct (hlast s); auto.
  - auto.
  - apply sync_schema_hb.
  - apply sync_schema_hb.
  - destruct (present s); auto.
  - destruct (present s && enable_global (sstr s)); [|auto]. destruct (rem s); auto.
Qed.

(* the specification's clock follows the state through every event *)
Lemma ctx_step st maxrt k s e : 0 <= maxrt -> Inv maxrt s -> ev_ok e -> Ctx k s ->
  Ctx (next_clk k (observe true st s) e (with_sent (observe true st (step true true true st s e)) (sent_in st s e)))
      (step true true true st s e).
Proof.
  intros Hm I Ev (Cn & Cr & Cq & Cc & (Ha & Hf)). pose proof I as (I1 & _).
  destruct (step_proj st s e I1) as (_ & _ & _ & Pn & Pr).
  pose proof (step_hb st s e I1) as Hb.
  unfold Ctx, next_clk. simpl.
  split; [rewrite Pn, Cn; destruct e; reflexivity|].
  split; [rewrite Pr, Cr; destruct e; reflexivity|].
  assert (Hn : k_now k <= match e with EElapse ms => k_now k + (if ms <? 0 then 0 else ms) | _ => k_now k end)
    by (destruct e; try apply Z.le_refl; destruct (ms <? 0) eqn:E0; lia).
  split; [destruct (noisy _ _ _); lia|].
  split.
  2:{ (* the run of failed heartbeats *)
    unfold HbCtx, next_fail. simpl.
    destruct e as [it|idle sv mx rate|mx rate| |r rt|ok| |ms|x|kk x a b g h| |]; simpl in *;
      try (destruct Hb as [Hb1 Hb2]; rewrite Hb1, Hb2; split; [exact Ha|exact Hf]).
    - destruct Hb as [Hb1 Hb2]. rewrite Hb1, Hb2. destruct ok.
      + split; [destruct (Bool.eqb (hlast s) true); lia|exact Logic.I].
      + destruct (k_fail k) as [t0|].
        * destruct Hf as [Hl Hg]. rewrite Hl. simpl. auto.
        * split; [destruct (Bool.eqb (hlast s) false); lia|]. split; [reflexivity|destruct (Bool.eqb (hlast s) false); lia].
    - destruct Hb as [Hb1 Hb2]. rewrite Hb2. split; [destruct (Bool.eqb (hlast s) true); lia|exact Logic.I].
    - destruct Hb as [Hb1 Hb2]. rewrite Hb1, Hb2. destruct (ms <? 0) eqn:E0.
      + split; [lia|]. destruct (k_fail k); [|exact Logic.I]. destruct Hf. split; [assumption|lia].
      + split; [lia|]. destruct (k_fail k); [|exact Logic.I]. destruct Hf. split; [assumption|lia]. }
  intros i' C'.
  assert (Now : now_sec s = k_now k / 1000) by (unfold now_sec; rewrite Cn; reflexivity).
  destruct (counter_step st maxrt s e i' I Ev C') as [(i & C & E)|(E & St)].
  - (* the old counter *)
    rewrite E. specialize (Cc i C). destruct (noisy _ _ _); [|exact Cc].
    pose proof (div1000_mono (k_quiet k) (k_now k) ltac:(lia)). lia.
  - (* a counter that starts now: the event is noisy *)
    assert (N : noisy (observe true st s) e (with_sent (observe true st (step true true true st s e)) (sent_in st s e)) = true).
    { unfold noisy. destruct e; unfold stamp_cond in St; try contradiction; try reflexivity.
      - destruct St as [S1 S2]. simpl. rewrite S1, S2. reflexivity.
      - simpl. assert (HI' : Inv (next_rt maxrt (clk_of s 0) ECfgSync) (step true true true st s ECfgSync)) by (apply step_inv; auto).
        assert (X : has_counter_obs (with_sent (observe true st (step true true true st s ECfgSync)) (sent_in st s ECfgSync))
                    = has_counter_obs (observe true st (step true true true st s ECfgSync))) by reflexivity.
        rewrite X, (has_counter_obs_eq st maxrt s I), (has_counter_obs_eq st _ _ HI'), St, C'. reflexivity. }
    rewrite N, E, Now. lia.
Qed.

(* ---------- the reaction clauses: failing / recovery ---------- *)
Definition robs_of (w : rwrap) (i : inner) : robs :=
  {| r_inner := Some (iw i); r_lim := Some (il i); r_unavail := iun i; r_over := iover i; r_cfg := rcfg w |}.

(* an error reply (or the watchdog's timeout) applied to the limiter of state s *)
Lemma err_clause st maxrt s w i i' mx rate rt o' : Inv maxrt s -> rem s = Some w -> rin w = Some i ->
  set_limit true (scfg s) i (RErr mx rate) rt = Some i' -> o_rem o' = Some (robs_of w i') ->
  failing_body (scfg s) maxrt (observe true st s) mx rate rt o' = true.
Proof.
  intros I R Ri E Ho. pose proof I as (I1 & V & Ip & I2 & I3).
  unfold failing_body, rem_of, inner_is, rlim_is, rcfg_det, rem_of.
  destruct (observe_rem_eq st _ _ I) as [-> _]. rewrite Ho.
  unfold observe_rem. rewrite R, Ri. simpl.
  rewrite R in I3. unfold wrap_ok in I3. rewrite Ri in I3. destruct I3 as (it & Rc & Hit & Hi). rewrite Rc.
  destruct (iun i) eqn:U; [reflexivity|]. simpl.
  destruct (iw i) eqn:W; simpl; [reflexivity| |].
  - destruct (fresh maxrt rt) eqn:F; [|reflexivity].
    assert (D : exists m, idet it = DMI m).
    { unfold inner_ok in Hi. rewrite W in Hi. destruct Hi as (_ & _ & m & n & D & _). eauto. }
    destruct D as (m & D). rewrite D.
    destruct (set_limit_mi_err (scfg s) maxrt i it m mx rate rt V Hit Hi W U (not_stale _ _ _ F (ilast_le _ maxrt i it Hi W)) D) as (j & E' & W' & U' & L').
    rewrite E in E'. inversion E'; subst j. rewrite U', L'. simpl. lia.
  - assert (D : exists q b, idet it = DTB q b).
    { unfold inner_ok in Hi. rewrite W in Hi. destruct Hi as (_ & _ & _ & q & b & q' & b' & D & _). eauto. }
    destruct D as (q & b & D). rewrite D.
    destruct (set_limit_tb_err (scfg s) maxrt i it q b mx rate rt V Hit Hi W U D) as (j & E' & W' & U' & L').
    rewrite E in E'. inversion E'; subst j. rewrite U', L'. simpl.
    apply andb_true_iff. split; lia.
Qed.

Lemma acc_clause st maxrt s w i i' limit rt o' : Inv maxrt s -> rem s = Some w -> rin w = Some i ->
  set_limit true (scfg s) i (ROk true limit) rt = Some i' -> o_rem o' = Some (robs_of w i') ->
  recovery_body maxrt (observe true st s) limit rt o' = true.
Proof.
  intros I R Ri E Ho. pose proof I as (I1 & V & Ip & I2 & I3).
  unfold recovery_body, rem_of, inner_is, rlim_is, rcfg_det, rem_of.
  destruct (observe_rem_eq st _ _ I) as [-> _]. rewrite Ho.
  unfold observe_rem. rewrite R, Ri. simpl.
  rewrite R in I3. unfold wrap_ok in I3. rewrite Ri in I3. destruct I3 as (it & Rc & Hit & Hi). rewrite Rc.
  destruct (iw i) eqn:W; simpl; [reflexivity| |].
  - destruct (fresh maxrt rt) eqn:F; [|reflexivity].
    assert (D : exists m, idet it = DMI m).
    { unfold inner_ok in Hi. rewrite W in Hi. destruct Hi as (_ & _ & m & n & D & _). eauto. }
    destruct D as (m & D). rewrite D.
    destruct (set_limit_mi_accept (scfg s) maxrt i it m limit rt V Hit Hi W (not_stale _ _ _ F (ilast_le _ maxrt i it Hi W)) D) as (j & E' & W' & U' & O' & L').
    rewrite E in E'. inversion E'; subst j. rewrite U', O', L'. simpl. lia.
  - assert (D : exists q b, idet it = DTB q b).
    { unfold inner_ok in Hi. rewrite W in Hi. destruct Hi as (_ & _ & _ & q & b & q' & b' & D & _). eauto. }
    destruct D as (q & b & D). rewrite D.
    destruct (set_limit_tb_accept (scfg s) maxrt i it q b limit rt V Hit Hi W D) as (j & E' & W' & U' & L').
    rewrite E in E'. inversion E'; subst j. rewrite U', L'. simpl.
    apply andb_true_iff. split; lia.
Qed.

(* no global-count limiter: nothing is required of a reply *)
Lemma failing_body_nc st maxrt s mx rate rt o' : Inv maxrt s -> counter_of s = None ->
  failing_body (scfg s) maxrt (observe true st s) mx rate rt o' = true.
Proof.
  intros I C. unfold failing_body, inner_is, rlim_is, rcfg_det, rem_of.
  destruct (observe_rem_eq st _ _ I) as [-> _]. unfold observe_rem. unfold counter_of, has_counter in C.
  destruct (rem s) as [w|]; [|reflexivity]. destruct (rin w) as [i|]; [|reflexivity]. simpl.
  destruct (iw i); try discriminate. destruct (iun i); reflexivity.
Qed.

Lemma recovery_body_nc st maxrt s limit rt o' : Inv maxrt s -> counter_of s = None ->
  recovery_body maxrt (observe true st s) limit rt o' = true.
Proof.
  intros I C. unfold recovery_body, inner_is, rlim_is, rcfg_det, rem_of.
  destruct (observe_rem_eq st _ _ I) as [-> _]. unfold observe_rem. unfold counter_of, has_counter in C.
  destruct (rem s) as [w|]; [|reflexivity]. destruct (rin w) as [i|]; [|reflexivity]. simpl.
  destruct (iw i); try discriminate. reflexivity.
Qed.

(* the remote part of the observation after a reply was applied *)
Lemma with_sent_rem o b : o_rem (with_sent o b) = o_rem o /\ o_evp (with_sent o b) = o_evp o /\ o_sent (with_sent o b) = b.
Proof. auto. Qed.

Lemma counter_some s w i : rem s = Some w -> rin w = Some i -> has_counter i = true -> counter_of s = Some i.
Proof. intros R Ri H. unfold counter_of. rewrite R, Ri, H. reflexivity. Qed.

Lemma counter_none_empty s w i : rem s = Some w -> rin w = Some i -> counter_of s = None -> iw i = WEmpty.
Proof. intros R Ri C. unfold counter_of, has_counter in C. rewrite R, Ri in C. destruct (iw i); auto; discriminate. Qed.

(* what reply, if any, the model applies for an event: the same as the specification derives from the
   events and from what the limiter server saw *)
Lemma reply_applied st maxrt k s e r rt : 0 <= maxrt -> ev_ok e -> Inv maxrt s -> Ctx k s ->
  let s' := step true true true st s e in
  let o' := with_sent (observe true st s') (sent_in st s e) in
  as_reply k e o' = Some (r, rt) ->
  counter_of s = None \/
  (exists w i, rem s = Some w /\ rin w = Some i /\
     (iw i = WEmpty \/
      exists i', set_limit true (scfg s) i r rt = Some i' /\ o_rem o' = Some (robs_of w i'))).
Proof.
  intros Hm Ev I (Cn & Cr & Cq & Cc & _) s' o' A. pose proof I as (I1 & V & Ip & I2 & I3).
  pose proof (step_inv st maxrt s e 0 Hm Ev I) as I'. fold s' in I'.
  destruct (observe_rem_eq st _ _ I') as [Or _].
  assert (Orem : o_rem o' = observe_rem s') by (unfold o'; simpl; exact Or).
  destruct (counter_of s) as [ic|] eqn:C; [right|left; reflexivity].
  unfold counter_of in C. destruct (rem s) as [w|] eqn:R; [|discriminate].
  destruct (rin w) as [i|] eqn:Ri; [|discriminate]. destruct (has_counter i) eqn:H; [|discriminate].
  inversion C; subst ic; clear C. exists w, i. split; [reflexivity|]. split; [exact Ri|]. right.
  unfold wrap_ok in I3. rewrite Ri in I3. destruct I3 as (it & Rc & Hit & Hi).
  destruct e as [it0|idle sv mx rate|mx rate| |r0 rt0|ok| |ms|x|kk x a b g h| |]; simpl in A; try discriminate.
  - (* worker round, delivered *)
    unfold o' in A. simpl in A.
    destruct (sent_in st s (EWorker idle sv mx rate)) eqn:Sn; simpl in A; [|discriminate].
    destruct (is_omit sv) eqn:Om; simpl in A; [discriminate|]. inversion A; subst r rt; clear A.
    unfold sent_in in Sn. rewrite I1 in Sn. simpl in Sn.
    destruct (worker_target st s idle) as [[w0 i0]|] eqn:T; [|discriminate].
    destruct (worker_target_some st s idle w0 i0 T) as (_ & R0 & Ri0 & _).
    rewrite R in R0. inversion R0; subst w0. rewrite Ri in Ri0. inversion Ri0; subst i0.
    assert (RT : worker_rt k = request_time s) by (unfold worker_rt, request_time; rewrite Cn, Cr; reflexivity).
    rewrite RT.
    destruct (set_limit_ok (scfg s) maxrt i it (reply_of sv mx rate) (request_time s) V Hit Hi) as (i' & E & _).
    exists i'. split; [exact E|]. rewrite Orem. unfold s', step. rewrite I1, T.
    destruct sv; try discriminate; rewrite E; reflexivity.
  - (* watchdog after a silence *)
    destruct (4 <? k_now k / 1000 - k_quiet k / 1000) eqn:Q; [|discriminate]. inversion A; subst r rt; clear A.
    pose proof (Cc i eq_refl) as Sy.
    assert (Fire : has_counter i && (4 <? now_sec s - isync i) = true).
    { rewrite H. unfold now_sec. rewrite Cn. simpl. lia. }
    destruct (set_limit_ok (scfg s) maxrt i it (RErr mx rate) 0 V Hit Hi) as (i' & E & _).
    exists i'. split; [exact E|]. rewrite Orem. unfold s', step. rewrite I1, R, Ri, Fire, E. reflexivity.
  - (* a reply injected into SetLimit *)
    inversion A; subst r0 rt0; clear A.
    destruct (set_limit_ok (scfg s) maxrt i it r rt V Hit Hi) as (i' & E & _).
    exists i'. split; [exact E|]. rewrite Orem. unfold s', step. rewrite I1, R, Ri, E. reflexivity.
Qed.

Lemma failing_holds st maxrt k s e : 0 <= maxrt -> ev_ok e -> Inv maxrt s -> Ctx k s ->
  failing_ok (scfg s) maxrt k (observe true st s) e
             (with_sent (observe true st (step true true true st s e)) (sent_in st s e)) = true.
Proof.
  intros Hm Ev I C. unfold failing_ok.
  pose proof (step_inv st maxrt s e 0 Hm Ev I) as I'.
  destruct (observe_rem_eq st _ _ I') as [_ Oe]. simpl o_evp. rewrite Oe.
  destruct (as_reply k e _) as [[r rt]|] eqn:A; [|reflexivity].
  destruct r as [mx rate| |]; try reflexivity.
  destruct (reply_applied st maxrt k s e _ _ Hm Ev I C A) as [N|(w & i & R & Ri & [W|(i' & E & Ho)])].
  - apply failing_body_nc; assumption.
  - apply failing_body_nc; [assumption|]. unfold counter_of, has_counter. rewrite R, Ri, W. reflexivity.
  - eapply err_clause; eauto.
Qed.

Lemma recovery_holds st maxrt k s e : 0 <= maxrt -> ev_ok e -> Inv maxrt s -> Ctx k s ->
  recovery_ok (present s) (scfg s) (sstr s) maxrt k (observe true st s) e
              (with_sent (observe true st (step true true true st s e)) (sent_in st s e)) = true.
Proof.
  intros Hm Ev I C. unfold recovery_ok.
  pose proof (step_inv st maxrt s e 0 Hm Ev I) as I'.
  destruct (observe_rem_eq st _ _ I') as [Or Oe]. simpl o_evp. rewrite Oe.
  pose proof I as (I1 & V & Ip & I2 & I3).
  assert (Reply : forall limit rt, as_reply k e (with_sent (observe true st (step true true true st s e)) (sent_in st s e)) = Some (ROk true limit, rt) ->
          recovery_body maxrt (observe true st s) limit rt (with_sent (observe true st (step true true true st s e)) (sent_in st s e)) = true).
  { intros limit rt A.
    destruct (reply_applied st maxrt k s e _ _ Hm Ev I C A) as [N|(w & i & R & Ri & [W|(i' & E & Ho)])].
    - apply recovery_body_nc; assumption.
    - apply recovery_body_nc; [assumption|]. unfold counter_of, has_counter. rewrite R, Ri, W. reflexivity.
    - eapply acc_clause; eauto. }
  destruct e as [it0|idle sv mx rate|mx rate| |r0 rt0|ok| |ms|x|kk x a b g h| |];
    try (destruct (as_reply k _ _) as [[r rt]|] eqn:A; [|reflexivity];
         destruct r as [? ?| |[|] ?]; try reflexivity; apply Reply; reflexivity).
  (* a server quota *)
  unfold inner_is, rlim_is, rem_of. simpl o_rem. rewrite Or.
  destruct (present s) eqn:P; [|reflexivity]. simpl.
  destruct (global_strategy (sstr s)) eqn:G; [|reflexivity].
  destruct (strategy_eqb (istr it0) SCount) eqn:S; [reflexivity|]. simpl.
  destruct (granted (scfg s) (idet it0)) as [l|] eqn:Gr; [|reflexivity].
  unfold step. rewrite I1, P.
  replace (enable_global (sstr s)) with true by (rewrite <- G; destruct (sstr s); reflexivity).
  simpl. unfold apply_sync.
  assert (Hw : wrap_ok (scfg s) maxrt (match rem s with Some w => w | None => empty_rw end)).
  { destruct (rem s); [assumption|]. unfold wrap_ok, empty_rw. reflexivity. }
  destruct (rw_sync_ok (scfg s) (scfg s) maxrt (now_sec s) _ it0 V eq_refl Hm Hw) as (w' & E & X). rewrite E.
  destruct (sanitize (scfg s) it0) as [it|] eqn:Sa; [|rewrite (sanitize_none _ it0 Sa) in Gr; discriminate].
  destruct (sanitize_ok _ it0 it V Sa) as (Hit & Hs & Hg). rewrite Hg in Gr. inversion Gr; subst l; clear Gr.
  destruct X as (Hw' & Rc & Rn). unfold observe_rem, set_rem. simpl.
  unfold wrap_ok in Hw'. destruct (rin w') as [i'|]; [|congruence]. simpl.
  destruct Hw' as (it' & Rc' & _ & Hi'). rewrite Rc in Rc'. inversion Rc'; subst it'; clear Rc'.
  unfold inner_ok in Hi'. rewrite Hs in Hi'.
  destruct (iw i').
  + destruct Hi' as (_ & L & _). rewrite L. simpl. apply lim_eqb_refl.
  + destruct Hi' as (X & _). rewrite X in S. discriminate.
  + destruct Hi' as (X & _). rewrite X in S. discriminate.
Qed.

(* ---------- histories ---------- *)
Lemma next_rt_ge maxrt k e : maxrt <= next_rt maxrt k e.
Proof. destruct e; simpl; try lia; apply zmax_ge. Qed.

Lemma next_rt_clk maxrt k s q e : snow s = k_now k -> srounds s = k_rounds k -> next_rt maxrt (clk_of s q) e = next_rt maxrt k e.
Proof. intros A B. destruct e; simpl; try reflexivity. unfold worker_rt, clk_of. simpl. rewrite A, B. reflexivity. Qed.

Lemma clause_with_sent st c str o b :
  bound_ok c (with_sent o b) = bound_ok c o /\ fallback_ok st c str (with_sent o b) = fallback_ok st c str o /\
  inforce_ok st str (with_sent o b) = inforce_ok st str o /\ nopanic_ok (with_sent o b) = nopanic_ok o /\
  absent_ok (with_sent o b) = absent_ok o.
Proof. repeat split; reflexivity. Qed.

Lemma o_ready_observe st maxrt s : Inv maxrt s -> o_ready (observe true st s) = is_ready st s.
Proof.
  intros I. destruct (present s) eqn:P.
  - rewrite (observe_shape st maxrt s I P). reflexivity.
  - rewrite (observe_absent st maxrt s I P). reflexivity.
Qed.

(* a heartbeat that fails more than 5 s into a run of failed heartbeats leaves the server not ready *)
Lemma notready_holds st maxrt k s e b : 0 <= maxrt -> ev_ok e -> Inv maxrt s -> Ctx k s ->
  notready_ok k e (with_sent (observe true st (step true true true st s e)) b) = true.
Proof.
  intros Hm Ev I (Cn & _ & _ & _ & (Ha & Hf)). unfold notready_ok.
  destruct e; try reflexivity. destruct ok; try reflexivity.
  destruct (k_fail k) as [t0|]; [|reflexivity]. destruct (5000 <? k_now k - t0) eqn:Q; [|reflexivity].
  pose proof (step_inv st maxrt s (EHb false) 0 Hm Ev I) as I'.
  simpl o_ready. rewrite (o_ready_observe st _ _ I'). destruct Hf as [Hl Hg].
  unfold is_ready. destruct (cs st); try reflexivity.
  destruct I as (I1 & _). unfold step. rewrite I1. unfold heartbeat. simpl. rewrite Hl. simpl.
  destruct (hready s); simpl; [|reflexivity].
  destruct (5000 <=? hage s) eqn:E; [reflexivity|lia].
Qed.

Lemma hist_holds st :
  forall ops s maxrt k, Forall ev_ok ops -> 0 <= maxrt -> Inv maxrt s -> Ctx k s ->
  hist_ok st (present s) (scfg s) (sstr s) maxrt k (observe true st s) (trace true true true st s ops) = all_true.
Proof.
  induction ops as [|e r IH]; intros s maxrt k Ev Hm I C; [reflexivity|].
  inversion Ev as [|? ? Ee Er]; subst.
  simpl. pose proof (step_inv st maxrt s e 0 Hm Ee I) as I'.
  pose proof C as (Cn & Cr & _). rewrite (next_rt_clk maxrt k s 0 e Cn Cr) in I'.
  pose proof (next_rt_ge maxrt k e) as Hge.
  pose proof (ctx_step st maxrt k s e Hm I Ee C) as C'.
  destruct (step_proj st s e ltac:(destruct I as (I1 & _); exact I1)) as (P' & Cf' & S' & _).
  set (s' := step true true true st s e) in *.
  set (o' := with_sent (observe true st s') (sent_in st s e)) in *.
  assert (IHs : hist_ok st (present s') (scfg s') (sstr s') (next_rt maxrt k e)
                  (next_clk k (observe true st s) e o') (observe true st s') (trace true true true st s' r) = all_true)
    by (apply IH; auto; lia).
  assert (Prev : hist_ok st (present s') (scfg s') (sstr s') (next_rt maxrt k e)
                  (next_clk k (observe true st s) e o') o' (trace true true true st s' r) = all_true).
  { (* the flag o_sent of the previous observation is not looked at by the next step *)
    clear - IHs. revert IHs. generalize (next_clk k (observe true st s) e o'). generalize (next_rt maxrt k e).
    generalize (present s'), (scfg s'), (sstr s').
    destruct (trace true true true st s' r) as [|[e1 o1] r1]; [reflexivity|].
    intros p c str m kk. simpl. unfold step_ok, failing_ok, recovery_ok, next_clk, noisy.
    replace (has_counter_obs o') with (has_counter_obs (observe true st s')) by reflexivity.
    unfold failing_body, recovery_body, inner_is, rlim_is, rcfg_det, rem_of. simpl o_rem. auto. }
  rewrite <- P', <- Cf', <- S'. rewrite Prev.
  unfold step_ok.
  destruct (clause_with_sent st (scfg s') (sstr s') (observe true st s') (sent_in st s e)) as (B1 & B2 & B3 & B4 & B5).
  fold o' in B1, B2, B3, B4, B5. rewrite B1, B2, B3, B4, B5. rewrite (nopanic_holds st _ _ I').
  pose proof (failing_holds st maxrt k s e Hm Ee I C) as F1. pose proof (recovery_holds st maxrt k s e Hm Ee I C) as F2.
  fold s' in F1, F2. fold o' in F1, F2. rewrite F1, F2.
  pose proof (notready_holds st maxrt k s e (sent_in st s e) Hm Ee I C) as F3. fold s' in F3. fold o' in F3. rewrite F3.
  rewrite andb_true_r.
  destruct (present s') eqn:P.
  - rewrite (bound_holds st _ _ I' P), (fallback_holds st _ _ I' P), (inforce_holds st _ _ I' P). reflexivity.
  - rewrite (absent_holds st _ _ I' P). reflexivity.
Qed.

Lemma init_inv c str0 : valid_cfg c -> Inv 0 (init c str0).
Proof. intros V. unfold Inv, init. simpl. auto. Qed.

Definition clk0 : clk := {| k_now := 0; k_rounds := 0; k_quiet := 0; k_fail := None |}.

Lemma init_ctx c str0 : Ctx clk0 (init c str0).
Proof. unfold Ctx, HbCtx, clk0, init, counter_of. simpl. repeat split; try lia. intros i H. discriminate. Qed.

Lemma case_holds st str0 ops : valid_cfg (cfg st) -> Forall ev_ok ops ->
  case_ok st str0 (observe true st (init (cfg st) str0)) (trace true true true st (init (cfg st) str0) ops) = all_true.
Proof.
  intros V Ev. unfold case_ok. pose proof (init_inv (cfg st) str0 V) as I.
  pose proof (hist_holds st ops _ 0 clk0 Ev ltac:(lia) I (init_ctx _ _)) as H.
  simpl sstr in H. simpl scfg in H. simpl present in H. unfold clk0 in H. rewrite H.
  unfold obs_ok.
  pose proof (bound_holds st 0 _ I eq_refl) as B. simpl scfg in B. rewrite B.
  rewrite (nopanic_holds st 0 _ I).
  pose proof (fallback_holds st 0 _ I eq_refl) as F. simpl sstr in F. simpl scfg in F. rewrite F.
  pose proof (inforce_holds st 0 _ I eq_refl) as G. simpl sstr in G. rewrite G.
  reflexivity.
Qed.

Lemma run_inv st :
  forall ops s maxrt k, Forall ev_ok ops -> 0 <= maxrt -> Inv maxrt s -> Ctx k s ->
  exists m k', 0 <= m /\ Inv m (run true true true st s ops) /\ Ctx k' (run true true true st s ops).
Proof.
  induction ops as [|e r IH]; intros s maxrt k Ev Hm I C; [exists maxrt, k; auto|].
  inversion Ev as [|? ? Ee Er]; subst.
  simpl. pose proof (next_rt_ge maxrt (clk_of s 0) e).
  eapply (IH _ (next_rt maxrt (clk_of s 0) e)); [assumption|lia|apply step_inv; auto|].
  eapply ctx_step; eauto.
Qed.

Lemma reach_inv st str0 ops : valid_cfg (cfg st) -> Forall ev_ok ops ->
  exists m, 0 <= m /\ Inv m (run true true true st (init (cfg st) str0) ops).
Proof.
  intros V Ev. destruct (run_inv st ops _ 0 clk0 Ev ltac:(lia) (init_inv _ str0 V) (init_ctx _ _)) as (m & k & A & B & _).
  exists m. auto.
Qed.

Lemma reach_ctx st str0 ops : valid_cfg (cfg st) -> Forall ev_ok ops ->
  exists m k, 0 <= m /\ Inv m (run true true true st (init (cfg st) str0) ops) /\ Ctx k (run true true true st (init (cfg st) str0) ops).
Proof. intros V Ev. apply (run_inv st ops _ 0 clk0 Ev); [lia|apply init_inv; assumption|apply init_ctx]. Qed.

(* the limiter a request meets is bounded by the schema currently configured, for every reachable state *)
Lemma enforced_bounded st maxrt s : Inv maxrt s -> present s = true ->
  exists l, o_lim (observe true st s) = Some l /\ lim_bounded (scfg s) l = true /\
            (forall n, l = LMI n -> o_adm (observe true st s) <= n).
Proof.
  intros I P. pose proof I as (_ & V & _). rewrite (observe_shape st maxrt s I P). simpl.
  destruct (elig st s) eqn:E.
  - unfold elig in E. destruct (md st); try discriminate. destruct (cs st); try discriminate.
    apply andb_true_iff in E. destruct E as [_ E]. unfold has_inner in E.
    destruct (remote_lim s) as [l|] eqn:R.
    + exists l. split; [reflexivity|]. split; [eapply remote_bounded; eauto|].
      intros n ->. apply admitted_le.
    + unfold remote_lim in R. destruct (rem s) as [w|]; [|discriminate]. destruct (rin w); discriminate.
  - exists (local_lim (scfg s)). split; [reflexivity|]. split.
    + rewrite (local_lim_spec _ V). unfold local_spec, lim_bounded, in_range, valid_cfg in *. destruct (ck (scfg s)); lia.
    + intros n ->. apply admitted_le.
Qed.

Lemma size_le_global st str0 ops : valid_cfg (cfg st) -> Forall ev_ok ops ->
  let s := run true true true st (init (cfg st) str0) ops in
  present s = true -> ck (scfg s) = KMI ->
  (exists n, o_lim (observe true st s) = Some (LMI n) /\ 0 <= n <= g1 (scfg s) /\ o_adm (observe true st s) <= g1 (scfg s))
  /\ (forall l, remote_lim s = Some l -> exists n, l = LMI n /\ 0 <= n <= g1 (scfg s)).
Proof.
  intros V Ev s P Ks. destruct (reach_inv st str0 ops V Ev) as (m & _ & I). fold s in I. split.
  - destruct (enforced_bounded st m s I P) as (l & L & B & A).
    unfold lim_bounded, in_range in B. rewrite Ks in B. destruct l; try discriminate.
    exists n. split; [assumption|]. specialize (A n eq_refl). lia.
  - intros l R. pose proof (remote_bounded m s l I R) as B.
    unfold lim_bounded, in_range in B. rewrite Ks in B. destruct l; try discriminate. exists n. split; [reflexivity|lia].
Qed.

Lemma tb_le_global st str0 ops : valid_cfg (cfg st) -> Forall ev_ok ops ->
  let s := run true true true st (init (cfg st) str0) ops in
  present s = true -> ck (scfg s) = KTB ->
  (exists q b, o_lim (observe true st s) = Some (LTB q b) /\ 0 <= q <= g1 (scfg s) /\ 0 <= b <= g2 (scfg s))
  /\ (forall l, remote_lim s = Some l -> exists q b, l = LTB q b /\ 0 <= q <= g1 (scfg s) /\ 0 <= b <= g2 (scfg s)).
Proof.
  intros V Ev s P Ks. destruct (reach_inv st str0 ops V Ev) as (m & _ & I). fold s in I. split.
  - destruct (enforced_bounded st m s I P) as (l & L & B & A).
    unfold lim_bounded, in_range in B. rewrite Ks in B. destruct l; try discriminate.
    exists q, b. split; [assumption|]. lia.
  - intros l R. pose proof (remote_bounded m s l I R) as B.
    unfold lim_bounded, in_range in B. rewrite Ks in B. destruct l; try discriminate. exists q, b. split; [reflexivity|lia].
Qed.

(* fallback: any missing condition selects the local limiter with the local limit *)
Lemma fallback st str0 ops : valid_cfg (cfg st) -> Forall ev_ok ops ->
  let s := run true true true st (init (cfg st) str0) ops in
  present s = true ->
  (md st <> MRemote \/ enable_global (sstr s) = false \/ cs st <> CSOk \/ hready s = false \/ has_inner s = false) ->
  o_sel (observe true st s) = SelLocal /\ o_lim (observe true st s) = Some (local_spec (scfg s)).
Proof.
  intros V Ev s P H. destruct (reach_inv st str0 ops V Ev) as (m & _ & I). fold s in I.
  pose proof I as (_ & Vs & _).
  rewrite (observe_shape st m s I P). simpl.
  assert (E : elig st s = false).
  { unfold elig. destruct (md st) eqn:M; try reflexivity. destruct (cs st) eqn:Cs; try reflexivity.
    destruct H as [H|[H|[H|[H|H]]]]; try congruence; rewrite H; simpl; try reflexivity.
    - destruct (enable_global (sstr s)); reflexivity.
    - destruct (enable_global (sstr s)); destruct (hready s); reflexivity. }
  rewrite E, (local_lim_spec _ Vs). auto.
Qed.

(* a deleted schema name gets the default flow control, a known one never *)
Lemma default_iff_absent st str0 ops : valid_cfg (cfg st) -> Forall ev_ok ops ->
  let s := run true true true st (init (cfg st) str0) ops in
  (o_sel (observe true st s) = SelDefault <-> present s = false).
Proof.
  intros V Ev s. destruct (reach_inv st str0 ops V Ev) as (m & _ & I). fold s in I.
  destruct (present s) eqn:P.
  - rewrite (observe_shape st m s I P). simpl. destruct (elig st s); split; discriminate.
  - rewrite (observe_absent st m s I P). simpl. split; reflexivity.
Qed.

(* readiness hysteresis: failing heartbeats for at least 5 s make the server not ready, for less than 5 s
   they do not; one good heartbeat or a leader change makes it ready *)
Lemma hage_step st s e : 0 <= hage s -> 0 <= hage (step true true true st s e).
Proof.
  intros H. unfold step. destruct (crashed s); [assumption|].
  destruct e as [it|idle sv mx rate|mx rate| |r rt|ok| |ms|x|k x a b g h| |]; simpl.
  - destruct (present s && enable_global (sstr s)); [|assumption]. unfold apply_sync. destruct (rw_sync _ _ _ _ _ _); assumption.
  - destruct (worker_target st s idle) as [[w i]|]; [|assumption].
    destruct sv; try assumption; destruct (set_limit _ _ _ _ _); assumption.
  - destruct (rem s) as [w|]; [|assumption]. destruct (rin w) as [i|]; [|assumption].
    destruct (has_counter i && _); [|assumption]. destruct (set_limit _ _ _ _ _); assumption.
  - destruct (present s && strategy_eqb (sstr s) SCount); [|assumption]. unfold apply_sync. destruct (rw_sync _ _ _ _ _ _); assumption.
  - destruct (rem s) as [w|]; [|assumption]. destruct (rin w); [|assumption]. destruct (set_limit _ _ _ _ _); assumption.
  - unfold heartbeat. simpl. destruct (negb _); lia.
  - unfold heartbeat. simpl. destruct (negb _); lia.
  - destruct (ms <? 0) eqn:E; lia.
  - destruct (sync_schema_proj s (scfg s) x) as (_ & _ & _ & A & _). rewrite A. assumption.
  - destruct (sync_schema_proj s {| ck := k; l1 := a; l2 := b; g1 := g; g2 := h |} x) as (_ & _ & _ & A & _). rewrite A. assumption.
  - destruct (present s); assumption.
  - destruct (present s && enable_global (sstr s)); [|assumption]. destruct (rem s); assumption.
Qed.

Lemma hage_run st ops : forall s, 0 <= hage s -> 0 <= hage (run true true true st s ops).
Proof. induction ops as [|e r IH]; intros s H; [assumption|]. simpl. apply IH. apply hage_step. assumption. Qed.

Lemma hb_sequence st s ms : crashed s = false -> 0 <= hage s -> 0 <= ms ->
  let s' := step true true true st (step true true true st (step true true true st s (EHb false)) (EElapse ms)) (EHb false) in
  (5000 <= ms -> hready s' = false) /\
  (ms < 5000 -> hlast s = true -> hready s = true -> hready s' = true).
Proof.
  intros Cr H Hs.
  assert (E1 : step true true true st s (EHb false) = heartbeat s false) by (unfold step; rewrite Cr; reflexivity).
  rewrite E1. unfold step. simpl. rewrite Cr. simpl. unfold heartbeat. simpl.
  destruct (ms <? 0) eqn:E; [lia|].
  destruct (hlast s), (hready s); simpl; split; intros; try reflexivity; try discriminate;
    repeat match goal with |- context [?x <=? ?y] => destruct (x <=? y) eqn:? end; try reflexivity; lia.
Qed.

Lemma Forall_app_ok ops ops' : Forall ev_ok ops -> Forall ev_ok ops' -> Forall ev_ok (ops ++ ops').
Proof. intros A B. apply Forall_app. split; assumption. Qed.

Lemma run_app st s ops ops' : run true true true st s (ops ++ ops') = run true true true st (run true true true st s ops) ops'.
Proof. unfold run. apply fold_left_app. Qed.

Lemma heartbeat_fallback st str0 ops ms : valid_cfg (cfg st) -> Forall ev_ok ops -> 5000 <= ms ->
  let s := run true true true st (init (cfg st) str0) (ops ++ [EHb false; EElapse ms; EHb false]) in
  is_ready st s = false /\
  (present s = true -> o_sel (observe true st s) = SelLocal /\ o_lim (observe true st s) = Some (local_spec (scfg s))).
Proof.
  intros V Ev Hs s.
  assert (R : hready s = false).
  { subst s. rewrite run_app.
    destruct (reach_inv st str0 ops V Ev) as (m & _ & (I1 & _)).
    simpl. apply hb_sequence; auto; [|lia]. apply hage_run. simpl. lia. }
  split; [unfold is_ready; destruct (cs st); auto|].
  intros P. apply fallback; auto. apply Forall_app_ok; [assumption|]. repeat constructor.
Qed.

(* below 5 s of failing heartbeats a ready server stays ready (the hysteresis of setLeaderStatus) *)
Lemma heartbeat_hysteresis st str0 ops ms : valid_cfg (cfg st) -> Forall ev_ok ops -> 0 <= ms < 5000 ->
  let s0 := run true true true st (init (cfg st) str0) ops in
  hlast s0 = true -> hready s0 = true ->
  hready (run true true true st (init (cfg st) str0) (ops ++ [EHb false; EElapse ms; EHb false])) = true.
Proof.
  intros V Ev Hs s0 L R. rewrite run_app. fold s0.
  destruct (reach_inv st str0 ops V Ev) as (m & _ & (I1 & _)). fold s0 in I1.
  simpl. apply hb_sequence; auto; try lia. apply hage_run. simpl. lia.
Qed.

Lemma heartbeat_ready st str0 ops e : valid_cfg (cfg st) -> Forall ev_ok ops -> e = EHb true \/ e = ELeader ->
  hready (run true true true st (init (cfg st) str0) (ops ++ [e])) = true.
Proof.
  intros V Ev He. rewrite run_app.
  destruct (reach_inv st str0 ops V Ev) as (m & _ & (I1 & _)). simpl.
  destruct He as [-> | ->]; unfold step; rewrite I1; unfold heartbeat; simpl; destruct (hready _); reflexivity.
Qed.

(* ---------- reactions, stated on reachable states ---------- *)
Lemma lim_eqb_eq a b : lim_eqb a b = true -> a = b.
Proof.
  destruct a, b; simpl; intros H; try discriminate; try reflexivity.
  - f_equal. lia.
  - apply andb_true_iff in H. destruct H. f_equal; lia.
Qed.

Lemma observe_selected st maxrt s w i : Inv maxrt s -> present s = true ->
  md st = MRemote -> cs st = CSOk -> hready s = true -> enable_global (sstr s) = true ->
  rem s = Some w -> rin w = Some i ->
  o_sel (observe true st s) = SelRemote /\ o_lim (observe true st s) = Some (il i).
Proof.
  intros I P M Cs R G Rm Ri. rewrite (observe_shape st maxrt s I P). simpl.
  assert (E : elig st s = true) by (unfold elig, has_inner; rewrite M, Cs, R, G, Rm, Ri; reflexivity).
  rewrite E. unfold remote_lim. rewrite Rm, Ri. auto.
Qed.

Lemma count_state st s w i i' r rt : crashed s = false ->
  rem s = Some w -> rin w = Some i -> set_limit true (scfg s) i r rt = Some i' ->
  step true true true st s (ECount r rt) = set_rem s (Some {| rin := Some i'; rcfg := rcfg w |}).
Proof. intros I1 R Ri E. unfold step. rewrite I1, R, Ri, E. reflexivity. Qed.

Lemma rem_present maxrt s w : Inv maxrt s -> rem s = Some w -> present s = true.
Proof. intros (_ & _ & Ip & _) R. destruct (present s); [reflexivity|]. rewrite (Ip eq_refl) in R. discriminate. Qed.

(* a global-count error reply on an available wrapper synced from the schema's own global section:
   the limiter falls back to max(observed, local) within the global limit — never below the local limit *)
Lemma failing_bounds st str0 ops mx rate rt w i : valid_cfg (cfg st) -> Forall ev_ok ops ->
  let s := run true true true st (init (cfg st) str0) ops in let c := scfg s in
  rem s = Some w -> rin w = Some i -> iw i <> WEmpty -> iun i = false ->
  (0 <? rt) && (rt <=? ilast i) = false ->
  rcfg w = Some {| idet := global_detail c; istr := SCount |} ->
  exists i', rem (step true true true st s (ECount (RErr mx rate) rt)) = Some {| rin := Some i'; rcfg := rcfg w |} /\
             iun i' = true /\
             match ck c with
             | KMI => exists n, il i' = LMI n /\ l1 c <= n <= g1 c
             | KTB => exists q b, il i' = LTB q b /\ l1 c <= q <= g1 c /\ 0 <= b <= g2 c
             end.
Proof.
  intros V Ev s c Rm Ri W U F Rc. destruct (reach_inv st str0 ops V Ev) as (m & _ & I). fold s in I.
  pose proof I as (I1 & Vs & _ & _ & I3). fold c in Vs. rewrite Rm in I3. unfold wrap_ok in I3. rewrite Ri in I3. fold c in I3.
  destruct I3 as (it & Rc' & Hit & Hi). rewrite Rc in Rc'. inversion Rc'; subst it; clear Rc'.
  pose proof Hi as Hi0. unfold inner_ok in Hi0. unfold global_detail in *.
  destruct (iw i) eqn:Wi; [congruence| |].
  - destruct Hi0 as (_ & K & _). rewrite K in *.
    destruct (set_limit_mi_err c m i _ (g1 c) mx rate rt Vs Hit ltac:(rewrite K; exact Hi) Wi U F eq_refl) as (i' & E & _ & U' & L').
    exists i'. rewrite (count_state st s w i i' _ rt I1 Rm Ri E). simpl.
    split; [reflexivity|]. split; [assumption|]. eexists. split; [exact L'|].
    unfold valid_cfg in Vs. rewrite K in Vs. unfold zmin, zmax. zcases; lia.
  - destruct Hi0 as (_ & K & _). rewrite K in *.
    destruct (set_limit_tb_err c m i _ (g1 c) (g2 c) mx rate rt Vs Hit ltac:(rewrite K; exact Hi) Wi U eq_refl) as (i' & E & _ & U' & L').
    exists i'. rewrite (count_state st s w i i' _ rt I1 Rm Ri E). simpl.
    split; [reflexivity|]. split; [assumption|]. eexists. eexists. split; [exact L'|].
    unfold valid_cfg in Vs. rewrite K in Vs. unfold zmin, zmax. zcases; lia.
Qed.

(* a server quota of the schema's type (or carrying both members) becomes the limiter's size, bounded by
   the global limit, and is what a request meets as soon as the server is ready *)
Lemma recovery_allocate st str0 ops it l : valid_cfg (cfg st) -> Forall ev_ok ops ->
  let s := run true true true st (init (cfg st) str0) ops in let c := scfg s in
  present s = true ->
  md st = MRemote -> cs st = CSOk -> hready s = true -> enable_global (sstr s) = true ->
  istr it <> SCount -> granted c (idet it) = Some l ->
  let s' := step true true true st s (EQuota it) in
  o_sel (observe true st s') = SelRemote /\ o_lim (observe true st s') = Some l /\ remote_lim s' = Some l.
Proof.
  intros V Ev s c P M Cs R G S Gr s'. destruct (reach_ctx st str0 ops V Ev) as (m & k & Hm & I & Cx). fold s in I, Cx.
  pose proof (step_inv st m s (EQuota it) 0 Hm Logic.I I) as I'. fold s' in I'. simpl in I'.
  pose proof (recovery_holds st m k s (EQuota it) Hm Logic.I I Cx) as H. fold s' c in H.
  unfold recovery_ok in H. destruct (observe_rem_eq st _ _ I') as [Er Ep]. simpl o_evp in H. rewrite Ep in H.
  assert (G' : global_strategy (sstr s) = true) by (destruct (sstr s); auto).
  rewrite P, G' in H.
  assert (S' : strategy_eqb (istr it) SCount = false).
  { destruct (strategy_eqb (istr it) SCount) eqn:X; [|reflexivity]. apply strategy_eqb_eq in X. contradiction. }
  rewrite S', Gr in H. simpl in H. apply andb_true_iff in H. destruct H as [H1 H2].
  unfold inner_is, rlim_is, rem_of in *. simpl o_rem in *. rewrite Er in *. unfold observe_rem in *.
  destruct (rem s') as [w'|] eqn:Rm'; [|discriminate].
  destruct (rin w') as [i'|] eqn:Ri'; [|discriminate]. simpl in *.
  apply lim_eqb_eq in H2.
  destruct (step_proj st s (EQuota it) ltac:(destruct I as (I1 & _); exact I1)) as (P' & _ & Ss & _). fold s' in P', Ss. simpl in P', Ss.
  assert (Hr : hready s' = hready s).
  { subst s'. unfold step. destruct I as (I1 & _). rewrite I1, P, G. simpl. unfold apply_sync. destruct (rw_sync _ _ _ _ _ _); reflexivity. }
  destruct (observe_selected st m s' w' i' I' ltac:(congruence) M Cs ltac:(congruence) ltac:(congruence) Rm' Ri') as [A B].
  split; [assumption|]. split; [congruence|]. unfold remote_lim. rewrite Rm', Ri'. congruence.
Qed.

(* an accepted global-count reply that is not stale ends the unavailable state; the granted limit,
   raised to the burst reserve and bounded by the granted maximum, is the size (token bucket: the
   configured global rate is restored) and it is what a request meets when the server is ready *)
Lemma recovery_count st str0 ops limit rt w i it : valid_cfg (cfg st) -> Forall ev_ok ops ->
  let s := run true true true st (init (cfg st) str0) ops in
  rem s = Some w -> rin w = Some i -> iw i <> WEmpty -> rcfg w = Some it ->
  (0 <? rt) && (rt <=? ilast i) = false ->
  let s' := step true true true st s (ECount (ROk true limit) rt) in
  exists i', rem s' = Some {| rin := Some i'; rcfg := Some it |} /\ iun i' = false /\
             match idet it with
             | DMI m => il i' = LMI (zmin (zmax limit (reserve_of true m)) m)
             | DTB q b => il i' = LTB q b
             | _ => False
             end /\
             (md st = MRemote -> cs st = CSOk -> hready s = true -> enable_global (sstr s) = true ->
              o_sel (observe true st s') = SelRemote /\ o_lim (observe true st s') = Some (il i')).
Proof.
  intros V Ev s Rm Ri W Rc F s'. destruct (reach_inv st str0 ops V Ev) as (m & Hm & I). fold s in I.
  pose proof (step_inv st m s (ECount (ROk true limit) rt) 0 Hm Logic.I I) as I'. fold s' in I'.
  pose proof (rem_present m s w I Rm) as P.
  pose proof I as (I1 & Vs & _ & _ & I3). rewrite Rm in I3. unfold wrap_ok in I3. rewrite Ri in I3.
  destruct I3 as (it' & Rc' & Hit & Hi). rewrite Rc in Rc'. inversion Rc'; subst it'; clear Rc'.
  assert (Sel : forall i', s' = set_rem s (Some {| rin := Some i'; rcfg := rcfg w |}) ->
                md st = MRemote -> cs st = CSOk -> hready s = true -> enable_global (sstr s) = true ->
                o_sel (observe true st s') = SelRemote /\ o_lim (observe true st s') = Some (il i')).
  { intros i' E M Cs R G.
    apply (observe_selected st _ s' {| rin := Some i'; rcfg := rcfg w |} i' I'); try rewrite E; simpl; auto. }
  pose proof Hi as Hi0. unfold inner_ok in Hi0.
  destruct (iw i) eqn:Wi; [congruence| |].
  - destruct Hi0 as (_ & _ & mm & n & D & _).
    destruct (set_limit_mi_accept (scfg s) m i it mm limit rt Vs Hit Hi Wi F D) as (i' & E & _ & U' & _ & L').
    pose proof (count_state st s w i i' _ rt I1 Rm Ri E) as St. fold s' in St.
    exists i'. split; [rewrite St; simpl; rewrite Rc; reflexivity|]. split; [assumption|].
    split; [rewrite D; assumption|]. apply Sel; assumption.
  - destruct Hi0 as (_ & _ & _ & q & b & q' & b' & D & _).
    destruct (set_limit_tb_accept (scfg s) m i it q b limit rt Vs Hit Hi Wi D) as (i' & E & _ & U' & L').
    pose proof (count_state st s w i i' _ rt I1 Rm Ri E) as St. fold s' in St.
    exists i'. split; [rewrite St; simpl; rewrite Rc; reflexivity|]. split; [assumption|].
    split; [rewrite D; assumption|]. apply Sel; assumption.
Qed.

(* a schema update — other limits, another strategy, another TYPE, or the name added again — takes effect
   at once: right after it, the limiter a request meets and the remote limiter are of the new type and
   within the new limits; no window until the next answer of the limiter server *)
Lemma schema_update_bounds st str0 ops k x a b g h : valid_cfg (cfg st) -> Forall ev_ok ops ->
  let c' := {| ck := k; l1 := a; l2 := b; g1 := g; g2 := h |} in
  valid_cfg c' ->
  let s' := run true true true st (init (cfg st) str0) (ops ++ [ESchema k x a b g h]) in
  present s' = true /\ scfg s' = c' /\ sstr s' = x /\
  (exists l, o_lim (observe true st s') = Some l /\ lim_bounded c' l = true) /\
  (forall l, remote_lim s' = Some l -> lim_bounded c' l = true).
Proof.
  intros V Ev c' V' s'.
  assert (Ev' : Forall ev_ok (ops ++ [ESchema k x a b g h])).
  { apply Forall_app_ok; [assumption|]. constructor; [exact V'|constructor]. }
  destruct (reach_inv st str0 _ V Ev') as (m & _ & I). fold s' in I.
  assert (C : present s' = true /\ scfg s' = c' /\ sstr s' = x).
  { subst s'. rewrite run_app. simpl.
    destruct (reach_inv st str0 ops V Ev) as (m0 & _ & (I1 & _)).
    destruct (step_proj st _ (ESchema k x a b g h) I1) as (A & B & C & _). simpl in A, B, C. auto. }
  destruct C as (P & C & S). repeat split; auto; rewrite <- C.
  - destruct (enforced_bounded st m s' I P) as (l & L & B & _). exists l. auto.
  - intros l R. eapply remote_bounded; eauto.
Qed.

(* ---------- silence: missing replies ---------- *)
(* the watchdog of the counter: more than 4 s after the last sync, an available global-count limiter (synced
   from the schema's own global section) falls back to max(observed, local) within the global limit *)
Lemma silence_falls_back st str0 ops mx rate w i : valid_cfg (cfg st) -> Forall ev_ok ops ->
  let s := run true true true st (init (cfg st) str0) ops in let c := scfg s in
  rem s = Some w -> rin w = Some i -> has_counter i = true -> iun i = false ->
  4 < now_sec s - isync i ->
  rcfg w = Some {| idet := global_detail c; istr := SCount |} ->
  exists i', rem (step true true true st s (EWatchdog mx rate)) = Some {| rin := Some i'; rcfg := rcfg w |} /\
             iun i' = true /\
             match ck c with
             | KMI => exists n, il i' = LMI n /\ l1 c <= n <= g1 c
             | KTB => exists q b, il i' = LTB q b /\ l1 c <= q <= g1 c /\ 0 <= b <= g2 c
             end.
Proof.
  intros V Ev s c Rm Ri H U Q Rc. destruct (reach_inv st str0 ops V Ev) as (m & _ & I). fold s in I.
  pose proof I as (I1 & Vs & _ & _ & I3). fold c in Vs. rewrite Rm in I3. unfold wrap_ok in I3. rewrite Ri in I3. fold c in I3.
  destruct I3 as (it & Rc' & Hit & Hi). rewrite Rc in Rc'. inversion Rc'; subst it; clear Rc'.
  assert (Fire : has_counter i && (4 <? now_sec s - isync i) = true) by (rewrite H; simpl; lia).
  assert (St : forall i', set_limit true c i (RErr mx rate) 0 = Some i' ->
               step true true true st s (EWatchdog mx rate) = set_rem s (Some {| rin := Some i'; rcfg := rcfg w |})).
  { intros i' E. unfold step. rewrite I1, Rm, Ri, Fire. fold c. rewrite E. reflexivity. }
  pose proof Hi as Hi0. unfold inner_ok in Hi0. unfold global_detail in *.
  apply has_counter_kind in H. destruct H as [Wi|Wi]; rewrite Wi in Hi0.
  - destruct Hi0 as (_ & K & _). rewrite K in *.
    destruct (set_limit_mi_err c m i _ (g1 c) mx rate 0 Vs Hit ltac:(rewrite K; exact Hi) Wi U eq_refl eq_refl) as (i' & E & _ & U' & L').
    exists i'. rewrite (St i' E). simpl.
    split; [reflexivity|]. split; [assumption|]. eexists. split; [exact L'|].
    unfold valid_cfg in Vs. rewrite K in Vs. unfold zmin, zmax. zcases; lia.
  - destruct Hi0 as (_ & K & _). rewrite K in *.
    destruct (set_limit_tb_err c m i _ (g1 c) (g2 c) mx rate 0 Vs Hit ltac:(rewrite K; exact Hi) Wi U eq_refl) as (i' & E & _ & U' & L').
    exists i'. rewrite (St i' E). simpl.
    split; [reflexivity|]. split; [assumption|]. eexists. eexists. split; [exact L'|].
    unfold valid_cfg in Vs. rewrite K in Vs. unfold zmin, zmax. zcases; lia.
Qed.

(* events during which no reply for the schema arrives: time passes, heartbeats, worker rounds whose
   reply omits the schema *)
Definition silent (e : ev) : Prop :=
  match e with EElapse _ | EHb _ | ELeader | EWorker _ SvOmit _ _ => True | _ => False end.
Fixpoint elapsed (l : list ev) : Z :=
  match l with
  | [] => 0
  | EElapse ms :: r => (if ms <? 0 then 0 else ms) + elapsed r
  | _ :: r => elapsed r
  end.

Lemma silent_ok e : silent e -> ev_ok e.
Proof. destruct e; simpl; auto; contradiction. Qed.

Lemma silent_step st s e : crashed s = false -> silent e ->
  let s' := step true true true st s e in
  rem s' = rem s /\ scfg s' = scfg s /\ crashed s' = false /\ snow s' = snow s + elapsed [e].
Proof.
  intros Cr S. unfold step. rewrite Cr. destruct e; try contradiction; simpl.
  - destruct sv; try contradiction. destruct (worker_target st s idle) as [[w i]|]; simpl; repeat split; auto; lia.
  - unfold heartbeat. simpl. repeat split; auto; lia.
  - unfold heartbeat. simpl. repeat split; auto; lia.
  - repeat split; auto; lia.
Qed.

Lemma silent_run st : forall l s, crashed s = false -> Forall silent l ->
  let s' := run true true true st s l in
  rem s' = rem s /\ scfg s' = scfg s /\ crashed s' = false /\ snow s' = snow s + elapsed l.
Proof.
  induction l as [|e r IH]; intros s Cr F; [simpl; repeat split; auto; lia|].
  inversion F as [|? ? Fe Fr]; subst.
  destruct (silent_step st s e Cr Fe) as (A & B & C & D).
  destruct (IH _ C Fr) as (A' & B' & C' & D'). simpl run.
  repeat split; try congruence.
  rewrite D', D. simpl elapsed. destruct e; simpl in *; try contradiction; lia.
Qed.

(* for every history: once the limiter server has been silent for the schema for 5 s (no reply delivered,
   whatever else happens among the silent events), the next watchdog tick puts the fallback in force *)
Lemma silence_history st str0 ops quiet mx rate w i : valid_cfg (cfg st) -> Forall ev_ok ops -> Forall silent quiet ->
  let s := run true true true st (init (cfg st) str0) ops in let c := scfg s in
  rem s = Some w -> rin w = Some i -> has_counter i = true -> iun i = false ->
  rcfg w = Some {| idet := global_detail c; istr := SCount |} ->
  5000 <= elapsed quiet ->
  let s' := run true true true st (init (cfg st) str0) (ops ++ quiet ++ [EWatchdog mx rate]) in
  exists i', rem s' = Some {| rin := Some i'; rcfg := rcfg w |} /\ iun i' = true /\
             match ck c with
             | KMI => exists n, il i' = LMI n /\ l1 c <= n <= g1 c
             | KTB => exists q b, il i' = LTB q b /\ l1 c <= q <= g1 c /\ 0 <= b <= g2 c
             end.
Proof.
  intros V Ev Sq s c Rm Ri H U Rc El s'.
  destruct (reach_ctx st str0 ops V Ev) as (m & k & Hm & I & (Cn & Cr & Cq & Cc & _)). fold s in I, Cn, Cr, Cc.
  destruct I as (I1 & _).
  destruct (silent_run st quiet s I1 Sq) as (A & B & C & D).
  assert (Evq : Forall ev_ok (ops ++ quiet)).
  { apply Forall_app_ok; [assumption|]. eapply Forall_impl; [|exact Sq]. intros e. apply silent_ok. }
  assert (Sy : isync i <= now_sec s).
  { pose proof (Cc i (counter_some s w i Rm Ri H)) as X. unfold now_sec. rewrite Cn.
    pose proof (div1000_mono (k_quiet k) (k_now k) ltac:(lia)). lia. }
  subst s'. rewrite app_assoc, run_app. simpl. rewrite run_app. fold s.
  pose proof (silence_falls_back st str0 (ops ++ quiet) mx rate w i V Evq) as L.
  rewrite run_app in L. fold s in L. simpl in L. rewrite B in L. fold c in L.
  apply L; auto; try (rewrite A; exact Rm).
  unfold now_sec in *. rewrite D.
  assert (snow s / 1000 + 5 <= (snow s + elapsed quiet) / 1000).
  { replace (snow s / 1000 + 5) with ((snow s + 5 * 1000) / 1000) by (rewrite Z.div_add; lia).
    apply div1000_mono. lia. }
  lia.
Qed.

(* ---------- failed heartbeats ---------- *)
(* rounds during which the limiter server keeps failing: failed heartbeats and time passing; a sync round whose
   server info lists the same leader, lists none or fails changes nothing (it is [EElapse 0] in this model) *)
Definition failing_round (e : ev) : Prop := match e with EHb false | EElapse _ => True | _ => False end.

Lemma failing_round_ok e : failing_round e -> ev_ok e.
Proof. destruct e; simpl; auto; contradiction. Qed.

Lemma failing_run st : forall mid s a, crashed s = false -> hlast s = false -> a <= hage s -> Forall failing_round mid ->
  let s' := run true true true st s mid in
  crashed s' = false /\ hlast s' = false /\ a + elapsed mid <= hage s'.
Proof.
  induction mid as [|e r IH]; intros s a Cr Hl Ha F; [simpl; repeat split; auto; lia|].
  inversion F as [|? ? Fe Fr]; subst. simpl run.
  pose proof (step_hb st s e Cr) as Hb.
  assert (Cr' : crashed (step true true true st s e) = false).
  { unfold step. rewrite Cr. destruct e; try contradiction; [destruct ok; try contradiction; exact Cr|reflexivity]. }
  destruct e; try contradiction.
  - destruct ok; try contradiction. destruct Hb as [H1 H2]. rewrite Hl in H2. simpl in H2.
    destruct (IH _ a Cr' H1 ltac:(lia) Fr) as (A & B & C). repeat split; auto.
  - destruct Hb as [H1 H2]. rewrite Hl in H1.
    destruct (IH _ (a + (if ms <? 0 then 0 else ms)) Cr' H1 ltac:(lia) Fr) as (A & B & C). repeat split; auto.
    simpl elapsed. lia.
Qed.

(* for every history: a heartbeat fails, the failures go on (whatever the info rounds list) for 5 s or more,
   and the next failed heartbeat finds the server not ready: the local limiter with the local limit is in force *)
Lemma failed_heartbeats_fall_back st str0 ops mid : valid_cfg (cfg st) -> Forall ev_ok ops -> Forall failing_round mid ->
  5000 <= elapsed mid ->
  let s := run true true true st (init (cfg st) str0) (ops ++ [EHb false] ++ mid ++ [EHb false]) in
  is_ready st s = false /\
  (present s = true -> o_sel (observe true st s) = SelLocal /\ o_lim (observe true st s) = Some (local_spec (scfg s))).
Proof.
  intros V Ev F El s.
  assert (Evm : Forall ev_ok mid) by (eapply Forall_impl; [|exact F]; intros e; apply failing_round_ok).
  assert (R : hready s = false).
  { subst s. rewrite run_app. destruct (reach_inv st str0 ops V Ev) as (m & _ & (I1 & _)).
    set (s0 := run true true true st (init (cfg st) str0) ops) in *.
    change ([EHb false] ++ mid ++ [EHb false]) with (EHb false :: (mid ++ [EHb false])). simpl run. rewrite run_app.
    pose proof (step_hb st s0 (EHb false) I1) as [H1 H2].
    assert (C1 : crashed (step true true true st s0 (EHb false)) = false) by (unfold step; rewrite I1; exact I1).
    assert (A0 : 0 <= hage (step true true true st s0 (EHb false))).
    { rewrite H2. assert (0 <= hage s0) by (apply hage_run; simpl; lia). destruct (Bool.eqb _ _); lia. }
    destruct (failing_run st mid _ 0 C1 H1 A0 F) as (C2 & L2 & G2).
    set (s2 := run true true true st (step true true true st s0 (EHb false)) mid) in *.
    simpl. unfold step. rewrite C2. unfold heartbeat. simpl. rewrite L2. simpl.
    destruct (hready s2); simpl; [|reflexivity]. destruct (5000 <=? hage s2) eqn:E; [reflexivity|lia]. }
  split; [unfold is_ready; destruct (cs st); auto|].
  intros P. apply fallback; auto.
  apply Forall_app_ok; [assumption|]. constructor; [exact Logic.I|]. apply Forall_app_ok; [assumption|repeat constructor].
Qed.
