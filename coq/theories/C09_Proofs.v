(* C09 — proofs about the model of the REPAIRED tree (fx = fy = fz = true): for every valid
   schema, every static setting and every event sequence the state invariant holds,
   and every clause of the specification holds on the trace the model produces. *)
From KG Require Import Prelude C09_Model C09_Spec.
From Coq Require Import ZifyBool ZifyNat ZifyN.
Open Scope Z_scope.

Arguments Z.add : simpl never.
Arguments Z.sub : simpl never.
Arguments Z.mul : simpl never.
Arguments Z.leb : simpl never.
Arguments Z.ltb : simpl never.
Arguments Z.eqb : simpl never.
Arguments Z.quot : simpl never.
Arguments wrapu32 : simpl never.
Arguments wrap32 : simpl never.

Ltac zcases :=
  repeat match goal with
         | |- context [if ?x <? ?y then _ else _] => let E := fresh "E" in destruct (x <? y) eqn:E
         end.

(* ---------- valid schemas (ValidateFlowControlConfiguration + int32) ---------- *)
Definition valid_cfg (c : config) : Prop :=
  match ck c with
  | KMI => 0 <= l1 c <= g1 c /\ g1 c < two31
  | KTB => 1 <= l1 c <= g1 c /\ g1 c < two31 /\ 0 <= l2 c <= g2 c /\ g2 c < two31
  end.

(* ---------- arithmetic helpers ---------- *)
Lemma wrapu32_id x : 0 <= x < two32 -> wrapu32 x = x.
Proof. unfold wrapu32, two32. intros H. apply Z.mod_small. lia. Qed.

Lemma wrapu32_id31 x : 0 <= x < two31 -> wrapu32 x = x.
Proof. intros H. apply wrapu32_id. unfold two31, two32 in *. lia. Qed.

Lemma wrap32_id31 x : 0 <= x < two31 -> wrap32 x = x.
Proof. intros H. apply wrap32_id. unfold in_int32, two31 in *. lia. Qed.

Lemma clamp_range v lo hi : lo <= hi -> lo <= clamp v lo hi <= hi.
Proof. unfold clamp. intros H. destruct (hi <? v) eqn:E1; destruct (_ <? lo) eqn:E2; lia. Qed.

Lemma clamp_id v lo hi : lo <= v <= hi -> clamp v lo hi = v.
Proof. unfold clamp. intros H. destruct (hi <? v) eqn:E1; [lia|]. destruct (v <? lo) eqn:E2; lia. Qed.

Lemma reserve_raw_ge1 mx : 1 <= reserve_raw mx.
Proof. unfold reserve_raw. destruct (_ <? 1) eqn:E; lia. Qed.

Lemma reserve_range m : 0 <= m -> 0 <= reserve_of true m <= m.
Proof.
  unfold reserve_of. intros H. pose proof (reserve_raw_ge1 m) as H1. simpl.
  destruct (m <? reserve_raw m) eqn:E; lia.
Qed.

Lemma strategy_eqb_eq a b : strategy_eqb a b = true <-> a = b.
Proof. destruct a, b; simpl; split; intros H; try reflexivity; try discriminate. Qed.

Lemma strategy_eqb_refl a : strategy_eqb a a = true.
Proof. apply strategy_eqb_eq. reflexivity. Qed.

Lemma detail_eqb_eq a b : detail_eqb a b = true <-> a = b.
Proof.
  destruct a, b; simpl; split; intros H; try reflexivity; try discriminate.
  - f_equal. lia.
  - inversion H. lia.
  - apply andb_true_iff in H. destruct H as [H1 H2]. f_equal; lia.
  - inversion H. subst. apply andb_true_iff. split; lia.
  - apply andb_true_iff in H. destruct H as [H H3]. apply andb_true_iff in H. destruct H as [H1 H2]. f_equal; lia.
  - inversion H. subst. rewrite !andb_true_iff. repeat split; lia.
Qed.

Lemma item_eqb_eq a b : item_eqb a b = true <-> a = b.
Proof.
  unfold item_eqb. rewrite andb_true_iff, detail_eqb_eq, strategy_eqb_eq.
  destruct a, b; simpl. split.
  - intros [-> ->]. reflexivity.
  - intros H. inversion H. split; reflexivity.
Qed.

Lemma lim_eqb_refl l : lim_eqb l l = true.
Proof. destruct l; simpl; try reflexivity; try apply andb_true_iff; try split; lia. Qed.

(* ---------- the state invariant ---------- *)
Definition lim_of (d : detail) : lim :=
  match d with DMI m => LMI m | DTB q b => LTB q b | _ => LInf end.

(* an item as the repaired Sync keeps it: of the schema's type, within [0, global] of the CURRENT schema *)
Definition item_ok (c : config) (it : item) : Prop :=
  match ck c, idet it with
  | KMI, DMI m => 0 <= m <= g1 c
  | KTB, DTB q b => 0 <= q <= g1 c /\ 0 <= b <= g2 c
  | _, _ => False
  end.

(* the limiter behind the remote wrapper is bounded by the item it was synced from;
   only the schema's type matters here, not its limits *)
Definition inner_ok (k : kind) (maxrt : Z) (i : inner) (it : item) : Prop :=
  match iw i with
  | WEmpty => istr it <> SCount /\ il i = lim_of (idet it) /\ iun i = false /\ iover i = false
  | WMI => istr it = SCount /\ k = KMI /\
           exists m n, idet it = DMI m /\ imax i = m /\ irsv i = reserve_of true m /\
                       il i = LMI n /\ 0 <= n <= m /\ ilast i <= maxrt /\ 0 <= ifb i
  | WTB => istr it = SCount /\ k = KTB /\ iover i = false /\
           exists q b q' b', idet it = DTB q b /\ iqps i = q /\ iburst i = b /\
                             il i = LTB q' b' /\ 0 <= q' <= q /\ 0 <= b' <= b /\
                             (iun i = false -> q' = q /\ b' = b) /\ 0 <= ifb i
  end.

Definition wrap_ok (c : config) (maxrt : Z) (w : rwrap) : Prop :=
  match rin w with
  | None => rcfg w = None
  | Some i => exists it, rcfg w = Some it /\ item_ok c it /\ inner_ok (ck c) maxrt i it
  end.

Definition Inv (maxrt : Z) (s : state) : Prop :=
  crashed s = false /\ valid_cfg (scfg s) /\ (present s = false -> rem s = None) /\
  (enable_global (sstr s) = false -> rem s = None) /\
  match rem s with None => True | Some w => wrap_ok (scfg s) maxrt w end.

(* the events of a history: schema updates carry valid limits (the API server validates them) *)
Definition ev_ok (e : ev) : Prop :=
  match e with
  | ESchema k _ a b g h => valid_cfg {| ck := k; l1 := a; l2 := b; g1 := g; g2 := h |}
  | _ => True
  end.

Lemma inner_ok_mono k m m' i it : m <= m' -> inner_ok k m i it -> inner_ok k m' i it.
Proof.
  unfold inner_ok. intros Hm H. destruct (iw i); auto.
  destruct H as (H1 & H2 & mm & n & H3 & H4 & H5 & H6 & H7 & H8 & H9).
  repeat split; auto. exists mm, n. repeat split; auto; lia.
Qed.

Lemma wrap_ok_mono c m m' w : m <= m' -> wrap_ok c m w -> wrap_ok c m' w.
Proof.
  unfold wrap_ok. intros Hm H. destruct (rin w); auto.
  destruct H as (it & H1 & H2 & H3). exists it. repeat split; auto. eapply inner_ok_mono; eauto.
Qed.

Lemma Inv_mono m m' s : m <= m' -> Inv m s -> Inv m' s.
Proof.
  unfold Inv. intros Hm (H1 & H2 & H3 & H4 & H5). repeat split; auto.
  destruct (rem s); auto. eapply wrap_ok_mono; eauto.
Qed.

Lemma sanitize_ok c it0 it : valid_cfg c -> sanitize c it0 = Some it ->
  item_ok c it /\ istr it = istr it0 /\ granted c (idet it0) = Some (lim_of (idet it)).
Proof.
  unfold valid_cfg, sanitize, item_ok, granted. intros V H.
  destruct (ck c) eqn:K; destruct (idet it0) eqn:D; try discriminate; inversion H; subst; simpl;
    (split; [|split; reflexivity]); try split; apply clamp_range; lia.
Qed.

Lemma sanitize_none c it0 : sanitize c it0 = None -> granted c (idet it0) = None.
Proof. unfold sanitize, granted. destruct (ck c), (idet it0); intros H; try discriminate; reflexivity. Qed.

(* an item that was fine under a schema of the same type is never rejected *)
Lemma sanitize_same_kind c0 c it : ck c0 = ck c -> item_ok c0 it -> exists it', sanitize c it = Some it'.
Proof.
  unfold item_ok, sanitize. intros K H. rewrite <- K.
  destruct (ck c0); destruct (idet it); try contradiction; eexists; reflexivity.
Qed.

Lemma new_lim_ok c it : valid_cfg c -> item_ok c it -> new_lim (idet it) = lim_of (idet it).
Proof.
  unfold valid_cfg, item_ok. intros V H.
  destruct (ck c) eqn:K; destruct (idet it) eqn:D; try contradiction; simpl.
  - rewrite wrapu32_id31; [reflexivity|lia].
  - rewrite !wrapu32_id31; [reflexivity|lia|lia].
Qed.

Lemma new_inner_ok c maxrt it : valid_cfg c -> item_ok c it -> 0 <= maxrt ->
  exists i, new_inner true true it = Some i /\ inner_ok (ck c) maxrt i it.
Proof.
  intros V H Hm. unfold new_inner. rewrite (new_lim_ok c it V H).
  destruct (strategy_eqb (istr it) SCount) eqn:S; simpl.
  - apply strategy_eqb_eq in S.
    unfold valid_cfg, item_ok in *.
    destruct (ck c) eqn:K; destruct (idet it) eqn:D; try contradiction.
    + eexists. split; [reflexivity|]. unfold inner_ok, mi_resize. simpl.
      rewrite wrapu32_id31 by lia. rewrite wrap32_id31 by lia.
      pose proof (reserve_range m ltac:(lia)) as R.
      repeat split; auto. exists m, (reserve_of true m).
      rewrite wrapu32_id31 by lia. repeat split; auto; lia.
    + eexists. split; [reflexivity|]. unfold inner_ok, tb_resize. simpl.
      rewrite !wrapu32_id31 by lia.
      repeat split; auto. exists q, b, q, b. repeat split; auto; lia.
  - eexists. split; [reflexivity|]. unfold inner_ok. simpl. repeat split; auto.
    intros E. rewrite E in S. discriminate.
Qed.

(* the resize path of Sync; the limiter may have been synced under earlier limits [c0] of the same type *)
Lemma inner_resize_ok c0 c maxrt i ito it : valid_cfg c -> ck c0 = ck c ->
  item_ok c0 ito -> inner_ok (ck c) maxrt i ito -> item_ok c it -> istr ito = istr it ->
  match idet it with
  | DMI m => inner_ok (ck c) maxrt (inner_resize true true i (wrapu32 m) 0) it
  | DTB q b => inner_ok (ck c) maxrt (inner_resize true true i (wrapu32 q) (wrapu32 b)) it
  | _ => True
  end.
Proof.
  intros V K0 Ho Hi Hn Hs. unfold valid_cfg, item_ok, inner_ok, inner_resize in *. rewrite K0 in Ho.
  destruct (iw i) eqn:W.
  - (* emptyGlobalWrapper *)
    destruct Hi as (H1 & H2 & H3 & H4).
    destruct (ck c) eqn:K; destruct (idet it) eqn:D; try contradiction;
      destruct (idet ito) eqn:Do; try contradiction; simpl in *; rewrite W, H2; simpl.
    + rewrite wrapu32_id31 by lia. repeat split; auto. congruence.
    + rewrite !wrapu32_id31 by lia. repeat split; auto. congruence.
  - (* maxInflightWrapper *)
    destruct Hi as (H1 & H2 & m0 & n & H3 & H4 & H5 & H6 & H7 & H8 & H9).
    rewrite H2 in *. destruct (idet it) eqn:D; try contradiction.
    unfold mi_resize. simpl. rewrite W.
    rewrite wrapu32_id31 by lia. rewrite wrap32_id31 by lia.
    pose proof (reserve_range m ltac:(lia)) as R.
    repeat split; auto; [congruence|].
    destruct (iun i).
    + set (v := if m <? ifb i then m else ifb i).
      assert (0 <= v <= m) by (subst v; destruct (m <? ifb i) eqn:E; lia).
      exists m, v. rewrite H6. simpl. rewrite wrapu32_id31 by lia. repeat split; auto; lia.
    + exists m, (reserve_of true m). rewrite H6. simpl. rewrite wrapu32_id31 by lia.
      repeat split; auto; lia.
  - (* tokenBucketWrapper *)
    destruct Hi as (H1 & H2 & H3 & q0 & b0 & q' & b' & H4 & H5 & H6 & H7 & H8 & H9 & H10 & H11).
    rewrite H2 in *. destruct (idet it) eqn:D; try contradiction.
    unfold tb_resize. simpl. rewrite W.
    rewrite !wrapu32_id31 by lia.
    repeat split; auto; [congruence|].
    destruct (iun i) eqn:U.
    + set (v := if q <? ifb i then q else ifb i). set (u := if b <? ifb i then b else ifb i).
      assert (0 <= v <= q /\ 0 <= u <= b) by (subst v u; destruct (q <? ifb i) eqn:E; destruct (b <? ifb i) eqn:E'; lia).
      exists q, b, v, u. rewrite H7. simpl. rewrite !wrapu32_id31 by lia.
      repeat split; auto; try lia; discriminate.
    + exists q, b, q, b. rewrite H7. simpl. repeat split; auto; lia.
Qed.

(* remoteWrapper.Sync under the limits [c]; the wrapper may have been kept under earlier limits [c0] *)
Lemma rw_sync_ok c0 c maxrt w it0 : valid_cfg c -> ck c0 = ck c -> 0 <= maxrt -> wrap_ok c0 maxrt w ->
  exists w', rw_sync true true c w it0 = Some w' /\
    match sanitize c it0 with
    | None => w' = w
    | Some it => wrap_ok c maxrt w' /\ rcfg w' = Some it /\ rin w' <> None
    end.
Proof.
  intros V K0 Hm Hw. unfold rw_sync.
  destruct (sanitize c it0) as [it|] eqn:S; [|exists w; auto].
  destruct (sanitize_ok c it0 it V S) as (Hit & _ & _).
  destruct (rcfg_is w it) eqn:E.
  { exists w. split; [reflexivity|].
    unfold rcfg_is in E. destruct (rcfg w) as [x|] eqn:R; [|discriminate].
    apply item_eqb_eq in E. subst x.
    unfold wrap_ok in *. destruct (rin w) as [i|]; [|congruence].
    destruct Hw as (it' & R' & _ & Hi). rewrite R in R'. inversion R'; subst it'.
    split; [|split; [reflexivity|discriminate]]. exists it. rewrite <- K0. auto. }
  destruct (new_inner_ok c maxrt it V Hit Hm) as (i' & Hn & Hi').
  assert (Rec : exists w', match new_inner true true it with
                           | Some i => Some {| rin := Some i; rcfg := Some it |}
                           | None => None end = Some w' /\ wrap_ok c maxrt w' /\ rcfg w' = Some it /\ rin w' <> None).
  { rewrite Hn. eexists. split; [reflexivity|]. unfold wrap_ok. simpl.
    split; [exists it; auto|]. split; [reflexivity|discriminate]. }
  destruct (rin w) as [i|] eqn:Ri; [|exact Rec].
  destruct (negb (ltype_eqb (lim_type (il i)) (det_type (idet it))) || negb (strategy_eqb (rcfg_strategy w) (istr it))) eqn:B;
    [exact Rec|].
  apply orb_false_iff in B. destruct B as [_ B]. apply negb_false_iff, strategy_eqb_eq in B.
  unfold wrap_ok in Hw. rewrite Ri in Hw. destruct Hw as (ito & Ro & Hito & Hio).
  unfold rcfg_strategy in B. rewrite Ro in B. rewrite K0 in Hio.
  pose proof (inner_resize_ok c0 c maxrt i ito it V K0 Hito Hio Hit B) as HR.
  unfold item_ok in Hit.
  destruct (idet it) eqn:D; destruct (ck c) eqn:K; try contradiction.
  - assert (G : (if g1 c <? m then g1 c else m) = m) by (destruct (g1 c <? m) eqn:G; lia).
    rewrite G. eexists. split; [reflexivity|]. unfold wrap_ok. simpl.
    split; [exists it; repeat split; auto; [unfold item_ok; rewrite D, K; auto|rewrite K; exact HR]|].
    split; [reflexivity|discriminate].
  - assert (G : (if g1 c <? q then g1 c else q) = q) by (destruct (g1 c <? q) eqn:G; lia).
    rewrite G. eexists. split; [reflexivity|]. unfold wrap_ok. simpl.
    split; [exists it; repeat split; auto; [unfold item_ok; rewrite D, K; auto|rewrite K; exact HR]|].
    split; [reflexivity|discriminate].
Qed.

Lemma zmax_ge a b : a <= zmax a b /\ b <= zmax a b.
Proof. unfold zmax. destruct (a <? b) eqn:E; lia. Qed.

Lemma set_limit_ok c maxrt i it r rt : valid_cfg c -> item_ok c it -> inner_ok (ck c) maxrt i it ->
  exists i', set_limit true c i r rt = Some i' /\ inner_ok (ck c) (zmax maxrt rt) i' it.
Proof.
  intros V Hit Hi. pose proof (zmax_ge maxrt rt) as [Z1 Z2].
  assert (Hmono : inner_ok (ck c) (zmax maxrt rt) i it) by (apply inner_ok_mono with (m := maxrt); assumption).
  unfold set_limit. destruct (iw i) eqn:W; [exists i; auto| |].
  - (* maxInflightWrapper *)
    destruct ((0 <? rt) && (rt <=? ilast i)) eqn:St; [exists i; auto|].
    unfold inner_ok in Hi. rewrite W in Hi.
    destruct Hi as (H1 & H2 & m & n & H3 & H4 & H5 & H6 & H7 & H8 & H9).
    unfold valid_cfg, item_ok in *. rewrite H2 in *. rewrite H3 in Hit.
    pose proof (reserve_range m ltac:(lia)) as R.
    destruct r as [mx rate| |[|] limit]; [|exists i; auto| |].
    + destruct (iun i) eqn:U; [exists i; auto|].
      eexists. split; [reflexivity|]. unfold inner_ok. simpl.
      repeat split; auto. rewrite H6. simpl.
      set (x := if mx <? l1 c then l1 c else mx).
      set (y := if imax i <? x then imax i else x).
      assert (0 <= y <= m /\ 0 <= x) by (subst x y; rewrite H4; destruct (mx <? l1 c) eqn:E1; destruct (m <? _) eqn:E2; lia).
      exists m, y. rewrite wrapu32_id31 by lia. repeat split; auto; lia.
    + eexists. split; [reflexivity|]. unfold inner_ok. simpl.
      repeat split; auto. rewrite H6. simpl.
      set (x := if limit <? irsv i then irsv i else limit).
      set (y := if imax i <? x then imax i else x).
      assert (0 <= y <= m) by (subst x y; rewrite H4, H5; destruct (limit <? _) eqn:E1; destruct (m <? _) eqn:E2; lia).
      exists m, y. rewrite wrapu32_id31 by lia. repeat split; auto; lia.
    + eexists. split; [reflexivity|]. unfold inner_ok. simpl.
      repeat split; auto. rewrite H6. simpl. rewrite H4.
      pose proof (clamp_range limit 0 m ltac:(lia)) as C.
      exists m, (clamp limit 0 m). rewrite wrapu32_id31 by lia. repeat split; auto; lia.
  - (* tokenBucketWrapper *)
    unfold inner_ok in Hi. rewrite W in Hi.
    destruct Hi as (H1 & H2 & H3 & q & b & q' & b' & H4 & H5 & H6 & H7 & H8 & H9 & H10 & H11).
    unfold valid_cfg, item_ok in *. rewrite H2 in *. rewrite H4 in Hit.
    destruct r as [mx rate| |[|] limit]; [|exists i; auto| |exists i; auto].
    + destruct (iun i) eqn:U; [exists i; auto|].
      eexists. split; [reflexivity|]. unfold inner_ok. simpl.
      repeat split; auto. rewrite H7. simpl.
      set (x := if rate <? l1 c then l1 c else rate).
      set (y := if iqps i <? x then iqps i else x).
      set (z := if iburst i <? x then iburst i else x).
      assert (0 <= y <= q /\ 0 <= z <= b /\ 0 <= x)
        by (subst x y z; rewrite H5, H6; destruct (rate <? l1 c) eqn:E1; destruct (q <? _) eqn:E2; destruct (b <? _) eqn:E3; lia).
      exists q, b, y, z. rewrite !wrapu32_id31 by lia. repeat split; auto; try lia; discriminate.
    + destruct (iun i) eqn:U; [|exists i; auto].
      eexists. split; [reflexivity|]. unfold inner_ok. simpl.
      repeat split; auto. rewrite H7, H5, H6. simpl.
      exists q, b, q, b. repeat split; auto; lia.
Qed.

(* ---------- the invariant is preserved by every event ---------- *)
Lemma apply_sync_inv maxrt s it : 0 <= maxrt -> present s = true ->
  enable_global (sstr s) = true -> Inv maxrt s -> Inv maxrt (apply_sync true true (scfg s) s it).
Proof.
  intros Hm P G (I1 & V & Ip & I2 & I3). unfold apply_sync.
  assert (Hw : wrap_ok (scfg s) maxrt (match rem s with Some w => w | None => empty_rw end)).
  { destruct (rem s); [assumption|]. unfold wrap_ok, empty_rw. reflexivity. }
  destruct (rw_sync_ok (scfg s) (scfg s) maxrt _ it V eq_refl Hm Hw) as (w' & E & X). rewrite E.
  unfold Inv, set_rem. simpl. repeat split; auto; try (intros Y; congruence).
  destruct (sanitize (scfg s) it); [tauto|]. subst w'. exact Hw.
Qed.

Lemma config_eqb_eq c c' : kind_eqb (ck c') (ck c) && config_eqb c' c = true -> c' = c.
Proof.
  unfold config_eqb, kind_eqb. destruct c, c'. simpl. intros H.
  apply andb_true_iff in H. destruct H as [Hk H].
  apply andb_true_iff in H. destruct H as [H H4]. apply andb_true_iff in H. destruct H as [H H3].
  apply andb_true_iff in H. destruct H as [H1 H2].
  destruct ck, ck0; try discriminate; f_equal; lia.
Qed.

Lemma kind_eqb_eq a b : kind_eqb a b = true -> a = b.
Proof. destruct a, b; simpl; intros H; try discriminate; reflexivity. Qed.

(* UpstreamLimiter.Sync with a valid schema: added again, unchanged, another type, another strategy, other limits *)
Lemma sync_schema_inv maxrt s c' x : 0 <= maxrt -> valid_cfg c' -> Inv maxrt s ->
  Inv maxrt (sync_schema true true true s c' x).
Proof.
  intros Hm V' I. pose proof I as (I1 & V & Ip & I2 & I3). unfold sync_schema.
  destruct (present s) eqn:P; simpl.
  2:{ unfold Inv, set_cfg. simpl. repeat split; auto. }
  destruct (kind_eqb (ck c') (ck (scfg s)) && config_eqb c' (scfg s) && strategy_eqb x (sstr s)); [assumption|].
  destruct (kind_eqb (ck c') (ck (scfg s))) eqn:K; simpl.
  2:{ unfold Inv, set_cfg. simpl. repeat split; auto. }
  apply kind_eqb_eq in K.
  destruct (enable_global x) eqn:G; simpl.
  2:{ unfold Inv, set_cfg. simpl. repeat split; auto. }
  destruct (rem s) as [w|] eqn:R.
  - unfold wrap_ok in I3.
    destruct (rin w) as [i|] eqn:Ri.
    + destruct I3 as (it & Rc & Hit & Hi). rewrite Rc.
      assert (Hw : wrap_ok (scfg s) maxrt w) by (unfold wrap_ok; rewrite Ri; exists it; auto).
      destruct (rw_sync_ok (scfg s) c' maxrt w it V' (eq_sym K) Hm Hw) as (w' & E & X). rewrite E.
      destruct (sanitize_same_kind (scfg s) c' it (eq_sym K) Hit) as (it' & Sa). rewrite Sa in X.
      unfold Inv, set_cfg. simpl. repeat split; auto; try (intros Y; congruence). tauto.
    + unfold Inv, set_cfg. simpl. repeat split; auto; try (intros Y; congruence).
      unfold wrap_ok. rewrite Ri. exact I3.
  - unfold Inv, set_cfg. simpl. repeat split; auto.
Qed.

Lemma step_inv st maxrt s e : 0 <= maxrt -> ev_ok e ->
  Inv maxrt s -> Inv (next_rt maxrt e) (step true true true st s e).
Proof.
  intros Hm Ev I. pose proof I as (I1 & V & Ip & I2 & I3).
  unfold step. rewrite I1.
  destruct e as [it| |r rt|ok| |ms|x|k x a b g h| |]; simpl next_rt; try assumption.
  - destruct (present s) eqn:P; [|assumption]. simpl.
    destruct (enable_global (sstr s)) eqn:G; [|assumption]. apply apply_sync_inv; auto.
  - destruct (present s) eqn:P; [|assumption]. simpl.
    destruct (strategy_eqb (sstr s) SCount) eqn:G; [|assumption].
    apply strategy_eqb_eq in G. apply apply_sync_inv; auto. rewrite G. reflexivity.
  - pose proof (zmax_ge maxrt rt) as [Z1 Z2].
    destruct (rem s) as [w|] eqn:R; [|apply Inv_mono with (m := maxrt); assumption].
    destruct (rin w) as [i|] eqn:Ri; [|apply Inv_mono with (m := maxrt); assumption].
    unfold wrap_ok in I3. rewrite Ri in I3. destruct I3 as (it & Rc & Hit & Hi).
    destruct (set_limit_ok (scfg s) maxrt i it r rt V Hit Hi) as (i' & E & Hi'). rewrite E.
    unfold Inv, set_rem. simpl. repeat split; auto; try (intros X; specialize (I2 X); discriminate);
      try (intros X; specialize (Ip X); discriminate).
    unfold wrap_ok. simpl. exists it. auto.
  - unfold Inv. simpl. auto.
  - apply sync_schema_inv; auto.
  - apply sync_schema_inv; auto.
  - destruct (present s); [|assumption]. unfold Inv. simpl. auto.
  - destruct (present s) eqn:P; [|assumption]. simpl.
    destruct (enable_global (sstr s)) eqn:G; [|assumption].
    destruct (rem s) eqn:R; [assumption|].
    unfold Inv, set_rem. simpl. repeat split; auto; try congruence.
Qed.

(* ---------- which limiter a request meets ---------- *)
Definition has_inner (s : state) : bool :=
  match rem s with
  | Some w => match rin w with Some _ => true | None => false end
  | None => false
  end.
Definition elig (st : static) (s : state) : bool :=
  match md st, cs st with
  | MRemote, CSOk => enable_global (sstr s) && hready s && has_inner s
  | _, _ => false
  end.
Definition remote_lim (s : state) : option lim :=
  match rem s with
  | Some w => match rin w with Some i => Some (il i) | None => None end
  | None => None
  end.

Lemma select_elig st maxrt s : Inv maxrt s -> present s = true ->
  select true st s = if elig st s then SelRemote else SelLocal.
Proof.
  intros (I1 & _ & _ & I2 & _) P. unfold select, elig, is_ready, has_inner. rewrite P. simpl.
  destruct (md st); try reflexivity.
  destruct (sstr s) eqn:S; simpl in *; destruct (cs st); simpl; try reflexivity;
    try (rewrite (I2 eq_refl); destruct (hready s); reflexivity);
    destruct (hready s); simpl; try reflexivity;
    destruct (rem s) as [w|]; try reflexivity; destruct (rin w); reflexivity.
Qed.

Lemma observe_shape st maxrt s : Inv maxrt s -> present s = true ->
  observe true st s =
  let l := if elig st s then remote_lim s else Some (local_lim (scfg s)) in
  {| o_evp := false; o_sel := if elig st s then SelRemote else SelLocal; o_lim := l;
     o_adm := admitted (scfg s) l; o_ready := is_ready st s; o_rem := observe_rem s |}.
Proof.
  intros I P. pose proof I as (I1 & _). unfold observe. rewrite I1.
  rewrite (select_elig st maxrt s I P). unfold remote_lim.
  destruct (elig st s); reflexivity.
Qed.

Lemma observe_absent st maxrt s : Inv maxrt s -> present s = false ->
  observe true st s =
  {| o_evp := false; o_sel := SelDefault; o_lim := Some LInf; o_adm := -1; o_ready := is_ready st s; o_rem := None |}.
Proof.
  intros (I1 & _ & Ip & _) P. unfold observe, select, observe_rem. rewrite I1, P, (Ip P). reflexivity.
Qed.

Lemma eligible_observe st maxrt s : Inv maxrt s -> present s = true ->
  eligible st (sstr s) (observe true st s) = elig st s.
Proof.
  intros I P. rewrite (observe_shape st maxrt s I P).
  unfold eligible, elig, synced, has_inner, observe_rem, is_ready, global_strategy, enable_global. simpl.
  destruct (md st); try reflexivity. destruct (cs st); try reflexivity.
  destruct (rem s) as [w|]; [|reflexivity]. destruct (rin w); reflexivity.
Qed.

Lemma local_lim_spec c : valid_cfg c -> local_lim c = local_spec c.
Proof.
  unfold valid_cfg, local_lim, local_spec. intros V. destruct (ck c).
  - rewrite wrapu32_id31 by lia. reflexivity.
  - rewrite !wrapu32_id31 by lia. reflexivity.
Qed.

Lemma remote_bounded maxrt s l : Inv maxrt s -> remote_lim s = Some l ->
  lim_bounded (scfg s) l = true.
Proof.
  intros (_ & V & _ & _ & I3) R. unfold remote_lim in R.
  destruct (rem s) as [w|]; [|discriminate]. unfold wrap_ok in I3.
  destruct (rin w) as [i|]; [|discriminate]. inversion R; subst l; clear R.
  destruct I3 as (it & _ & Hit & Hi). unfold inner_ok in Hi. unfold item_ok in Hit.
  unfold lim_bounded, in_range, valid_cfg in *.
  destruct (iw i).
  - destruct Hi as (_ & E & _). rewrite E.
    destruct (ck (scfg s)); destruct (idet it); try contradiction; simpl; lia.
  - destruct Hi as (_ & K & m & n & D & _ & _ & E & Hn & _). rewrite E, K in *. rewrite D in Hit. lia.
  - destruct Hi as (_ & K & _ & q & b & q' & b' & D & _ & _ & E & Hq & Hb & _). rewrite E, K in *. rewrite D in Hit. lia.
Qed.

Lemma admitted_le c n : admitted c (Some (LMI n)) <= n.
Proof. unfold admitted. destruct (probe_cap c <? n) eqn:E; lia. Qed.

(* ---------- the state clauses of the specification ---------- *)
Lemma bound_holds st maxrt s : Inv maxrt s -> present s = true -> bound_ok (scfg s) (observe true st s) = true.
Proof.
  intros I P. pose proof I as (_ & V & _). rewrite (observe_shape st maxrt s I P). unfold bound_ok. simpl.
  destruct (elig st s) eqn:E.
  - unfold elig in E. destruct (md st); try discriminate. destruct (cs st); try discriminate.
    apply andb_true_iff in E. destruct E as [_ E]. unfold has_inner in E.
    destruct (remote_lim s) as [l|] eqn:R.
    + pose proof (remote_bounded maxrt s l I R) as B. rewrite B. simpl.
      unfold lim_bounded, in_range in B. destruct (ck (scfg s)); [|reflexivity].
      destruct l; try discriminate. pose proof (admitted_le (scfg s) n) as A. unfold admitted in *. lia.
    + unfold remote_lim in R. destruct (rem s) as [w|]; [|discriminate]. destruct (rin w); discriminate.
  - rewrite (local_lim_spec _ V). unfold local_spec, lim_bounded, in_range, valid_cfg in *.
    destruct (ck (scfg s)); simpl.
    + pose proof (admitted_le (scfg s) (l1 (scfg s))) as A. unfold admitted in *. lia.
    + lia.
Qed.

Lemma absent_holds st maxrt s : Inv maxrt s -> present s = false -> absent_ok (observe true st s) = true.
Proof. intros I P. rewrite (observe_absent st maxrt s I P). reflexivity. Qed.

Lemma fallback_holds st maxrt s : Inv maxrt s -> present s = true ->
  fallback_ok st (scfg s) (sstr s) (observe true st s) = true.
Proof.
  intros I P. pose proof I as (_ & V & _). unfold fallback_ok. rewrite (eligible_observe st maxrt s I P).
  rewrite (observe_shape st maxrt s I P). simpl.
  destruct (elig st s); [reflexivity|]. rewrite (local_lim_spec _ V). apply lim_eqb_refl.
Qed.

Lemma inforce_holds st maxrt s : Inv maxrt s -> present s = true ->
  inforce_ok st (sstr s) (observe true st s) = true.
Proof.
  intros I P. unfold inforce_ok. rewrite (eligible_observe st maxrt s I P).
  rewrite (observe_shape st maxrt s I P). simpl.
  destruct (elig st s) eqn:E; [|reflexivity].
  unfold elig in E. destruct (md st); try discriminate. destruct (cs st); try discriminate.
  apply andb_true_iff in E. destruct E as [_ E]. unfold has_inner in E.
  unfold remote_lim, observe_rem. destruct (rem s) as [w|]; [|discriminate].
  destruct (rin w); [|discriminate]. simpl. apply lim_eqb_refl.
Qed.

Lemma observe_rem_eq st maxrt s : Inv maxrt s ->
  o_rem (observe true st s) = observe_rem s /\ o_evp (observe true st s) = false.
Proof.
  intros I. destruct (present s) eqn:P.
  - rewrite (observe_shape st maxrt s I P). simpl. auto.
  - rewrite (observe_absent st maxrt s I P). simpl. destruct I as (_ & _ & Ip & _).
    unfold observe_rem. rewrite (Ip P). auto.
Qed.

Lemma nopanic_holds st maxrt s : Inv maxrt s -> nopanic_ok (observe true st s) = true.
Proof.
  intros I. destruct (present s) eqn:P.
  - rewrite (observe_shape st maxrt s I P). unfold nopanic_ok. simpl. destruct (elig st s); reflexivity.
  - rewrite (observe_absent st maxrt s I P). reflexivity.
Qed.
Lemma not_stale maxrt rt last : fresh maxrt rt = true -> last <= maxrt ->
  (0 <? rt) && (rt <=? last) = false.
Proof. unfold fresh. intros F L. destruct (0 <? rt) eqn:A; destruct (rt <=? last) eqn:B; simpl; try reflexivity. lia. Qed.

Lemma ilast_le k maxrt i it : inner_ok k maxrt i it -> iw i = WMI -> ilast i <= maxrt.
Proof. unfold inner_ok. intros H W. rewrite W in H. destruct H as (_ & _ & m & n & _ & _ & _ & _ & _ & H & _). exact H. Qed.

Lemma zmin_zmax_eq a b m : (if m <? (if a <? b then b else a) then m else (if a <? b then b else a)) = zmin (zmax a b) m.
Proof. unfold zmin, zmax. destruct (a <? b) eqn:E1; destruct (m <? _) eqn:E2; destruct (_ <? m) eqn:E3; lia. Qed.

Lemma set_limit_mi_err c maxrt i it m mx rate rt : valid_cfg c -> item_ok c it -> inner_ok (ck c) maxrt i it ->
  iw i = WMI -> iun i = false -> (0 <? rt) && (rt <=? ilast i) = false -> idet it = DMI m ->
  exists i', set_limit true c i (RErr mx rate) rt = Some i' /\ iw i' = WMI /\ iun i' = true /\
             il i' = LMI (zmin (zmax mx (l1 c)) m).
Proof.
  intros V Hit Hi W U F D. unfold inner_ok in Hi. rewrite W in Hi.
  destruct Hi as (H1 & H2 & m0 & n & H3 & H4 & H5 & H6 & H7 & H8 & H9).
  rewrite D in H3. injection H3 as Hm0. rewrite <- Hm0 in *. clear Hm0.
  unfold set_limit. rewrite W, F, U, H2.
  eexists. split; [reflexivity|]. simpl. repeat split.
  rewrite H6, H4. simpl. rewrite zmin_zmax_eq.
  unfold valid_cfg, item_ok in *. rewrite H2 in *. rewrite D in Hit.
  rewrite wrapu32_id31; [reflexivity|].
  unfold zmin, zmax. zcases; lia.
Qed.

Lemma set_limit_mi_accept c maxrt i it m limit rt : valid_cfg c -> item_ok c it -> inner_ok (ck c) maxrt i it ->
  iw i = WMI -> (0 <? rt) && (rt <=? ilast i) = false -> idet it = DMI m ->
  exists i', set_limit true c i (ROk true limit) rt = Some i' /\ iw i' = WMI /\ iun i' = false /\ iover i' = false /\
             il i' = LMI (zmin (zmax limit (reserve_of true m)) m).
Proof.
  intros V Hit Hi W F D. unfold inner_ok in Hi. rewrite W in Hi.
  destruct Hi as (H1 & H2 & m0 & n & H3 & H4 & H5 & H6 & H7 & H8 & H9).
  rewrite D in H3. injection H3 as Hm0. rewrite <- Hm0 in *. clear Hm0.
  unfold set_limit. rewrite W, F.
  eexists. split; [reflexivity|]. simpl. repeat split.
  rewrite H6, H4, H5. simpl. rewrite zmin_zmax_eq.
  unfold valid_cfg, item_ok in *. rewrite H2 in *. rewrite D in Hit.
  pose proof (reserve_range m ltac:(lia)) as R.
  rewrite wrapu32_id31; [reflexivity|].
  unfold zmin, zmax. zcases; lia.
Qed.

Lemma set_limit_tb_err c maxrt i it q b mx rate rt : valid_cfg c -> item_ok c it -> inner_ok (ck c) maxrt i it ->
  iw i = WTB -> iun i = false -> idet it = DTB q b ->
  exists i', set_limit true c i (RErr mx rate) rt = Some i' /\ iw i' = WTB /\ iun i' = true /\
             il i' = LTB (zmin (zmax rate (l1 c)) q) (zmin (zmax rate (l1 c)) b).
Proof.
  intros V Hit Hi W U D. unfold inner_ok in Hi. rewrite W in Hi.
  destruct Hi as (H1 & H2 & H3 & q0 & b0 & q' & b' & H4 & H5 & H6 & H7 & H8 & H9 & H10 & H11).
  rewrite D in H4. injection H4 as Hq0 Hb0. rewrite <- Hq0, <- Hb0 in *. clear Hq0 Hb0.
  unfold set_limit. rewrite W, U, H2.
  eexists. split; [reflexivity|]. simpl. repeat split.
  rewrite H7, H5, H6. simpl. rewrite !zmin_zmax_eq.
  unfold valid_cfg, item_ok in *. rewrite H2 in *. rewrite D in Hit.
  rewrite !wrapu32_id31; [reflexivity| |]; unfold zmin, zmax; zcases; lia.
Qed.

Lemma set_limit_tb_accept c maxrt i it q b limit rt : valid_cfg c -> item_ok c it -> inner_ok (ck c) maxrt i it ->
  iw i = WTB -> idet it = DTB q b ->
  exists i', set_limit true c i (ROk true limit) rt = Some i' /\ iw i' = WTB /\ iun i' = false /\ il i' = LTB q b.
Proof.
  intros V Hit Hi W D. unfold inner_ok in Hi. rewrite W in Hi.
  destruct Hi as (H1 & H2 & H3 & q0 & b0 & q' & b' & H4 & H5 & H6 & H7 & H8 & H9 & H10 & H11).
  rewrite D in H4. injection H4 as Hq0 Hb0. rewrite <- Hq0, <- Hb0 in *. clear Hq0 Hb0.
  unfold set_limit. rewrite W. destruct (iun i) eqn:U.
  - eexists. split; [reflexivity|]. simpl. repeat split. rewrite H7, H5, H6. reflexivity.
  - exists i. repeat split; auto. destruct (H10 eq_refl) as [-> ->]. exact H7.
Qed.

(* the remote part of the observation after a count reply *)
Lemma count_step st s w i i' r rt : crashed s = false ->
  rem s = Some w -> rin w = Some i -> set_limit true (scfg s) i r rt = Some i' ->
  observe_rem (step true true true st s (ECount r rt)) =
  Some {| r_inner := Some (iw i'); r_lim := Some (il i'); r_unavail := iun i'; r_over := iover i'; r_cfg := rcfg w |}.
Proof.
  intros I1 R Ri E. unfold step. rewrite I1, R, Ri, E. unfold observe_rem, set_rem. simpl. reflexivity.
Qed.

Lemma failing_holds st maxrt s e : 0 <= maxrt -> ev_ok e -> Inv maxrt s ->
  failing_ok (scfg s) maxrt (observe true st s) e (observe true st (step true true true st s e)) = true.
Proof.
  intros Hm Ev I. pose proof (step_inv st maxrt s e Hm Ev I) as I'.
  unfold failing_ok, rem_of, inner_is, rlim_is, rcfg_det, rem_of.
  destruct (observe_rem_eq st _ _ I') as [-> ->].
  destruct (observe_rem_eq st _ _ I) as [-> _].
  destruct e as [| |[mx rate| |] rt| | | | | | |]; try reflexivity.
  pose proof I as (I1 & V & Ip & I2 & I3).
  set (Q := observe_rem (step true true true st s (ECount (RErr mx rate) rt))).
  unfold observe_rem. destruct (rem s) as [w|] eqn:R; [|reflexivity].
  unfold wrap_ok in I3. destruct (rin w) as [i|] eqn:Ri; [|reflexivity]. simpl.
  destruct I3 as (it & Rc & Hit & Hi). rewrite Rc.
  destruct (iun i) eqn:U; [reflexivity|]. simpl.
  destruct (iw i) eqn:W; simpl; [reflexivity| |].
  - destruct (fresh maxrt rt) eqn:F; [|reflexivity].
    assert (D : exists m, idet it = DMI m).
    { unfold inner_ok in Hi. rewrite W in Hi. destruct Hi as (_ & _ & m & n & D & _). eauto. }
    destruct D as (m & D). rewrite D.
    destruct (set_limit_mi_err (scfg s) maxrt i it m mx rate rt V Hit Hi W U (not_stale _ _ _ F (ilast_le _ maxrt i it Hi W)) D) as (i' & E & W' & U' & L').
    subst Q. rewrite (count_step st s w i i' _ rt I1 R Ri E). simpl. rewrite U', L'. simpl. lia.
  - assert (D : exists q b, idet it = DTB q b).
    { unfold inner_ok in Hi. rewrite W in Hi. destruct Hi as (_ & _ & _ & q & b & q' & b' & D & _). eauto. }
    destruct D as (q & b & D). rewrite D.
    destruct (set_limit_tb_err (scfg s) maxrt i it q b mx rate rt V Hit Hi W U D) as (i' & E & W' & U' & L').
    subst Q. rewrite (count_step st s w i i' _ rt I1 R Ri E). simpl. rewrite U', L'. simpl.
    apply andb_true_iff. split; lia.
Qed.

Lemma recovery_holds st maxrt s e : 0 <= maxrt -> ev_ok e -> Inv maxrt s ->
  recovery_ok (present s) (scfg s) (sstr s) maxrt (observe true st s) e (observe true st (step true true true st s e)) = true.
Proof.
  intros Hm Ev I. pose proof (step_inv st maxrt s e Hm Ev I) as I'.
  unfold recovery_ok, rem_of, inner_is, rlim_is, rcfg_det, rem_of.
  destruct (observe_rem_eq st _ _ I') as [-> ->].
  destruct (observe_rem_eq st _ _ I) as [-> _].
  pose proof I as (I1 & V & Ip & I2 & I3).
  destruct e as [it0| |[| |[|] limit] rt| | | | | | |]; try reflexivity.
  - (* a server quota *)
    destruct (present s) eqn:P; [|reflexivity]. simpl.
    destruct (global_strategy (sstr s)) eqn:G; [|reflexivity].
    destruct (strategy_eqb (istr it0) SCount) eqn:S; [reflexivity|]. simpl.
    destruct (granted (scfg s) (idet it0)) as [l|] eqn:Gr; [|reflexivity].
    unfold step. rewrite I1, P.
    replace (enable_global (sstr s)) with true by (rewrite <- G; destruct (sstr s); reflexivity).
    simpl. unfold apply_sync.
    assert (Hw : wrap_ok (scfg s) maxrt (match rem s with Some w => w | None => empty_rw end)).
    { destruct (rem s); [assumption|]. unfold wrap_ok, empty_rw. reflexivity. }
    destruct (rw_sync_ok (scfg s) (scfg s) maxrt _ it0 V eq_refl Hm Hw) as (w' & E & X). rewrite E.
    destruct (sanitize (scfg s) it0) as [it|] eqn:Sa; [|rewrite (sanitize_none _ it0 Sa) in Gr; discriminate].
    destruct (sanitize_ok _ it0 it V Sa) as (Hit & Hs & Hg). rewrite Hg in Gr. inversion Gr; subst l; clear Gr.
    destruct X as (Hw' & Rc & Rn). unfold observe_rem, set_rem. simpl.
    unfold wrap_ok in Hw'. destruct (rin w') as [i'|]; [|congruence]. simpl.
    destruct Hw' as (it' & Rc' & _ & Hi'). rewrite Rc in Rc'. inversion Rc'; subst it'; clear Rc'.
    unfold inner_ok in Hi'. rewrite Hs in Hi'.
    destruct (iw i').
    + destruct Hi' as (_ & L & _). rewrite L. simpl. apply lim_eqb_refl.
    + destruct Hi' as (X & _). rewrite X in S. discriminate.
    + destruct Hi' as (X & _). rewrite X in S. discriminate.
  - (* an accepted global-count reply *)
    set (Q := observe_rem (step true true true st s (ECount (ROk true limit) rt))).
    unfold observe_rem. destruct (rem s) as [w|] eqn:R; [|reflexivity].
    unfold wrap_ok in I3. destruct (rin w) as [i|] eqn:Ri; [|reflexivity]. simpl.
    destruct I3 as (it & Rc & Hit & Hi). rewrite Rc.
    destruct (iw i) eqn:W; simpl; [reflexivity| |].
    + destruct (fresh maxrt rt) eqn:F; [|reflexivity].
      assert (D : exists m, idet it = DMI m).
      { unfold inner_ok in Hi. rewrite W in Hi. destruct Hi as (_ & _ & m & n & D & _). eauto. }
      destruct D as (m & D). rewrite D.
      destruct (set_limit_mi_accept (scfg s) maxrt i it m limit rt V Hit Hi W (not_stale _ _ _ F (ilast_le _ maxrt i it Hi W)) D) as (i' & E & W' & U' & O' & L').
      subst Q. rewrite (count_step st s w i i' _ rt I1 R Ri E). simpl. rewrite U', O', L'. simpl. lia.
    + assert (D : exists q b, idet it = DTB q b).
      { unfold inner_ok in Hi. rewrite W in Hi. destruct Hi as (_ & _ & _ & q & b & q' & b' & D & _). eauto. }
      destruct D as (q & b & D). rewrite D.
      destruct (set_limit_tb_accept (scfg s) maxrt i it q b limit rt V Hit Hi W D) as (i' & E & W' & U' & L').
      subst Q. rewrite (count_step st s w i i' _ rt I1 R Ri E). simpl. rewrite U', L'. simpl.
      apply andb_true_iff. split; lia.
Qed.

(* ---------- histories ---------- *)
Lemma sync_schema_fields s c' x :
  let s' := sync_schema true true true s c' x in
  present s' = true \/ (s' = s /\ present s = true /\ c' = scfg s /\ x = sstr s).
Proof.
  unfold sync_schema. destruct (present s) eqn:P; simpl; [|left; reflexivity].
  destruct (kind_eqb (ck c') (ck (scfg s)) && config_eqb c' (scfg s) && strategy_eqb x (sstr s)) eqn:E.
  - right. apply andb_true_iff in E. destruct E as [E1 E2]. apply config_eqb_eq in E1. apply strategy_eqb_eq in E2. auto.
  - left. destruct (kind_eqb _ _); simpl; [|reflexivity]. destruct (enable_global x); simpl; [|reflexivity].
    destruct (rem s) as [w|]; [|reflexivity]. destruct (rin w); [|reflexivity]. destruct (rcfg w); [|reflexivity].
    destruct (rw_sync _ _ _ _ _); reflexivity.
Qed.

Lemma sync_schema_proj s c' x :
  let s' := sync_schema true true true s c' x in
  present s' = true /\ scfg s' = c' /\ sstr s' = x /\ hage s' = hage s.
Proof.
  unfold sync_schema. destruct (present s) eqn:P; simpl; [|auto].
  destruct (kind_eqb (ck c') (ck (scfg s)) && config_eqb c' (scfg s) && strategy_eqb x (sstr s)) eqn:E.
  - apply andb_true_iff in E. destruct E as [E1 E2]. apply config_eqb_eq in E1. apply strategy_eqb_eq in E2. subst. auto.
  - destruct (kind_eqb _ _); simpl; [|auto]. destruct (enable_global x); simpl; [|auto].
    destruct (rem s) as [w|]; [|auto]. destruct (rin w); [|auto]. destruct (rcfg w); [|auto].
    destruct (rw_sync _ _ _ _ _); auto.
Qed.

Lemma step_proj st s e : crashed s = false ->
  let s' := step true true true st s e in
  present s' = next_present (present s) e /\ scfg s' = next_cfg (scfg s) e /\ sstr s' = next_str (sstr s) e.
Proof.
  intros Cr. unfold step. rewrite Cr.
  destruct e as [it| |r rt|ok| |ms|x|k x a b g h| |]; simpl.
  - destruct (present s && enable_global (sstr s)); [|auto]. unfold apply_sync. destruct (rw_sync _ _ _ _ _); auto.
  - destruct (present s && strategy_eqb (sstr s) SCount); [|auto]. unfold apply_sync. destruct (rw_sync _ _ _ _ _); auto.
  - destruct (rem s) as [w|]; [|auto]. destruct (rin w); [|auto]. destruct (set_limit _ _ _ _ _); auto.
  - auto.
  - auto.
  - auto.
  - destruct (sync_schema_proj s (scfg s) x) as (A & B & C & _). auto.
  - destruct (sync_schema_proj s {| ck := k; l1 := a; l2 := b; g1 := g; g2 := h |} x) as (A & B & C & _). auto.
  - destruct (present s) eqn:P; simpl; auto.
  - destruct (present s && enable_global (sstr s)); [|auto]. destruct (rem s); auto.
Qed.

Lemma next_rt_ge maxrt e : maxrt <= next_rt maxrt e.
Proof. destruct e; simpl; try lia. apply zmax_ge. Qed.

Lemma hist_holds st :
  forall ops s maxrt, Forall ev_ok ops -> 0 <= maxrt -> Inv maxrt s ->
  hist_ok st (present s) (scfg s) (sstr s) maxrt (observe true st s) (trace true true true st s ops) = all_true.
Proof.
  induction ops as [|e r IH]; intros s maxrt Ev Hm I; [reflexivity|].
  inversion Ev as [|? ? Ee Er]; subst.
  simpl. pose proof (step_inv st maxrt s e Hm Ee I) as I'.
  pose proof (next_rt_ge maxrt e) as Hge.
  destruct (step_proj st s e ltac:(destruct I as (I1 & _); exact I1)) as (P' & C' & S').
  rewrite <- P', <- C', <- S'. rewrite (IH _ (next_rt maxrt e) Er ltac:(lia) I').
  unfold step_ok.
  rewrite (failing_holds st maxrt s e Hm Ee I), (recovery_holds st maxrt s e Hm Ee I), (nopanic_holds st _ _ I').
  destruct (present (step true true true st s e)) eqn:P.
  - rewrite (bound_holds st _ _ I' P), (fallback_holds st _ _ I' P), (inforce_holds st _ _ I' P). reflexivity.
  - rewrite (absent_holds st _ _ I' P). reflexivity.
Qed.

Lemma init_inv c str0 : valid_cfg c -> Inv 0 (init c str0).
Proof. intros V. unfold Inv, init. simpl. auto. Qed.

Lemma case_holds st str0 ops : valid_cfg (cfg st) -> Forall ev_ok ops ->
  case_ok st str0 (observe true st (init (cfg st) str0)) (trace true true true st (init (cfg st) str0) ops) = all_true.
Proof.
  intros V Ev. unfold case_ok. pose proof (init_inv (cfg st) str0 V) as I.
  pose proof (hist_holds st ops _ 0 Ev ltac:(lia) I) as H. simpl sstr in H. simpl scfg in H. simpl present in H. rewrite H.
  unfold obs_ok.
  pose proof (bound_holds st 0 _ I eq_refl) as B. simpl scfg in B. rewrite B.
  rewrite (nopanic_holds st 0 _ I).
  pose proof (fallback_holds st 0 _ I eq_refl) as F. simpl sstr in F. simpl scfg in F. rewrite F.
  pose proof (inforce_holds st 0 _ I eq_refl) as G. simpl sstr in G. rewrite G.
  reflexivity.
Qed.

Lemma run_inv st :
  forall ops s maxrt, Forall ev_ok ops -> 0 <= maxrt -> Inv maxrt s ->
  exists m, 0 <= m /\ Inv m (run true true true st s ops).
Proof.
  induction ops as [|e r IH]; intros s maxrt Ev Hm I; [exists maxrt; auto|].
  inversion Ev as [|? ? Ee Er]; subst.
  simpl. pose proof (next_rt_ge maxrt e). apply (IH _ (next_rt maxrt e)); [assumption|lia|]. apply step_inv; auto.
Qed.

Lemma reach_inv st str0 ops : valid_cfg (cfg st) -> Forall ev_ok ops ->
  exists m, 0 <= m /\ Inv m (run true true true st (init (cfg st) str0) ops).
Proof. intros V Ev. apply (run_inv st ops _ 0 Ev); [lia|apply init_inv; assumption]. Qed.

(* the limiter a request meets is bounded by the schema currently configured, for every reachable state *)
Lemma enforced_bounded st maxrt s : Inv maxrt s -> present s = true ->
  exists l, o_lim (observe true st s) = Some l /\ lim_bounded (scfg s) l = true /\
            (forall n, l = LMI n -> o_adm (observe true st s) <= n).
Proof.
  intros I P. pose proof I as (_ & V & _). rewrite (observe_shape st maxrt s I P). simpl.
  destruct (elig st s) eqn:E.
  - unfold elig in E. destruct (md st); try discriminate. destruct (cs st); try discriminate.
    apply andb_true_iff in E. destruct E as [_ E]. unfold has_inner in E.
    destruct (remote_lim s) as [l|] eqn:R.
    + exists l. split; [reflexivity|]. split; [eapply remote_bounded; eauto|].
      intros n ->. apply admitted_le.
    + unfold remote_lim in R. destruct (rem s) as [w|]; [|discriminate]. destruct (rin w); discriminate.
  - exists (local_lim (scfg s)). split; [reflexivity|]. split.
    + rewrite (local_lim_spec _ V). unfold local_spec, lim_bounded, in_range, valid_cfg in *. destruct (ck (scfg s)); lia.
    + intros n ->. apply admitted_le.
Qed.

Lemma size_le_global st str0 ops : valid_cfg (cfg st) -> Forall ev_ok ops ->
  let s := run true true true st (init (cfg st) str0) ops in
  present s = true -> ck (scfg s) = KMI ->
  (exists n, o_lim (observe true st s) = Some (LMI n) /\ 0 <= n <= g1 (scfg s) /\ o_adm (observe true st s) <= g1 (scfg s))
  /\ (forall l, remote_lim s = Some l -> exists n, l = LMI n /\ 0 <= n <= g1 (scfg s)).
Proof.
  intros V Ev s P Ks. destruct (reach_inv st str0 ops V Ev) as (m & _ & I). fold s in I. split.
  - destruct (enforced_bounded st m s I P) as (l & L & B & A).
    unfold lim_bounded, in_range in B. rewrite Ks in B. destruct l; try discriminate.
    exists n. split; [assumption|]. specialize (A n eq_refl). lia.
  - intros l R. pose proof (remote_bounded m s l I R) as B.
    unfold lim_bounded, in_range in B. rewrite Ks in B. destruct l; try discriminate. exists n. split; [reflexivity|lia].
Qed.

Lemma tb_le_global st str0 ops : valid_cfg (cfg st) -> Forall ev_ok ops ->
  let s := run true true true st (init (cfg st) str0) ops in
  present s = true -> ck (scfg s) = KTB ->
  (exists q b, o_lim (observe true st s) = Some (LTB q b) /\ 0 <= q <= g1 (scfg s) /\ 0 <= b <= g2 (scfg s))
  /\ (forall l, remote_lim s = Some l -> exists q b, l = LTB q b /\ 0 <= q <= g1 (scfg s) /\ 0 <= b <= g2 (scfg s)).
Proof.
  intros V Ev s P Ks. destruct (reach_inv st str0 ops V Ev) as (m & _ & I). fold s in I. split.
  - destruct (enforced_bounded st m s I P) as (l & L & B & A).
    unfold lim_bounded, in_range in B. rewrite Ks in B. destruct l; try discriminate.
    exists q, b. split; [assumption|]. lia.
  - intros l R. pose proof (remote_bounded m s l I R) as B.
    unfold lim_bounded, in_range in B. rewrite Ks in B. destruct l; try discriminate. exists q, b. split; [reflexivity|lia].
Qed.

(* fallback: any missing condition selects the local limiter with the local limit *)
Lemma fallback st str0 ops : valid_cfg (cfg st) -> Forall ev_ok ops ->
  let s := run true true true st (init (cfg st) str0) ops in
  present s = true ->
  (md st <> MRemote \/ enable_global (sstr s) = false \/ cs st <> CSOk \/ hready s = false \/ has_inner s = false) ->
  o_sel (observe true st s) = SelLocal /\ o_lim (observe true st s) = Some (local_spec (scfg s)).
Proof.
  intros V Ev s P H. destruct (reach_inv st str0 ops V Ev) as (m & _ & I). fold s in I.
  pose proof I as (_ & Vs & _).
  rewrite (observe_shape st m s I P). simpl.
  assert (E : elig st s = false).
  { unfold elig. destruct (md st) eqn:M; try reflexivity. destruct (cs st) eqn:Cs; try reflexivity.
    destruct H as [H|[H|[H|[H|H]]]]; try congruence; rewrite H; simpl; try reflexivity.
    - destruct (enable_global (sstr s)); reflexivity.
    - destruct (enable_global (sstr s)); destruct (hready s); reflexivity. }
  rewrite E, (local_lim_spec _ Vs). auto.
Qed.

(* a deleted schema name gets the default flow control, a known one never *)
Lemma default_iff_absent st str0 ops : valid_cfg (cfg st) -> Forall ev_ok ops ->
  let s := run true true true st (init (cfg st) str0) ops in
  (o_sel (observe true st s) = SelDefault <-> present s = false).
Proof.
  intros V Ev s. destruct (reach_inv st str0 ops V Ev) as (m & _ & I). fold s in I.
  destruct (present s) eqn:P.
  - rewrite (observe_shape st m s I P). simpl. destruct (elig st s); split; discriminate.
  - rewrite (observe_absent st m s I P). simpl. split; reflexivity.
Qed.

(* readiness hysteresis: failing heartbeats for at least 5 s make the server not ready, for less than 5 s
   they do not; one good heartbeat or a leader change makes it ready *)
Lemma hage_step st s e : 0 <= hage s -> 0 <= hage (step true true true st s e).
Proof.
  intros H. unfold step. destruct (crashed s); [assumption|].
  destruct e as [it| |r rt|ok| |ms|x|k x a b g h| |]; simpl.
  - destruct (present s && enable_global (sstr s)); [|assumption]. unfold apply_sync. destruct (rw_sync _ _ _ _ _); assumption.
  - destruct (present s && strategy_eqb (sstr s) SCount); [|assumption]. unfold apply_sync. destruct (rw_sync _ _ _ _ _); assumption.
  - destruct (rem s) as [w|]; [|assumption]. destruct (rin w); [|assumption]. destruct (set_limit _ _ _ _ _); assumption.
  - unfold heartbeat. simpl. destruct (negb _); lia.
  - unfold heartbeat. simpl. destruct (negb _); lia.
  - destruct (ms <? 0) eqn:E; lia.
  - destruct (sync_schema_proj s (scfg s) x) as (_ & _ & _ & A). rewrite A. assumption.
  - destruct (sync_schema_proj s {| ck := k; l1 := a; l2 := b; g1 := g; g2 := h |} x) as (_ & _ & _ & A). rewrite A. assumption.
  - destruct (present s); assumption.
  - destruct (present s && enable_global (sstr s)); [|assumption]. destruct (rem s); assumption.
Qed.

Lemma hage_run st ops : forall s, 0 <= hage s -> 0 <= hage (run true true true st s ops).
Proof. induction ops as [|e r IH]; intros s H; [assumption|]. simpl. apply IH. apply hage_step. assumption. Qed.

Lemma hb_sequence st s ms : crashed s = false -> 0 <= hage s -> 0 <= ms ->
  let s' := step true true true st (step true true true st (step true true true st s (EHb false)) (EElapse ms)) (EHb false) in
  (5000 <= ms -> hready s' = false) /\
  (ms < 5000 -> hlast s = true -> hready s = true -> hready s' = true).
Proof.
  intros Cr H Hs.
  assert (E1 : step true true true st s (EHb false) = heartbeat s false) by (unfold step; rewrite Cr; reflexivity).
  rewrite E1. unfold step. simpl. rewrite Cr. simpl. unfold heartbeat. simpl.
  destruct (ms <? 0) eqn:E; [lia|].
  destruct (hlast s), (hready s); simpl; split; intros; try reflexivity; try discriminate;
    repeat match goal with |- context [?x <=? ?y] => destruct (x <=? y) eqn:? end; try reflexivity; lia.
Qed.

Lemma Forall_app_ok ops ops' : Forall ev_ok ops -> Forall ev_ok ops' -> Forall ev_ok (ops ++ ops').
Proof. intros A B. apply Forall_app. split; assumption. Qed.

Lemma run_app st s ops ops' : run true true true st s (ops ++ ops') = run true true true st (run true true true st s ops) ops'.
Proof. unfold run. apply fold_left_app. Qed.

Lemma heartbeat_fallback st str0 ops ms : valid_cfg (cfg st) -> Forall ev_ok ops -> 5000 <= ms ->
  let s := run true true true st (init (cfg st) str0) (ops ++ [EHb false; EElapse ms; EHb false]) in
  is_ready st s = false /\
  (present s = true -> o_sel (observe true st s) = SelLocal /\ o_lim (observe true st s) = Some (local_spec (scfg s))).
Proof.
  intros V Ev Hs s.
  assert (R : hready s = false).
  { subst s. rewrite run_app.
    destruct (reach_inv st str0 ops V Ev) as (m & _ & (I1 & _)).
    simpl. apply hb_sequence; auto; [|lia]. apply hage_run. simpl. lia. }
  split; [unfold is_ready; destruct (cs st); auto|].
  intros P. apply fallback; auto. apply Forall_app_ok; [assumption|]. repeat constructor.
Qed.

(* below 5 s of failing heartbeats a ready server stays ready (the hysteresis of setLeaderStatus) *)
Lemma heartbeat_hysteresis st str0 ops ms : valid_cfg (cfg st) -> Forall ev_ok ops -> 0 <= ms < 5000 ->
  let s0 := run true true true st (init (cfg st) str0) ops in
  hlast s0 = true -> hready s0 = true ->
  hready (run true true true st (init (cfg st) str0) (ops ++ [EHb false; EElapse ms; EHb false])) = true.
Proof.
  intros V Ev Hs s0 L R. rewrite run_app. fold s0.
  destruct (reach_inv st str0 ops V Ev) as (m & _ & (I1 & _)). fold s0 in I1.
  simpl. apply hb_sequence; auto; try lia. apply hage_run. simpl. lia.
Qed.

Lemma heartbeat_ready st str0 ops e : valid_cfg (cfg st) -> Forall ev_ok ops -> e = EHb true \/ e = ELeader ->
  hready (run true true true st (init (cfg st) str0) (ops ++ [e])) = true.
Proof.
  intros V Ev He. rewrite run_app.
  destruct (reach_inv st str0 ops V Ev) as (m & _ & (I1 & _)). simpl.
  destruct He as [-> | ->]; unfold step; rewrite I1; unfold heartbeat; simpl; destruct (hready _); reflexivity.
Qed.

(* ---------- reactions, stated on reachable states ---------- *)
Lemma lim_eqb_eq a b : lim_eqb a b = true -> a = b.
Proof.
  destruct a, b; simpl; intros H; try discriminate; try reflexivity.
  - f_equal. lia.
  - apply andb_true_iff in H. destruct H. f_equal; lia.
Qed.

Lemma observe_selected st maxrt s w i : Inv maxrt s -> present s = true ->
  md st = MRemote -> cs st = CSOk -> hready s = true -> enable_global (sstr s) = true ->
  rem s = Some w -> rin w = Some i ->
  o_sel (observe true st s) = SelRemote /\ o_lim (observe true st s) = Some (il i).
Proof.
  intros I P M Cs R G Rm Ri. rewrite (observe_shape st maxrt s I P). simpl.
  assert (E : elig st s = true) by (unfold elig, has_inner; rewrite M, Cs, R, G, Rm, Ri; reflexivity).
  rewrite E. unfold remote_lim. rewrite Rm, Ri. auto.
Qed.

Lemma count_state st s w i i' r rt : crashed s = false ->
  rem s = Some w -> rin w = Some i -> set_limit true (scfg s) i r rt = Some i' ->
  step true true true st s (ECount r rt) = set_rem s (Some {| rin := Some i'; rcfg := rcfg w |}).
Proof. intros I1 R Ri E. unfold step. rewrite I1, R, Ri, E. reflexivity. Qed.

Lemma rem_present maxrt s w : Inv maxrt s -> rem s = Some w -> present s = true.
Proof. intros (_ & _ & Ip & _) R. destruct (present s); [reflexivity|]. rewrite (Ip eq_refl) in R. discriminate. Qed.

(* a global-count error reply on an available wrapper synced from the schema's own global section:
   the limiter falls back to max(observed, local) within the global limit — never below the local limit *)
Lemma failing_bounds st str0 ops mx rate rt w i : valid_cfg (cfg st) -> Forall ev_ok ops ->
  let s := run true true true st (init (cfg st) str0) ops in let c := scfg s in
  rem s = Some w -> rin w = Some i -> iw i <> WEmpty -> iun i = false ->
  (0 <? rt) && (rt <=? ilast i) = false ->
  rcfg w = Some {| idet := global_detail c; istr := SCount |} ->
  exists i', rem (step true true true st s (ECount (RErr mx rate) rt)) = Some {| rin := Some i'; rcfg := rcfg w |} /\
             iun i' = true /\
             match ck c with
             | KMI => exists n, il i' = LMI n /\ l1 c <= n <= g1 c
             | KTB => exists q b, il i' = LTB q b /\ l1 c <= q <= g1 c /\ 0 <= b <= g2 c
             end.
Proof.
  intros V Ev s c Rm Ri W U F Rc. destruct (reach_inv st str0 ops V Ev) as (m & _ & I). fold s in I.
  pose proof I as (I1 & Vs & _ & _ & I3). fold c in Vs. rewrite Rm in I3. unfold wrap_ok in I3. rewrite Ri in I3. fold c in I3.
  destruct I3 as (it & Rc' & Hit & Hi). rewrite Rc in Rc'. inversion Rc'; subst it; clear Rc'.
  pose proof Hi as Hi0. unfold inner_ok in Hi0. unfold global_detail in *.
  destruct (iw i) eqn:Wi; [congruence| |].
  - destruct Hi0 as (_ & K & _). rewrite K in *.
    destruct (set_limit_mi_err c m i _ (g1 c) mx rate rt Vs Hit ltac:(rewrite K; exact Hi) Wi U F eq_refl) as (i' & E & _ & U' & L').
    exists i'. rewrite (count_state st s w i i' _ rt I1 Rm Ri E). simpl.
    split; [reflexivity|]. split; [assumption|]. eexists. split; [exact L'|].
    unfold valid_cfg in Vs. rewrite K in Vs. unfold zmin, zmax. zcases; lia.
  - destruct Hi0 as (_ & K & _). rewrite K in *.
    destruct (set_limit_tb_err c m i _ (g1 c) (g2 c) mx rate rt Vs Hit ltac:(rewrite K; exact Hi) Wi U eq_refl) as (i' & E & _ & U' & L').
    exists i'. rewrite (count_state st s w i i' _ rt I1 Rm Ri E). simpl.
    split; [reflexivity|]. split; [assumption|]. eexists. eexists. split; [exact L'|].
    unfold valid_cfg in Vs. rewrite K in Vs. unfold zmin, zmax. zcases; lia.
Qed.

(* a server quota of the schema's type (or carrying both members) becomes the limiter's size, bounded by
   the global limit, and is what a request meets as soon as the server is ready *)
Lemma recovery_allocate st str0 ops it l : valid_cfg (cfg st) -> Forall ev_ok ops ->
  let s := run true true true st (init (cfg st) str0) ops in let c := scfg s in
  present s = true ->
  md st = MRemote -> cs st = CSOk -> hready s = true -> enable_global (sstr s) = true ->
  istr it <> SCount -> granted c (idet it) = Some l ->
  let s' := step true true true st s (EQuota it) in
  o_sel (observe true st s') = SelRemote /\ o_lim (observe true st s') = Some l /\ remote_lim s' = Some l.
Proof.
  intros V Ev s c P M Cs R G S Gr s'. destruct (reach_inv st str0 ops V Ev) as (m & Hm & I). fold s in I.
  pose proof (step_inv st m s (EQuota it) Hm Logic.I I) as I'. fold s' in I'. simpl in I'.
  pose proof (recovery_holds st m s (EQuota it) Hm Logic.I I) as H. fold s' c in H.
  unfold recovery_ok in H. destruct (observe_rem_eq st _ _ I') as [Er Ep]. rewrite Ep in H.
  assert (G' : global_strategy (sstr s) = true) by (destruct (sstr s); auto).
  rewrite P, G' in H.
  assert (S' : strategy_eqb (istr it) SCount = false).
  { destruct (strategy_eqb (istr it) SCount) eqn:X; [|reflexivity]. apply strategy_eqb_eq in X. contradiction. }
  rewrite S', Gr in H. simpl in H. apply andb_true_iff in H. destruct H as [H1 H2].
  unfold inner_is, rlim_is, rem_of in *. rewrite Er in *. unfold observe_rem in *.
  destruct (rem s') as [w'|] eqn:Rm'; [|discriminate].
  destruct (rin w') as [i'|] eqn:Ri'; [|discriminate]. simpl in *.
  apply lim_eqb_eq in H2.
  destruct (step_proj st s (EQuota it) ltac:(destruct I as (I1 & _); exact I1)) as (P' & _ & Ss). fold s' in P', Ss. simpl in P', Ss.
  assert (Hr : hready s' = hready s).
  { subst s'. unfold step. destruct I as (I1 & _). rewrite I1, P, G. simpl. unfold apply_sync. destruct (rw_sync _ _ _ _ _); reflexivity. }
  destruct (observe_selected st m s' w' i' I' ltac:(congruence) M Cs ltac:(congruence) ltac:(congruence) Rm' Ri') as [A B].
  split; [assumption|]. split; [congruence|]. unfold remote_lim. rewrite Rm', Ri'. congruence.
Qed.

(* an accepted global-count reply that is not stale ends the unavailable state; the granted limit,
   raised to the burst reserve and bounded by the granted maximum, is the size (token bucket: the
   configured global rate is restored) and it is what a request meets when the server is ready *)
Lemma recovery_count st str0 ops limit rt w i it : valid_cfg (cfg st) -> Forall ev_ok ops ->
  let s := run true true true st (init (cfg st) str0) ops in
  rem s = Some w -> rin w = Some i -> iw i <> WEmpty -> rcfg w = Some it ->
  (0 <? rt) && (rt <=? ilast i) = false ->
  let s' := step true true true st s (ECount (ROk true limit) rt) in
  exists i', rem s' = Some {| rin := Some i'; rcfg := Some it |} /\ iun i' = false /\
             match idet it with
             | DMI m => il i' = LMI (zmin (zmax limit (reserve_of true m)) m)
             | DTB q b => il i' = LTB q b
             | _ => False
             end /\
             (md st = MRemote -> cs st = CSOk -> hready s = true -> enable_global (sstr s) = true ->
              o_sel (observe true st s') = SelRemote /\ o_lim (observe true st s') = Some (il i')).
Proof.
  intros V Ev s Rm Ri W Rc F s'. destruct (reach_inv st str0 ops V Ev) as (m & Hm & I). fold s in I.
  pose proof (step_inv st m s (ECount (ROk true limit) rt) Hm Logic.I I) as I'. fold s' in I'.
  pose proof (rem_present m s w I Rm) as P.
  pose proof I as (I1 & Vs & _ & _ & I3). rewrite Rm in I3. unfold wrap_ok in I3. rewrite Ri in I3.
  destruct I3 as (it' & Rc' & Hit & Hi). rewrite Rc in Rc'. inversion Rc'; subst it'; clear Rc'.
  assert (Sel : forall i', s' = set_rem s (Some {| rin := Some i'; rcfg := rcfg w |}) ->
                md st = MRemote -> cs st = CSOk -> hready s = true -> enable_global (sstr s) = true ->
                o_sel (observe true st s') = SelRemote /\ o_lim (observe true st s') = Some (il i')).
  { intros i' E M Cs R G.
    apply (observe_selected st _ s' {| rin := Some i'; rcfg := rcfg w |} i' I'); try rewrite E; simpl; auto. }
  pose proof Hi as Hi0. unfold inner_ok in Hi0.
  destruct (iw i) eqn:Wi; [congruence| |].
  - destruct Hi0 as (_ & _ & mm & n & D & _).
    destruct (set_limit_mi_accept (scfg s) m i it mm limit rt Vs Hit Hi Wi F D) as (i' & E & _ & U' & _ & L').
    pose proof (count_state st s w i i' _ rt I1 Rm Ri E) as St. fold s' in St.
    exists i'. split; [rewrite St; simpl; rewrite Rc; reflexivity|]. split; [assumption|].
    split; [rewrite D; assumption|]. apply Sel; assumption.
  - destruct Hi0 as (_ & _ & _ & q & b & q' & b' & D & _).
    destruct (set_limit_tb_accept (scfg s) m i it q b limit rt Vs Hit Hi Wi D) as (i' & E & _ & U' & L').
    pose proof (count_state st s w i i' _ rt I1 Rm Ri E) as St. fold s' in St.
    exists i'. split; [rewrite St; simpl; rewrite Rc; reflexivity|]. split; [assumption|].
    split; [rewrite D; assumption|]. apply Sel; assumption.
Qed.

(* a schema update — other limits, another strategy, another TYPE, or the name added again — takes effect
   at once: right after it, the limiter a request meets and the remote limiter are of the new type and
   within the new limits; no window until the next answer of the limiter server *)
Lemma schema_update_bounds st str0 ops k x a b g h : valid_cfg (cfg st) -> Forall ev_ok ops ->
  let c' := {| ck := k; l1 := a; l2 := b; g1 := g; g2 := h |} in
  valid_cfg c' ->
  let s' := run true true true st (init (cfg st) str0) (ops ++ [ESchema k x a b g h]) in
  present s' = true /\ scfg s' = c' /\ sstr s' = x /\
  (exists l, o_lim (observe true st s') = Some l /\ lim_bounded c' l = true) /\
  (forall l, remote_lim s' = Some l -> lim_bounded c' l = true).
Proof.
  intros V Ev c' V' s'.
  assert (Ev' : Forall ev_ok (ops ++ [ESchema k x a b g h])).
  { apply Forall_app_ok; [assumption|]. constructor; [exact V'|constructor]. }
  destruct (reach_inv st str0 _ V Ev') as (m & _ & I). fold s' in I.
  assert (C : present s' = true /\ scfg s' = c' /\ sstr s' = x).
  { subst s'. rewrite run_app. simpl.
    destruct (reach_inv st str0 ops V Ev) as (m0 & _ & (I1 & _)).
    destruct (step_proj st _ (ESchema k x a b g h) I1) as (A & B & C). simpl in A, B, C. auto. }
  destruct C as (P & C & S). repeat split; auto; rewrite <- C.
  - destruct (enforced_bounded st m s' I P) as (l & L & B & _). exists l. auto.
  - intros l R. eapply remote_bounded; eauto.
Qed.
