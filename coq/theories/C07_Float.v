(* C07 — software IEEE-754 binary64 (Go float64 on amd64, no FMA fusion):
   Flocq's BinarySingleNaN at precision 53 / emax 1024, round-to-nearest-even.
   Executable definitions only; the exactness lemmas are in C07_FloatLemmas.v. *)
From Coq Require Import ZArith Bool.
From Flocq Require Import Core IEEE754.BinarySingleNaN.
From KG Require Import Prelude.
Open Scope Z_scope.

Definition prec : Z := 53.
Definition emax : Z := 1024.
Lemma Hprec : Prec_gt_0 prec. Proof. reflexivity. Qed.
Lemma Hpe : Prec_lt_emax prec emax. Proof. reflexivity. Qed.
#[global] Existing Instance Hprec.
#[global] Existing Instance Hpe.

Definition f64 := binary_float prec emax.

(* float64(n) for a Go integer n: correctly rounded (exact below 2^53) *)
Definition ofZ (z : Z) : f64 := binary_normalize prec emax Hprec Hpe mode_NE z 0 false.

Definition fadd : f64 -> f64 -> f64 := Bplus mode_NE.
Definition fsub : f64 -> f64 -> f64 := Bminus mode_NE.
Definition fmul : f64 -> f64 -> f64 := Bmult mode_NE.
Definition fdiv : f64 -> f64 -> f64 := Bdiv mode_NE.
Definition fsqrt : f64 -> f64 := Bsqrt mode_NE.          (* math.Sqrt *)
Definition fceil : f64 -> f64 := Bnearbyint mode_UP.      (* math.Ceil *)
Definition fround : f64 -> f64 := Bnearbyint mode_NA.     (* math.Round: half away from zero *)

(* Go comparisons: every comparison with a NaN is false *)
Definition flt (a b : f64) : bool := Bltb a b.
Definition fle (a b : f64) : bool := Bleb a b.
Definition fgt (a b : f64) : bool := Bltb b a.
Definition fge (a b : f64) : bool := Bleb b a.
Definition feq (a b : f64) : bool := Beqb a b.

Definition fzero : f64 := ofZ 0.
Definition fone : f64 := ofZ 1.

Definition is_pinf (x : f64) : bool := match x with B754_infinity false => true | _ => false end.
Definition is_zero (x : f64) : bool := match x with B754_zero _ => true | _ => false end.

(* math.Max (pure Go implementation used on amd64) *)
Definition fmax (x y : f64) : f64 :=
  if (is_pinf x || is_pinf y)%bool then B754_infinity false
  else if (is_nan x || is_nan y)%bool then B754_nan
  else if (is_zero x && is_zero y)%bool then (if Bsign x then y else x)
  else if fgt x y then x else y.

(* int32(f) as compiled for amd64 (CVTTSD2SL): truncation toward zero; NaN and
   values whose truncation does not fit int32 give the "integer indefinite" 0x80000000 *)
Definition toInt32 (x : f64) : Z :=
  match x with
  | B754_nan => - two31
  | B754_infinity _ => - two31
  | _ => let t := Btrunc x in if in_int32b t then t else - two31
  end.

(* Go int32 arithmetic: wrap-around, division truncated toward zero *)
Definition add32 (a b : Z) : Z := wrap32 (a + b).
Definition sub32 (a b : Z) : Z := wrap32 (a - b).
Definition mul32 (a b : Z) : Z := wrap32 (a * b).
Definition quot32 (a b : Z) : Z := wrap32 (Z.quot a b).   (* caller guards b <> 0 (Go panics) *)

(* the constants of allocation.go, each the binary64 nearest to the decimal literal
   (a correctly rounded quotient of two small integers is that nearest double) *)
Definition c100 : f64 := ofZ 100.
Definition c70 : f64 := ofZ 70.
Definition c50 : f64 := ofZ 50.
Definition c5 : f64 := ofZ 5.
Definition c2 : f64 := ofZ 2.
Definition mkf (m : positive) (e : Z) (H : SpecFloat.bounded prec emax m e = true) : f64 :=
  @B754_finite prec emax false m e H.
Definition c0_7 : f64 := mkf 6305039478318694 (-53) eq_refl.    (* ExpectUtilizationPercent = 70/100.0 *)
Definition c0_2 : f64 := mkf 7205759403792794 (-55) eq_refl.    (* ReducePercent *)
Definition c0_3 : f64 := mkf 5404319552844595 (-54) eq_refl.    (* IncreasePercent *)
Definition c0_002 : f64 := mkf 4611686018427388 (-61) eq_refl.  (* MinimumQuotaPercent *)
Definition c0_05 : f64 := mkf 7205759403792794 (-57) eq_refl.   (* InitialQuotaPercent *)

(* they are the correctly rounded quotients, i.e. the doubles Go uses for the literals *)
Lemma consts_nearest :
  (B2SF c0_7, B2SF c0_2, B2SF c0_3, B2SF c0_002, B2SF c0_05) =
  (B2SF (fdiv (ofZ 7) (ofZ 10)), B2SF (fdiv (ofZ 2) (ofZ 10)), B2SF (fdiv (ofZ 3) (ofZ 10)),
   B2SF (fdiv (ofZ 2) (ofZ 1000)), B2SF (fdiv (ofZ 5) (ofZ 100))).
Proof. vm_compute. reflexivity. Qed.
