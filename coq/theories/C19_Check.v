(* C19 — case format of the correspondence run and its evaluator. *)
From KG Require Import Prelude C13_Model C19_Model C19_Spec.
Open Scope Z_scope.

Inductive case :=
| CHist (n : Z) (init : apist) (tr : list (op * obs)).   (* ops with what the real store / API did *)

Definition agree_step (m : res * list res * apist * localst) (b : obs) : bool :=
  let '(q, qs, a, l) := m in
  (res_eqb q (ores b) && list_eqb res_eqb qs (oires b) && api_eqb a (oapi b) && loc_eqb l (oloc b)
   && (Nat.eqb (List.length a) (List.length (oapi b))) && (Nat.eqb (List.length l) (List.length (oloc b))))%bool.

Definition agree_hist (n : Z) (init : apist) (tr : list (op * obs)) : bool :=
  forall2b agree_step (run n impl_locks (C19_Model.init init) (map fst tr)) (map snd tr).

(* clause layout: agree, ack, stop, load, deleted, filter, noregress *)
Definition eval (c : case) : list bool :=
  match c with
  | CHist n init tr => agree_hist n init tr :: hist_ok n init tr
  end.
