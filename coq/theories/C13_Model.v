(* C13 — implementation model: FNV-1a shard function (pkg/ratelimiter/util/shard.go),
   leadership guards and shard stores of the limiter server
   (pkg/ratelimiter/limiter/ratelimter.go, elector/leader_elector.go). *)
From KG Require Import Prelude.
Open Scope Z_scope.

(* ---- hash/fnv New32a: offset 2166136261, prime 16777619, xor then multiply mod 2^32 ---- *)
Definition fnv_step (h : Z) (c : N) : Z := wrapu32 (Z.lxor h (Z.of_N c) * 16777619).
Definition fnv32a (b : list N) : Z := fold_left fnv_step b 2166136261.

(* util.GetShardID: int(h.Sum32() % uint32(shardCount)); None = integer divide by zero panic *)
Definition shard_id (name : string) (n : Z) : option Z :=
  let m := wrapu32 n in
  if m =? 0 then None else Some (fnv32a (bytes_of name) mod m).

(* clientSets.ShardIDFor: shardCount == 0 -> (-1, error) *)
Definition gw_shard_id (name : string) (n : Z) : option Z :=
  if n =? 0 then None else shard_id name n.

(* ---- limiter server: leadership + per-shard in-memory stores ---- *)
(* a shard store: (upstream key, condition name) pairs, sorted, unique *)
Definition store := list (string * string).

Definition pair_cmp (a b : string * string) : comparison :=
  match String.compare (fst a) (fst b) with
  | Eq => String.compare (snd a) (snd b)
  | c => c
  end.

Fixpoint ins_sorted (x : string * string) (l : store) : store :=
  match l with
  | [] => [x]
  | y :: r => match pair_cmp x y with
              | Lt => x :: l
              | Eq => l
              | Gt => y :: ins_sorted x r
              end
  end.

Definition has_cond (u c : string) (l : store) : bool :=
  existsb (fun p => (String.eqb (fst p) u && String.eqb (snd p) c)%bool) l.

Fixpoint zlookup {A} (k : Z) (l : list (Z * A)) : option A :=
  match l with
  | [] => None
  | (k', v) :: r => if k =? k' then Some v else zlookup k r
  end.
Fixpoint zdel {A} (k : Z) (l : list (Z * A)) : list (Z * A) :=
  match l with
  | [] => []
  | (k', v) :: r => if k =? k' then zdel k r else (k', v) :: zdel k r
  end.
(* keyed insert keeping keys sorted ascending and unique *)
Fixpoint zset {A} (k : Z) (v : A) (l : list (Z * A)) : list (Z * A) :=
  match l with
  | [] => [(k, v)]
  | (k', v') :: r => if k =? k' then (k, v) :: r
                     else if k <? k' then (k, v) :: l
                     else (k', v') :: zset k v r
  end.

Record st := {
  me : string;
  nshards : Z;
  leaders : list (Z * string);       (* elector.leaderInfo : shard -> leader identity *)
  stores : list (Z * store);         (* rateLimiter.limitStoreMap *)
  lister : list string;              (* names of the UpstreamClusters known to the informer *)
  locks : list string;               (* rateLimiter.upstreamLock keys (never dropped) *)
}.

Definition is_leader (s : st) (sh : Z) : bool :=
  match zlookup sh (leaders s) with Some l => String.eqb l (me s) | None => String.eqb EmptyString (me s) end.

Definition shard_of (s : st) (name : string) : Z :=
  match shard_id name (nshards s) with Some z => z | None => 0 end.

Definition state_name (u : string) : string := (u ++ ".state")%string.
Definition cond_name (u i : string) : string := (u ++ "." ++ i)%string.

Inductive res := RNotLeader | RNoStore | RNotFound | ROk | RNil | RErr.

Definition res_eqb (a b : res) : bool :=
  match a, b with
  | RNotLeader, RNotLeader | RNoStore, RNoStore | RNotFound, RNotFound | ROk, ROk | RNil, RNil | RErr, RErr => true
  | _, _ => false
  end.

Definition set_stores (s : st) (x : list (Z * store)) : st :=
  {| me := me s; nshards := nshards s; leaders := leaders s; stores := x; lister := lister s; locks := locks s |}.
Definition set_leaders (s : st) (x : list (Z * string)) : st :=
  {| me := me s; nshards := nshards s; leaders := x; stores := stores s; lister := lister s; locks := locks s |}.
Definition set_lister (s : st) (x : list string) : st :=
  {| me := me s; nshards := nshards s; leaders := leaders s; stores := stores s; lister := x; locks := locks s |}.
Definition add_lock (s : st) (u : string) : st :=
  {| me := me s; nshards := nshards s; leaders := leaders s; stores := stores s; lister := lister s;
     locks := if str_mem u (locks s) then locks s else u :: locks s |}.

(* rateLimiter.UpstreamConditionHandler *)
Definition handler (s : st) (u : string) : st * res :=
  let sh := shard_of s u in
  if negb (is_leader s sh) then (s, RNil) else
  match zlookup sh (stores s) with
  | None => (s, RNoStore)
  | Some sto =>
      if negb (str_mem u (lister s)) then
        (* DeleteUpstream: drop every condition of this upstream *)
        (set_stores s (zset sh (filter (fun c => negb (String.eqb (fst c) u)) sto) (stores s)), RNil)
      else
        (add_lock (set_stores s (zset sh (ins_sorted (u, state_name u) sto) (stores s))) u, RNil)
  end.

(* rateLimiter.startLeading (limiter side) *)
Definition lim_start (s : st) (sh : Z) : st :=
  match zlookup sh (stores s) with
  | Some _ => s
  | None =>
      let s1 := set_stores s (zset sh [] (stores s)) in
      fold_left (fun acc u => if shard_of acc u =? sh then fst (handler acc u) else acc) (lister s) s1
  end.

Definition lim_stop (s : st) (sh : Z) : st := set_stores s (zdel sh (stores s)).

Inductive op :=
| ONewLeader (sh : Z) (id : string)         (* elector OnNewLeader -> setLeader *)
| OStartLeading (sh : Z)                    (* elector.startLeading: setLeader(me) + limiter.startLeading *)
| OStopLeading (sh : Z)                     (* elector.stopLeading + limiter.stopLeading *)
| OStopFlaky (sh : Z)                       (* the same while the store's first flush fails (API outage):
                                               stopLimitStoreWithRetry retries, the store is dropped at once *)
| OLeaderCheck                              (* rateLimiter.leaderCheck *)
| OLeaderCheckRace (sh : Z)                 (* leaderCheck whose GetLeaders() snapshot is taken just before the
                                               lease of sh is lost (record deleted, OnStoppedLeading runs), and
                                               which then continues on the stale snapshot *)
| OClusterSet (u : string)                  (* informer add/update + UpstreamConditionHandler *)
| OClusterDel (u : string)                  (* informer delete + UpstreamConditionHandler *)
| OUpdate (u i : string)                    (* UpdateRateLimitConditionStatus *)
| OAcquire (u i : string).                  (* DoAcquire *)

Definition leader_check (s : st) : st :=
  let s1 := fold_left (fun acc (p : Z * string) =>
                         if String.eqb (snd p) (me acc) then
                           match zlookup (fst p) (stores acc) with
                           | None => lim_start acc (fst p)
                           | Some _ => acc
                           end
                         else acc) (leaders s) s in
  fold_left (fun acc (p : Z * store) =>
               let led := match zlookup (fst p) (leaders acc) with
                          | Some l => String.eqb l (me acc) | None => false end in
               if led then acc else lim_stop acc (fst p)) (stores s1) s1.

(* leaderCheck continuing on a snapshot [snap] of the leader records *)
Definition lc1m (acc : st) (p : Z * string) : st :=
  if String.eqb (snd p) (me acc) then
    match zlookup (fst p) (stores acc) with
    | None => lim_start acc (fst p)
    | Some _ => acc
    end
  else acc.
Definition lc2m (snap : list (Z * string)) (acc : st) (p : Z * store) : st :=
  let led := match zlookup (fst p) snap with
             | Some l => String.eqb l (me acc) | None => false end in
  if led then acc else lim_stop acc (fst p).
Definition leader_check_snap (snap : list (Z * string)) (s : st) : st :=
  let s1 := fold_left lc1m snap s in
  fold_left (lc2m snap) (stores s1) s1.

Definition step (s : st) (o : op) : st * res :=
  match o with
  | ONewLeader sh id => (set_leaders s (zset sh id (leaders s)), RNil)
  | OStartLeading sh => (lim_start (set_leaders s (zset sh (me s) (leaders s))) sh, RNil)
  | OStopLeading sh | OStopFlaky sh =>
      let s1 := if is_leader s sh then set_leaders s (zdel sh (leaders s)) else s in
      (lim_stop s1 sh, RNil)
  | OLeaderCheck => (leader_check s, RNil)
  | OLeaderCheckRace sh =>
      let snap := leaders s in
      let s0 := lim_stop (if is_leader s sh then set_leaders s (zdel sh (leaders s)) else s) sh in
      (leader_check_snap snap s0, RNil)
  | OClusterSet u =>
      handler (set_lister s (if str_mem u (lister s) then lister s else lister s ++ [u])) u
  | OClusterDel u =>
      handler (set_lister s (filter (fun x => negb (String.eqb x u)) (lister s))) u
  | OUpdate u i =>
      let sh := shard_of s u in
      if negb (is_leader s sh) then (s, RNotLeader) else
      match zlookup sh (stores s) with
      | None => (s, RNoStore)
      | Some sto =>
          if negb (has_cond u (state_name u) sto) then (s, RNotFound)
          else if negb (str_mem u (locks s)) then (s, RErr)
          else (set_stores s (zset sh (ins_sorted (u, cond_name u i) sto) (stores s)), ROk)
      end
  | OAcquire u i =>
      let sh := shard_of s u in
      if negb (is_leader s sh) then (s, RNotLeader) else
      match zlookup sh (stores s) with
      | None => (s, RNoStore)
      | Some _ => (s, ROk)
      end
  end.

Definition init (id : string) (n : Z) : st :=
  {| me := id; nshards := n; leaders := []; stores := []; lister := []; locks := [] |}.

(* run a history, returning the result and the store snapshot after every op *)
Fixpoint run (s : st) (ops : list op) : list (res * list (Z * store)) :=
  match ops with
  | [] => []
  | o :: r => let '(s', x) := step s o in (x, stores s') :: run s' r
  end.

Fixpoint run_state (s : st) (ops : list op) : st :=
  match ops with
  | [] => s
  | o :: r => run_state (fst (step s o)) r
  end.

(* ---- gateway side: what the gateway knows about the shard leaders
   (pkg/ratelimiter/clientsets/clientsets.go: clientSets.sync, ClientFor, ShardIDFor) ---- *)
Record gw := { g_n : Z; g_leaders : list (Z * string) }.   (* shardCount, leaderEndpoints *)

Inductive gwop :=
| GSync (n : Z) (eps : list (Z * string))   (* a server-info answer: ShardCount and (ShardID, Leader) in the order listed *)
| GSyncFail                                 (* lookup / request / decoding failed: sync returns early *)
| GClientFor (u : string).                  (* ClientFor(upstream): which server is addressed *)

Inductive gwres := GNil | GErr | GTo (server : string).

Definition gwres_eqb (a b : gwres) : bool :=
  match a, b with
  | GNil, GNil | GErr, GErr => true
  | GTo x, GTo y => String.eqb x y
  | _, _ => false
  end.

(* the loop body of sync: the endpoint is stored when it differs from the one on record ("" when none) *)
Definition gw_set (acc : list (Z * string)) (p : Z * string) : list (Z * string) :=
  let old := match zlookup (fst p) acc with Some l => l | None => EmptyString end in
  if String.eqb old (snd p) then acc else zset (fst p) (snd p) acc.

Definition gw_step (g : gw) (o : gwop) : gw * gwres :=
  match o with
  | GSync n eps => ({| g_n := n; g_leaders := fold_left gw_set eps (g_leaders g) |}, GNil)
  | GSyncFail => (g, GNil)
  | GClientFor u =>
      match gw_shard_id u (g_n g) with
      | None => (g, GErr)                                  (* shard count not synced *)
      | Some sh => match zlookup sh (g_leaders g) with
                   | Some l => (g, GTo l)
                   | None => (g, GErr)                     (* server shard has no leader *)
                   end
      end
  end.

Definition gw_init : gw := {| g_n := 0; g_leaders := [] |}.

Fixpoint gw_run (g : gw) (ops : list gwop) : list gwres :=
  match ops with
  | [] => []
  | o :: r => let '(g', x) := gw_step g o in x :: gw_run g' r
  end.
