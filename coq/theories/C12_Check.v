(* C12 — case format of the correspondence run and its evaluator. *)
From KG Require Import Prelude C12_Model C12_Spec.
Open Scope Z_scope.

Inductive case :=
| Case (cfg : config)
       (tscript : list (cluster * list tanswer))   (* per cluster: answers to its 1st, 2nd, ... TokenReview *)
       (sscript : list (cluster * list sanswer))   (* per cluster: answers to its 1st, 2nd, ... SubjectAccessReview *)
       (tr : list (xop * xout)).                   (* ops with what the real authenticator / authorizer did *)

(* a script that runs out answers with a plain (non-retriable) failure tagged 0, on both sides *)
Definition t_default : tanswer := TFail 0 false.
Definition s_default : sanswer := SFail 0 false.

(* clause layout: agree, own_cluster, unavailable_denies, fresh_answer, cached_provenance, same_cluster *)
Definition eval (c : case) : list bool :=
  match c with
  | Case cfg tscr sscr tr =>
      let torc := script_orc t_default tscr in
      let sorc := script_orc s_default sscr in
      let agree := forall2b (fun (m : xop * xout) (o : xop * xout) => xout_eqb (snd m) (snd o))
                            (runx cfg torc sorc (init cfg) (map fst tr)) tr in
      let '((own, unav, fresh, cached), same) := spec_ok cfg torc sorc tr in
      [agree; own; unav; fresh; cached; same]
  end.
