(* C19 — implementation model of the API-backed limiter store
   (pkg/ratelimiter/store/k8s/cache_store.go over store/local/local.go).

   API server  = association list  name -> body          (object tracker of the clientset)
   store       = shard, mode (write-through = syncPeriod 0 / periodic), stopped flag, local map
                 (upstream, name) -> body
   Every API call of an operation receives an injected outcome popped from a per-object-name
   queue (the "plan"); OOk lets the call through to the API, which may still answer NotFound /
   AlreadyExists on its own.  OCrash = the process dies before the call is made: API kept,
   local state dropped, store dead until an ORestart builds a new store over the same API.

   Map iteration order of the Go code (sync.Map Range in flush / DeleteUpstream) is not
   determined by the code; the operations therefore carry the order [ord] in which items are
   processed (observed in the correspondence run, universally quantified in the theorems).

   [lk : locks] says which foreground operations take the store mutex that doSyncLocked holds
   (see [locks] below).  The originally pinned code takes it nowhere: a Delete or Save issued by
   another goroutine while a flush is running executes immediately (fop interleaved before the
   first API call of an item); an operation that takes the mutex waits until the flush has returned. *)
From KG Require Import Prelude C13_Model.
Open Scope Z_scope.

Record body := mkBody { bup : string; bsv : Z; btv : Z; blab : Z }.
(* bup = Spec.UpstreamCluster, bsv = a value carried in Spec, btv = a value carried in Status,
   blab = a metadata label (kept from the API's version on the conflict path) *)
Definition cond : Type := string * body.          (* object name, content *)
Definition key : Type := string * string.         (* local store key: (upstream, name) *)
Definition key_eqb (a b : key) : bool := (String.eqb (fst a) (fst b) && String.eqb (snd a) (snd b))%bool.

Definition body_eqb (a b : body) : bool :=
  (String.eqb (bup a) (bup b) && (bsv a =? bsv b) && (btv a =? btv b) && (blab a =? blab b))%bool.
(* what a caller handed in: spec and status (labels are metadata) *)
Definition content_eqb (a b : body) : bool :=
  (String.eqb (bup a) (bup b) && (bsv a =? bsv b) && (btv a =? btv b))%bool.

(* ---- association lists ---- *)
Fixpoint alookup {K V} (eqb : K -> K -> bool) (k : K) (l : list (K * V)) : option V :=
  match l with
  | [] => None
  | (k', v) :: r => if eqb k k' then Some v else alookup eqb k r
  end.
(* replace the first binding of k, or append a new one at the end *)
Fixpoint aset {K V} (eqb : K -> K -> bool) (k : K) (v : V) (l : list (K * V)) : list (K * V) :=
  match l with
  | [] => [(k, v)]
  | (k', v') :: r => if eqb k k' then (k, v) :: r else (k', v') :: aset eqb k v r
  end.
Definition adel {K V} (eqb : K -> K -> bool) (k : K) (l : list (K * V)) : list (K * V) :=
  filter (fun p => negb (eqb k (fst p))) l.

Definition apist := list (string * body).
Definition localst := list (key * body).

(* ---- injected outcomes ---- *)
Inductive outcome := OOk | ONotFound | OConflict | OExists | OTransient | OCrash.
Inductive ares := AOk | ANotFound | AConflict | AExists | ATransient | ACrash.
Definition inj (o : outcome) : option ares :=
  match o with
  | OOk => None | ONotFound => Some ANotFound | OConflict => Some AConflict
  | OExists => Some AExists | OTransient => Some ATransient | OCrash => Some ACrash
  end.

Definition plan := list (string * list outcome).
(* next injected outcome for an API call on object [n]; an exhausted / absent queue means OOk *)
Fixpoint pop (n : string) (pl : plan) : outcome * plan :=
  match pl with
  | [] => (OOk, [])
  | (m, q) :: r =>
      if String.eqb n m then
        match q with
        | [] => (OOk, pl)
        | o :: q' => (o, (m, q') :: r)
        end
      else let '(o, r') := pop n r in (o, (m, q) :: r')
  end.

(* ---- the five API calls ---- *)
Definition api_update (a : apist) (n : string) (b : body) (o : outcome) : apist * ares :=
  match inj o with
  | Some r => (a, r)
  | None => match alookup String.eqb n a with
            | Some _ => (aset String.eqb n b a, AOk)
            | None => (a, ANotFound)
            end
  end.
Definition api_create (a : apist) (n : string) (b : body) (o : outcome) : apist * ares :=
  match inj o with
  | Some r => (a, r)
  | None => match alookup String.eqb n a with
            | Some _ => (a, AExists)
            | None => (aset String.eqb n b a, AOk)
            end
  end.
Definition api_get (a : apist) (n : string) (o : outcome) : ares * option body :=
  match inj o with
  | Some r => (r, None)
  | None => match alookup String.eqb n a with
            | Some b => (AOk, Some b)
            | None => (ANotFound, None)
            end
  end.
(* an injected NotFound on a delete stands for "somebody else deleted it first": it is gone *)
Definition api_delete (a : apist) (n : string) (o : outcome) : apist * ares :=
  match inj o with
  | Some ANotFound => (adel String.eqb n a, ANotFound)
  | Some r => (a, r)
  | None => match alookup String.eqb n a with
            | Some _ => (adel String.eqb n a, AOk)
            | None => (a, ANotFound)
            end
  end.

(* results of store operations *)
Inductive res := ROk | RErr | RRefused | RCrash | RDead | RBad.
(* RBad: the order handed to the model is not an order the code could have used *)
Definition res_eqb (a b : res) : bool :=
  match a, b with
  | ROk, ROk | RErr, RErr | RRefused, RRefused | RCrash, RCrash | RDead, RDead | RBad, RBad => true
  | _, _ => false
  end.

(* conflict path: item = latest; item.Spec = condition.Spec; item.Status = condition.Status *)
Definition merge (latest orig : body) : body := mkBody (bup orig) (bsv orig) (btv orig) (blab latest).

(* objectStore.createOrUpdate: wait.ExponentialBackoff(retry.DefaultRetry = 5 steps, ...) *)
Inductive cres := CDone (it : body) | CErr | CCrash.
Fixpoint cou (steps : nat) (a : apist) (pl : plan) (nm : string) (orig : body) (item : option body)
  : apist * plan * cres :=
  match steps with
  | O => (a, pl, CErr)                                   (* ErrWaitTimeout *)
  | S k =>
      match item with
      | None => (a, pl, CErr)                            (* Update(nil) after a failed Create: fails before reaching the API *)
      | Some it =>
          let '(o, pl1) := pop nm pl in
          match api_update a nm it o with
          | (a1, AOk) => (a1, pl1, CDone it)
          | (_, ACrash) => (a, pl1, CCrash)
          | (a1, ANotFound) =>
              let '(o2, pl2) := pop nm pl1 in
              match api_create a1 nm it o2 with
              | (a2, AOk) => (a2, pl2, CDone it)
              | (_, ACrash) => (a1, pl2, CCrash)
              | (a2, _) => cou k a2 pl2 nm orig None     (* item, err = Create(...): item is now nil *)
              end
          | (a1, AConflict) =>
              let '(o2, pl2) := pop nm pl1 in
              match api_get a1 nm o2 with
              | (AOk, Some latest) => cou k a1 pl2 nm orig (Some (merge latest orig))
              | (ACrash, _) => (a1, pl2, CCrash)
              | _ => cou k a1 pl2 nm orig item
              end
          | (a1, _) => (a1, pl1, CErr)                   (* return true, err *)
          end
      end
  end.

(* retry.RetryOnConflict(retry.DefaultRetry, Delete; nil or NotFound -> nil) *)
Fixpoint del_loop (steps : nat) (a : apist) (pl : plan) (nm : string) : apist * plan * res :=
  match steps with
  | O => (a, pl, RErr)
  | S k =>
      let '(o, pl1) := pop nm pl in
      match api_delete a nm o with
      | (a1, AOk) | (a1, ANotFound) => (a1, pl1, ROk)
      | (a1, AConflict) => del_loop k a1 pl1 nm
      | (_, ACrash) => (a, pl1, RCrash)
      | (a1, _) => (a1, pl1, RErr)
      end
  end.

Definition shard_of (n : Z) (up : string) : Z :=
  match shard_id up n with Some z => z | None => -1 end.

Record world := mkW { wapi : apist; wloc : localst; wpl : plan }.

(* objectStore.Save (callers always pass cluster = condition.Spec.UpstreamCluster) *)
Definition do_save (n sh : Z) (w : bool) (c : cond) (x : world) : world * res :=
  let nm := fst c in let b := snd c in
  if negb (shard_of n (bup b) =? sh) then (x, RRefused) else
  if w then
    match cou 5 (wapi x) (wpl x) nm b (Some b) with
    | (a, pl, CDone it) => (mkW a (aset key_eqb (bup b, nm) it (wloc x)) pl, ROk)
    | (a, pl, CErr) => (mkW a (wloc x) pl, RErr)
    | (a, pl, CCrash) => (mkW a (wloc x) pl, RCrash)
    end
  else (mkW (wapi x) (aset key_eqb (bup b, nm) b (wloc x)) (wpl x), ROk).

(* objectStore.Delete *)
Definition do_delete (cl nm : string) (x : world) : world * res :=
  match del_loop 5 (wapi x) (wpl x) nm with
  | (a, pl, ROk) => (mkW a (adel key_eqb (cl, nm) (wloc x)) pl, ROk)
  | (a, pl, r) => (mkW a (wloc x) pl, r)
  end.

Fixpoint del_many (a : apist) (pl : plan) (names : list string) : apist * plan * res :=
  match names with
  | [] => (a, pl, ROk)
  | nm :: r =>
      match del_loop 5 a pl nm with
      | (a1, pl1, ROk) => del_many a1 pl1 r
      | other => other
      end
  end.

Fixpoint str_nodup (l : list string) : bool :=
  match l with [] => true | x :: r => (negb (str_mem x r) && str_nodup r)%bool end.

(* objectStore.DeleteUpstream; [ord] = the order in which ListUpstream handed out the items *)
Definition do_delete_up (cl : string) (ord : list string) (x : world) : world * res :=
  if negb (str_nodup ord && forallb (fun nm => match alookup key_eqb (cl, nm) (wloc x) with Some _ => true | None => false end) ord)%bool
  then (x, RBad) else
  match del_many (wapi x) (wpl x) ord with
  | (a, pl, ROk) =>
      if forallb (fun p : key * body => (negb (String.eqb (fst (fst p)) cl) || str_mem (snd (fst p)) ord)%bool) (wloc x)
      then (mkW a (filter (fun p : key * body => negb (String.eqb (fst (fst p)) cl)) (wloc x)) pl, ROk)
      else (mkW a (wloc x) pl, RBad)
  | (a, pl, r) => (mkW a (wloc x) pl, r)
  end.

(* operations a caller can issue at any time (also from another goroutine while a flush runs) *)
Inductive fop :=
| FSave (c : cond)
| FDelete (cl nm : string)
| FDeleteUp (cl : string) (ord : list string).

Definition do_fop (n sh : Z) (w : bool) (f : fop) (x : world) : world * res :=
  match f with
  | FSave c => do_save n sh w c x
  | FDelete cl nm => do_delete cl nm x
  | FDeleteUp cl ord => do_delete_up cl ord x
  end.

Definition is_del (f : fop) : bool := match f with FSave _ => false | _ => true end.

(* which foreground operations take the store mutex that a running flush (doSyncLocked) holds:
   lk_del  = Delete / DeleteUpstream (first repair),
   lk_save = Save in write-through mode (second repair; a periodic-mode Save only writes the local map).
   An operation that takes the mutex while a flush is running waits until the flush has returned. *)
Record locks := mkLocks { lk_del : bool; lk_save : bool }.
Definition nolocks : locks := mkLocks false false.
Definition defers (lk : locks) (w : bool) (f : fop) : bool :=
  match f with FSave _ => (lk_save lk && w)%bool | _ => lk_del lk end.

(* interleaved operations: executed at once, or (lk and deleting) queued until the flush returns.
   Returns (world, queue, results in execution order, crashed?) *)
Fixpoint run_inter (n : Z) (lk : locks) (sh : Z) (w : bool) (fs : list fop) (x : world) (dq : list fop) (rs : list res)
  : world * list fop * list res * bool :=
  match fs with
  | [] => (x, dq, rs, false)
  | f :: r =>
      if defers lk w f then run_inter n lk sh w r x (dq ++ [f]) rs
      else let '(x1, q) := do_fop n sh w f x in
           if res_eqb q RCrash then (x1, dq, rs ++ [q], true)
           else run_inter n lk sh w r x1 dq (rs ++ [q])
  end.

Fixpoint key_mem (k : key) (l : list key) : bool :=
  match l with [] => false | y :: r => if key_eqb k y then true else key_mem k r end.
Fixpoint key_nodup (l : list key) : bool :=
  match l with [] => true | x :: r => (negb (key_mem x r) && key_nodup r)%bool end.

(* doSyncLocked: items = snapshot of the local store; for each item of the own shard createOrUpdate *)
Fixpoint flush_go (n : Z) (lk : locks) (sh : Z) (w : bool) (snap : localst) (ord : list key)
         (inter : list (key * list fop)) (x : world) (dq : list fop) (rs : list res)
  : world * list fop * list res * res :=
  match ord with
  | [] => (x, dq, rs, ROk)
  | k :: r =>
      match alookup key_eqb k snap with
      | None => (x, dq, rs, RBad)
      | Some b =>
          if negb (shard_of n (bup b) =? sh) then (x, dq, rs, RBad) else
          let fs := match alookup key_eqb k inter with Some l => l | None => [] end in
          let '(x1, dq1, rs1, crashed) := run_inter n lk sh w fs x dq rs in
          if crashed then (x1, dq1, rs1, RCrash) else
          match cou 5 (wapi x1) (wpl x1) (snd k) b (Some b) with
          | (a, pl, CDone _) => flush_go n lk sh w snap r inter (mkW a (wloc x1) pl) dq1 rs1
          | (a, pl, CErr) => (mkW a (wloc x1) pl, dq1, rs1, RErr)
          | (a, pl, CCrash) => (mkW a (wloc x1) pl, dq1, rs1, RCrash)
          end
      end
  end.

Definition do_flush (n : Z) (lk : locks) (sh : Z) (w : bool) (ord : list key) (inter : list (key * list fop)) (x : world)
  : world * list res * res :=
  if negb (key_nodup ord) then (x, [], RBad) else
  let snap := wloc x in
  let '(x1, dq, rs, out) := flush_go n lk sh w snap ord inter x [] [] in
  if res_eqb out RCrash then (x1, rs, RCrash) else
  let out1 := if res_eqb out ROk
              then if forallb (fun p : key * body => (negb (shard_of n (bup (snd p)) =? sh) || key_mem (fst p) ord)%bool) snap
                   then ROk else RBad
              else out in
  (* operations that were waiting for the mutex run now *)
  let '(x2, _, rs2, crashed) := run_inter n nolocks sh w dq x1 [] rs in
  (x2, rs2, if crashed then RCrash else out1).

(* objectStore.Load *)
Definition do_load (n sh : Z) (o : outcome) (x : world) : world * res :=
  match inj o with
  | Some ACrash => (x, RCrash)
  | Some _ => (x, RErr)
  | None =>
      (mkW (wapi x)
           (fold_left (fun (l : localst) (p : string * body) =>
                         if shard_of n (bup (snd p)) =? sh then aset key_eqb (bup (snd p), fst p) (snd p) l else l)
                      (wapi x) (wloc x))
           (wpl x), ROk)
  end.

Record store := mkStore { shard : Z; wt : bool; stopped : bool; dead : bool; loc : localst }.
Record st := mkSt { api : apist; sto : store }.

Inductive op :=
| OFg (f : fop) (pl : plan)
| OFlush (ord : list key) (inter : list (key * list fop)) (pl : plan)   (* Flush / one periodic sync *)
| OStop (ord : list key) (pl : plan)
| OGStop (ords : list (list key)) (pl : plan)   (* graceful stop by the limiter: stopLimitStoreWithRetry, one flush order per attempt *)
| OLoad (o : outcome)
| ORestart (sh : Z) (w : bool).      (* the store is discarded (crash or hand-over); a new one is built over the same API *)

(* limiter.stopLimitStoreWithRetry: up to 10 attempts of Stop(), the next one only after a failed one *)
Fixpoint gstop_go (fuel : nat) (n : Z) (lk : locks) (sh : Z) (w : bool) (ords : list (list key)) (x : world)
  : world * res :=
  match fuel with
  | O => (x, RErr)
  | S f =>
      let '(x1, _, r) := do_flush n lk sh w (hd [] ords) [] x in
      match r with
      | ROk => (x1, ROk)
      | RCrash => (x1, RCrash)
      | _ => gstop_go f n lk sh w (tl ords) x1
      end
  end.

Definition fresh (sh : Z) (w : bool) : store := mkStore sh w false false [].

Definition finish (s : st) (x : world) (r : res) (stp : bool) : st :=
  if res_eqb r RCrash
  then mkSt (wapi x) (mkStore (shard (sto s)) (wt (sto s)) (stopped (sto s)) true [])
  else mkSt (wapi x) (mkStore (shard (sto s)) (wt (sto s)) stp false (wloc x)).

Definition step (n : Z) (lk : locks) (s : st) (o : op) : st * (res * list res) :=
  match o with
  | ORestart sh w => (mkSt (api s) (fresh sh w), (ROk, []))
  | _ =>
    if dead (sto s) then (s, (RDead, [])) else
    let sh := shard (sto s) in let w := wt (sto s) in
    match o with
    | OFg f pl =>
        let '(x, r) := do_fop n sh w f (mkW (api s) (loc (sto s)) pl) in
        (finish s x r (stopped (sto s)), (r, []))
    | OFlush ord inter pl =>
        let '(x, rs, r) := do_flush n lk sh w ord inter (mkW (api s) (loc (sto s)) pl) in
        (finish s x r (stopped (sto s)), (r, rs))
    | OStop ord pl =>
        if stopped (sto s) then (s, (ROk, [])) else
        let '(x, rs, r) := do_flush n lk sh w ord [] (mkW (api s) (loc (sto s)) pl) in
        (finish s x r (if res_eqb r ROk then true else false), (r, rs))
    | OGStop ords pl =>
        if stopped (sto s) then (s, (ROk, [])) else
        let '(x, r) := gstop_go 10 n lk sh w ords (mkW (api s) (loc (sto s)) pl) in
        (finish s x r (if res_eqb r ROk then true else false), (r, []))
    | OLoad o =>
        let '(x, r) := do_load n sh o (mkW (api s) (loc (sto s)) []) in
        (finish s x r (stopped (sto s)), (r, []))
    | ORestart _ _ => (s, (ROk, []))
    end
  end.

Fixpoint run_state (n : Z) (lk : locks) (s : st) (ops : list op) : st :=
  match ops with
  | [] => s
  | o :: r => run_state n lk (fst (step n lk s o)) r
  end.

(* trace: result, results of interleaved operations, API and local contents after every op *)
Fixpoint run (n : Z) (lk : locks) (s : st) (ops : list op) : list (res * list res * apist * localst) :=
  match ops with
  | [] => []
  | o :: r => let '(s', (q, qs)) := step n lk s o in (q, qs, api s', loc (sto s')) :: run n lk s' r
  end.

(* a dead placeholder store: nothing can be done before the first ORestart *)
Definition init (a : apist) : st := mkSt a (mkStore 0 true false true []).

(* which behaviour the tree under test has *)
Definition impl_locks : locks := mkLocks true true.
