(* C09 — case format of the correspondence run and its evaluator. *)
From KG Require Import Prelude C09_Model C09_Spec.
Open Scope Z_scope.

(* static part, initial strategy, observation right after the schema was created,
   then the events with what the real limiter showed after each of them *)
Inductive case := Case (st : static) (str0 : strategy) (o0 : obs) (tr : list (ev * obs)).

Definition opt_lim_eqb := opt_eqb lim_eqb.
Definition robs_eqb (a b : robs) : bool :=
  opt_eqb wk_eqb (r_inner a) (r_inner b) && opt_lim_eqb (r_lim a) (r_lim b)
  && Bool.eqb (r_unavail a) (r_unavail b) && Bool.eqb (r_over a) (r_over b)
  && opt_eqb item_eqb (r_cfg a) (r_cfg b).
Definition obs_eqb (a b : obs) : bool :=
  Bool.eqb (o_evp a) (o_evp b) && sel_eqb (o_sel a) (o_sel b) && opt_lim_eqb (o_lim a) (o_lim b)
  && (o_adm a =? o_adm b) && Bool.eqb (o_ready a) (o_ready b) && opt_eqb robs_eqb (o_rem a) (o_rem b)
  && (o_sync a =? o_sync b) && Bool.eqb (o_sent a) (o_sent b).

Definition agree (fx fy fz : bool) (st : static) (str0 : strategy) (o0 : obs) (tr : list (ev * obs)) : bool :=
  obs_eqb (observe fx st (init (cfg st) str0)) o0
  && forall2b obs_eqb (map snd (trace fx fy fz st (init (cfg st) str0) (map fst tr))) (map snd tr).

(* clause layout: agree, bound, fallback, inforce, failing, recovery, nopanic.
   The model is the REPAIRED behaviour (C09_clamp.diff + C09_reclamp_on_schema_update.diff + 06780c0). *)
Definition eval (c : case) : list bool :=
  match c with Case st str0 o0 tr => agree true true true st str0 o0 tr :: case_ok st str0 o0 tr end.

(* the same cases against the models of the unrepaired trees: correspondence only *)
Definition eval_unrepaired (c : case) : list bool :=          (* before C09_clamp.diff *)
  match c with Case st str0 o0 tr => [agree false false false st str0 o0 tr] end.
Definition eval_noreclamp (c : case) : list bool :=           (* with C09_clamp.diff, without the reclamp *)
  match c with Case st str0 o0 tr => [agree true false false st str0 o0 tr] end.
Definition eval_notypestop (c : case) : list bool :=          (* with both, without the type-change repair *)
  match c with Case st str0 o0 tr => [agree true true false st str0 o0 tr] end.
