(* C05 — implementation model (no proofs here).

   (a) the golib atomic max-in-flight counter (github.com/zoumo/golib/lock/maxinflight,
       atomicTokenBucket) as an instance of Sched: one step = one shared access;
   (b) the wrapper layer of kubegateway: upstreamLimiter (one FlowControlCache per
       (cluster, schema name)), localWrapper.Sync (resize in place / replace the limiter
       when the type changes), flowcontrol.Pin + TryAcquire / Release as the dispatcher
       issues them;
   (c) the exits of dispatcher.ServeHTTP around `defer flowcontrol.Release()`. *)
From KG Require Import Prelude Sched.
Open Scope Z_scope.

(* =========================================================================== *)
(* (a) golib atomicTokenBucket under interleaving                               *)
(* =========================================================================== *)

(* a goroutine's program: CAcq = `if fc.TryAcquire() { fc.Release() }`, CRes n = `Resize(n)` *)
Inductive cmd := CAcq | CRes (n : Z).

(* program counter = the shared access the goroutine is parked in front of *)
Inductive pc :=
| PAcq0                (* TryAcquire: count := atomic.LoadInt64(&f.count) *)
| PAcq1 (c : Z)        (* TryAcquire: max := atomic.LoadUint32(&f.max); then the local branches *)
| PCas (c m : Z)       (* TryAcquire: count < 0: CompareAndSwapInt64(&f.count, count, 1) *)
| PAdd (m : Z)         (* TryAcquire: count = atomic.AddInt64(&f.count, 1) *)
| PUndo                (* TryAcquire: count > max: atomic.AddInt64(&f.count, -1); return false *)
| PHold                (* admitted; Release: plain read `f.count <= 0` *)
| PRel1                (* Release: atomic.AddInt64(&f.count, -1) *)
| PRel2                (* Release: count < 0: atomic.StoreInt64(&f.count, 0) *)
| PRsz0 (n : Z)        (* Resize: plain read `f.max != n` *)
| PRsz1 (n : Z)        (* Resize: atomic.StoreUint32(&f.max, n) *)
| PDone.

Record thread := { tpc : pc; rest : list cmd; results : list bool (* TryAcquire results, latest first *) }.
Record sh := { count : Z; max : Z }.

Definition start (r : list cmd) : pc * list cmd :=
  match r with
  | [] => (PDone, [])
  | CAcq :: r' => (PAcq0, r')
  | CRes n :: r' => (PRsz0 n, r')
  end.

Definition goto (t : thread) (p : pc) : thread := {| tpc := p; rest := rest t; results := results t |}.
(* the current call returns; the goroutine runs on to the first access of its next command *)
Definition finish (t : thread) (r : option bool) : thread :=
  let rs := match r with Some b => b :: results t | None => results t end in
  {| tpc := fst (start (rest t)); rest := snd (start (rest t)); results := rs |}.
(* TryAcquire returned true: the caller goes on to Release (parked at its first access) *)
Definition grant (t : thread) : thread := {| tpc := PHold; rest := rest t; results := true :: results t |}.

Definition set_count (s : sh) (c : Z) : sh := {| count := c; max := max s |}.
Definition set_max (s : sh) (m : Z) : sh := {| count := count s; max := m |}.

Definition step (s : sh) (t : thread) : sh * thread :=
  match tpc t with
  | PAcq0 => (s, goto t (PAcq1 (count s)))
  | PAcq1 c =>
      let m := max s in
      (s, if c <? 0 then goto t (PCas c m)
          else if c >=? m then finish t (Some false)
          else goto t (PAdd m))
  | PCas c m =>
      if count s =? c then (set_count s 1, grant t) else (s, goto t (PAdd m))
  | PAdd m =>
      let c := count s + 1 in
      (set_count s c, if c >? m then goto t PUndo else grant t)
  | PUndo => (set_count s (count s - 1), finish t (Some false))
  | PHold => if count s <=? 0 then (s, finish t None) else (s, goto t PRel1)
  | PRel1 =>
      let c := count s - 1 in
      (set_count s c, if c <? 0 then goto t PRel2 else finish t None)
  | PRel2 => (set_count s 0, finish t None)
  | PRsz0 n => if max s =? n then (s, finish t None) else (s, goto t (PRsz1 n))
  | PRsz1 n => (set_max s n, finish t None)
  | PDone => (s, t)
  end.

Definition cfg := config sh thread.
Definition crun1 : cfg -> nat -> cfg := run1 step.
Definition crun : cfg -> list nat -> cfg := run step.

Definition spawn (p : list cmd) : thread := {| tpc := fst (start p); rest := snd (start p); results := [] |}.
Definition init (m0 : Z) (progs : list (list cmd)) : cfg := ({| count := 0; max := m0 |}, map spawn progs).

(* who holds a slot: admitted and its Release has not done the decrement yet *)
Definition holds (t : thread) : Z := match tpc t with PHold | PRel1 => 1 | _ => 0 end.
(* contribution to the counter: holders + failed acquirers between Add(+1) and Add(-1) *)
Definition weight (t : thread) : Z := match tpc t with PHold | PRel1 | PUndo => 1 | _ => 0 end.
Definition holders (st : cfg) : Z := sumT holds (snd st).

(* ---- observable trace of a run: (goroutine, access label, event, event argument) ---- *)
Definition label (p : pc) : Z :=
  match p with
  | PAcq0 => 0 | PAcq1 _ => 1 | PCas _ _ => 2 | PAdd _ => 3 | PUndo => 4
  | PHold => 5 | PRel1 => 6 | PRel2 => 7 | PRsz0 _ => 8 | PRsz1 _ => 9 | PDone => 99
  end.
(* events: 0 none, 1 TryAcquire returned true, 2 returned false, 3 Release returned, 4 Resize(arg) returned *)
Definition event (s : sh) (t : thread) : Z * Z :=
  match tpc t with
  | PAcq0 => (0, 0)
  | PAcq1 c => if c <? 0 then (0, 0) else if c >=? max s then (2, 0) else (0, 0)
  | PCas c _ => if count s =? c then (1, 0) else (0, 0)
  | PAdd m => if count s + 1 >? m then (0, 0) else (1, 0)
  | PUndo => (2, 0)
  | PHold => if count s <=? 0 then (3, 0) else (0, 0)
  | PRel1 => if count s - 1 <? 0 then (0, 0) else (3, 0)
  | PRel2 => (3, 0)
  | PRsz0 n => if max s =? n then (4, n) else (0, 0)
  | PRsz1 n => (4, n)
  | PDone => (0, 0)
  end.

Definition tent : Type := (Z * Z * Z * Z)%type.   (* goroutine, label, event, arg *)

Definition live (t : thread) : bool := match tpc t with PDone => false | _ => true end.

(* schedule entries naming a finished or non-existent goroutine are skipped, as the scheduler does *)
Fixpoint exec (st : cfg) (sched : list nat) : cfg * list tent :=
  match sched with
  | [] => (st, [])
  | i :: r =>
      match nth_error (snd st) i with
      | Some t =>
          if live t then
            let e := (Z.of_nat i, label (tpc t), fst (event (fst st) t), snd (event (fst st) t)) in
            let '(st', tr) := exec (crun1 st i) r in (st', e :: tr)
          else exec st r
      | None => exec st r
      end
  end.

Fixpoint first_live (ts : list thread) (i : nat) : option nat :=
  match ts with
  | [] => None
  | t :: r => if live t then Some i else first_live r (S i)
  end.

(* drain: leftover goroutines run to completion in id order *)
Fixpoint drain (fuel : nat) (st : cfg) : cfg * list tent :=
  match fuel with
  | O => (st, [])
  | S f =>
      match first_live (snd st) 0 with
      | None => (st, [])
      | Some i =>
          let '(st1, tr1) := exec st [i] in
          let '(st2, tr2) := drain f st1 in (st2, tr1 ++ tr2)
      end
  end.

Definition drain_fuel (progs : list (list cmd)) : nat :=
  fold_right (fun p acc => (8 * List.length p + acc)%nat) 8%nat progs.

Record sched_out := { o_trace : list tent; o_results : list (list bool); o_count : Z; o_max : Z }.

Definition model_sched (m0 : Z) (progs : list (list cmd)) (sched : list nat) : sched_out :=
  let '(st1, tr1) := exec (init m0 progs) sched in
  let '(st2, tr2) := drain (drain_fuel progs) st1 in
  {| o_trace := tr1 ++ tr2;
     o_results := map (fun t => rev (results t)) (snd st2);
     o_count := count (fst st2); o_max := max (fst st2) |}.

(* sequential (uncontended) behaviour of the counter: what one TryAcquire / Release does when no
   other goroutine runs in between; used by the wrapper layer, proved equal to solo runs in C05_Proofs *)
Definition seq_try (s : sh) : sh * bool :=
  if count s <? 0 then (set_count s 1, true)
  else if count s >=? max s then (s, false)
  else if count s + 1 >? max s then (s, false)
  else (set_count s (count s + 1), true).
Definition seq_release (s : sh) : sh :=
  if count s <=? 0 then s
  else if count s - 1 <? 0 then set_count s 0 else set_count s (count s - 1).

(* =========================================================================== *)
(* (b) wrapper layer: upstreamLimiter / FlowControlCache / localWrapper          *)
(* =========================================================================== *)

(* a flow-control schema: exactly one of maxRequestsInflight{max} / tokenBucket{qps,burst} / exempt, plus its
   limit Strategy [st] (0 = "", 1 = local, 2 = globalAllocate, 3 = globalCount).  The gateway runs with the
   local limiter (rateLimiter "local"), so upstreamLimiter.Load serves the local wrapper whatever the strategy;
   the strategy is part of localConfig (reflect.DeepEqual) and of nothing else in localWrapper.Sync. *)
Inductive schema := SMif (mx : Z) (st : Z) | STb (qps burst : Z) (st : Z) | SExempt (st : Z).
Inductive kind := KMif | KTb | KExempt.

Definition kind_of (s : schema) : kind :=
  match s with SMif _ _ => KMif | STb _ _ _ => KTb | SExempt _ => KExempt end.
Definition kind_eqb (a b : kind) : bool :=
  match a, b with KMif, KMif | KTb, KTb | KExempt, KExempt => true | _, _ => false end.
Definition schema_eqb (a b : schema) : bool :=
  match a, b with
  | SMif x s1, SMif y s2 => (x =? y) && (s1 =? s2)
  | STb q b1 s1, STb q' b2 s2 => (q =? q') && (b1 =? b2) && (s1 =? s2)
  | SExempt s1, SExempt s2 => s1 =? s2
  | _, _ => false
  end.

(* FlowControlCache.local: localConfig, and the limiter object currently behind the wrapper.
   [cgen] is the identity of that object (a fresh number per object ever created). *)
Record cache := { ccfg : schema; ckind : kind; cst : sh (* counter of a max-in-flight object *); cgen : Z }.

(* what flowcontrol.Pin(GetOrDefault(name)) resolves to: the default (exempt) limiter, or the object
   [gen] that was behind the wrapper of (cluster, name) at that moment *)
Inductive pin := PinDefault | PinObj (cluster name : string) (gen : Z).

Definition spec := list (string * schema).

Record world := {
  specs : string -> spec;                          (* upstreamLimiter.currentFlowControlSpec per cluster *)
  caches : string -> string -> option cache;      (* upstreamLimiter.flowControls per cluster *)
  nextgen : Z;
  reqs : list (Z * pin);                           (* requests in flight: id -> pinned limiter *)
}.

Definition world0 : world :=
  {| specs := fun _ => []; caches := fun _ _ => None; nextgen := 1; reqs := [] |}.

Definition set_cache (w : world) (c n : string) (v : option cache) : world :=
  {| specs := specs w;
     caches := fun c' n' => if (String.eqb c c' && String.eqb n n')%bool then v else caches w c' n';
     nextgen := nextgen w; reqs := reqs w |}.

(* flowcontrol.NewFlowControl(schema) wrapped by newMeterFlowControl: a new object *)
Definition new_obj (s : schema) (gen : Z) : cache :=
  {| ccfg := s; ckind := kind_of s;
     cst := {| count := 0; max := match s with SMif m _ => wrapu32 m | _ => 0 end |};
     cgen := gen |}.

(* localWrapper.Sync(schema) on the cache of (c, n) *)
Definition local_sync (w : world) (c n : string) (s : schema) : world :=
  match caches w c n with
  | None =>      (* NewFlowControlCache: f.FlowControl == nil -> new limiter *)
      let w1 := set_cache w c n (Some (new_obj s (nextgen w))) in
      {| specs := specs w1; caches := caches w1; nextgen := nextgen w + 1; reqs := reqs w1 |}
  | Some ca =>
      if schema_eqb s (ccfg ca) then w       (* reflect.DeepEqual(schema, f.localConfig) *)
      else if negb (kind_eqb (ckind ca) (kind_of s)) then
        (* type changed: the limiter is replaced; requests in flight keep the old one *)
        let w1 := set_cache w c n (Some (new_obj s (nextgen w))) in
        {| specs := specs w1; caches := caches w1; nextgen := nextgen w + 1; reqs := reqs w1 |}
      else
        match s with
        | SMif m _ =>  (* same type (also when only the Strategy differs): the limiter object stays;
                          flowControl.Resize: if f.max != n { TokenBucket.Resize(n); f.max = n } *)
            set_cache w c n (Some {| ccfg := s; ckind := ckind ca;
                                     cst := set_max (cst ca) (wrapu32 m); cgen := cgen ca |})
        | _ =>         (* token bucket: new inner rate limiter, same object; exempt: nothing *)
            set_cache w c n (Some {| ccfg := s; ckind := ckind ca; cst := cst ca; cgen := cgen ca |})
        end
  end.

Fixpoint lookup_schema (n : string) (sp : spec) : option schema :=
  match sp with
  | [] => None
  | (n', s) :: r => if String.eqb n n' then Some s else lookup_schema n r
  end.

Definition spec_eqb (a b : spec) : bool :=
  list_eqb (fun x y => (String.eqb (fst x) (fst y) && schema_eqb (snd x) (snd y))%bool) a b.

(* upstreamLimiter.Sync = syncLocalFlowControls *)
Definition sync (w : world) (c : string) (sp : spec) : world :=
  if spec_eqb (specs w c) sp then w            (* apiequality.Semantic.DeepEqual(oldObj, flowControls) *)
  else
    let w1 := fold_left (fun acc ns => local_sync acc c (fst ns) (snd ns)) sp w in
    let deleted := filter (fun n => negb (str_mem n (map fst sp))) (map fst (specs w c)) in
    let w2 := fold_left (fun acc n => set_cache acc c n None) deleted w1 in
    {| specs := fun c' => if String.eqb c c' then sp else specs w2 c';
       caches := caches w2; nextgen := nextgen w2; reqs := reqs w2 |}.

Fixpoint lookup_req (r : Z) (l : list (Z * pin)) : option pin :=
  match l with
  | [] => None
  | (r', p) :: t => if r =? r' then Some p else lookup_req r t
  end.
Fixpoint remove_req (r : Z) (l : list (Z * pin)) : list (Z * pin) :=
  match l with
  | [] => []
  | (r', p) :: t => if r =? r' then t else (r', p) :: remove_req r t
  end.

Inductive wop :=
| WSync (c : string) (sp : spec)
| WAcq (c n : string) (r : Z)       (* dispatcher: fc := Pin(GetOrDefault(n)); fc.TryAcquire() *)
| WRel (r : Z).                     (* dispatcher: deferred fc.Release() of request r *)

(* result of an op: 0 = nothing to report, 1 = TryAcquire false (429), 2 = TryAcquire true *)
Definition acquire (w : world) (c n : string) (r : Z) : world * Z :=
  match lookup_req r (reqs w) with
  | Some _ => (w, 0)                       (* r is still in flight: not a new request, ignored *)
  | None =>
      match (if String.eqb n "" then None else caches w c n) with
      | None =>                            (* GetOrDefault: default (exempt) flow control *)
          ({| specs := specs w; caches := caches w; nextgen := nextgen w; reqs := (r, PinDefault) :: reqs w |}, 2)
      | Some ca =>
          match ckind ca with
          | KMif =>
              let '(s', ok) := seq_try (cst ca) in
              if ok then
                let w1 := set_cache w c n (Some {| ccfg := ccfg ca; ckind := ckind ca; cst := s'; cgen := cgen ca |}) in
                ({| specs := specs w1; caches := caches w1; nextgen := nextgen w1;
                    reqs := (r, PinObj c n (cgen ca)) :: reqs w1 |}, 2)
              else (w, 1)
          | _ =>                           (* token bucket with tokens left (see ASSUMPTIONS) / exempt *)
              ({| specs := specs w; caches := caches w; nextgen := nextgen w;
                  reqs := (r, PinObj c n (cgen ca)) :: reqs w |}, 2)
          end
      end
  end.

Definition release (w : world) (r : Z) : world :=
  match lookup_req r (reqs w) with
  | None => w
  | Some p =>
      let w0 := {| specs := specs w; caches := caches w; nextgen := nextgen w; reqs := remove_req r (reqs w) |} in
      match p with
      | PinDefault => w0
      | PinObj c n g =>
          match caches w c n with
          | Some ca =>
              if (cgen ca =? g) && kind_eqb (ckind ca) KMif then
                set_cache w0 c n (Some {| ccfg := ccfg ca; ckind := ckind ca; cst := seq_release (cst ca); cgen := cgen ca |})
              else w0        (* the pinned object is no longer behind any wrapper (or is not a counter) *)
          | None => w0
          end
      end
  end.

Definition wstep (w : world) (o : wop) : world * Z :=
  match o with
  | WSync c sp => (sync w c sp, 0)
  | WAcq c n r => acquire w c n r
  | WRel r => (release w r, 0)
  end.

(* what the harness can see of a (cluster, name): present?, kind (0 mif, 1 tb, 2 exempt), max, count *)
Definition kind_code (k : kind) : Z := match k with KMif => 0 | KTb => 1 | KExempt => 2 end.
Definition view1 (w : world) (k : string * string) : Z * Z * Z * Z :=
  match caches w (fst k) (snd k) with
  | None => (0, 0, 0, 0)
  | Some ca => match ckind ca with
               | KMif => (1, 0, max (cst ca), count (cst ca))
               | k' => (1, kind_code k', 0, 0)
               end
  end.
Definition view (w : world) (keys : list (string * string)) := map (view1 w) keys.

Fixpoint wrun (w : world) (keys : list (string * string)) (ops : list wop) : list (Z * list (Z * Z * Z * Z)) :=
  match ops with
  | [] => []
  | o :: r => let '(w', res) := wstep w o in (res, view w' keys) :: wrun w' keys r
  end.
Fixpoint wfinal (w : world) (ops : list wop) : world :=
  match ops with [] => w | o :: r => wfinal (fst (wstep w o)) r end.

(* =========================================================================== *)
(* (c) dispatcher.ServeHTTP around the limiter                                   *)
(* =========================================================================== *)

(* how a proxied request can end, in the order the code can leave ServeHTTP *)
Inductive dexit :=
| XBadContext        (* missing user / request info / no matching policy: returns before the limiter *)
| XRejected          (* TryAcquire false -> 429 *)
| XNoEndpoint        (* endpointPicker.Pop() error -> 503 *)
| XBadEndpoint       (* url.Parse / SetProxyForwarded error -> 500 *)
| XSuccess           (* proxyHandler.ServeHTTP returns normally *)
| XUpstreamError     (* upstream failure: the error responder writes 502/503, ServeHTTP returns *)
| XClientAbort       (* client went away: context cancelled, ServeHTTP returns *)
| XPanic.            (* a panic below (http.ErrAbortHandler or a bug) unwinds through ServeHTTP *)

Inductive dev := DTryAcquire (ok : bool) | DRelease | DRespond (code : Z) | DForward | DPanicOut.

(* a Go function body as a list of statements with an explicit defer stack *)
Inductive stmt := SDo (e : dev) | SDefer (e : dev) | SReturn | SPanic.

Fixpoint go_run (body : list stmt) (defers : list dev) : list dev :=
  match body with
  | [] => defers                                   (* falling off the end runs the deferred calls *)
  | SDo e :: r => e :: go_run r defers
  | SDefer e :: r => go_run r (e :: defers)        (* LIFO *)
  | SReturn :: _ => defers
  | SPanic :: _ => defers ++ [DPanicOut]           (* deferred calls run while the panic unwinds *)
  end.

(* ServeHTTP, for an admission decision [ok] of the limiter and an exit [x] *)
Definition serve_body (ok : bool) (x : dexit) : list stmt :=
  match x with
  | XBadContext => [SDo (DRespond 500); SReturn]
  | _ =>
      SDo (DTryAcquire ok) ::
      (if negb ok then [SDo (DRespond 429); SReturn]
       else SDefer DRelease ::
            match x with
            | XNoEndpoint => [SDo (DRespond 503); SReturn]
            | XBadEndpoint => [SDo (DRespond 500); SReturn]
            | XSuccess => [SDo DForward]
            | XUpstreamError => [SDo DForward; SDo (DRespond 502)]
            | XClientAbort => [SDo DForward; SReturn]
            | XPanic => [SDo DForward; SPanic]
            | _ => [SReturn]
            end)
  end.
Definition serve (ok : bool) (x : dexit) : list dev := go_run (serve_body ok x) [].

Definition is_release (e : dev) : bool := match e with DRelease => true | _ => false end.
Definition releases (l : list dev) : nat := List.length (filter is_release l).
Definition admitted (l : list dev) : bool :=
  existsb (fun e => match e with DTryAcquire true => true | _ => false end) l.
