(* C11 — what the public accessors of a ClusterInfo show (the "view"), and the freshly started gateway.

   The gateway itself (ClusterInfo.Sync section by section with partial application on failure, the
   controller, the manager, admission, deliveries and re-deliveries) is the model of C10_Model.v: the two
   properties are about the same code and use one Go rig.  No proofs here.

   Mirrors (pkg/clusters/clusterinfo.go): AllEndpoints + EndpointInfo.IstDisabled/IsReady,
   GetFlowSchema(name).String(), FeatureEnabled, MatchAttributes (first matching policy, flow-control
   name and limiter, upstream subset or all endpoints, isLogEnabled), LoadServerNames, LoadTLSConfig,
   LoadVerifyOptions; and which probe hosts the manager maps to this very ClusterInfo.
   Client connection settings are not part of the view (the property excepts them).
   IsReady is always false in the rig (no endpoint answers health probes). *)
From KG Require Import Prelude C10_Model.
Open Scope string_scope.
Open Scope Z_scope.

(* the probe sets of a case *)
Record probes := {
  pb_eps : list Z;            (* endpoint universe *)
  pb_schemas : list string;   (* schema names asked from GetFlowSchema *)
  pb_verbs : list string;     (* verbs of the probe requests given to MatchAttributes *)
  pb_hosts : list string      (* probe hosts for the manager keys *)
}.

Definition default_fc : string * fkind := ("system-default", FExempt).

(* ClusterInfo.GetFlowSchema = upstreamLimiter.GetOrDefault (local limiter): (name, shape) of String() *)
Definition fc_get (i : info) (name : string) : string * fkind :=
  if String.eqb name "" then default_fc else
  match fm_get name (i_fcmap i) with
  | Some k => (name, k)
  | None => default_fc
  end.

(* proxyv1alpha1.VerbMatches for positive verb lists: "*" or the verb itself *)
Definition verb_matches (verbs : list string) (v : string) : bool := (smem "*" verbs || smem v verbs)%bool.

(* isLogEnabled(upstream mode, policy mode): 0 "", 1 on, 2 off *)
Definition log_enabled (up pol : Z) : bool :=
  if ((up =? 2) || (pol =? 2))%bool then false
  else if ((up =? 1) || (pol =? 1))%bool then true else false.

Record probe_res := {
  pr_fcname : string;
  pr_fc : string * fkind;
  pr_ups : list bool;        (* for every endpoint of the universe: is it among the picker's upstreams *)
  pr_log : bool
}.

Definition match_attributes (P : probes) (i : info) (verb : string) : option probe_res :=
  match find (fun p => verb_matches (p_verbs p) verb) (i_pol i) with
  | None => None                                               (* ErrNoRouterRuleMatches *)
  | Some p =>
      Some {| pr_fcname := if String.eqb (p_fc p) "" then "system-default" else p_fc p;
              pr_fc := fc_get i (p_fc p);
              pr_ups := map (fun e => match p_subset p with
                                      | [] => match em_get e (i_eps i) with Some _ => true | None => false end
                                      | _ => zmem e (p_subset p)
                                      end) (pb_eps P);
              pr_log := log_enabled (i_log i) (p_log p) |}
  end.

Record view := {
  v_present : bool;
  v_stopped : bool;
  v_eps : list (option (bool * bool));     (* per endpoint of the universe: Some (disabled, ready) *)
  v_fcs : list (string * fkind);           (* what GetFlowSchema(name).String() REPORTS *)
  v_enf : list fkind;                      (* what that limiter ENFORCES: slots admitted by the idle max-in-flight
                                              bucket / rate and burst of the token bucket TryAcquire consults *)
  v_gates : list bool;
  v_probes : list (option probe_res);
  v_names : list string;
  v_tls : bool * Z * Z;                    (* LoadTLSConfig: ok, certificate, client CA pool *)
  v_verify : bool * Z;                     (* LoadVerifyOptions: ok, roots *)
  v_keys : list bool                       (* per probe host: the manager maps it to this ClusterInfo *)
}.

Definition absent_view : view :=
  {| v_present := false; v_stopped := false; v_eps := []; v_fcs := []; v_enf := []; v_gates := []; v_probes := [];
     v_names := []; v_tls := (false, 0, 0); v_verify := (false, 0); v_keys := [] |}.

Definition view_info (P : probes) (i : info) (keys : list bool) : view :=
  {| v_present := true;
     v_stopped := i_stopped i;
     v_eps := map (fun e => option_map (fun d => (d, false)) (em_get e (i_eps i))) (pb_eps P);
     v_fcs := map (fc_get i) (pb_schemas P);
     v_enf := map (fun n => snd (fc_get i n)) (pb_schemas P);   (* a limiter enforces exactly what it is configured with *)
     v_gates := i_gates i;
     v_probes := map (match_attributes P i) (pb_verbs P);
     v_names := load_names i;
     v_tls := if ((i_certs i =? 0) && (i_capool i =? 0))%bool then (false, 0, 0) else (true, i_certs i, i_capool i);
     v_verify := if i_capool i =? 0 then (false, 0) else (true, i_capool i);
     v_keys := keys |}.

(* the view of the ClusterInfo that Manager.Get(name) returns *)
Definition view_of (P : probes) (g : gw) (name : string) : view :=
  match get_id g name with
  | Some id =>
      match nth_error (g_infos g) id with
      | Some i => view_info P i (map (fun h => match get_id g h with Some id' => Nat.eqb id' id | None => false end)
                                     (pb_hosts P))
      | None => absent_view
      end
  | None => absent_view
  end.

(* a freshly started gateway: the lister already holds all objects, then one event per object *)
Definition fresh_from (lister : list obj) (objs : list obj) (g : gw) : gw :=
  fold_left (fun g o => fst (deliver lister g (o_name o))) objs g.
Definition fresh (objs : list obj) : gw := fresh_from objs objs empty_gw.

(* results of those deliveries *)
Fixpoint fresh_results (lister : list obj) (objs : list obj) (g : gw) : list res :=
  match objs with
  | [] => []
  | o :: r => let (g', x) := deliver lister g (o_name o) in x :: fresh_results lister r g'
  end.
