(* Sched — generic interleaving semantics for shared-memory thread programs.

   A system is a shared state [S] and a list of threads [T] (a thread is whatever
   the instance needs: program counter + locals + remaining program + results).
   [step s t] executes ONE shared access of thread [t] against the shared state [s]
   together with all the thread-local computation that follows it, up to the point
   where the thread is parked in front of its next shared access.  This is exactly
   the granularity of the cooperative scheduler in harness/common/sched.go (one
   scheduled step = one yield point = one shared access).

   A schedule is a list of thread ids; ids that do not name a thread are no-ops.
   Finished threads stutter (the instance makes [step s t = (s, t)] for them).

   Main result: [invariant_lifting] — an invariant that holds initially and is
   preserved by one step of ANY thread holds after EVERY schedule, for ANY number
   of threads.  Instances: C05 (golib max-in-flight counter), C08, C14 (cursor). *)
From Coq Require Import List Arith ZArith Lia.
Import ListNotations.
Open Scope Z_scope.

Section Sched.
  Context {S T : Type}.
  Variable step : S -> T -> S * T.

  Definition config : Type := (S * list T)%type.

  Fixpoint upd (l : list T) (i : nat) (x : T) : list T :=
    match l, i with
    | [], _ => []
    | _ :: r, O => x :: r
    | h :: r, Datatypes.S j => h :: upd r j x
    end.

  Definition run1 (st : config) (i : nat) : config :=
    match nth_error (snd st) i with
    | None => st
    | Some t => let '(s', t') := step (fst st) t in (s', upd (snd st) i t')
    end.

  Definition run (st : config) (sched : list nat) : config := fold_left run1 sched st.

  Definition reachable (init st : config) : Prop := exists sched, st = run init sched.

  Lemma run_nil st : run st [] = st.
  Proof. reflexivity. Qed.
  Lemma run_cons st i sched : run st (i :: sched) = run (run1 st i) sched.
  Proof. reflexivity. Qed.
  Lemma run_app st a b : run st (a ++ b) = run (run st a) b.
  Proof. unfold run. apply fold_left_app. Qed.
  Lemma run_snoc st a i : run st (a ++ [i]) = run1 (run st a) i.
  Proof. rewrite run_app. reflexivity. Qed.

  Lemma reachable_refl st : reachable st st.
  Proof. exists []. reflexivity. Qed.
  Lemma reachable_step init st i : reachable init st -> reachable init (run1 st i).
  Proof. intros [sc ->]. exists (sc ++ [i]). symmetry. apply run_snoc. Qed.
  Lemma reachable_run init st sched : reachable init st -> reachable init (run st sched).
  Proof. intros [sc ->]. exists (sc ++ sched). symmetry. apply run_app. Qed.

  (* ---- list plumbing ---- *)
  Lemma upd_length l i x : length (upd l i x) = length l.
  Proof. revert i; induction l as [|h r IH]; intros [|j]; simpl; auto. Qed.

  Lemma nth_error_upd_eq l i x t : nth_error l i = Some t -> nth_error (upd l i x) i = Some x.
  Proof. revert i; induction l as [|h r IH]; intros [|j] H; simpl in *; try discriminate; auto. Qed.

  Lemma nth_error_upd_neq l i j x : i <> j -> nth_error (upd l i x) j = nth_error l j.
  Proof.
    revert i j; induction l as [|h r IH]; intros [|i] [|j] H; simpl; auto; try congruence.
  Qed.

  Lemma upd_none l i x : nth_error l i = None -> upd l i x = l.
  Proof. revert i; induction l as [|h r IH]; intros [|j] H; simpl in *; try discriminate; auto. f_equal; auto. Qed.

  Lemma Forall_upd (P : T -> Prop) l i x : Forall P l -> P x -> Forall P (upd l i x).
  Proof. revert i; induction l; intros [|j] H Hx; simpl; auto; inversion H; subst; constructor; auto. Qed.

  Lemma In_upd l i x y : In y (upd l i x) -> y = x \/ In y l.
  Proof.
    revert i; induction l as [|h r IH]; intros [|j]; simpl; auto; intros [H|H]; auto.
    destruct (IH _ H); auto.
  Qed.

  Lemma Forall_nth (P : T -> Prop) l i t : Forall P l -> nth_error l i = Some t -> P t.
  Proof. intros H E. apply nth_error_In in E. rewrite Forall_forall in H. auto. Qed.

  (* ---- weighted thread counts (holders, transient failers, ...) ---- *)
  Fixpoint sumT (f : T -> Z) (l : list T) : Z :=
    match l with [] => 0 | t :: r => f t + sumT f r end.

  Lemma sumT_upd f l i t x : nth_error l i = Some t -> sumT f (upd l i x) = sumT f l - f t + f x.
  Proof.
    revert i; induction l as [|h r IH]; intros [|j] H; simpl in *; try discriminate.
    - injection H as ->. lia.
    - rewrite (IH _ H). lia.
  Qed.

  Lemma sumT_nonneg f l : (forall t, 0 <= f t) -> 0 <= sumT f l.
  Proof. intros H; induction l as [|a l IH]; simpl; [lia| pose proof (H a); lia]. Qed.

  Lemma sumT_le f g l : (forall t, f t <= g t) -> sumT f l <= sumT g l.
  Proof. intros H; induction l as [|a l IH]; simpl; [lia| pose proof (H a); lia]. Qed.

  Lemma sumT_nth_le f l i t : (forall t, 0 <= f t) -> nth_error l i = Some t -> f t <= sumT f l.
  Proof.
    intros Hf; revert i; induction l as [|h r IH]; intros [|j] H; simpl in *; try discriminate.
    - injection H as ->. pose proof (sumT_nonneg f r Hf). lia.
    - specialize (IH _ H). pose proof (Hf h). lia.
  Qed.

  Lemma sumT_le_length f l : (forall t, f t <= 1) -> sumT f l <= Z.of_nat (length l).
  Proof. intros H; induction l as [|a l IH]; simpl length; simpl sumT; [lia| pose proof (H a); lia]. Qed.

  Lemma sumT_zero f l : Forall (fun t => f t = 0) l -> sumT f l = 0.
  Proof. induction 1 as [|a l Ha _ IH]; simpl; lia. Qed.

  (* ---- the invariant-lifting theorem ---- *)
  Section Lifting.
    Variable Inv : config -> Prop.
    Hypothesis Inv_step : forall s ts i t,
      Inv (s, ts) -> nth_error ts i = Some t ->
      Inv (fst (step s t), upd ts i (snd (step s t))).

    Lemma inv_run1 st i : Inv st -> Inv (run1 st i).
    Proof.
      destruct st as [s ts]; intros H. unfold run1; simpl.
      destruct (nth_error ts i) as [t|] eqn:E; [|exact H].
      pose proof (Inv_step s ts i t H E) as H1. destruct (step s t) as [s' t']. exact H1.
    Qed.

    Lemma inv_run st sched : Inv st -> Inv (run st sched).
    Proof. revert st; induction sched as [|i r IH]; simpl; intros st H; auto. apply IH, inv_run1, H. Qed.

    (* Inv holds initially and is preserved by a step of any thread
       ==> it holds after every schedule (hence at every instant of every
       interleaving), whatever the number of threads in the initial configuration. *)
    Theorem invariant_lifting init : Inv init -> forall sched, Inv (run init sched).
    Proof. intros H sched. apply inv_run, H. Qed.

    Corollary invariant_reachable init st : Inv init -> reachable init st -> Inv st.
    Proof. intros H [sc ->]. apply invariant_lifting, H. Qed.

    (* a property of single transitions that follows from the invariant holds for every
       transition of every interleaving *)
    Corollary transition_lifting (P : config -> nat -> config -> Prop) init :
      Inv init -> (forall st i, Inv st -> P st i (run1 st i)) ->
      forall sched i, P (run init sched) i (run1 (run init sched) i).
    Proof. intros H HP sched i. apply HP, invariant_lifting, H. Qed.
  End Lifting.
End Sched.

Arguments upd {T} l i x.
Arguments config S T : clear implicits.
