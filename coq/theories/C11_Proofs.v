(* C11 — proofs.  They rest on C10_Proofs: [info_sync_ok] (a successful Sync leaves every section in the
   state determined by the object alone) and the invariant [Inv] over all legal histories. *)
From KG Require Import Prelude C10_Model C10_Spec C10_Proofs C11_Model.
From Coq Require Import Permutation.
Open Scope string_scope.
Open Scope Z_scope.

(* ------------------------------------------------------------------ the view is a function of the canonical state *)
Lemma fc_get_canon i1 i2 o name : canon i1 o -> canon i2 o -> fc_get i1 name = fc_get i2 name.
Proof.
  intros C1 C2. unfold fc_get. destruct (String.eqb name ""); [reflexivity|].
  now rewrite (cn_fc _ _ C1), (cn_fc _ _ C2).
Qed.

Lemma match_attributes_canon P i1 i2 o verb :
  canon i1 o -> canon i2 o -> match_attributes P i1 verb = match_attributes P i2 verb.
Proof.
  intros C1 C2. unfold match_attributes.
  rewrite (cn_pol _ _ C1), (cn_pol _ _ C2).
  destruct (find _ (o_pol o)) as [p|]; [|reflexivity].
  rewrite (fc_get_canon i1 i2 o _ C1 C2), (cn_log _ _ C1), (cn_log _ _ C2).
  f_equal. f_equal. apply map_ext. intros e.
  now rewrite (cn_eps _ _ C1), (cn_eps _ _ C2).
Qed.

Lemma view_info_canon P i1 i2 o keys :
  canon i1 o -> canon i2 o -> i_cluster i1 = i_cluster i2 -> i_stopped i1 = i_stopped i2 ->
  view_info P i1 keys = view_info P i2 keys.
Proof.
  intros C1 C2 Hc Hs. unfold view_info.
  rewrite Hs, (cn_gates _ _ C1), (cn_gates _ _ C2), (cn_certs _ _ C1), (cn_certs _ _ C2),
          (cn_pool _ _ C1), (cn_pool _ _ C2).
  assert (E1 : map (fun e => option_map (fun d : bool => (d, false)) (em_get e (i_eps i1))) (pb_eps P)
               = map (fun e => option_map (fun d : bool => (d, false)) (em_get e (i_eps i2))) (pb_eps P)).
  { apply map_ext. intros e. now rewrite (cn_eps _ _ C1), (cn_eps _ _ C2). }
  assert (E2 : map (fc_get i1) (pb_schemas P) = map (fc_get i2) (pb_schemas P)).
  { apply map_ext. intros n. now apply fc_get_canon with o. }
  assert (E2' : map (fun n => snd (fc_get i1 n)) (pb_schemas P) = map (fun n => snd (fc_get i2 n)) (pb_schemas P)).
  { apply map_ext. intros n. now rewrite (fc_get_canon i1 i2 o n C1 C2). }
  assert (E3 : map (match_attributes P i1) (pb_verbs P) = map (match_attributes P i2) (pb_verbs P)).
  { apply map_ext. intros v. now apply match_attributes_canon with o. }
  assert (E4 : load_names i1 = load_names i2).
  { unfold load_names. now rewrite Hc, (cn_sn _ _ C1), (cn_sn _ _ C2). }
  now rewrite E1, E2, E2', E3, E4.
Qed.

(* ------------------------------------------------------------------ the view of a name under the invariant *)
Definition keys_of (o : obj) (hosts : list string) : list bool :=
  map (fun h => smem (to_lower h) (allnames o)) hosts.

Lemma keys_vec w o id i hosts :
  slice (w_gw w) (lowname o) id i -> canon i o ->
  map (fun h => match get_id (w_gw w) h with Some x => Nat.eqb x id | None => false end) hosts = keys_of o hosts.
Proof.
  intros S C. unfold keys_of. apply map_ext. intros h.
  destruct S as (Hn & Hc & _ & _ & _ & Hk & Hx).
  pose proof (canon_names _ _ Hc C) as Hnames.
  rewrite <- get_id_tolower.
  destruct (smem (to_lower h) (allnames o)) eqn:E.
  - apply smem_In in E. rewrite <- Hnames in E. rewrite (Hk _ E). apply Nat.eqb_refl.
  - destruct (get_id (w_gw w) (to_lower h)) as [x|] eqn:Eg; [|reflexivity].
    destruct (Nat.eqb_spec x id) as [->|]; [exfalso|reflexivity].
    apply smem_false in E. apply E. rewrite <- Hnames.
    apply (Hx (to_lower h) id i); [|exact Hc].
    split; [apply lowered_to_lower|split; assumption].
Qed.

(* the view of a name owned by stored object o is that of o's ClusterInfo; an unowned name shows nothing *)
Lemma view_owned w P name o :
  Inv w -> In o (w_api w) -> In (to_lower name) (allnames o) ->
  exists i, canon i o /\ i_cluster i = lowname o /\ i_stopped i = false /\
            view_of P (w_gw w) name = view_info P i (keys_of o (pb_hosts P)).
Proof.
  intros I Ho Hin. destruct (inv_good w o I Ho) as (id & i & S & C).
  pose proof S as (Hn & Hc & Hs & _ & _ & Hk & _).
  exists i. split; [exact C|]. split; [exact Hc|]. split; [exact Hs|].
  unfold view_of. rewrite <- get_id_tolower.
  rewrite (Hk (to_lower name)) by now rewrite (canon_names _ _ Hc C).
  rewrite Hn. f_equal. now apply keys_vec with i.
Qed.

Lemma view_unowned w P name :
  Inv w -> owner (w_api w) (to_lower name) = None -> view_of P (w_gw w) name = absent_view.
Proof.
  intros I Ho. unfold view_of.
  destruct (get_id (w_gw w) name) as [id|] eqn:Eid; [|reflexivity].
  destruct (nth_error (g_infos (w_gw w)) id) as [i|] eqn:En; [exfalso|reflexivity].
  assert (Eg : get (w_gw w) (to_lower name) = Some i).
  { unfold get. now rewrite get_id_tolower, Eid. }
  destruct (inv_key_sound w _ i I (lowered_to_lower name) Eg) as (o & Hin & _ & Hk & _).
  now rewrite (owner_of _ o _ (inv_api _ I) Hin Hk) in Ho.
Qed.

(* ------------------------------------------------------------------ the fresh gateway is a legal run *)
Lemma api_find_app_new n l1 l2 :
  ~ In n (map o_name l1) -> api_find n (l1 ++ l2) = api_find n l2.
Proof.
  induction l1 as [|x r IH]; simpl; [reflexivity|]. intros H.
  destruct (String.eqb_spec n (o_name x)) as [E|_]; [exfalso; apply H; left; now symmetry|].
  apply IH. tauto.
Qed.

Lemma api_upsert_new o l : ~ In (o_name o) (map o_name l) -> api_upsert o l = (l ++ [o])%list.
Proof.
  induction l as [|x r IH]; simpl; [reflexivity|]. intros H.
  destruct (String.eqb_spec (o_name o) (o_name x)) as [E|_]; [exfalso; apply H; left; now symmetry|].
  rewrite IH; [reflexivity|tauto].
Qed.

(* converse of name_ok_disj: pairwise disjoint names pass the admission name check *)
Lemma name_ok_of_disj api o :
  (forall x k, In x api -> lowname x <> lowname o -> In k (allnames o) -> In k (allnames x) -> False) ->
  name_ok api o = true.
Proof.
  intros H. unfold name_ok. apply forallb_forall. intros x Hx.
  destruct (String.eqb_spec (lowname x) (lowname o)) as [_|Hne]; [reflexivity|].
  apply forallb_forall. intros s Hs.
  assert (Hsx : In (to_lower s) (allnames x)).
  { destruct Hs as [<-|Hs]; [now left|right; now apply in_map]. }
  apply Bool.andb_true_iff. split.
  - apply Bool.negb_true_iff. apply Bool.not_true_iff_false. intros E. apply String.eqb_eq in E.
    apply (H x (to_lower s) Hx Hne); [|exact Hsx]. left. rewrite <- E. unfold lowname. now rewrite to_lower_idem.
  - apply forallb_forall. intros sn Hsn.
    apply Bool.negb_true_iff. apply Bool.not_true_iff_false. intros E. apply String.eqb_eq in E.
    apply (H x (to_lower s) Hx Hne); [|exact Hsx]. right. rewrite <- E. now apply in_map.
Qed.

Lemma fresh_run_gen l1 l2 g lg :
  api_ok (l1 ++ l2) ->
  let w := run {| w_api := l1; w_gw := g; w_log := lg |} (map (OApply false) l2) in
  w_gw w = fresh_from (l1 ++ l2) l2 g /\ w_api w = (l1 ++ l2)%list.
Proof.
  revert l1 g lg; induction l2 as [|o r IH]; intros l1 g lg A; simpl.
  - now rewrite app_nil_r.
  - assert (Hnd : NoDup (map o_name (l1 ++ o :: r))) by apply (ao_nodup _ A).
    assert (Hnew : ~ In (o_name o) (map o_name l1)).
    { rewrite map_app in Hnd. simpl in Hnd. apply NoDup_remove_2 in Hnd.
      intros H. apply Hnd. apply in_or_app. now left. }
    assert (Hin : In o (l1 ++ o :: r)) by (apply in_or_app; right; now left).
    assert (Hv : field_valid o = true) by now apply (ao_valid _ A).
    assert (Hlo : lowname o = o_name o) by now apply (valid_name_lowered _ o A).
    assert (Hadm : admission_ok l1 o = true).
    { unfold admission_ok. rewrite Hv. simpl. apply name_ok_of_disj.
      intros x k Hx Hne K1 K2. apply Hne. f_equal.
      apply (ao_disj _ A x o k); auto. apply in_or_app. now left. }
    unfold run. simpl fold_left. cbn [step]. rewrite Hadm. cbn [orb].
    rewrite (api_upsert_new o l1 Hnew).
    assert (Ed : deliver (l1 ++ [o]) g (o_name o) = deliver (l1 ++ o :: r) g (o_name o)).
    { unfold deliver. rewrite !api_find_app_new by exact Hnew. simpl. now rewrite seqb_refl. }
    rewrite Ed. destruct (deliver (l1 ++ o :: r) g (o_name o)) as [g' x] eqn:E. cbn [fst].
    assert (A' : api_ok ((l1 ++ [o]) ++ r)) by now rewrite <- app_assoc.
    destruct (IH (l1 ++ [o])%list g' (lg ++ [Some (o_name o)])%list A') as [H1 H2].
    unfold run in H1, H2. rewrite H1, H2. rewrite <- !app_assoc. simpl. split; reflexivity.
Qed.

Lemma fresh_is_run l : api_ok l ->
  fresh l = w_gw (run empty_world (map (OApply false) l)) /\ w_api (run empty_world (map (OApply false) l)) = l.
Proof.
  intros A. destruct (fresh_run_gen [] l empty_gw [] A) as [H1 H2].
  unfold fresh, empty_world. split; [symmetry; exact H1|exact H2].
Qed.

Lemma legal_applies l : Forall legal (map (OApply false) l).
Proof. induction l; simpl; constructor; [reflexivity|assumption]. Qed.

Lemma api_ok_perm l l' : Permutation l l' -> api_ok l -> api_ok l'.
Proof.
  intros Hp A. constructor.
  - intros o Ho. apply (ao_valid _ A). eapply Permutation_in; [apply Permutation_sym; exact Hp|exact Ho].
  - eapply Permutation_NoDup; [apply Permutation_map; exact Hp|apply (ao_nodup _ A)].
  - intros o1 o2 k H1 H2. apply (ao_disj _ A); eapply Permutation_in; try (apply Permutation_sym; exact Hp); assumption.
Qed.

Lemma owner_perm l l' k : Permutation l l' -> api_ok l -> owner l' k = owner l k.
Proof.
  intros Hp A. pose proof (api_ok_perm _ _ Hp A) as A'.
  destruct (owner l k) as [o|] eqn:E.
  - apply owner_In in E as [Ho Hk]. apply owner_of; auto. eapply Permutation_in; eauto.
  - destruct (owner l' k) as [o|] eqn:E'; [exfalso|reflexivity].
    apply owner_In in E' as [Ho Hk].
    assert (Ho' : In o l) by (eapply Permutation_in; [apply Permutation_sym; exact Hp|exact Ho]).
    now rewrite (owner_of _ o k A Ho' Hk) in E.
Qed.

(* ------------------------------------------------------------------ the theorems *)

(* the view of every name is determined by the stored objects alone *)
Lemma view_determined w1 w2 P name :
  Inv w1 -> Inv w2 -> Permutation (w_api w1) (w_api w2) ->
  view_of P (w_gw w1) name = view_of P (w_gw w2) name.
Proof.
  intros I1 I2 Hp.
  pose proof (owner_perm _ _ (to_lower name) Hp (inv_api _ I1)) as Eo.
  destruct (owner (w_api w1) (to_lower name)) as [o|] eqn:E1.
  - apply owner_In in E1 as [Ho1 Hk]. apply owner_In in Eo as [Ho2 _].
    destruct (view_owned w1 P name o I1 Ho1 Hk) as (i1 & C1 & Hc1 & Hs1 & ->).
    destruct (view_owned w2 P name o I2 Ho2 Hk) as (i2 & C2 & Hc2 & Hs2 & ->).
    apply view_info_canon with o; congruence.
  - rewrite (view_unowned w1 P name I1 E1), (view_unowned w2 P name I2 Eo). reflexivity.
Qed.

Lemma converges ops l :
  Forall legal ops -> Permutation l (w_api (run empty_world ops)) ->
  forall P name, view_of P (w_gw (run empty_world ops)) name = view_of P (fresh l) name.
Proof.
  intros Hleg Hp P name.
  pose proof (run_inv ops Hleg) as I1.
  assert (A : api_ok l) by (eapply api_ok_perm; [apply Permutation_sym; exact Hp|apply (inv_api _ I1)]).
  destruct (fresh_is_run l A) as [Hf Ha].
  pose proof (run_inv _ (legal_applies l)) as I2.
  rewrite Hf. apply view_determined; auto. rewrite Ha. now apply Permutation_sym.
Qed.

(* the view of a stored cluster is the view of a ClusterInfo created from its latest object alone *)
Lemma latest_object ops o :
  Forall legal ops -> In o (w_api (run empty_world ops)) ->
  exists i0, create_info o = Some i0 /\
    forall P, view_of P (w_gw (run empty_world ops)) (o_name o) = view_info P i0 (keys_of o (pb_hosts P)).
Proof.
  intros Hleg Ho. pose proof (run_inv ops Hleg) as I.
  assert (Hv : field_valid o = true) by now apply (ao_valid _ (inv_api _ I)).
  destruct (create_info_ok o Hv (valid_client o Hv)) as (i0 & Ec & C0 & Hc0 & Hs0 & _).
  exists i0. split; [exact Ec|]. intros P.
  assert (Hk : In (to_lower (o_name o)) (allnames o)) by now left.
  destruct (view_owned _ P (o_name o) o I Ho Hk) as (i & C & Hc & Hs & ->).
  apply view_info_canon with o; congruence.
Qed.

(* every section after a successful Sync depends on the object only *)
Lemma sync_canonical i1 i2 o :
  field_valid o = true ->
  wf i1 -> i_badclient i1 = false -> i_cluster i1 = lowname o ->
  wf i2 -> i_badclient i2 = false -> i_cluster i2 = lowname o -> i_stopped i1 = i_stopped i2 ->
  fst (info_sync i1 o) = true /\ fst (info_sync i2 o) = true /\
  forall P keys, view_info P (snd (info_sync i1 o)) keys = view_info P (snd (info_sync i2 o)) keys.
Proof.
  intros Hv W1 B1 C1 W2 B2 C2 Hs.
  destruct (info_sync_ok i1 o Hv W1 B1 C1) as (i1' & E1 & K1 & Hc1 & Hs1 & _).
  destruct (info_sync_ok i2 o Hv W2 B2 C2) as (i2' & E2 & K2 & Hc2 & Hs2 & _).
  rewrite E1, E2. simpl. repeat split. intros P keys.
  apply view_info_canon with o; congruence.
Qed.
