(* C15 — property theorems (statements only; proofs live in C15_Proofs.v).
   States are arbitrary (delete / remove theorems hold in every state, a fortiori in every reachable
   one) or reachable by any history [ops] of upserts, deletions, probe answers, ticks and request steps
   (requests in any phase of their life).  [rc] = code variant of Pop (false: before fix 9edc511,
   true: endpoints with a done context are not ready). *)
From KG Require Import Prelude C15_Model C15_Proofs.
Open Scope Z_scope.

(* Deleting cluster [name] (bound to object [o], record [c]) in any state [s]:
   1  every server name of the cluster stops resolving, and a request arriving for it gets 503;
   2  the cluster context, every endpoint context (= probe context) of the cluster is done, and a
      health-check tick on them sends no probe;
   3  every request in flight on one of its endpoints — whatever its phase — has a done context;
   4  (code with the context check) a request that had resolved the cluster earlier and is
      dispatched now gets 503 and nothing is forwarded;
   5  nothing of another cluster changes: its object, its names, its endpoints' contexts, the contexts
      of requests on its endpoints; endpoint and request lists are untouched. *)
Theorem C15_delete_cluster : forall rc s name o c,
  resolve s name = Some o -> find_cl s o = Some c -> primary c = name ->
  let s' := fst (step rc s (ODelete name)) in
  (forall n, In n (cnames c) -> resolve s n = Some o ->
     resolve s' n = None
     /\ forall id sub, find_rq s' id = None ->
          reqs (fst (step rc s' (OStart id n sub))) = reqs s' ++ [mkRq id (-1) sub None (PDone R503) false])
  /\ (cl_done s' o = true
      /\ forall eo e, find_ep s eo = Some e -> ecl e = o ->
           find_ep s' eo = Some e /\ ep_done s' e = true /\ probe_done s' e = true
           /\ snd (step rc s' (OTick eo)) = [])
  /\ (forall r eo e, In r (reqs s') -> rep r = Some eo -> find_ep s eo = Some e -> ecl e = o -> req_done s' r = true)
  /\ (forall id r choice, find_rq s' id = Some r -> rcl r = o -> rph r = PBefore ->
        step true s' (OPick id choice) = (upd_rq s' id (fun r => set_ph r (PDone R503)), []))
  /\ ((forall c2, In c2 (clos s) -> cobj c2 <> o -> In c2 (clos s'))
      /\ (forall n o2, resolve s n = Some o2 -> o2 <> o -> resolve s' n = Some o2)
      /\ eps s' = eps s /\ reqs s' = reqs s
      /\ (forall o2, o2 <> o -> cl_done s' o2 = cl_done s o2)
      /\ (forall e, ecl e <> o -> ep_done s' e = ep_done s e)
      /\ (forall r, (forall eo e, rep r = Some eo -> find_ep s eo = Some e -> ecl e <> o) ->
                    req_done s' r = req_done s r)).
Proof.
  intros rc s name o c Hr Hc Hp s'. repeat split.
  - apply (delete_names rc s name o c Hr Hc Hp); assumption.
  - intros id sub Hf. apply (delete_new_request rc s name o c Hr Hc Hp); assumption.
  - apply (delete_cl_done rc s name o c Hr Hc Hp).
  - rewrite (delete_find_ep rc s name o c Hr Hc Hp). assumption.
  - apply (delete_ep_done rc s name o c Hr Hc Hp). assumption.
  - apply (delete_probe_done rc s name o c Hr Hc Hp). assumption.
  - eapply (delete_no_probe rc s name o c Hr Hc Hp); eassumption.
  - intros r eo e. apply (delete_req_done rc s name o c Hr Hc Hp).
  - intros id r choice. apply (delete_stale_pick rc s name o c Hr Hc Hp).
  - apply (delete_clo_other rc s name o c Hr Hc Hp).
  - apply (delete_name_other rc s name o c Hr Hc Hp).
  - apply (delete_eps rc s name o c Hr Hc Hp).
  - apply (delete_reqs rc s name o c Hr Hc Hp).
  - apply (delete_cl_other rc s name o c Hr Hc Hp).
  - apply (delete_ep_other rc s name o c Hr Hc Hp).
  - apply (delete_req_other rc s name o c Hr Hc Hp).
Qed.
Print Assumptions C15_delete_cluster.

(* Re-syncing cluster [name] with a server list [sv] (accepted by the controller), after EVERY history
   [ops] — in particular whatever syncs (added enabled, added disabled and enabled later, disabled and
   re-enabled, removed and re-added ...) started the probe loops that exist at that moment.
   For an endpoint object of that cluster that is live and not in [sv] any more — the hypotheses say
   nothing about its Disabled and Healthy flags: drained (disabled:true) first or not, healthy or not,
   removal treats it the same way (C15_remove_disabled_nonvacuous instantiates the disabled+unhealthy case);
   nor about the REST of [sv]: if it contains a server whose URL cannot be turned into a client (a negative
   name: addOrUpdateEndpoint fails, the add/update loop stops, Sync returns an error) the removal has
   happened all the same (C15_remove_with_failed_add_nonvacuous):
   1  it leaves the endpoint map, its context is done, its probe context is done (every probe context is
      derived from its endpoint's context, on the new-endpoint path and on the update path alike), a
      health-check tick sends no probe;
   2  every request in flight on it — whatever its phase — has a done context;
   for every other endpoint object (other cluster, or still listed, or already gone):
   3  same object (identity, URL, map membership, cancel flag, health), same context; an endpoint of
      another cluster is the very same record; cluster contexts are untouched; the request list is
      untouched and a request on such an endpoint keeps the context it had. *)
Theorem C15_remove_endpoint : forall rc ops name aliases sv o c,
  let s := run rc init ops in
  let want := map fst sv in
  resolve s name = Some o -> find_cl s o = Some c -> primary c = name ->
  conflict s o (name :: aliases) = false ->
  let s' := fst (step rc s (OUpsert name aliases sv)) in
  (forall eo e, find_ep s eo = Some e -> ecl e = o -> elive e = true -> zmem (ename e) want = false ->
     (exists e', find_ep s' eo = Some e' /\ elive e' = false /\ ecancel e' = true /\ ep_done s' e' = true
                 /\ probe_done s' e' = true /\ snd (step rc s' (OTick eo)) = [])
     /\ (forall r, In r (reqs s') -> rep r = Some eo -> req_done s' r = true))
  /\ (forall eo e, find_ep s eo = Some e -> (ecl e <> o \/ zmem (ename e) want = true \/ elive e = false) ->
        exists e', find_ep s' eo = Some e' /\ eobj e' = eobj e /\ ecl e' = ecl e /\ ename e' = ename e
                   /\ elive e' = elive e /\ ecancel e' = ecancel e /\ ehealthy e' = ehealthy e
                   /\ ep_done s' e' = ep_done s e
                   /\ ((ecl e <> o \/ elive e = false) -> e' = e))
  /\ (forall o2, cl_done s' o2 = cl_done s o2)
  /\ reqs s' = reqs s
  /\ (forall r, match rep r with
                | Some eo => exists e, find_ep s eo = Some e /\ (ecl e <> o \/ zmem (ename e) want = true \/ elive e = false)
                | None => True end -> req_done s' r = req_done s r).
Proof.
  intros rc ops name aliases sv o c s want Hr Hc Hp Hcf s'.
  assert (Hpp : forall e, In e (eps s) -> pparent e = PEp) by (apply (pp_run rc ops init pp_init)).
  subst want s'.
  split; [|split; [|split; [|split]]].
  - intros eo e Hf He Hl Hw. split.
    + apply (remove_gone rc s name aliases sv o c Hr Hc Hp Hcf Hpp eo e Hf He Hl Hw).
    + intros r Hin Hrep. exact (remove_req_done rc s name aliases sv o c Hr Hc Hp Hcf Hpp r eo e Hin Hrep Hf He Hl Hw).
  - apply (remove_sibling rc s name aliases sv o c Hr Hc Hp Hcf); try exact Hpp.
  - apply (remove_cl_done rc s name aliases sv o c Hr Hc Hp Hcf); try exact Hpp.
  - apply (remove_reqs rc s name aliases sv o c Hr Hc Hp Hcf); try exact Hpp.
  - apply (remove_req_other rc s name aliases sv o c Hr Hc Hp Hcf); try exact Hpp.
Qed.
Print Assumptions C15_remove_endpoint.

(* The invariant behind clause 1, over every history: every probe context that exists was derived from
   the context of its own endpoint (never from the cluster context), whichever path of
   addOrUpdateEndpoint created it. *)
Theorem C15_probe_context_parent : forall rc ops e,
  In e (eps (run rc init ops)) -> pparent e = PEp.
Proof. intros rc ops. apply (pp_run rc ops init pp_init). Qed.
Print Assumptions C15_probe_context_parent.

(* Isolation against objects that were never admitted: an UpstreamCluster object whose name is bound to
   another cluster's object (it is one of that cluster's extra server names), or that claims a server name
   bound to another object, is rejected by the sync handler — nothing changes; and deleting an object
   whose name is unbound or bound to an object that is not its own changes nothing either: the owner of
   the name keeps its names, contexts, endpoints and requests. *)
Theorem C15_rejected_object_is_inert : forall rc s name aliases sv,
  (match resolve s name with
   | None => conflict s (next s) (name :: aliases) = true
   | Some o => match find_cl s o with
               | Some c => primary c <> name \/ conflict s o (name :: aliases) = true
               | None => True end
   end -> step rc s (OUpsert name aliases sv) = (s, []))
  /\ (match resolve s name with
      | None => True
      | Some o => match find_cl s o with Some c => primary c <> name | None => True end
      end -> step rc s (ODelete name) = (s, [])).
Proof. intros. split; [apply upsert_rejected|apply delete_foreign]. Qed.
Print Assumptions C15_rejected_object_is_inert.

(* Over every continuation [ops] of any state: a cluster context that is done stays done, an endpoint
   (probe) context that is done stays done, an endpoint object that left the map never comes back
   (re-adding the same URL creates a new object), and a forwarded request whose context is done keeps
   a done context at every later step. *)
Theorem C15_done_is_forever : forall rc ops s,
  (forall o, cl_done s o = true -> cl_done (run rc s ops) o = true)
  /\ (forall eo, ep_done_obj s eo = true -> ep_done_obj (run rc s ops) eo = true)
  /\ (forall eo e, find_ep s eo = Some e -> elive e = false ->
        exists e', find_ep (run rc s ops) eo = Some e' /\ elive e' = false)
  /\ (forall op id r, find_rq s id = Some r -> rph r <> PBefore -> req_done s r = true ->
        exists r', find_rq (fst (step rc s op)) id = Some r' /\ rph r' <> PBefore
                   /\ req_done (fst (step rc s op)) r' = true).
Proof.
  intros rc ops s. destruct (done_forever rc ops s) as [H1 [H2 H3]].
  split; [exact H1|]. split; [exact H2|]. split; [exact H3|].
  intros op id r. apply req_done_step.
Qed.
Print Assumptions C15_done_is_forever.

(* In every reachable state, whatever the dispatcher forwards goes to an endpoint object that is in
   the map (live) and healthy; with the context check its context is not done, so the request is a real
   forward (EContact), never a forward with a dead context (EDoomed).  Together with
   C15_done_is_forever: a removed endpoint object, or an endpoint of a deleted cluster, is never picked again. *)
Theorem C15_removed_never_picked_again : forall rc ops id choice ev,
  let s := run rc init ops in
  In ev (snd (step rc s (OPick id choice))) ->
  exists e, find_ep s (eobj e) = Some e /\ elive e = true /\ ehealthy e = true
            /\ (rc = true -> ep_done s e = false /\ ev = EContact (eobj e))
            /\ (if ep_done s e then ev = EDoomed (eobj e) else ev = EContact (eobj e)).
Proof.
  intros rc ops id choice ev s H.
  destruct (pick_events rc s id choice ev (wf_run rc ops init wf_init) H) as [e [H1 [H2 [H3 [H4 H5]]]]].
  exists e. split; [exact H1|]. split; [exact H2|]. split; [exact H3|]. split; [|exact H5].
  intros Hrc. specialize (H4 Hrc). split; [exact H4|]. rewrite H4 in H5. exact H5.
Qed.
Print Assumptions C15_removed_never_picked_again.

(* Others are unaffected: the runtime can cut a request only if its own context is done (its client
   went away, its endpoint was removed, or its cluster was deleted); and a request whose context is
   done can neither receive response headers nor complete — it can only be cut. *)
Theorem C15_cut_needs_done_context : forall rc s id r,
  find_rq s id = Some r ->
  (req_done s r = false -> step rc s (OCancelSeen id) = (s, []))
  /\ (req_done s r = true -> step rc s (OHeaders id) = (s, []) /\ step rc s (OFinish id) = (s, [])).
Proof.
  intros rc s id r Hf. split; [apply cut_needs_done; exact Hf|apply done_cannot_finish; exact Hf].
Qed.
Print Assumptions C15_cut_needs_done_context.

(* Before fix 9edc511 clause 4 of C15_delete_cluster was false: a request that had resolved the cluster
   before the deletion was forwarded to an endpoint of the deleted cluster. *)
Definition stale_witness : list op :=
  [OUpsert 0 [] [(10, false)]; OHealthy 1 true; OStart 7 0 []; ODelete 0].
Theorem C15_stale_request_forwarded_before_fix :
  exists ops id choice eo,
    In (EDoomed eo) (snd (step false (run false init ops) (OPick id choice)))
    /\ ep_done_obj (run false init ops) eo = true.
Proof. exists stale_witness, 7, O, 1. vm_compute. split; [left; reflexivity|reflexivity]. Qed.
Print Assumptions C15_stale_request_forwarded_before_fix.

(* ---- non-vacuity ---- *)
(* two clusters; requests streaming on cluster 0 (endpoint object 1) and cluster 1 (object 4), one
   request resolved on cluster 0 and not yet dispatched; cluster 0 is deleted *)
Definition demo : list op :=
  [OUpsert 0 [5] [(10, false); (11, false)]; OUpsert 1 [] [(20, false)]; OHealthy 1 true; OHealthy 2 true; OHealthy 4 true;
   OStart 100 0 [10]; OPick 100 0; OHeaders 100;
   OStart 101 1 []; OPick 101 0; OHeaders 101;
   OStart 102 5 []].
Example C15_delete_nonvacuous :
  let s := run true init demo in
  let s' := run true s [ODelete 0; OCancelSeen 100; OCancelSeen 101; OPick 102 0; OFinish 100; OFinish 101;
                        OStart 103 5 []; OStart 104 1 []; OPick 104 0] in
  resolve s 0 = Some 0 /\ resolve s 5 = Some 0 /\ map rph (reqs s) = [PStreaming; PStreaming; PBefore]
  /\ resolve s' 0 = None /\ resolve s' 5 = None /\ resolve s' 1 = Some 3
  /\ map rph (reqs s') = [PDone RCut; PDone R200; PDone R503; PDone R503; PConnecting]
  /\ snd (step true s' (OTick 1)) = [] /\ snd (step true s' (OTick 4)) = [EProbe 4].
Proof. vm_compute. repeat split; reflexivity. Qed.

Example C15_remove_nonvacuous :
  let s := run true init demo in
  let s' := run true s [OUpsert 0 [5] [(11, false)]; OCancelSeen 100; OCancelSeen 101; OPick 102 0; OFinish 101] in
  conflict s 0 [0; 5] = false
  /\ map rph (reqs s') = [PDone RCut; PDone R200; PConnecting]
  /\ map (fun r => rep r) (reqs s') = [Some 1; Some 4; Some 2]
  /\ snd (step true s' (OTick 1)) = [] /\ snd (step true s' (OTick 2)) = [EProbe 2].
Proof. vm_compute. repeat split; reflexivity. Qed.

(* the probe loop of endpoint object 1 is started on the UPDATE path (added disabled, enabled by a later
   sync; then disabled and enabled once more), it is probed while listed, and not probed once removed *)
Example C15_remove_restarted_probe_nonvacuous :
  let pre := [OUpsert 0 [] [(10, true); (11, false)]; OUpsert 0 [] [(10, false); (11, false)];
              OUpsert 0 [] [(10, true); (11, false)]; OUpsert 0 [] [(10, false); (11, false)]] in
  let s := run true init pre in
  let s' := run true s [OUpsert 0 [] [(11, false)]] in
  snd (step true (run true init [OUpsert 0 [] [(10, true); (11, false)]]) (OTick 1)) = []
  /\ snd (step true s (OTick 1)) = [EProbe 1]
  /\ snd (step true s' (OTick 1)) = [] /\ snd (step true s' (OTick 2)) = [EProbe 2].
Proof. vm_compute. repeat split; reflexivity. Qed.

(* cluster 0 owns server name 5; an object named 5, an object claiming alias 0, and an object claiming
   alias 5 are all rejected, and deleting them leaves cluster 0 exactly as it was *)
Example C15_rejected_object_nonvacuous :
  let s := run true init demo in
  run true s [OUpsert 5 [] [(30, false)]; OUpsert 7 [0] [(31, false)]; OUpsert 8 [5] [(32, false)];
              ODelete 5; ODelete 7; ODelete 8] = s
  /\ resolve s 5 = Some 0 /\ resolve s 7 = None.
Proof. vm_compute. repeat split; reflexivity. Qed.

(* drain, then remove: a stream runs on endpoint object 1; its probes start failing; a sync marks it
   disabled:true (the stream goes on: its context is not done, it could still complete); the next sync
   drops it from the server list while it is still disabled and unhealthy: it leaves the map, its context
   and probe context are done, the stream can only be cut; the sibling (object 2) is untouched *)
Example C15_remove_disabled_nonvacuous :
  let s0 := run true init [OUpsert 0 [] [(10, false); (11, false)]; OHealthy 1 true; OHealthy 2 true;
                           OStart 100 0 [10]; OPick 100 0; OHeaders 100;
                           OStart 101 0 [11]; OPick 101 0; OHeaders 101;
                           OHealthy 1 false; OUpsert 0 [] [(10, true); (11, false)]] in
  let s1 := run true s0 [OUpsert 0 [] [(11, false)]] in
  (exists e, find_ep s0 1 = Some e /\ elive e = true /\ edisabled e = true /\ ehealthy e = false /\ ep_done s0 e = false)
  /\ map (req_done s0) (reqs s0) = [false; false]
  /\ (exists e, find_ep s1 1 = Some e /\ elive e = false /\ ecancel e = true /\ probe_done s1 e = true)
  /\ map (req_done s1) (reqs s1) = [true; false]
  /\ map rph (reqs (run true s1 [OFinish 100; OCancelSeen 100; OCancelSeen 101; OFinish 101])) = [PDone RCut; PDone R200]
  /\ snd (step true s1 (OTick 1)) = [] /\ snd (step true s1 (OTick 2)) = [EProbe 2]
  /\ live_ep s1 0 10 = None.
Proof. vm_compute. repeat split; try reflexivity; eexists; repeat split; reflexivity. Qed.

(* one sync removes endpoint 10 (object 1, a stream in flight on it) and lists an unusable server (first
   or last in the list): nothing is added, the server names are not updated, but object 1 has left the map,
   its context and probe context are done, the stream can only be cut; endpoint 11 (object 2) is untouched *)
Example C15_remove_with_failed_add_nonvacuous :
  let s := run true init demo in
  let s1 := run true s [OUpsert 0 [5] [(-1, false); (11, false); (12, false)]] in
  let s2 := run true s [OUpsert 0 [5; 6] [(11, false); (12, false); (-1, false)]] in
  map (fun e => (eobj e, ename e, elive e, ecancel e)) (eps s1) = [(1, 10, false, true); (2, 11, true, false); (4, 20, true, false)]
  /\ map (fun e => (eobj e, ename e, elive e, ecancel e)) (eps s2)
     = [(1, 10, false, true); (2, 11, true, false); (4, 20, true, false); (5, 12, true, false)]
  /\ resolve s2 6 = None
  /\ map (req_done s1) (reqs s1) = [true; false; false]
  /\ snd (step true s1 (OTick 1)) = [] /\ snd (step true s1 (OTick 2)) = [EProbe 2]
  /\ live_ep s1 0 10 = None.
Proof. vm_compute. repeat split; reflexivity. Qed.
