(* C11 — case format of the correspondence run and its evaluator. *)
From KG Require Import Prelude C10_Model C10_Spec C10_Check C11_Model C11_Spec.
Open Scope string_scope.
Open Scope Z_scope.

Record case := {
  k_steps : list (op * step_obs);      (* the history with valid / delivered / result as observed (no host probes) *)
  k_probes : probes;
  k_clusters : list string;            (* names whose views were taken *)
  k_latest : list string;              (* names of the stored objects in the order the fresh gateway received them *)
  k_obs : c11_obs
}.

Fixpoint pick_objs (api : list obj) (names : list string) : option (list obj) :=
  match names with
  | [] => Some []
  | n :: r => match api_find n api, pick_objs api r with
              | Some o, Some l => Some (o :: l)
              | _, _ => None
              end
  end.

Definition agree (c : case) : bool :=
  let w := run empty_world (map fst (k_steps c)) in
  (agree_steps [] [] false empty_world (k_steps c)
   && list_eqb view_eqb (map (view_of (k_probes c) (w_gw w)) (k_clusters c)) (ob_hot (k_obs c))
   && match pick_objs (w_api w) (k_latest c) with
      | Some objs =>
          (Nat.eqb (List.length objs) (List.length (w_api w))
           && list_eqb view_eqb (map (view_of (k_probes c) (fresh objs)) (k_clusters c)) (ob_fresh (k_obs c))
           && list_eqb Z.eqb (map (fun r => res_code (Some r)) (fresh_results objs objs empty_gw))
                       (ob_fresh_res (k_obs c)))%bool
      | None => false
      end)%bool.

(* clause layout: agree, converges *)
Definition eval (c : case) : list bool := [agree c; converges_ok (k_steps c) (k_obs c)].
