(* C01 — implementation model of the routing matcher, branch by branch:
     pkg/apis/proxy/v1alpha1/evaluation_helpers.go   (filterRules, simpleMatches, per-field matchers)
     pkg/clusters/matcher.go                         (RuleMatches, PolicyMatches, MatchPolicies)
     pkg/clusters/clusterinfo.go                     (MatchAttributes: chosen policy -> flow-control name, upstream set,
                                                      or ErrNoRouterRuleMatches)
     pkg/gateway/proxy/dispatcher/dispatcher.go:84   (error -> answered before any endpoint is picked)
   Executable definitions only; no proofs. Strings are Go byte strings. *)
From KG Require Import Prelude.
Open Scope string_scope.
Open Scope bool_scope.

(* ---------- data ---------- *)
Record sa_ref := mkSA { sa_ns : string; sa_name : string }.

Record rule := mkRule {
  r_verbs : list string;
  r_groups : list string;        (* apiGroups *)
  r_resources : list string;
  r_names : list string;         (* resourceNames *)
  r_users : list string;
  r_sas : list sa_ref;           (* serviceAccounts *)
  r_ugroups : list string;       (* userGroups *)
  r_urls : list string;          (* nonResourceURLs *)
}.

Record policy := mkPolicy {
  p_rules : list rule;
  p_flow : string;               (* FlowControlSchemaName *)
  p_subset : list string;        (* UpstreamSubset *)
}.

(* authorizer.Attributes as the matcher reads it *)
Record attrs := mkAttrs {
  a_verb : string;
  a_group : string;
  a_resource : string;
  a_subresource : string;
  a_name : string;
  a_path : string;
  a_user : string;
  a_groups : list string;        (* user.GetGroups() *)
  a_is_resource : bool;          (* IsResourceRequest() *)
}.

(* type matcher struct { reverse bool; value string } *)
Record matcher := mkM { m_reverse : bool; m_value : string }.

(* func (m matcher) match(request string) bool *)
Definition matcher_match (m : matcher) (request : string) : bool :=
  if m_reverse m then negb (String.eqb (m_value m) request) else String.eqb (m_value m) request.

(* len(r) > 0 && r[0] == '-' *)
Definition is_neg (r : string) : bool :=
  match r with
  | String c _ => Ascii.eqb c "-"%char
  | EmptyString => false
  end.
(* r[1:] *)
Definition tail1 (r : string) : string :=
  match r with
  | String _ t => t
  | EmptyString => EmptyString
  end.

(* the loop of filterRules: (filtered, reversed, matchAll); `break` at the first "*" *)
Fixpoint split_rules (rules : list string) : list matcher * list matcher * bool :=
  match rules with
  | [] => ([], [], false)
  | r :: rest =>
      if String.eqb r "*" then ([], [], true)
      else
        let '(f, rv, all) := split_rules rest in
        if is_neg r then (f, mkM true (tail1 r) :: rv, all)
        else (mkM false r :: f, rv, all)
  end.

(* func filterRules(rules []string) (filtered []matcher, matchAll bool) *)
Definition filter_rules (rules : list string) : list matcher * bool :=
  let '(f, rv, all) := split_rules rules in
  match f with
  | _ :: _ => (f, all)           (* if filtered is not empty drop reversed *)
  | [] => (rv, all)
  end.

(* the loop of simpleMatches over the filtered matchers *)
Fixpoint simple_loop (filtered : list matcher) (requests : list string) (extra : matcher -> bool)
         (inverted : bool) : bool :=
  match filtered with
  | [] => inverted
  | v :: rest =>
      let positive := mkM false (m_value v) in
      if existsb (matcher_match positive) requests then negb inverted
      else if extra positive then negb inverted
      else simple_loop rest requests extra inverted
  end.

(* func simpleMatches(rules, requests []string, matchFn ...func(m matcher) bool) bool
   (at most one extra match function is ever passed; none = fun _ => false) *)
Definition simple_matches (rules requests : list string) (extra : matcher -> bool) : bool :=
  let '(filtered, all) := filter_rules rules in
  if all then true
  else
    let inverted := match filtered with v :: _ => m_reverse v | [] => false end in
    simple_loop filtered requests extra inverted.

Definition no_extra (_ : matcher) : bool := false.

Definition str_len0 (s : string) : bool := match s with EmptyString => true | _ => false end.
Definition list_len0 {A} (l : list A) : bool := match l with [] => true | _ => false end.

(* ---------- per-field matchers ---------- *)
Definition verb_matches (verbs : list string) (request : string) : bool :=
  simple_matches verbs [request] no_extra.

Definition apigroup_matches (groups : list string) (request : string) : bool :=
  simple_matches groups [request] no_extra.

Definition resource_extra (sub : string) (m : matcher) : bool :=
  if str_len0 sub then false
  else if has_prefix (m_value m) "*/" then
         let all_sub := "*/" ++ sub in
         (negb (m_reverse m) && String.eqb (m_value m) all_sub)
         || (m_reverse m && negb (String.eqb (m_value m) all_sub))
       else false.

Definition resource_matches (resources : list string) (combined sub : string) : bool :=
  simple_matches resources [combined] (resource_extra sub).

Definition resourcename_matches (names : list string) (request : string) : bool :=
  if list_len0 names then true else simple_matches names [request] no_extra.

(* strings.HasSuffix(v, "*") && strings.HasPrefix(request, strings.TrimRight(v, "*")) *)
Definition go_glob (v request : string) : bool :=
  has_suffix v "*" && has_prefix request (trim_right_char "*"%char v).

Definition user_extra (user : string) (m : matcher) : bool := go_glob (m_value m) user.

Definition sa_prefix : string := "system:serviceaccount:".
Definition make_sa_username (ns name : string) : string := sa_prefix ++ ns ++ ":" ++ name.

Fixpoint sa_loop (sas : list sa_ref) (user : string) : bool :=
  match sas with
  | [] => false
  | sa :: rest =>
      if str_len0 (sa_ns sa) || str_len0 (sa_name sa) then sa_loop rest user
      else if String.eqb (make_sa_username (sa_ns sa) (sa_name sa)) user then true
      else sa_loop rest user
  end.

Definition user_or_sa_matches (users : list string) (sas : list sa_ref) (user : string) : bool :=
  if list_len0 users && list_len0 sas then true
  else if simple_matches users [user] (user_extra user) then true
  else sa_loop sas user.

Definition usergroup_matches (ugroups : list string) (request_groups : list string) : bool :=
  if list_len0 ugroups then true else simple_matches ugroups request_groups no_extra.

Fixpoint url_loop (filtered : list matcher) (request : string) : bool :=
  match filtered with
  | [] => false
  | v :: rest =>
      if m_reverse v then url_loop rest request            (* ignore reversed rules *)
      else if matcher_match v request then true
      else if go_glob (m_value v) request then true
      else url_loop rest request
  end.

Definition nonresource_url_matches (urls : list string) (request : string) : bool :=
  let '(filtered, all) := filter_rules urls in
  if all then true else url_loop filtered request.

(* ---------- matcher.go ---------- *)
Definition combined_resource (a : attrs) : string :=
  if str_len0 (a_subresource a) then a_resource a
  else a_resource a ++ "/" ++ a_subresource a.

Definition rule_matches (a : attrs) (r : rule) : bool :=
  let basic := verb_matches (r_verbs r) (a_verb a)
               && user_or_sa_matches (r_users r) (r_sas r) (a_user a)
               && usergroup_matches (r_ugroups r) (a_groups a) in
  if negb basic then false
  else if a_is_resource a then
    apigroup_matches (r_groups r) (a_group a)
    && resource_matches (r_resources r) (combined_resource a) (a_subresource a)
    && resourcename_matches (r_names r) (a_name a)
  else nonresource_url_matches (r_urls r) (a_path a).

Definition policy_matches (a : attrs) (p : policy) : bool := existsb (rule_matches a) (p_rules p).

(* MatchPolicies: index of the returned &policies[i], None for nil *)
Definition match_policies (a : attrs) (ps : list policy) : option nat :=
  find_index (policy_matches a) ps.

(* ---------- clusterinfo.go / dispatcher.go ---------- *)
Inductive outcome := Forward (idx : nat) | Reject.

Definition route (a : attrs) (ps : list policy) : outcome :=
  match match_policies a ps with
  | Some i => Forward i
  | None => Reject                                   (* ErrNoRouterRuleMatches -> responseError, return *)
  end.

(* what MatchAttributes hands to the dispatcher: flow-control name and the endpoint names the
   picker chooses from; None = ErrNoRouterRuleMatches (nil picker) *)
Definition flow_name (p : policy) : string :=
  if str_len0 (p_flow p) then "system-default" else p_flow p.

Definition match_attributes (a : attrs) (ps : list policy) (all_endpoints : list string)
  : option (string * list string) :=
  match match_policies a ps with
  | None => None
  | Some i =>
      match nth_error ps i with
      | None => None
      | Some p => Some (flow_name p, if list_len0 (p_subset p) then all_endpoints else p_subset p)
      end
  end.

(* ---------- a MatchAttributes that overlaps a Sync (clusterinfo.go: Sync / loadDispatchPolicies) ----------
   Memory: every slice ever stored in currentDispatchPolicies (an atomic.Value) is an array of the
   heap; the atomic.Value holds the index of the one in force.  Sync stores the slice of the new
   object: a new array and a pointer swap — it never writes into an array stored before.
   MatchAttributes loads the slice header once (array + length), MatchPolicies then reads
   policies[i] from memory when it gets to it, and MatchAttributes reads the fields of the
   returned &policies[i] from memory at the end. *)
Record cstate := mkCS { cs_heap : list (list policy); cs_cur : nat }.

Definition cs_init (old : list policy) : cstate := mkCS [old] 0.
Definition cs_sync (s : cstate) (new : list policy) : cstate :=
  mkCS (cs_heap s ++ [new])%list (List.length (cs_heap s)).
Definition cs_len (s : cstate) (arr : nat) : nat :=
  match nth_error (cs_heap s) arr with Some l => List.length l | None => O end.
Definition cs_read (s : cstate) (arr i : nat) : option policy :=
  match nth_error (cs_heap s) arr with Some l => nth_error l i | None => None end.

(* the MatchPolicies loop over the loaded slice (array [arr], [n] elements left from index [i]);
   [fire = Some j]: Sync(new) runs just before the j-th next element is read *)
Fixpoint scan (a : attrs) (s : cstate) (new : list policy) (arr i n : nat) (fire : option nat)
  : cstate * option nat * option nat :=
  match n with
  | O => (s, None, fire)
  | S n' =>
      let s1 := match fire with Some O => cs_sync s new | _ => s end in
      let fire1 := match fire with Some (S j) => Some j | _ => None end in
      match cs_read s1 arr i with
      | Some p => if policy_matches a p then (s1, Some i, fire1)
                  else scan a s1 new arr (S i) n' fire1
      | None => (s1, None, fire1)
      end
  end.

(* MatchAttributes on the state [sl], with a Sync(new) pending at [fire] (None = no Sync):
   when the loop ends before the Sync is due, the Sync runs before the fields of the returned
   policy are read *)
Definition match_from (a : attrs) (sl : cstate) (new : list policy) (eps : list string) (fire : option nat)
  : option (string * list string) :=
  let arr := cs_cur sl in                                   (* loadDispatchPolicies() *)
  let '(s1, r, fire1) := scan a sl new arr O (cs_len sl arr) fire in
  let s2 := match fire1 with Some _ => cs_sync s1 new | None => s1 end in
  match r with
  | None => None                                            (* ErrNoRouterRuleMatches *)
  | Some i =>
      match cs_read s2 arr i with
      | None => None
      | Some p => Some (flow_name p, if list_len0 (p_subset p) then eps else p_subset p)
      end
  end.

(* interruption point k: 0 = Sync completes before the list is loaded; k >= 1 = Sync runs after the
   load, just before the (k-1)-th policy is read, or — when the loop ends earlier — before the
   fields of the returned policy are read *)
Definition overlapped_match (a : attrs) (old new : list policy) (eps : list string) (k : nat)
  : option (string * list string) :=
  match k with
  | O => match_from a (cs_sync (cs_init old) new) new eps None
  | S j => match_from a (cs_init old) new eps (Some j)
  end.
