(* C05 — specification as executable checkers over OBSERVATIONS only (ops issued, schedule
   trace, results returned by the real limiter).  Nothing here looks at the model state of
   C05_Model; the only things shared with it are the vocabulary types (cmd, schema, kind, wop)
   and the numbering of access labels / events of a trace entry.

   Property text: "For a max-requests-in-flight schema with limit M, at no instant are more than M
   of the requests admitted under it since it last became a max-in-flight schema still unfinished,
   and after the limit is changed to M' new requests are admitted only while fewer than M' are in
   flight; this holds across any sequence of reconfigurations.  Every admitted request gives its
   slot back exactly once however it ends, so once all requests have finished M new ones are
   admitted again.  Limits are per cluster and per schema: exhausting one never causes a
   rejection under another." *)
From KG Require Import Prelude C05_Model.
Open Scope Z_scope.

(* =========================================================================== *)
(* schedules: trace entries are (goroutine, access label, event, argument)       *)
(*   labels: 1 = TryAcquire's load of max, 9 = Resize's store of max             *)
(*   events: 1 admitted, 2 rejected, 3 Release returned, 4 Resize(arg) returned  *)
(* =========================================================================== *)

Fixpoint zlookup (k : Z) (l : list (Z * Z)) : option Z :=
  match l with [] => None | (k', v) :: r => if k =? k' then Some v else zlookup k r end.

Record sst := {
  s_inflight : Z;            (* admitted and not yet released *)
  s_max : Z;                 (* limit in force: initial, then the argument of the last completed Resize *)
  s_maxever : Z;             (* largest limit that was ever in force *)
  s_read : list (Z * Z);     (* goroutine -> limit in force when its current TryAcquire loaded max *)
}.

Definition sst0 (m0 : Z) : sst := {| s_inflight := 0; s_max := m0; s_maxever := m0; s_read := [] |}.

(* one observed step: returns the new bookkeeping, "bound still holds", "this admission was allowed" *)
Definition sched_step (st : sst) (e : tent) : sst * bool * bool :=
  let '(g, lab, ev, arg) := e in
  let rd := if lab =? 1 then (g, s_max st) :: s_read st else s_read st in
  let admit_ok :=
    if ev =? 1 then match zlookup g rd with
                    | Some m => s_inflight st <? m      (* admitted only while fewer than the limit it saw *)
                    | None => false
                    end
    else true in
  let infl := if ev =? 1 then s_inflight st + 1 else if ev =? 3 then s_inflight st - 1 else s_inflight st in
  let mx := if ev =? 4 then arg else s_max st in
  let me := Z.max (s_maxever st) mx in
  ({| s_inflight := infl; s_max := mx; s_maxever := me; s_read := rd |}, infl <=? me, admit_ok).

Fixpoint sched_walk (st : sst) (tr : list tent) : sst * bool * bool :=
  match tr with
  | [] => (st, true, true)
  | e :: r =>
      let '(st1, b1, a1) := sched_step st e in
      let '(st2, b2, a2) := sched_walk st1 r in
      (st2, b1 && b2, a1 && a2)
  end.

(* never more than the (largest ever) limit in flight, at every instant of the run *)
Definition sched_bound_ok (m0 : Z) (tr : list tent) : bool := snd (fst (sched_walk (sst0 m0) tr)).
(* every admission happened while fewer requests were in flight than the limit in force when the
   acquirer read it (so: after a completed Resize(M'), new requests only while fewer than M') *)
Definition sched_admit_ok (m0 : Z) (tr : list tent) : bool := snd (sched_walk (sst0 m0) tr).
(* all requests finished: no slot is still taken, and the counter says so *)
Definition quiescent_ok (m0 : Z) (tr : list tent) (cnt : Z) : bool :=
  (s_inflight (fst (fst (sched_walk (sst0 m0) tr))) =? 0) && (cnt =? 0).
(* ... and exactly `limit` new requests are admitted again (refill = -1: not measured) *)
Definition refill_ok (m0 : Z) (tr : list tent) (mx refill : Z) : bool :=
  (mx =? s_max (fst (fst (sched_walk (sst0 m0) tr)))) && ((refill =? -1) || (refill =? mx)).

(* =========================================================================== *)
(* reconfiguration histories through the wrapper                                 *)
(* =========================================================================== *)

(* the spec's own bookkeeping per (cluster, schema name): type, limit, and the requests admitted
   under it SINCE IT LAST BECAME a schema of that type that are still unfinished *)
Record ent := { ekind : kind; elimit : Z; eunf : list Z }.

Record hst := { ents : string -> string -> option ent; infl : list Z (* ids in flight *) }.
Definition hst0 : hst := {| ents := fun _ _ => None; infl := [] |}.

Definition limit_of (s : schema) : Z := match s with SMif m _ => m | _ => 0 end.

Definition zmem (x : Z) (l : list Z) : bool := existsb (Z.eqb x) l.
Fixpoint zremove (x : Z) (l : list Z) : list Z :=
  match l with [] => [] | y :: r => if x =? y then r else y :: zremove x r end.

Definition spec_sync (h : hst) (c : string) (sp : spec) : hst :=
  {| ents := fun c' n' =>
       if String.eqb c c' then
         match lookup_schema n' sp with
         | None => None                                   (* not (any longer) a schema of this cluster *)
         | Some s =>
             match ents h c' n' with
             | Some e => if kind_eqb (ekind e) (kind_of s)
                         then Some {| ekind := ekind e; elimit := limit_of s; eunf := eunf e |}   (* limit changed *)
                         else Some {| ekind := kind_of s; elimit := limit_of s; eunf := [] |}     (* became another type *)
             | None => Some {| ekind := kind_of s; elimit := limit_of s; eunf := [] |}            (* (re-)added *)
             end
         end
       else ents h c' n';
     infl := infl h |}.

(* one op with the observed result; returns bookkeeping, "bound clause", "no spurious rejection" *)
Definition hist_step (h : hst) (o : wop) (res : Z) : hst * bool * bool :=
  match o with
  | WSync c sp => (spec_sync h c sp, true, true)
  | WRel r =>
      ({| ents := fun c n => match ents h c n with
                             | Some e => Some {| ekind := ekind e; elimit := elimit e; eunf := zremove r (eunf e) |}
                             | None => None end;
          infl := zremove r (infl h) |}, true, true)
  | WAcq c n r =>
      if zmem r (infl h) then (h, true, res =? 0)            (* not a new request *)
      else
        let grant (h' : hst) := {| ents := ents h'; infl := r :: infl h' |} in
        match (if String.eqb n "" then None else ents h c n) with
        | None => (if res =? 2 then grant h else h, true, res =? 2)       (* no limit: never rejected *)
        | Some e =>
            match ekind e with
            | KExempt => (if res =? 2 then grant h else h, true, res =? 2)
            | KTb => (if res =? 2 then grant h else h, true, true)        (* token buckets: property C06 *)
            | KMif =>
                let k := Z.of_nat (List.length (eunf e)) in
                if elimit e <? 0 then (if res =? 2 then grant h else h, true, true)   (* outside the property *)
                else if res =? 2 then
                  (grant {| ents := fun c' n' =>
                              if (String.eqb c c' && String.eqb n n')%bool
                              then Some {| ekind := ekind e; elimit := elimit e; eunf := r :: eunf e |}
                              else ents h c' n';
                            infl := infl h |},
                   k <? elimit e,          (* admitted only while fewer than M are in flight *)
                   true)
                else (h, true, (res =? 1) && (elimit e <=? k))   (* rejected only when its OWN M slots are taken *)
            end
        end
  end.

Fixpoint hist_walk (h : hst) (l : list (wop * Z)) : bool * bool :=
  match l with
  | [] => (true, true)
  | (o, res) :: r =>
      let '(h1, b1, n1) := hist_step h o res in
      let '(b2, n2) := hist_walk h1 r in (b1 && b2, n1 && n2)
  end.

Definition hist_bound_ok (l : list (wop * Z)) : bool := fst (hist_walk hst0 l).
Definition hist_noleak_ok (l : list (wop * Z)) : bool := snd (hist_walk hst0 l).

(* =========================================================================== *)
(* exits of the handler: every admitted request releases exactly once            *)
(* =========================================================================== *)
Definition exit_ok (evs : list dev) : bool :=
  if admitted evs then Nat.eqb (releases evs) 1 else Nat.eqb (releases evs) 0.
