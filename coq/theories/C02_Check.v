(* C02 — case format of the correspondence run and its evaluator. *)
From KG Require Import Prelude C02_Model C02_Spec.
Open Scope Z_scope.
Open Scope string_scope.
Open Scope list_scope.

Record case := mkCase {
  c_token : string;             (* the gateway's own credential for this cluster *)
  c_ip : string;                (* client address as the gateway sees it *)
  c_in : headers;               (* header set the Go server handed to the chain (recorded) *)
  c_id : identity;              (* what the stub authenticator returned *)
  c_deny : list imp_item;       (* what the stub authorizer refuses *)
  c_reached : bool;             (* false: net/http rejected the request before the chain *)
  c_calls : list imp_item;      (* authorizer questions observed *)
  c_resets : nat;               (* EndpointInfo.ResetTransport() calls issued on the target endpoint before this request *)
  c_obs : obs;
}.

Fixpoint insert_str (x : string) (l : list string) : list string :=
  match l with
  | [] => [x]
  | y :: r => if str_leb x y then x :: l else y :: insert_str x r
  end.
Definition sort_strs (l : list string) : list string := fold_right insert_str [] l.

(* identity-bearing part of a header set, canonical order, extra values as a multiset *)
Definition identity_part (h : headers) : headers :=
  map (fun e => if has_prefix (fst e) H_EXTRA then (fst e, sort_strs (snd e)) else e)
      (filter (fun e => (String.eqb (fst e) H_AUTH || has_prefix (fst e) H_IMP)%bool) (norm h)).

Definition hdr_eqb (a b : headers) : bool :=
  list_eqb (fun x y => (String.eqb (fst x) (fst y) && list_eqb String.eqb (snd x) (snd y))%bool) a b.

Definition item_key (i : imp_item) : string :=
  it_res i +++ "/" +++ it_ns i +++ "/" +++ it_name i +++ "/" +++ it_sub i.
Definition items_same (a b : list imp_item) : bool :=
  list_eqb String.eqb (sort_strs (map item_key a)) (sort_strs (map item_key b)).

Definition agree (c : case) : bool :=
  match pipeline_ep (after_resets (c_resets c) new_endpoint) (c_token c) (c_ip c) (c_in c) (c_id c) (allowed (c_deny c)) with
  | Forwarded h' =>
      match o_ups (c_obs c) with
      | [u] => (hdr_eqb (identity_part h') (identity_part u) &&
                (if asks (c_in c) then items_same (c_calls c) (asked_items (c_in c))
                 else match c_calls c with [] => true | _ => false end))%bool
      | _ => false
      end
  | Answered code =>
      (match o_ups (c_obs c) with [] => true | _ => false end && (Z.eqb (o_status (c_obs c)) code))%bool
  | NotModelled => false
  end.

(* clause layout: agree, identity, denied, malformed, no_client_header *)
Definition eval (c : case) : list bool :=
  if c_reached c
  then agree c :: spec_clauses (c_token c) (c_in c) (c_id c) (c_deny c) (c_obs c)
  else (* rejected by net/http before any gateway code ran: nothing may have reached the upstream *)
    [match o_ups (c_obs c) with [] => true | _ => false end; true; true; true; true].
