(* C04 — specification, as an executable checker over observations only: the request
   as the Go server handed it to the gateway, the scripted upstream answer, and what was
   observed (requests received by the stub upstream, response received by the client).

   Reading of the property.
   * same path = same SEGMENT LIST: the raw path split on literal '/', every segment
     percent-decoded.  %41 -> A is harmless, %2F -> / is not.
   * same query = same multimap key -> values (values of a key in order) as url.ParseQuery
     yields it; pairs Go rejects (bad escapes, pairs containing ';') are dropped by the gateway's
     re-encoding and would equally be dropped by a Go upstream reading the original string.
   * end-to-end headers: every client header arrives with the same values, except hop-by-hop
     headers (RFC 7230 list + those named by Connection) and the headers the gateway owns on
     the last hop: Authorization and Impersonate-* (C02), X-Forwarded-For (client address
     appended), User-Agent (the gateway's own only when the client sent none), Accept-Encoding
     (gzip added by the gateway's HTTP client only when the client sent none), Te: trailers, and
     the framing headers Content-Length / Transfer-Encoding (body compared instead).
   * response: status, body and every non-hop-by-hop, non-framing header as the upstream sent them.
   * terminations: each class has its code, Retry-After, a metav1.Status body carrying the same
     code, and the upstream saw nothing. *)
From KG Require Import Prelude C02_Model C02_Spec C04_Model.
Open Scope Z_scope.
Open Scope string_scope.
Open Scope list_scope.

Record seen := mkSeen { s_method : string; s_uri : string; s_host : string; s_headers : headers; s_body : string }.

Record status_doc := mkDoc { d_kind : string; d_version : string; d_status : string; d_code : Z }.

Record obs := mkObs4 {
  o_ups : list seen;                 (* every request the stub upstream received *)
  o_status : Z;                      (* what the client received *)
  o_headers : headers;
  o_body : string;
  o_doc : option status_doc;         (* the body parsed as a metav1.Status, when it is one *)
}.

(* ---- URL *)
Definition path_of (uri : string) : string := fst (cut "?" uri).
Definition query_of (uri : string) : string := snd (cut "?" uri).
Definition segments (p : string) : option (list string) := map_opt (unescape false) (split_on "/" p).

Definition opt_list_eqb (a b : option (list string)) : bool :=
  match a, b with
  | Some x, Some y => list_eqb String.eqb x y
  | _, _ => false
  end.
Definition path_ok (target uri : string) : bool := opt_list_eqb (segments (path_of target)) (segments (path_of uri)).

(* equal multimaps: every key has the same values in the same order on both sides *)
Definition values_of (k : string) (l : list (string * string)) : list string :=
  map snd (filter (fun p => String.eqb (fst p) k) l).
Definition multimap_eqb (a b : list (string * string)) : bool :=
  forallb (fun k => list_eqb String.eqb (values_of k a) (values_of k b)) (map fst a ++ map fst b).
Definition query_ok (target uri : string) : bool :=
  multimap_eqb (parse_query (query_of target)) (parse_query (query_of uri)).

(* ---- request headers *)
Definition str_in (k : string) (l : list string) : bool := existsb (String.eqb k) l.
Definition vals_eqb (a b : list string) : bool := list_eqb String.eqb a b.
Definition gateway_owned (k : string) : bool :=
  (String.eqb k H_AUTH || has_prefix k H_IMP || str_in k ["X-Forwarded-For"; "User-Agent"; "Accept-Encoding"; "Te"]
   || str_in k framing)%bool.
Definition e2e_key (h : headers) (k : string) : bool :=
  negb (str_in k hop_headers || str_in k (connection_named h) || gateway_owned k).
Definition own (h : headers) (k : string) : list string :=     (* the client's values that are not hop-by-hop *)
  if str_in k (connection_named h) then [] else h_values k h.

Definition headers_ok (client_ip : string) (h up : headers) : bool :=
  (forallb (fun e => if e2e_key h (fst e) then vals_eqb (h_values (fst e) up) (h_values (fst e) h) else true) h
   && forallb (fun e => ((e2e_key h (fst e) && h_has (fst e) h) || gateway_owned (fst e))%bool) up
   && vals_eqb (h_values "X-Forwarded-For" up)
               [match own h "X-Forwarded-For" with [] => client_ip | p => join ", " p +++ ", " +++ client_ip end]
   && (match own h "User-Agent" with
       | v :: _ => if String.eqb v EmptyString then vals_eqb (h_values "User-Agent" up) [gateway_user_agent]
                   else vals_eqb (h_values "User-Agent" up) [v]
       | [] => vals_eqb (h_values "User-Agent" up) [gateway_user_agent]
       end)
   && (vals_eqb (h_values "Accept-Encoding" up) (own h "Accept-Encoding")
       || vals_eqb (h_values "Accept-Encoding" up) (own h "Accept-Encoding" ++ ["gzip"]))
   && (match h_values "Te" up with
       | [] => true
       | vs => (vals_eqb vs ["trailers"] && values_have_token "trailers" (h_values "Te" h))%bool
       end))%bool.

Definition request_ok (client_ip : string) (q : request) (u : seen) : list bool :=
  [ (String.eqb (s_method u) (q_method q) && String.eqb (s_body u) (q_body q) && String.eqb (s_host u) (q_host q))%bool;
    path_ok (q_target q) (s_uri u);
    query_ok (q_target q) (s_uri u);
    headers_ok client_ip (q_headers q) (s_headers u) ].

(* ---- connection upgrades: Connection / Upgrade and every other client header are forwarded (no hop-by-hop
   stripping on this path, by design); the gateway owns Authorization, Impersonate-*, X-Forwarded-For,
   User-Agent (Go's default when the client sent none) and the framing headers *)
Definition upgrade_owned (k : string) : bool :=
  (String.eqb k H_AUTH || has_prefix k H_IMP || str_in k ["X-Forwarded-For"; "User-Agent"] || str_in k framing)%bool.
Definition upgrade_headers_ok (client_ip : string) (h up : headers) : bool :=
  (forallb (fun e => if upgrade_owned (fst e) then true else vals_eqb (h_values (fst e) up) (h_values (fst e) h)) h
   && forallb (fun e => (upgrade_owned (fst e) || h_has (fst e) h)%bool) up
   && vals_eqb (h_values "X-Forwarded-For" up)
               [match h_values "X-Forwarded-For" h with [] => client_ip | p => join ", " p +++ ", " +++ client_ip end]
   && (match h_values "User-Agent" h with
       | v :: _ => if String.eqb v EmptyString then true else vals_eqb (h_values "User-Agent" up) [v]
       | [] => true
       end))%bool.

Definition upgrade_request_ok (client_ip : string) (q : request) (u : seen) : list bool :=
  [ (String.eqb (s_method u) (q_method q) && String.eqb (s_body u) (q_body q) && String.eqb (s_host u) (q_host q))%bool;
    path_ok (q_target q) (s_uri u);
    query_ok (q_target q) (s_uri u);
    upgrade_headers_ok client_ip (q_headers q) (s_headers u) ].
(* whatever the upstream answers to the upgrade (101 + the bytes that follow, or a refusal) reaches the client *)
Definition upgrade_response_ok (reply : response) (o : obs) : bool :=
  (Z.eqb (o_status o) (r_status reply) && String.eqb (o_body o) (r_body reply))%bool.

(* ---- response *)
Definition resp_key (h : headers) (k : string) : bool :=
  negb (str_in k hop_headers || str_in k (connection_named h) || str_in k framing).
Definition response_ok (method : string) (reply : response) (o : obs) : bool :=
  let rh := read_headers (r_headers reply) in
  (Z.eqb (o_status o) (r_status reply)
   && String.eqb (o_body o) (if no_body method (r_status reply) then EmptyString else r_body reply)
   && forallb (fun e => if resp_key rh (fst e) then vals_eqb (h_values (fst e) (o_headers o)) (h_values (fst e) rh) else true) rh
   && forallb (fun e => (str_in (fst e) framing || (resp_key rh (fst e) && h_has (fst e) rh))%bool) (o_headers o))%bool.

(* ---- terminations *)
Definition doc_ok (code : Z) (o : obs) : bool :=
  match o_doc o with
  | Some d => (String.eqb (d_kind d) "Status" && String.eqb (d_version d) "v1" && String.eqb (d_status d) "Failure"
               && Z.eqb (d_code d) code)%bool
  | None => false
  end.
(* a HEAD response carries no body, so its Status document cannot be observed *)
Definition terminated_as (method : string) (code : Z) (retry_required : bool) (o : obs) : bool :=
  (match o_ups o with [] => true | _ => false end && Z.eqb (o_status o) code
   && (if retry_required then match h_values "Retry-After" (o_headers o) with [] => false | _ => true end else true)
   && (if String.eqb method "HEAD" then String.eqb (o_body o) EmptyString else doc_ok code o))%bool.

(* the termination classes that apply to a case (the property does not order them): code, and whether the
   property demands a Retry-After header (it does for 503 only; the values 60 / 1 are pinned by the model) *)
Definition classes (c : cluster) (q : request) (deny : list imp_item) : list (Z * bool) :=
  (match c with CUnknown => [(503, true)] | _ => [] end)
  ++ (if (asks (h_del H_AUTH (q_headers q)) && negb (forallb (allowed deny) (asked_items (h_del H_AUTH (q_headers q)))))%bool
      then [(403, false)] else [])
  ++ (match c with
      | CLimited => [(429, false)]
      | CNoEndpoint => [(503, true)]
      | CDead => [(502, false)]
      | _ => []
      end).

Definition forwarded_once (o : obs) : bool := match o_ups o with [_] => true | _ => false end.

(* malformed impersonation and identities HTTP cannot carry are C02's business: here they only
   have to be answered by the gateway with an error and not forwarded *)
Definition refused_elsewhere (q : request) (id : identity) : bool :=
  (malformed (h_del H_AUTH (q_headers q))
   || (negb (asks (h_del H_AUTH (q_headers q))) && (negb (wire_clean id) || String.eqb (uname id) EmptyString)))%bool.

Definition termination_ok (c : cluster) (q : request) (id : identity) (deny : list imp_item) (o : obs) : bool :=
  match classes c q deny with
  | [] => if refused_elsewhere q id
          then (forwarded_once o || (match o_ups o with [] => true | _ => false end && Z.leb 400 (o_status o)))%bool
          else forwarded_once o
  | cl => if malformed (h_del H_AUTH (q_headers q))
          then (match o_ups o with [] => true | _ => false end && Z.leb 400 (o_status o))%bool
          else existsb (fun x => terminated_as (q_method q) (fst x) (snd x) o) cl
  end.

(* clause layout: method+body+host, path, query, headers, response, termination *)
Definition spec_clauses (client_ip : string) (c : cluster) (q : request) (id : identity) (deny : list imp_item)
                        (reply : response) (o : obs) : list bool :=
  match o_ups o with
  | [u] => if is_upgrade_request (q_headers q)
           then upgrade_request_ok client_ip q u ++ [upgrade_response_ok reply o; termination_ok c q id deny o]
           else request_ok client_ip q u ++ [response_ok (q_method q) reply o; termination_ok c q id deny o]
  | _ => [true; true; true; true; true; termination_ok c q id deny o]
  end.
