(* C12 — specification, as an executable checker over observed histories.

   Property: a token-authentication result or an authorization decision obtained from one upstream
   cluster is applied only to requests addressed to that same cluster; each review is sent to a ready
   endpoint of the request's own cluster; if that cluster cannot be asked, the request is not
   authenticated / is denied.

   The checker sees only inputs (configuration, the answers each cluster gives to its 1st, 2nd, ...
   review, the operations with their clock values) and observations (what the caller got, and which
   cluster's endpoints received review calls during the operation).  It never looks at the
   implementation model's state. *)
From KG Require Import Prelude C12_Model.
Open Scope Z_scope.

(* ---------- what an answer of a cluster means for the caller ---------- *)
Definition t_expected (a : tanswer) : tresult :=
  match a with
  | TAuth n u => {| t_user := Some (n, u); t_ok := true; t_err := ENone |}     (* authenticated as that user *)
  | TUnauth => {| t_user := None; t_ok := false; t_err := ENone |}             (* not authenticated *)
  | TUnauthMsg k | TFail k _ => {| t_user := None; t_ok := false; t_err := EUp k |}  (* not authenticated, that error *)
  end.

Definition s_expected (a : sanswer) : sresult :=
  match a with
  | SFail k _ => {| s_dec := DDeny; s_reason := EmptyString; s_err := EUp k |}  (* decisionOnError = deny *)
  | SStatus al de reason =>
      {| s_dec := if de then DDeny else if al then DAllow else DNoOpinion;
         s_reason := reason;
         s_err := if (de && al)%bool then EBoth else ENone |}
  end.

(* how long an answer may be reused: success / failure TTL, authorized / unauthorized TTL; errors never *)
Definition t_ttl (cfg : config) (a : tanswer) : option Z :=
  match a with TAuth _ _ => Some (sttl cfg) | TUnauth => Some (fttl cfg) | _ => None end.
Definition s_ttl (cfg : config) (a : sanswer) : option Z :=
  match a with SStatus al _ _ => Some (if al then attl cfg else dttl cfg) | SFail _ _ => None end.

(* "not authenticated" / "denied" *)
Definition t_refused (r : tresult) : bool :=
  (negb (t_ok r) && match t_user r with None => true | Some _ => false end)%bool.
Definition s_refused (r : sresult) : bool := decision_eqb (s_dec r) DDeny.

Record spec_kind (A R : Type) := {
  p_expected : A -> R;
  p_ttl : A -> option Z;
  p_refused : R -> bool;
  p_eqb : R -> R -> bool }.
Arguments p_expected {A R}. Arguments p_ttl {A R}. Arguments p_refused {A R}. Arguments p_eqb {A R}.

Definition tspec (cfg : config) : spec_kind tanswer tresult :=
  {| p_expected := t_expected; p_ttl := t_ttl cfg; p_refused := t_refused; p_eqb := tresult_eqb |}.
Definition sspec (cfg : config) : spec_kind sanswer sresult :=
  {| p_expected := s_expected; p_ttl := s_ttl cfg; p_refused := s_refused; p_eqb := sresult_eqb |}.

(* ---------- which cluster a request is addressed to, and whether it can be asked ---------- *)
(* Some c: the host names cluster c NOW (after all moves of server names, deletions and re-creations so
   far) and c has an endpoint that is healthy and not disabled *)
Definition can_ask (cfg : config) (e : epstate) (ho : option host) : option cluster :=
  match ho with
  | None => None
  | Some h => match cluster_of e h with
              | None => None
              | Some c => if existsb (fun x => (fst (snd x) && negb (snd (snd x)))%bool) (e_list e c) then Some c else None
              end
  end.

(* ---------- history the checker accumulates (from observations) ---------- *)
Inductive hev (R : Type) :=
| HFill (c : cluster) (k : key) (r : R) (exp : Z)   (* cluster c answered a review for k; that answer means r and may be reused until exp *)
| HRestart (c : cluster).                           (* cluster c was stopped / replaced *)
Arguments HFill {R}. Arguments HRestart {R}.

Record ckk (R : Type) := { c_cnt : cluster -> nat;       (* reviews each cluster has received so far *)
                           c_hist : list (hev R) }.      (* newest first *)
Arguments c_cnt {R}. Arguments c_hist {R}.

(* is there an answer of cluster c itself, to the same key, meaning r, still within its TTL at [now],
   and given since c was last replaced? *)
Fixpoint has_source {R} (eqb : R -> R -> bool) (hist : list (hev R)) (c : cluster) (k : key) (r : R) (now : Z) : bool :=
  match hist with
  | [] => false
  | HRestart c' :: rest => if String.eqb c' c then false else has_source eqb rest c k r now
  | HFill c' k' r' exp :: rest =>
      (String.eqb c' c && key_eqb k' k && eqb r r' && (now <=? exp))%bool || has_source eqb rest c k r now
  end.

(* the review calls observed during one operation, in order: each goes to the receiving cluster's
   next scripted answer; remember the last one *)
Fixpoint consume {A} (orc : cluster -> nat -> A) (cnt : cluster -> nat) (calls : list call)
         (last : option (cluster * A)) : (cluster -> nat) * option (cluster * A) :=
  match calls with
  | [] => (cnt, last)
  | cl :: rest => consume orc (upd_cnt cnt (fst cl) (S (cnt (fst cl)))) rest (Some (fst cl, orc (fst cl) (cnt (fst cl))))
  end.

Definition clauses := (bool * bool * bool * bool)%type.   (* own_cluster, unavailable_denies, fresh_answer, cached_provenance *)
Definition all_ok : clauses := (true, true, true, true).
Definition all_bad : clauses := (false, false, false, false).
Definition and_cl (a b : clauses) : clauses :=
  let '(a1, a2, a3, a4) := a in let '(b1, b2, b3, b4) := b in
  ((a1 && b1)%bool, (a2 && b2)%bool, (a3 && b3)%bool, (a4 && b4)%bool).

Definition is_nil {X} (l : list X) : bool := match l with [] => true | _ => false end.

(* one request: [can] = the cluster it is addressed to if that cluster can be asked *)
Definition check_req {A R} (P : spec_kind A R) (orc : cluster -> nat -> A) (can : option cluster) (ck : ckk R)
           (k : key) (now : Z) (r : R) (calls : list call) : ckk R * clauses :=
  let (cnt', last) := consume orc (c_cnt ck) calls None in
  (* (1) every review goes to a ready endpoint of the request's own cluster (none if it cannot be asked) *)
  let own := forallb (fun cl => match can with Some c => (String.eqb (fst cl) c && snd cl)%bool | None => false end) calls in
  (* (2) the cluster cannot be asked => refused, without asking anybody *)
  let unav := match can with None => (p_refused P r && is_nil calls)%bool | Some _ => true end in
  (* (3) reviews were made => the caller gets what the last answer means *)
  let fresh := match last with Some (_, a) => p_eqb P r (p_expected P a) | None => true end in
  (* (4) no review was made => what the caller gets is an earlier answer of the same cluster to the same key, within its TTL *)
  let cached := match can, calls with
                | Some c, [] => has_source (p_eqb P) (c_hist ck) c k r now
                | _, _ => true
                end in
  let hist' := match last with
               | Some (c', a) => match p_ttl P a with
                                 | Some ttl => HFill c' k (p_expected P a) (now + ttl) :: c_hist ck
                                 | None => c_hist ck
                                 end
               | None => c_hist ck
               end in
  ({| c_cnt := cnt'; c_hist := hist' |}, (own, unav, fresh, cached)).

Record ck := { c_eps : epstate;   (* the clusters' current server lists, from the operations issued *)
               c_t : ckk tresult; c_s : ckk sresult }.

Definition ck_init (cfg : config) : ck :=
  {| c_eps := init_eps cfg;
     c_t := {| c_cnt := fun _ => O; c_hist := [] |};
     c_s := {| c_cnt := fun _ => O; c_hist := [] |} |}.

Definition restart_k {R} (c : cluster) (k : ckk R) : ckk R :=
  {| c_cnt := c_cnt k; c_hist := HRestart c :: c_hist k |}.

Definition check_step (cfg : config) (torc : cluster -> nat -> tanswer) (sorc : cluster -> nat -> sanswer)
           (s : ck) (o : op) (x : out) : ck * clauses :=
  match o, x with
  | OAuthn ho tok now, OutT r calls =>
      let (t', cl) := check_req (tspec cfg) torc (can_ask cfg (c_eps s) ho) (c_t s) [tok] now r calls in
      ({| c_eps := c_eps s; c_t := t'; c_s := c_s s |}, cl)
  | OAuthz ho a now, OutS r calls =>
      let (s', cl) := check_req (sspec cfg) sorc (can_ask cfg (c_eps s) ho) (c_s s) (sar_key a) now r calls in
      ({| c_eps := c_eps s; c_t := c_t s; c_s := s' |}, cl)
  | OHealthy _ _, OutNone | ODisabled _ _, OutNone | OAddEp _ _, OutNone | ORemoveEp _ _, OutNone
  | OName _ _, OutNone | OUnname _ _, OutNone | ORecreate _, OutNone =>
      ({| c_eps := ep_apply o (c_eps s); c_t := c_t s; c_s := c_s s |}, all_ok)
  | ORestart c, OutNone | ODelete c, OutNone =>     (* the incarnation of c ends: its earlier answers are no source any more *)
      ({| c_eps := ep_apply o (c_eps s); c_t := restart_k c (c_t s); c_s := restart_k c (c_s s) |}, all_ok)
  | OEvictT _ _, OutNone | OEvictS _ _, OutNone => (s, all_ok)
  | _, _ => (s, all_bad)
  end.

(* ---------- requests through the proxy chain: the cluster that decided = the cluster dispatched to ---------- *)
(* were the reviews that decided this request made by cluster d — every review call of it received by d,
   or, without any review, an answer of d itself in the history? *)
Definition decided_by {A R} (P : spec_kind A R) (ck : ckk R) (d : cluster) (k : key) (now : Z) (r : R) (calls : list call) : bool :=
  (forallb (fun cl => String.eqb (fst cl) d) calls
   && (negb (is_nil calls) || has_source (p_eqb P) (c_hist ck) d k r now))%bool.

Definition xclauses := (clauses * bool)%type.     (* the four clauses above, same_cluster *)
Definition all_okx : xclauses := (all_ok, true).
Definition all_badx : xclauses := (all_bad, false).
Definition and_clx (a b : xclauses) : xclauses := (and_cl (fst a) (fst b), (snd a && snd b)%bool).

Definition is_none {X} (o : option X) : bool := match o with None => true | Some _ => false end.

(* overlapping requests are judged exactly as sequential ones: the request whose review was received
   first, then the one that ran while it was in flight.
   A chain request: its token authentication and its impersonation review are judged as the plain
   requests for its host they are, and (5) if it reaches the dispatcher, the cluster it is dispatched
   to must be the cluster whose reviews (or cached answers) decided both. *)
Definition check_stepx (cfg : config) torc sorc (s : ck) (o : xop) (x : xout) : ck * xclauses :=
  match o, x with
  | One a, R1 xa => let (s', c) := check_step cfg torc sorc s a xa in (s', (c, true))
  | Ovl a b, R2 xa xb =>
      let (s1, c1) := check_step cfg torc sorc s a xa in
      let (s2, c2) := check_step cfg torc sorc s1 b xb in (s2, (and_cl c1 c2, true))
  | Chain h tok imp now, RC None z d => (s, (all_ok, (is_none z && is_none d)%bool))
  | Chain h tok imp now, RC (Some (OutT r calls)) z d =>
      let (s1, c1) := check_step cfg torc sorc s (OAuthn (Some h) tok now) (OutT r calls) in
      let dec_t := match d with Some dc => decided_by (tspec cfg) (c_t s) dc [tok] now r calls | None => true end in
      match z with
      | None => (s1, (c1, dec_t))
      | Some (OutS r2 calls2) =>
          match t_user r, imp with
          | Some u, Some target =>
              let a := imp_attrs u target in
              let (s2, c2) := check_step cfg torc sorc s1 (OAuthz (Some h) a now) (OutS r2 calls2) in
              let dec_z := match d with Some dc => decided_by (sspec cfg) (c_s s1) dc (sar_key a) now r2 calls2 | None => true end in
              (s2, (and_cl c1 c2, (dec_t && dec_z)%bool))
          | _, _ => (s, all_badx)
          end
      | Some _ => (s, all_badx)
      end
  | _, _ => (s, all_badx)
  end.

Fixpoint check (cfg : config) torc sorc (s : ck) (tr : list (xop * xout)) : xclauses :=
  match tr with
  | [] => all_okx
  | (o, x) :: rest => let (s', cl) := check_stepx cfg torc sorc s o x in and_clx cl (check cfg torc sorc s' rest)
  end.

Definition spec_ok (cfg : config) torc sorc (tr : list (xop * xout)) : xclauses :=
  check cfg torc sorc (ck_init cfg) tr.
