(* C19 — specification as an executable checker over observed histories.
   It looks only at the operations issued and at what was observed after each of them
   (result, contents of the API server, contents of the store), never at model state.

   ack      : write-through, Save returned ok      => the API holds that condition (spec+status)
   stop     : Stop returned ok on a running store  => every condition the store held is in the API;
              a graceful stop by the limiter retries a failed Stop (up to 10 attempts) until one succeeds
   load     : Load returned ok                     => every persisted condition of the store's shard is
              loaded as persisted; on a new store nothing else is loaded
   deleted  : a condition whose Delete/DeleteUpstream was acknowledged and that was not saved
              again is neither in the API nor in any store afterwards
   noregress: per condition, the API holds the latest version whose write-through Save was
              acknowledged, or a version somebody tried to save after that — never an older one
              (until a delete of that condition is attempted)
   filter   : Save of a condition of another shard is refused and changes nothing; a store only
              ever holds conditions of its own shard (cited by C13)
   stop / deleted / noregress are read for histories in which a condition name belongs to one upstream
   (hist_wf) — the limiter derives the name from the upstream. *)
From KG Require Import Prelude C13_Model C19_Model.
Open Scope Z_scope.

Record obs := mkObs {
  ores : res;                          (* outcome class of the call *)
  oires : list res;                    (* outcomes of the interleaved calls, in completion order *)
  oipos : list (list (option res));    (* the same, per position of OFlush's [inter] (None = never issued) *)
  oapi : apist;                        (* RateLimitConditions in the API server after the op *)
  oloc : localst;                      (* List(Everything) of the store after the op ([] when there is none) *)
  oatt : list res;                     (* OGStop: outcome of every Stop() attempt the limiter made *)
}.

Definition api_sub (a b : apist) : bool :=
  forallb (fun p => match alookup String.eqb (fst p) b with Some v => body_eqb v (snd p) | None => false end) a.
Definition api_eqb (a b : apist) : bool := (api_sub a b && api_sub b a)%bool.
Definition loc_sub (a b : localst) : bool :=
  forallb (fun p => match alookup key_eqb (fst p) b with Some v => body_eqb v (snd p) | None => false end) a.
Definition loc_eqb (a b : localst) : bool := (loc_sub a b && loc_sub b a)%bool.

(* ---- name -> upstream discipline of a history ---- *)
Definition fop_pairs (f : fop) : list (string * string) :=
  match f with
  | FSave c => [(fst c, bup (snd c))]
  | FDelete cl nm => [(nm, cl)]
  | FDeleteUp _ _ => []
  end.
Definition op_pairs (o : op) : list (string * string) :=
  match o with
  | OFg f _ => fop_pairs f
  | OFlush _ inter _ => flat_map (fun e : key * list fop => flat_map fop_pairs (snd e)) inter
  | _ => []
  end.
Fixpoint functional (l : list (string * string)) : bool :=
  match l with
  | [] => true
  | (n, u) :: r => (forallb (fun q : string * string => (negb (String.eqb (fst q) n) || String.eqb (snd q) u)%bool) r
                    && functional r)%bool
  end.
Definition hist_wf (init : apist) (ops : list op) : bool :=
  functional (map (fun p : string * body => (fst p, bup (snd p))) init ++ flat_map op_pairs ops).

(* ---- what the checker remembers between steps (derived from ops and observations only) ---- *)
Record ctx := mkCtx {
  calive : bool; csh : Z; cw : bool; cstopped : bool; cfresh : bool;
  cdel : list string;                  (* acknowledged deletions not followed by a save attempt *)
  cack : list (string * (body * list body));   (* name -> latest acknowledged write-through version, later attempts *)
  papi : apist; ploc : localst;
}.

Definition own (n sh : Z) (up : string) : bool :=
  match shard_id up n with Some z => z =? sh | None => false end.

Definition ack_ok (c : ctx) (o : op) (b : obs) : bool :=
  match o with
  | OFg (FSave cd) _ =>
      if (calive c && cw c && res_eqb (ores b) ROk)%bool then
        match alookup String.eqb (fst cd) (oapi b) with
        | Some v => content_eqb v (snd cd)
        | None => false
        end
      else true
  | _ => true
  end.

Definition flushed_ok (c : ctx) (b : obs) : bool :=
  forallb (fun p : key * body =>
             match alookup String.eqb (snd (fst p)) (oapi b) with
             | Some v => content_eqb v (snd p)
             | None => false
             end) (ploc c).

Definition stop_ok (c : ctx) (o : op) (b : obs) : bool :=
  match o with
  | OGStop _ _ =>
      (* graceful stop by the limiter: it keeps trying until a Stop() succeeded or 10 attempts were made,
         and after a successful attempt every condition the store held is in the API *)
      if (calive c && negb (cstopped c))%bool then
        ((res_eqb (last (oatt b) RErr) ROk || Nat.eqb (List.length (oatt b)) 10)
         && (negb (res_eqb (ores b) ROk) || flushed_ok c b))%bool
      else true
  | OStop _ _ =>
      if (calive c && negb (cstopped c) && res_eqb (ores b) ROk)%bool then
        forallb (fun p : key * body =>
                   match alookup String.eqb (snd (fst p)) (oapi b) with
                   | Some v => content_eqb v (snd p)
                   | None => false
                   end) (ploc c)
      else true
  | _ => true
  end.

Definition load_ok (n : Z) (c : ctx) (o : op) (b : obs) : bool :=
  match o with
  | OLoad _ =>
      if (calive c && res_eqb (ores b) ROk)%bool then
        (forallb (fun p : string * body =>
                    if own n (csh c) (bup (snd p)) then
                      match alookup key_eqb (bup (snd p), fst p) (oloc b) with
                      | Some v => body_eqb v (snd p)
                      | None => false
                      end
                    else true) (oapi b)
         && (if cfresh c then
               forallb (fun p : key * body =>
                          match alookup String.eqb (snd (fst p)) (oapi b) with
                          | Some v => (body_eqb v (snd p) && String.eqb (fst (fst p)) (bup v) && own n (csh c) (bup v))%bool
                          | None => false
                          end) (oloc b)
             else true))%bool
      else true
  | _ => true
  end.

Definition saved_names (fs : list fop) : list string :=
  flat_map (fun f => match f with FSave cd => [fst cd] | _ => [] end) fs.
Definition deleted_names (f : fop) (r : option res) : list string :=
  match r with
  | Some ROk => match f with FDelete _ nm => [nm] | FDeleteUp _ ord => ord | FSave _ => [] end
  | _ => []
  end.
Fixpoint zip_del (fs : list fop) (rs : list (option res)) : list string :=
  match fs, rs with
  | f :: fr, r :: rr => deleted_names f r ++ zip_del fr rr
  | _, _ => []
  end.
Fixpoint zip_del2 (inter : list (key * list fop)) (rs : list (list (option res))) : list string :=
  match inter, rs with
  | e :: er, r :: rr => zip_del (snd e) r ++ zip_del2 er rr
  | _, _ => []
  end.

(* the deleted set after the op *)
Definition next_del (c : ctx) (o : op) (b : obs) : list string :=
  match o with
  | OFg f _ =>
      let d := filter (fun x => negb (str_mem x (saved_names [f]))) (cdel c) in
      if calive c then deleted_names f (Some (ores b)) ++ d else d
  | OFlush _ inter _ =>
      let sv := saved_names (flat_map (fun e : key * list fop => snd e) inter) in
      filter (fun x => negb (str_mem x sv)) (zip_del2 inter (oipos b) ++ cdel c)
  | _ => cdel c
  end.

Definition deleted_ok (d : list string) (b : obs) : bool :=
  (forallb (fun x => match alookup String.eqb x (oapi b) with Some _ => false | None => true end) d
   && forallb (fun p : key * body => negb (str_mem (snd (fst p)) d)) (oloc b))%bool.

(* ---- latest acknowledged version per condition ---- *)
Definition note_save (w : bool) (cd : cond) (r : option res) (l : list (string * (body * list body)))
  : list (string * (body * list body)) :=
  match r with
  | None => l                                      (* never issued *)
  | Some RDead => l
  | Some q =>
      if (w && res_eqb q ROk)%bool then aset String.eqb (fst cd) (snd cd, []) l
      else match alookup String.eqb (fst cd) l with
           | Some (a, ls) => aset String.eqb (fst cd) (a, snd cd :: ls) l
           | None => l
           end
  end.
Definition note_del (f : fop) (r : option res) (l : list (string * (body * list body)))
  : list (string * (body * list body)) :=
  match r with
  | None => l
  | Some RDead => l
  | Some _ => match f with
              | FDelete _ nm => adel String.eqb nm l
              | FDeleteUp _ ord => filter (fun p : string * (body * list body) => negb (str_mem (fst p) ord)) l
              | FSave _ => l
              end
  end.
Definition note_fop (w : bool) (f : fop) (r : option res) l :=
  match f with FSave cd => note_save w cd r l | _ => note_del f r l end.
Fixpoint zip_fops (fs : list fop) (rs : list (option res)) : list (fop * option res) :=
  match fs, rs with
  | f :: fr, r :: rr => (f, r) :: zip_fops fr rr
  | _, _ => []
  end.
Fixpoint zip_inter (inter : list (key * list fop)) (rs : list (list (option res))) : list (fop * option res) :=
  match inter, rs with
  | e :: er, r :: rr => zip_fops (snd e) r ++ zip_inter er rr
  | _, _ => []
  end.

Definition next_ack (c : ctx) (o : op) (b : obs) : list (string * (body * list body)) :=
  match o with
  | OFg f _ => if calive c then note_fop (cw c) f (Some (ores b)) (cack c) else cack c
  | OFlush _ inter _ =>
      let evs := zip_inter inter (oipos b) in
      let saves := filter (fun e : fop * option res => negb (is_del (fst e))) evs in
      let dels := filter (fun e : fop * option res => is_del (fst e)) evs in
      fold_left (fun l e => note_fop (cw c) (fst e) (snd e) l) (saves ++ dels) (cack c)
  | _ => cack c
  end.

Definition noregress_ok (l : list (string * (body * list body))) (b : obs) : bool :=
  forallb (fun p : string * (body * list body) =>
             match alookup String.eqb (fst p) (oapi b) with
             | Some v => (content_eqb v (fst (snd p)) || existsb (content_eqb v) (snd (snd p)))%bool
             | None => false
             end) l.

Definition filter_ok (n : Z) (c : ctx) (sh_after : Z) (o : op) (b : obs) : bool :=
  (match o with
   | OFg (FSave cd) _ =>
       if calive c then
         if own n (csh c) (bup (snd cd)) then negb (res_eqb (ores b) RRefused)
         else (res_eqb (ores b) RRefused && api_eqb (oapi b) (papi c) && loc_eqb (oloc b) (ploc c))%bool
       else true
   | _ => true
   end
   && forallb (fun p : key * body => own n sh_after (bup (snd p))) (oloc b))%bool.

Definition next_ctx (c : ctx) (o : op) (b : obs) : ctx :=
  let d := next_del c o b in
  match o with
  | ORestart sh w => mkCtx true sh w false true d (next_ack c o b) (oapi b) (oloc b)
  | _ =>
      let alive := (calive c && negb (res_eqb (ores b) RCrash))%bool in
      let stp := match o with
                 | OStop _ _ | OGStop _ _ => (cstopped c || (calive c && res_eqb (ores b) ROk))%bool
                 | _ => cstopped c
                 end in
      mkCtx alive (csh c) (cw c) stp false d (next_ack c o b) (oapi b) (oloc b)
  end.

(* clause layout: ack, stop, load, deleted, filter, noregress *)
Definition step_ok (n : Z) (wf : bool) (c : ctx) (o : op) (b : obs) : list bool :=
  let c' := next_ctx c o b in
  [ ack_ok c o b;
    (negb wf || stop_ok c o b)%bool;
    load_ok n c o b;
    (negb wf || deleted_ok (cdel c') b)%bool;
    filter_ok n c (csh c') o b;
    (negb wf || noregress_ok (cack c') b)%bool ].

Definition and_lists (a b : list bool) : list bool := map (fun p => (fst p && snd p)%bool) (combine a b).

Fixpoint hist_go (n : Z) (wf : bool) (c : ctx) (l : list (op * obs)) : list bool :=
  match l with
  | [] => [true; true; true; true; true; true]
  | (o, b) :: r => and_lists (step_ok n wf c o b) (hist_go n wf (next_ctx c o b) r)
  end.

Definition ctx0 (init : apist) : ctx := mkCtx false 0 true false false [] [] init [].

Definition hist_ok (n : Z) (init : apist) (l : list (op * obs)) : list bool :=
  hist_go n (hist_wf init (map fst l)) (ctx0 init) l.
