(* C09 — property theorems (statements only; proofs live in C09_Proofs.v).
   All of them are about the model with fx = fy = fz = true, i.e. the tree with the repairs
   build/fixes/C09_clamp.diff, build/fixes/C09_reclamp_on_schema_update.diff and 06780c0 (type change);
   C09_Unrepaired.v refutes them for the trees without them.
   Quantification: every valid schema, every limiter mode / client-set state, every initial strategy
   and EVERY event list [ops] — server quotas with arbitrary integers, of any type and strategy (also
   the same answer repeated), accept/reject/error/too-old count replies with arbitrary limits, request
   times (stale, reordered) and meter readings, answers carrying both members, heartbeats and leader
   changes, elapsed time (ms), schema updates to another strategy, another TYPE and arbitrary valid limits
   ([evs_ok]: the API server validates them), deletion and re-creation of the schema name, the
   Enable/Sync preemption point.  "global limit" and "type" are always the ones CURRENTLY configured: [scfg s]. *)
From KG Require Import Prelude C09_Model C09_Spec C09_Proofs.
Open Scope Z_scope.

Definition evs_ok (ops : list ev) : Prop := Forall ev_ok ops.
Definition reach (st : static) (str0 : strategy) (ops : list ev) : state := run true true true st (init (cfg st) str0) ops.

(* max-in-flight: the limiter a request meets has 0 <= size <= configured global max, and no more
   than global back-to-back admissions are observed; the remote limiter is bounded even while
   it is not selected *)
Theorem C09_size_le_global : forall st str0 ops, valid_cfg (cfg st) -> evs_ok ops ->
  let s := reach st str0 ops in
  present s = true -> ck (scfg s) = KMI ->
  (exists n, o_lim (observe true st s) = Some (LMI n) /\ 0 <= n <= g1 (scfg s)
             /\ o_adm (observe true st s) <= g1 (scfg s))
  /\ (forall l, remote_lim s = Some l -> exists n, l = LMI n /\ 0 <= n <= g1 (scfg s)).
Proof. exact size_le_global. Qed.
Print Assumptions C09_size_le_global.

(* token bucket: qps <= global qps AND burst <= global burst, same scope *)
Theorem C09_tokenbucket_le_global : forall st str0 ops, valid_cfg (cfg st) -> evs_ok ops ->
  let s := reach st str0 ops in
  present s = true -> ck (scfg s) = KTB ->
  (exists q b, o_lim (observe true st s) = Some (LTB q b) /\ 0 <= q <= g1 (scfg s) /\ 0 <= b <= g2 (scfg s))
  /\ (forall l, remote_lim s = Some l ->
        exists q b, l = LTB q b /\ 0 <= q <= g1 (scfg s) /\ 0 <= b <= g2 (scfg s)).
Proof. exact tb_le_global. Qed.
Print Assumptions C09_tokenbucket_le_global.

(* a schema update takes effect at once — there is no window until the next answer of the limiter
   server: right after ANY update (other limits, another strategy, another TYPE, the name added again) the
   limiter a request meets and the remote limiter (selected or not, available or not) are of the new type
   and within the new limits *)
Theorem C09_schema_update_bounds : forall st str0 ops k x a b g h, valid_cfg (cfg st) -> evs_ok ops ->
  let c' := {| ck := k; l1 := a; l2 := b; g1 := g; g2 := h |} in
  valid_cfg c' ->
  let s' := reach st str0 (ops ++ [ESchema k x a b g h]) in
  present s' = true /\ scfg s' = c' /\ sstr s' = x /\
  (exists l, o_lim (observe true st s') = Some l /\ lim_bounded c' l = true) /\
  (forall l, remote_lim s' = Some l -> lim_bounded c' l = true).
Proof. exact schema_update_bounds. Qed.
Print Assumptions C09_schema_update_bounds.

(* mode not remote, strategy not global, client set nil or server unknown, server not ready, or no
   server quota synced yet  ==>  the LOCAL limiter with exactly the local limit (never the exempt default) *)
Theorem C09_fallback : forall st str0 ops, valid_cfg (cfg st) -> evs_ok ops ->
  let s := reach st str0 ops in
  present s = true ->
  (md st <> MRemote \/ enable_global (sstr s) = false \/ cs st <> CSOk \/ hready s = false \/ has_inner s = false) ->
  o_sel (observe true st s) = SelLocal /\ o_lim (observe true st s) = Some (local_spec (scfg s)).
Proof. exact fallback. Qed.
Print Assumptions C09_fallback.

(* the exempt default is met exactly while the schema name is deleted — never for a known schema *)
Theorem C09_default_iff_deleted : forall st str0 ops, valid_cfg (cfg st) -> evs_ok ops ->
  let s := reach st str0 ops in
  (o_sel (observe true st s) = SelDefault <-> present s = false).
Proof. exact default_iff_absent. Qed.
Print Assumptions C09_default_iff_deleted.

(* a server whose heartbeats fail for at least 5 s (5000 ms) is not ready, hence the local limit is enforced *)
Theorem C09_fallback_heartbeat : forall st str0 ops ms, valid_cfg (cfg st) -> evs_ok ops -> 5000 <= ms ->
  let s := reach st str0 (ops ++ [EHb false; EElapse ms; EHb false]) in
  is_ready st s = false /\
  (present s = true -> o_sel (observe true st s) = SelLocal /\ o_lim (observe true st s) = Some (local_spec (scfg s))).
Proof. exact heartbeat_fallback. Qed.
Print Assumptions C09_fallback_heartbeat.

(* the readiness layer over histories: after ANY history, a failed heartbeat followed by ANY stretch of rounds in
   which the server keeps failing — failed heartbeats, time passing, sync rounds whose server info lists the same
   leader, lists none or fails (they do not touch the readiness: [EElapse 0] here) — lasting 5 s or more, and one more
   failed heartbeat: the server is not ready and the LOCAL limiter with the local limit is in force, although the
   leader stayed listed *)
Theorem C09_failed_heartbeats_fall_back : forall st str0 ops mid, valid_cfg (cfg st) -> evs_ok ops ->
  Forall failing_round mid -> 5000 <= elapsed mid ->
  let s := reach st str0 (ops ++ [EHb false] ++ mid ++ [EHb false]) in
  is_ready st s = false /\
  (present s = true -> o_sel (observe true st s) = SelLocal /\ o_lim (observe true st s) = Some (local_spec (scfg s))).
Proof. exact failed_heartbeats_fall_back. Qed.
Print Assumptions C09_failed_heartbeats_fall_back.

(* the hysteresis boundary from below: a ready server whose heartbeats fail for less than 5 s stays ready;
   a good heartbeat or a leader change of the shard makes the server ready at once *)
Theorem C09_hysteresis : forall st str0 ops ms, valid_cfg (cfg st) -> evs_ok ops -> 0 <= ms < 5000 ->
  let s0 := reach st str0 ops in
  hlast s0 = true -> hready s0 = true ->
  hready (reach st str0 (ops ++ [EHb false; EElapse ms; EHb false])) = true.
Proof. exact heartbeat_hysteresis. Qed.
Print Assumptions C09_hysteresis.

Theorem C09_ready_again : forall st str0 ops e, valid_cfg (cfg st) -> evs_ok ops -> e = EHb true \/ e = ELeader ->
  hready (reach st str0 (ops ++ [e])) = true.
Proof. exact heartbeat_ready. Qed.
Print Assumptions C09_ready_again.

(* global-count error reply (server failing): max(observed, local) within the global limit, never below local *)
Theorem C09_failing_bounds : forall st str0 ops mx rate rt w i, valid_cfg (cfg st) -> evs_ok ops ->
  let s := reach st str0 ops in let c := scfg s in
  rem s = Some w -> rin w = Some i -> iw i <> WEmpty -> iun i = false ->
  (0 <? rt) && (rt <=? ilast i) = false ->
  rcfg w = Some {| idet := global_detail c; istr := SCount |} ->
  exists i', rem (step true true true st s (ECount (RErr mx rate) rt)) = Some {| rin := Some i'; rcfg := rcfg w |} /\
             iun i' = true /\
             match ck c with
             | KMI => exists n, il i' = LMI n /\ l1 c <= n <= g1 c
             | KTB => exists q b, il i' = LTB q b /\ l1 c <= q <= g1 c /\ 0 <= b <= g2 c
             end.
Proof. exact failing_bounds. Qed.
Print Assumptions C09_failing_bounds.

(* recovery, global-allocate: with the server ready, an answered quota of the schema's type is in force,
   as answered within [0, global] *)
Theorem C09_recovery_allocate : forall st str0 ops it l, valid_cfg (cfg st) -> evs_ok ops ->
  let s := reach st str0 ops in let c := scfg s in
  present s = true ->
  md st = MRemote -> cs st = CSOk -> hready s = true -> enable_global (sstr s) = true ->
  istr it <> SCount -> granted c (idet it) = Some l ->
  let s' := step true true true st s (EQuota it) in
  o_sel (observe true st s') = SelRemote /\ o_lim (observe true st s') = Some l /\ remote_lim s' = Some l.
Proof. exact recovery_allocate. Qed.
Print Assumptions C09_recovery_allocate.

(* recovery, global-count: an accepted reply that is not stale ends the unavailable state and its limit
   (raised to the burst reserve, bounded by the granted maximum) is in force *)
Theorem C09_recovery_count : forall st str0 ops limit rt w i it, valid_cfg (cfg st) -> evs_ok ops ->
  let s := reach st str0 ops in
  rem s = Some w -> rin w = Some i -> iw i <> WEmpty -> rcfg w = Some it ->
  (0 <? rt) && (rt <=? ilast i) = false ->
  let s' := step true true true st s (ECount (ROk true limit) rt) in
  exists i', rem s' = Some {| rin := Some i'; rcfg := Some it |} /\ iun i' = false /\
             match idet it with
             | DMI m => il i' = LMI (zmin (zmax limit (reserve_of true m)) m)
             | DTB q b => il i' = LTB q b
             | _ => False
             end /\
             (md st = MRemote -> cs st = CSOk -> hready s = true -> enable_global (sstr s) = true ->
              o_sel (observe true st s') = SelRemote /\ o_lim (observe true st s') = Some (il i')).
Proof. exact recovery_count. Qed.
Print Assumptions C09_recovery_count.

(* MISSING replies: the watchdog of the schema's global counter. More than 4 s after the last sync (a reply
   delivered for the schema, or the creation of the counter), a tick of the watchdog makes an available
   global-count limiter fall back exactly as an error reply does: max(observed, local) within the global limit *)
Theorem C09_silence_falls_back : forall st str0 ops mx rate w i, valid_cfg (cfg st) -> evs_ok ops ->
  let s := reach st str0 ops in let c := scfg s in
  rem s = Some w -> rin w = Some i -> has_counter i = true -> iun i = false ->
  4 < now_sec s - isync i ->
  rcfg w = Some {| idet := global_detail c; istr := SCount |} ->
  exists i', rem (step true true true st s (EWatchdog mx rate)) = Some {| rin := Some i'; rcfg := rcfg w |} /\
             iun i' = true /\
             match ck c with
             | KMI => exists n, il i' = LMI n /\ l1 c <= n <= g1 c
             | KTB => exists q b, il i' = LTB q b /\ l1 c <= q <= g1 c /\ 0 <= b <= g2 c
             end.
Proof. exact silence_falls_back. Qed.
Print Assumptions C09_silence_falls_back.

(* ... and over histories: after ANY history [ops] that leaves an available global-count limiter, ANY stretch
   [quiet] of events without a reply for the schema (time passing, heartbeats, leader changes, worker rounds whose
   reply omits the schema) that lasts 5 s or more, followed by a watchdog tick, puts the fallback in force:
   the instance does not go on with the stale server quota *)
Theorem C09_silence_history : forall st str0 ops quiet mx rate w i, valid_cfg (cfg st) -> evs_ok ops -> Forall silent quiet ->
  let s := reach st str0 ops in let c := scfg s in
  rem s = Some w -> rin w = Some i -> has_counter i = true -> iun i = false ->
  rcfg w = Some {| idet := global_detail c; istr := SCount |} ->
  5000 <= elapsed quiet ->
  let s' := reach st str0 (ops ++ quiet ++ [EWatchdog mx rate]) in
  exists i', rem s' = Some {| rin := Some i'; rcfg := rcfg w |} /\ iun i' = true /\
             match ck c with
             | KMI => exists n, il i' = LMI n /\ l1 c <= n <= g1 c
             | KTB => exists q b, il i' = LTB q b /\ l1 c <= q <= g1 c /\ 0 <= b <= g2 c
             end.
Proof. exact silence_history. Qed.
Print Assumptions C09_silence_history.

(* every clause of the executable specification (bound, fallback, inforce, failing, recovery, nopanic)
   holds at every step of every history *)
Theorem C09_history : forall st str0 ops, valid_cfg (cfg st) -> evs_ok ops ->
  case_ok st str0 (observe true st (init (cfg st) str0)) (trace true true true st (init (cfg st) str0) ops) = all_true.
Proof. exact case_holds. Qed.
Print Assumptions C09_history.

(* ---------- non-vacuity: concrete histories that meet the hypotheses and exercise the clamps ---------- *)
Definition ex_mi : static := {| cfg := {| ck := KMI; l1 := 5; l2 := 0; g1 := 20; g2 := 0 |}; md := MRemote; cs := CSOk |}.
Definition ex_tb : static := {| cfg := {| ck := KTB; l1 := 5; l2 := 10; g1 := 100; g2 := 10 |}; md := MRemote; cs := CSOk |}.
Definition q_mi (m : Z) : ev := EQuota {| idet := DMI m; istr := SAlloc |}.
Definition q_tb (q b : Z) : ev := EQuota {| idet := DTB q b; istr := SAlloc |}.

Example C09_valid_nonvacuous : valid_cfg (cfg ex_mi) /\ valid_cfg (cfg ex_tb).
Proof. unfold valid_cfg, two31. simpl. lia. Qed.

(* negative, oversized, wrong-type answers; lost readiness; recovery *)
Example C09_size_le_global_nonvacuous :
  map (fun p => (o_sel (snd p), o_lim (snd p)))
      (trace true true true ex_mi (init (cfg ex_mi) SAlloc)
         [EHb true; q_mi (-1); q_mi 50; q_tb 7 9; q_mi 7; EHb false; EElapse 5000; EHb false; EHb true; q_mi 30])
  = [(SelLocal, Some (LMI 5)); (SelRemote, Some (LMI 0)); (SelRemote, Some (LMI 20)); (SelRemote, Some (LMI 20));
     (SelRemote, Some (LMI 7)); (SelRemote, Some (LMI 7)); (SelRemote, Some (LMI 7)); (SelLocal, Some (LMI 5));
     (SelRemote, Some (LMI 7)); (SelRemote, Some (LMI 20))].
Proof. vm_compute. reflexivity. Qed.

Example C09_tokenbucket_le_global_nonvacuous :
  map (fun p => o_lim (snd p))
      (trace true true true ex_tb (init (cfg ex_tb) SCount)
         [EHb true; ECfgSync; ECount (RErr 0 5000) 1; ECount (ROk true 3) 2; EStrategy SAlloc; q_tb 7 900; q_tb (-8) (-1)])
  = [Some (LTB 5 10); Some (LTB 100 10); Some (LTB 100 10); Some (LTB 100 10); Some (LTB 100 10);
     Some (LTB 7 10); Some (LTB 0 0)].
Proof. vm_compute. reflexivity. Qed.

(* global count: reserve, accept, stale reply dropped, reject above global, error with a meter reading above global, recovery *)
Example C09_count_nonvacuous :
  map (fun p => (o_lim (snd p), option_map r_unavail (o_rem (snd p))))
      (trace true true true ex_mi (init (cfg ex_mi) SCount)
         [EHb true; ECfgSync; ECount (ROk true 12) 5; ECount (ROk true 19) 4; ECount (ROk false 100) 6;
          ECount (RErr 33 0) 7; ECount (ROk true 15) 8])
  = [(Some (LMI 5), None); (Some (LMI 1), Some false); (Some (LMI 12), Some false); (Some (LMI 12), Some false);
     (Some (LMI 20), Some false); (Some (LMI 20), Some true); (Some (LMI 15), Some false)].
Proof. vm_compute. reflexivity. Qed.

(* the hypotheses of C09_failing_bounds / C09_recovery_count are met by a reachable state *)
Example C09_failing_recovery_nonvacuous :
  let s := reach ex_mi SCount [EHb true; ECfgSync] in
  exists w i, rem s = Some w /\ rin w = Some i /\ iw i = WMI /\ iun i = false /\ ilast i = 0 /\
              rcfg w = Some {| idet := global_detail (cfg ex_mi); istr := SCount |}.
Proof. vm_compute. eexists. eexists. repeat split. Qed.

Example C09_history_nonvacuous :
  case_ok ex_mi SAlloc (observe true ex_mi (init (cfg ex_mi) SAlloc))
    (trace true true true ex_mi (init (cfg ex_mi) SAlloc) [EHb true; EEnable; q_mi (-1); EStrategy SCount; ECfgSync; ECount (RErr 33 0) 0;
                                      ECount (ROk false (-1)) 3; ECount (ROk true 9) 4]) = all_true
  /\ List.length (trace true true true ex_mi (init (cfg ex_mi) SAlloc) [EHb true; EEnable; q_mi (-1)]) = 3%nat.
Proof. vm_compute. split; reflexivity. Qed.

(* schema updates: the global limit lowered below the quota in force (8 > 4) is enforced at once, the server
   repeating its stale answer changes nothing, a raised limit lets the repeated answer through; lowered
   while the global-count server is unavailable (fallback 18 -> 10) *)
Example C09_schema_update_nonvacuous :
  map (fun p => o_lim (snd p))
      (trace true true true ex_mi (init (cfg ex_mi) SAlloc)
         [EHb true; q_mi 8; ESchema KMI SAlloc 2 0 4 0; q_mi 8; q_mi 8; ESchema KMI SAlloc 2 0 20 0; q_mi 8])
  = [Some (LMI 5); Some (LMI 8); Some (LMI 4); Some (LMI 4); Some (LMI 4); Some (LMI 4); Some (LMI 8)]
  /\ map (fun p => o_lim (snd p))
      (trace true true true ex_mi (init (cfg ex_mi) SCount)
         [EHb true; ECfgSync; ECount (RErr 18 0) 1; ESchema KMI SCount 2 0 10 0; ECfgSync; ESchema KMI SCount 2 0 30 0; ECfgSync])
  = [Some (LMI 5); Some (LMI 1); Some (LMI 18); Some (LMI 10); Some (LMI 10); Some (LMI 10); Some (LMI 18)]
  /\ evs_ok [ESchema KMI SAlloc 2 0 4 0; ESchema KMI SAlloc 2 0 20 0].
Proof.
  split; [vm_compute; reflexivity|]. split; [vm_compute; reflexivity|].
  repeat constructor; unfold valid_cfg, two31; simpl; lia.
Qed.

(* the type changes while a quota of the old type is in force and the server keeps answering for the old
   type; an answer with both members; the name is deleted and added again; hysteresis boundaries 4999 / 5000 ms *)
Example C09_type_change_nonvacuous :
  map (fun p => (o_sel (snd p), o_lim (snd p)))
      (trace true true true ex_mi (init (cfg ex_mi) SAlloc)
         [EHb true; q_mi 12; ESchema KTB SAlloc 1 2 3 4; q_mi 12;
          EQuota {| idet := DBoth 12 2 9; istr := SAlloc |}; EDelete; q_tb 2 3; ESchema KMI SAlloc 5 0 8 0; q_mi 12])
  = [(SelLocal, Some (LMI 5)); (SelRemote, Some (LMI 12)); (SelLocal, Some (LTB 1 2)); (SelLocal, Some (LTB 1 2));
     (SelRemote, Some (LTB 2 4)); (SelDefault, Some LInf); (SelDefault, Some LInf); (SelLocal, Some (LMI 5));
     (SelRemote, Some (LMI 8))]
  /\ map (fun p => o_ready (snd p))
      (trace true true true ex_mi (init (cfg ex_mi) SAlloc)
         [EHb true; EHb false; EElapse 4999; EHb false; EElapse 1; EHb false; ELeader; EHb false; EElapse 5001; EHb true])
  = [true; true; true; true; true; false; true; true; true; true]
  /\ evs_ok [ESchema KTB SAlloc 1 2 3 4; ESchema KMI SAlloc 5 0 8 0].
Proof.
  split; [vm_compute; reflexivity|]. split; [vm_compute; reflexivity|].
  repeat constructor; unfold valid_cfg, two31; simpl; lia.
Qed.

(* the counter manager: a granted quota (12), then the limiter server stops answering for the schema — a resync
   round after 3 s gets a reply that omits it — and the watchdog, silent at 4 s, fires at 5 s: fallback
   max(observed 1, local 5) = 5; replies resume: quota 9; a failed call: fallback max(7, 5) = 7 *)
Example C09_silence_nonvacuous :
  let ops := [EHb true; ECfgSync; EWorker false (SvAccept 12) 0 0; EElapse 2000; EWorker true SvOmit 0 0;
              EElapse 1000; EWorker true SvOmit 0 0; EElapse 1000; EWatchdog 1 0; EElapse 1000; EWatchdog 1 0;
              EWorker false (SvAccept 9) 0 0; EWorker false SvCallErr 7 0] in
  map (fun p => (o_lim (snd p), o_sync (snd p), o_sent (snd p))) (trace true true true ex_mi (init (cfg ex_mi) SCount) ops)
  = [(Some (LMI 5), -1, false); (Some (LMI 1), 0, false); (Some (LMI 12), 0, true); (Some (LMI 12), 0, false);
     (Some (LMI 12), 0, false); (Some (LMI 12), 0, false); (Some (LMI 12), 0, true); (Some (LMI 12), 0, false);
     (Some (LMI 12), 0, false); (Some (LMI 12), 0, false); (Some (LMI 5), 0, false); (Some (LMI 9), 5, true);
     (Some (LMI 7), 5, true)]
  /\ case_ok ex_mi SCount (observe true ex_mi (init (cfg ex_mi) SCount)) (trace true true true ex_mi (init (cfg ex_mi) SCount) ops) = all_true
  /\ Forall silent [EElapse 2000; EWorker true SvOmit 0 0; EHb false; EElapse 3000; ELeader]
  /\ elapsed [EElapse 2000; EWorker true SvOmit 0 0; EHb false; EElapse 3000; ELeader] = 5000
  /\ (let s := reach ex_mi SCount [EHb true; ECfgSync; EWorker false (SvAccept 12) 0 0] in
      exists w i, rem s = Some w /\ rin w = Some i /\ has_counter i = true /\ iun i = false /\
                  rcfg w = Some {| idet := global_detail (scfg s); istr := SCount |}).
Proof.
  split; [vm_compute; reflexivity|]. split; [vm_compute; reflexivity|].
  split; [repeat constructor|]. split; [reflexivity|].
  vm_compute. eexists. eexists. repeat split.
Qed.

(* the leader stays listed by the 2 s info sync (EElapse 0) while its heartbeats fail: quota 12 is in force until the
   failures have lasted 5 s, then the local limit 5; a successful heartbeat brings the quota back *)
Example C09_failed_heartbeats_nonvacuous :
  let ops := [EHb true; q_mi 12; EHb false; EElapse 2000; EElapse 0; EHb false; EElapse 2000; EElapse 0; EHb false;
              EElapse 2000; EElapse 0; EHb false; EHb true] in
  map (fun p => (o_ready (snd p), o_lim (snd p))) (trace true true true ex_mi (init (cfg ex_mi) SAlloc) ops)
  = [(true, Some (LMI 5)); (true, Some (LMI 12)); (true, Some (LMI 12)); (true, Some (LMI 12)); (true, Some (LMI 12));
     (true, Some (LMI 12)); (true, Some (LMI 12)); (true, Some (LMI 12)); (true, Some (LMI 12)); (true, Some (LMI 12));
     (true, Some (LMI 12)); (false, Some (LMI 5)); (true, Some (LMI 12))]
  /\ case_ok ex_mi SAlloc (observe true ex_mi (init (cfg ex_mi) SAlloc)) (trace true true true ex_mi (init (cfg ex_mi) SAlloc) ops) = all_true
  /\ Forall failing_round [EElapse 2000; EElapse 0; EHb false; EElapse 2000; EElapse 0; EHb false; EElapse 2000; EElapse 0]
  /\ elapsed [EElapse 2000; EElapse 0; EHb false; EElapse 2000; EElapse 0; EHb false; EElapse 2000; EElapse 0] = 6000.
Proof.
  split; [vm_compute; reflexivity|]. split; [vm_compute; reflexivity|]. split; [repeat constructor|reflexivity].
Qed.
