(* C09 — property theorems (statements only; proofs live in C09_Proofs.v).
   All of them are about the model with fx = fy = true, i.e. the tree with the repairs
   build/fixes/C09_clamp.diff and build/fixes/C09_reclamp_on_schema_update.diff; C09_Unrepaired.v
   refutes them for the trees without them.
   Quantification: every valid schema, every limiter mode / client-set state, every initial strategy
   and EVERY event list [ops] — server quotas with arbitrary integers, of any type and strategy (also
   the same answer repeated), accept/reject/error/too-old count replies with arbitrary limits, request
   times (stale, reordered) and meter readings, heartbeats, elapsed time, strategy changes, schema
   updates to arbitrary valid limits of the same type ([evs_ok]: the API server validates them), the
   Enable/Sync preemption point.  "global limit" is always the one CURRENTLY configured: [scfg s]. *)
From KG Require Import Prelude C09_Model C09_Spec C09_Proofs.
Open Scope Z_scope.

Definition evs_ok (st : static) (ops : list ev) : Prop := Forall (ev_ok (ck (cfg st))) ops.
Definition reach (st : static) (str0 : strategy) (ops : list ev) : state := run true true st (init (cfg st) str0) ops.

(* max-in-flight: the limiter a request meets has 0 <= size <= configured global max, and no more
   than global back-to-back admissions are observed; the remote limiter is bounded even while
   it is not selected *)
Theorem C09_size_le_global : forall st str0 ops, valid_cfg (cfg st) -> evs_ok st ops -> ck (cfg st) = KMI ->
  let s := reach st str0 ops in
  (exists n, o_lim (observe true st s) = Some (LMI n) /\ 0 <= n <= g1 (scfg s)
             /\ o_adm (observe true st s) <= g1 (scfg s))
  /\ (forall l, remote_lim s = Some l -> exists n, l = LMI n /\ 0 <= n <= g1 (scfg s)).
Proof. exact size_le_global. Qed.
Print Assumptions C09_size_le_global.

(* token bucket: qps <= global qps AND burst <= global burst, same scope *)
Theorem C09_tokenbucket_le_global : forall st str0 ops, valid_cfg (cfg st) -> evs_ok st ops -> ck (cfg st) = KTB ->
  let s := reach st str0 ops in
  (exists q b, o_lim (observe true st s) = Some (LTB q b) /\ 0 <= q <= g1 (scfg s) /\ 0 <= b <= g2 (scfg s))
  /\ (forall l, remote_lim s = Some l ->
        exists q b, l = LTB q b /\ 0 <= q <= g1 (scfg s) /\ 0 <= b <= g2 (scfg s)).
Proof. exact tb_le_global. Qed.
Print Assumptions C09_tokenbucket_le_global.

(* a schema update takes effect at once — there is no window until the next answer of the limiter
   server: right after ANY update to valid limits, the limiter a request meets and the remote limiter
   (selected or not, available or not) are within the new limits *)
Theorem C09_schema_update_bounds : forall st str0 ops a b g h, valid_cfg (cfg st) -> evs_ok st ops ->
  let c' := {| ck := ck (cfg st); l1 := a; l2 := b; g1 := g; g2 := h |} in
  valid_cfg c' ->
  let s' := reach st str0 (ops ++ [ESchema a b g h]) in
  scfg s' = c' /\
  (exists l, o_lim (observe true st s') = Some l /\ lim_bounded c' l = true) /\
  (forall l, remote_lim s' = Some l -> lim_bounded c' l = true).
Proof. exact schema_update_bounds. Qed.
Print Assumptions C09_schema_update_bounds.

(* mode not remote, strategy not global, client set nil or server unknown, server not ready, or no
   server quota synced yet  ==>  the LOCAL limiter with exactly the local limit (never the exempt default) *)
Theorem C09_fallback : forall st str0 ops, valid_cfg (cfg st) -> evs_ok st ops ->
  let s := reach st str0 ops in
  (md st <> MRemote \/ enable_global (sstr s) = false \/ cs st <> CSOk \/ hready s = false \/ has_inner s = false) ->
  o_sel (observe true st s) = SelLocal /\ o_lim (observe true st s) = Some (local_spec (scfg s)).
Proof. exact fallback. Qed.
Print Assumptions C09_fallback.

(* a server whose heartbeats fail for at least 5 s is not ready, hence the local limit is enforced *)
Theorem C09_fallback_heartbeat : forall st str0 ops sec, valid_cfg (cfg st) -> evs_ok st ops -> 5 <= sec ->
  let s := reach st str0 (ops ++ [EHb false; EElapse sec; EHb false]) in
  is_ready st s = false /\ o_sel (observe true st s) = SelLocal
  /\ o_lim (observe true st s) = Some (local_spec (scfg s)).
Proof. exact heartbeat_fallback. Qed.
Print Assumptions C09_fallback_heartbeat.

(* global-count error reply (server failing): max(observed, local) within the global limit, never below local *)
Theorem C09_failing_bounds : forall st str0 ops mx rate rt w i, valid_cfg (cfg st) -> evs_ok st ops ->
  let s := reach st str0 ops in let c := scfg s in
  rem s = Some w -> rin w = Some i -> iw i <> WEmpty -> iun i = false ->
  (0 <? rt) && (rt <=? ilast i) = false ->
  rcfg w = Some {| idet := global_detail c; istr := SCount |} ->
  exists i', rem (step true true st s (ECount (RErr mx rate) rt)) = Some {| rin := Some i'; rcfg := rcfg w |} /\
             iun i' = true /\
             match ck c with
             | KMI => exists n, il i' = LMI n /\ l1 c <= n <= g1 c
             | KTB => exists q b, il i' = LTB q b /\ l1 c <= q <= g1 c /\ 0 <= b <= g2 c
             end.
Proof. exact failing_bounds. Qed.
Print Assumptions C09_failing_bounds.

(* recovery, global-allocate: with the server ready, an answered quota of the schema's type is in force,
   as answered within [0, global] *)
Theorem C09_recovery_allocate : forall st str0 ops it l, valid_cfg (cfg st) -> evs_ok st ops ->
  let s := reach st str0 ops in let c := scfg s in
  md st = MRemote -> cs st = CSOk -> hready s = true -> enable_global (sstr s) = true ->
  istr it <> SCount -> granted c (idet it) = Some l ->
  let s' := step true true st s (EQuota it) in
  o_sel (observe true st s') = SelRemote /\ o_lim (observe true st s') = Some l /\ remote_lim s' = Some l.
Proof. exact recovery_allocate. Qed.
Print Assumptions C09_recovery_allocate.

(* recovery, global-count: an accepted reply that is not stale ends the unavailable state and its limit
   (raised to the burst reserve, bounded by the granted maximum) is in force *)
Theorem C09_recovery_count : forall st str0 ops limit rt w i it, valid_cfg (cfg st) -> evs_ok st ops ->
  let s := reach st str0 ops in
  rem s = Some w -> rin w = Some i -> iw i <> WEmpty -> rcfg w = Some it ->
  (0 <? rt) && (rt <=? ilast i) = false ->
  let s' := step true true st s (ECount (ROk true limit) rt) in
  exists i', rem s' = Some {| rin := Some i'; rcfg := Some it |} /\ iun i' = false /\
             match idet it with
             | DMI m => il i' = LMI (zmin (zmax limit (reserve_of true m)) m)
             | DTB q b => il i' = LTB q b
             | DNone => False
             end /\
             (md st = MRemote -> cs st = CSOk -> hready s = true -> enable_global (sstr s) = true ->
              o_sel (observe true st s') = SelRemote /\ o_lim (observe true st s') = Some (il i')).
Proof. exact recovery_count. Qed.
Print Assumptions C09_recovery_count.

(* every clause of the executable specification (bound, fallback, inforce, failing, recovery, nopanic)
   holds at every step of every history *)
Theorem C09_history : forall st str0 ops, valid_cfg (cfg st) -> evs_ok st ops ->
  case_ok st str0 (observe true st (init (cfg st) str0)) (trace true true st (init (cfg st) str0) ops) = all_true.
Proof. exact case_holds. Qed.
Print Assumptions C09_history.

(* ---------- non-vacuity: concrete histories that meet the hypotheses and exercise the clamps ---------- *)
Definition ex_mi : static := {| cfg := {| ck := KMI; l1 := 5; l2 := 0; g1 := 20; g2 := 0 |}; md := MRemote; cs := CSOk |}.
Definition ex_tb : static := {| cfg := {| ck := KTB; l1 := 5; l2 := 10; g1 := 100; g2 := 10 |}; md := MRemote; cs := CSOk |}.
Definition q_mi (m : Z) : ev := EQuota {| idet := DMI m; istr := SAlloc |}.
Definition q_tb (q b : Z) : ev := EQuota {| idet := DTB q b; istr := SAlloc |}.

Example C09_valid_nonvacuous : valid_cfg (cfg ex_mi) /\ valid_cfg (cfg ex_tb).
Proof. unfold valid_cfg, two31. simpl. lia. Qed.

(* negative, oversized, wrong-type answers; lost readiness; recovery *)
Example C09_size_le_global_nonvacuous :
  map (fun p => (o_sel (snd p), o_lim (snd p)))
      (trace true true ex_mi (init (cfg ex_mi) SAlloc)
         [EHb true; q_mi (-1); q_mi 50; q_tb 7 9; q_mi 7; EHb false; EElapse 5; EHb false; EHb true; q_mi 30])
  = [(SelLocal, Some (LMI 5)); (SelRemote, Some (LMI 0)); (SelRemote, Some (LMI 20)); (SelRemote, Some (LMI 20));
     (SelRemote, Some (LMI 7)); (SelRemote, Some (LMI 7)); (SelRemote, Some (LMI 7)); (SelLocal, Some (LMI 5));
     (SelRemote, Some (LMI 7)); (SelRemote, Some (LMI 20))].
Proof. vm_compute. reflexivity. Qed.

Example C09_tokenbucket_le_global_nonvacuous :
  map (fun p => o_lim (snd p))
      (trace true true ex_tb (init (cfg ex_tb) SCount)
         [EHb true; ECfgSync; ECount (RErr 0 5000) 1; ECount (ROk true 3) 2; EStrategy SAlloc; q_tb 7 900; q_tb (-8) (-1)])
  = [Some (LTB 5 10); Some (LTB 100 10); Some (LTB 100 10); Some (LTB 100 10); Some (LTB 100 10);
     Some (LTB 7 10); Some (LTB 0 0)].
Proof. vm_compute. reflexivity. Qed.

(* global count: reserve, accept, stale reply dropped, reject above global, error with a meter reading above global, recovery *)
Example C09_count_nonvacuous :
  map (fun p => (o_lim (snd p), option_map r_unavail (o_rem (snd p))))
      (trace true true ex_mi (init (cfg ex_mi) SCount)
         [EHb true; ECfgSync; ECount (ROk true 12) 5; ECount (ROk true 19) 4; ECount (ROk false 100) 6;
          ECount (RErr 33 0) 7; ECount (ROk true 15) 8])
  = [(Some (LMI 5), None); (Some (LMI 1), Some false); (Some (LMI 12), Some false); (Some (LMI 12), Some false);
     (Some (LMI 20), Some false); (Some (LMI 20), Some true); (Some (LMI 15), Some false)].
Proof. vm_compute. reflexivity. Qed.

(* the hypotheses of C09_failing_bounds / C09_recovery_count are met by a reachable state *)
Example C09_failing_recovery_nonvacuous :
  let s := reach ex_mi SCount [EHb true; ECfgSync] in
  exists w i, rem s = Some w /\ rin w = Some i /\ iw i = WMI /\ iun i = false /\ ilast i = 0 /\
              rcfg w = Some {| idet := global_detail (cfg ex_mi); istr := SCount |}.
Proof. vm_compute. eexists. eexists. repeat split. Qed.

Example C09_history_nonvacuous :
  case_ok ex_mi SAlloc (observe true ex_mi (init (cfg ex_mi) SAlloc))
    (trace true true ex_mi (init (cfg ex_mi) SAlloc) [EHb true; EEnable; q_mi (-1); EStrategy SCount; ECfgSync; ECount (RErr 33 0) 0;
                                      ECount (ROk false (-1)) 3; ECount (ROk true 9) 4]) = all_true
  /\ List.length (trace true true ex_mi (init (cfg ex_mi) SAlloc) [EHb true; EEnable; q_mi (-1)]) = 3%nat.
Proof. vm_compute. split; reflexivity. Qed.

(* schema updates: the global limit lowered below the quota in force (8 > 4) is enforced at once, the server
   repeating its stale answer changes nothing, a raised limit lets the repeated answer through; lowered
   while the global-count server is unavailable (fallback 18 -> 10) *)
Example C09_schema_update_nonvacuous :
  map (fun p => o_lim (snd p))
      (trace true true ex_mi (init (cfg ex_mi) SAlloc)
         [EHb true; q_mi 8; ESchema 2 0 4 0; q_mi 8; q_mi 8; ESchema 2 0 20 0; q_mi 8])
  = [Some (LMI 5); Some (LMI 8); Some (LMI 4); Some (LMI 4); Some (LMI 4); Some (LMI 4); Some (LMI 8)]
  /\ map (fun p => o_lim (snd p))
      (trace true true ex_mi (init (cfg ex_mi) SCount)
         [EHb true; ECfgSync; ECount (RErr 18 0) 1; ESchema 2 0 10 0; ECfgSync; ESchema 2 0 30 0; ECfgSync])
  = [Some (LMI 5); Some (LMI 1); Some (LMI 18); Some (LMI 10); Some (LMI 10); Some (LMI 10); Some (LMI 18)]
  /\ evs_ok ex_mi [ESchema 2 0 4 0; ESchema 2 0 20 0].
Proof.
  split; [vm_compute; reflexivity|]. split; [vm_compute; reflexivity|].
  repeat constructor; unfold valid_cfg, two31; simpl; lia.
Qed.
