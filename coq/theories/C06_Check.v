(* C06 — case format of the correspondence run and its evaluator. *)
From KG Require Import Prelude C06_Model C06_Spec.
Open Scope Z_scope.

(* a request of some kind for schema "tb" (kind, clock reading, reached the upstream / admitted?, HTTP status) or a re-sync of
   the cluster's flow-control spec; after each: what GetFlowSchema("tb") returns (is it a token-bucket
   limiter, and its qps / burst as printed by String()) *)
Inductive dop := DTry (k : rkind) (t : Z) (reached : bool) (status : Z) | DSync (spec : fcspec).
Record lk := { lk_tb : bool; lk_q : Z; lk_b : Z }.

Inductive case :=
| CTrace (q b : Z) (tr : list (op * bool))              (* ops on one real resizeableTokenBucket + returned bools *)
| CDisp (spec0 : fcspec) (tr : list (dop * lk))         (* real ClusterInfo / upstreamLimiter with several schemas;
                                                           requests for schema "tb" (through the real dispatcher, or
                                                           GetOrDefault per request), re-syncs of the whole spec *)
| CConc (q b : Z) (calls : list (Z * Z * Z * bool))      (* real goroutines under a scripted schedule, in order of
                                                            completion: invocation, clock reading, completion, admitted? *)
| CRt (q b calls admitted elapsed : Z)                  (* real clock, sequential, fresh bucket *)
| CRtConc (q b admitted elapsed : Z) (many strict : bool) (* real clock, concurrent callers, fresh bucket;
                                                            strict: readings cannot step back (clock read under the lock) *)
| CBad.                                                 (* harness panic / malformed observation *)

(* The real limiter computes in float64.  Its decision can differ from the exact model only when
   the exact token count is within [tol] of the threshold (tokens - n > -qps*1ns):
   one truncation flip of durationFromTokens is worth qps units, float noise far less. *)
Definition tol (c : cfg) : Z := 1000 + 4 * qps c.

(* model step for TryAcquire that adopts the observed decision inside the tolerance band
   (so that model and implementation stay in step); returns (state, agrees?, in-band-disagreement?) *)
Definition follow (c : cfg) (s : st) (now : Z) (obs : bool) : st * bool :=
  let '(last0, t) := advance c s now in
  let t2 := t - NS in
  let '(s', ok) := allow_n c s now 1 in
  if Bool.eqb ok obs then (s', true)
  else if ((Z.abs (t2 + qps c) <=? tol c) && (1 <=? burst c))%bool
       then ((if obs then {| tok := t2; last := now |} else {| tok := tok s; last := last0 |}), true)
       else (s', false).

Fixpoint agree_ops (r : rtb) (tr : list (op * bool)) : bool :=
  match tr with
  | [] => true
  | (OTry now, o) :: rest =>
      let '(s', a) := follow (rc r) (rs r) now o in
      a && agree_ops {| rc := rc r; rs := s' |} rest
  | (OResize q b, o) :: rest =>
      let '(r', res) := rtb_step r (OResize q b) in
      Bool.eqb res o && agree_ops r' rest
  end.

(* segments between effective reconfigurations: (config, events); the observed return value of
   Resize is not used for segmentation, the requested values are *)
Fixpoint segments (c : cfg) (acc : list ev) (tr : list (op * bool)) : list (cfg * list ev) :=
  match tr with
  | [] => [(c, rev acc)]
  | (OTry now, o) :: rest => segments c ({| etime := now; easked := 1; eok := o |} :: acc) rest
  | (OResize q b, _) :: rest =>
      if ((qps c =? q) && (burst c =? b))%bool then segments c acc rest
      else (c, rev acc) :: segments {| qps := q; burst := b |} [] rest
  end.

Definition all_segments (f : cfg -> list ev -> bool) (segs : list (cfg * list ev)) : bool :=
  forallb (fun p => f (fst p) (snd p)) segs.

Definition tb_cfg (spec : fcspec) : option cfg :=
  match alookup "tb" spec with Some (STb q b) => Some {| qps := q; burst := b |} | _ => None end.

(* the model of the limiter map, following observed decisions inside the float band like [agree_ops] *)
Fixpoint agree_ulim (u : ulim) (tr : list (dop * lk)) : bool :=
  match tr with
  | [] => true
  | (DTry _ now reached _, _) :: rest =>
      match alookup "tb" (umap u) with
      | Some (Some rt) =>
          let '(s', a) := follow (rc rt) (rs rt) now reached in
          a && agree_ulim {| uspec := uspec u; umap := aset "tb" (Some {| rc := rc rt; rs := s' |}) (umap u) |} rest
      | _ => reached && agree_ulim u rest
      end
  | (DSync spec, _) :: rest => agree_ulim (usync u spec) rest
  end.

(* the schema's own view.  [cur] = the token-bucket configuration in force for "tb" (None while the name is
   of another type or absent: then nothing is owed or bounded).  A re-sync that leaves (qps, burst) unchanged
   does not end a stretch; a change of the values, or a change of TYPE to token bucket, starts a new stretch
   with a NEW (full) bucket, whatever limiter the name had before *)
Fixpoint dsegments (cur : option cfg) (acc : list ev) (tr : list (dop * lk)) : list (cfg * list ev) :=
  match tr with
  | [] => match cur with Some c => [(c, rev acc)] | None => [] end
  | (DTry _ t reached _, _) :: rest =>
      match cur with
      | Some _ => dsegments cur ({| etime := t; easked := 1; eok := reached |} :: acc) rest
      | None => dsegments cur acc rest
      end
  | (DSync spec, _) :: rest =>
      match cur, tb_cfg spec with
      | Some c, Some c2 =>
          if ((qps c =? qps c2) && (burst c =? burst c2))%bool then dsegments cur acc rest
          else (c, rev acc) :: dsegments (Some c2) [] rest
      | Some c, None => (c, rev acc) :: dsegments None [] rest
      | None, new => dsegments new [] rest
      end
  end.

(* after every operation GetFlowSchema("tb") is a limiter of the configured type: a token bucket with the
   configured values, or not a token bucket *)
Fixpoint lookup_ok (cur : option cfg) (tr : list (dop * lk)) : bool :=
  match tr with
  | [] => true
  | (o, l) :: rest =>
      let cur' := match o with DSync spec => tb_cfg spec | _ => cur end in
      (match cur' with
       | Some c => lk_tb l && (lk_q l =? qps c) && (lk_b l =? burst c)
       | None => negb (lk_tb l)
       end && lookup_ok cur' rest)%bool
  end.

(* clause layout: agree, closed, open, lower, status, lookup *)
Definition eval (c : case) : list bool :=
  match c with
  | CTrace q b tr =>
      let segs := segments {| qps := q; burst := b |} [] tr in
      [ agree_ops (rtb_new q b) tr;
        all_segments closed_ok segs; all_segments open_ok segs; all_segments lower_ok segs; true; true ]
  | CDisp spec0 tr =>
      let segs := dsegments (tb_cfg spec0) [] tr in
      [ agree_ulim (usync ulim_new spec0) tr;
        all_segments closed_ok segs; all_segments open_ok segs; all_segments lower_ok segs;
        forallb (fun x => match fst x with DTry _ _ r st => status_ok r st | _ => true end) tr;
        lookup_ok (tb_cfg spec0) tr ]
  | CConc q b calls =>
      let c := {| qps := q; burst := b |} in
      let ops := map (fun x => (OTry (snd (fst (fst x))), snd x)) calls in
      let evs := map (fun x => {| etime := snd (fst (fst x)); easked := 1; eok := snd x |}) calls in
      let cevs := map (fun x => {| cinv := fst (fst (fst x)); cresp := snd (fst x); cadm := snd x |}) calls in
      (* the clock is read while the bucket's lock is held: readings lie between invocation and completion
         and never step back in order of completion; the decisions are those of the sequential model *)
      [ (agree_ops (rtb_new q b) ops
         && forallb (fun x => (fst (fst (fst x)) <=? snd (fst (fst x))) && (snd (fst (fst x)) <=? snd (fst x))) calls
         && match evs with [] => true | e :: r => sorted_from (etime e) r end)%bool;
        (conc_ok c cevs && closed_ok c evs)%bool; open_ok c evs; true; true; true ]
  | CRt q b calls admitted elapsed =>
      let c := {| qps := q; burst := b |} in
      (* model: all calls at one clock reading admit exactly what a fresh bucket holds *)
      let m := Z.of_nat (List.length (filter (fun x => x) (run c init_st (repeat (0, 1) (Z.to_nat calls))))) in
      [ m <=? admitted; rt_upper c admitted elapsed; true; rt_lower c calls admitted; true; true ]
  | CRtConc q b admitted elapsed many strict =>
      let c := {| qps := q; burst := b |} in
      (* callers read the clock before taking the limiter's lock: the closed bound is owed only up to
         qps * (sum of backward steps), which a real-time run cannot observe (C06_upper_skew) *)
      [ true; (if strict then rt_upper c admitted elapsed else true); true;
        (if many then burst c <=? admitted else true); true; true ]
  | CBad => [false; false; false; false; false; false]
  end.
