(* C14 — property theorems (statements only; proofs live in C14_Proofs.v). *)
From KG Require Import Prelude Sched C14_Model C14_Spec C14_Proofs.
Open Scope Z_scope.

(* n picks by pickers with the same upstream list and readiness select the positions
   idx k a 1, idx k a 2, ... of the ready list, a = the cursor of that ready list before *)
Theorem C14_pop_stable : forall ups ok n cur,
  let rd := filter ok ups in
  let k := Z.of_nat (List.length rd) in
  2 <= k -> snd (pops cur (repeat ups n) ok) = results rd k (get cur rd) n.
Proof. exact pop_stable. Qed.
Print Assumptions C14_pop_stable.

(* explicit subset, stable ready set, counter not crossing 2^64: over ANY window of N consecutive picks
   (after any n0 earlier ones, from any cursor state) each of the k ready endpoints is chosen
   floor(N/k) or ceil(N/k) times *)
Theorem C14_strict : forall cur ups ok e n0 n,
  let rd := filter ok ups in
  let k := Z.of_nat (List.length rd) in
  let N := Z.of_nat n in
  2 <= k -> NoDup rd -> In e rd ->
  0 <= get cur rd -> get cur rd + Z.of_nat n0 + N < two64 ->
  let l := snd (pops cur (repeat ups (n0 + n)) ok) in
  N / k <= pcount e (skipn n0 l) <= ceil_div N k.
Proof. exact strict. Qed.
Print Assumptions C14_strict.

(* the same across ClusterInfo.Sync calls: the hypothesis is "no server added or removed and no disabled
   flag changed in the window", NOT "no Sync in the window" — a Sync of an identical object, or one that only
   edits flow control / logging / other policies, keeps every cursor (syncEndpoints resets the
   loadbalancer map only when a server is added or deleted); a status write that records the health an endpoint
   already has is a window op too *)
Theorem C14_strict_sync : forall s ups ops e,
  let rd := filter (is_ok s) ups in
  let k := Z.of_nat (List.length rd) in
  let N := Z.of_nat (npicks ops) in
  2 <= k -> NoDup rd -> In e rd ->
  0 <= get (curs s) rd -> get (curs s) rd + N < two64 ->
  Forall (window_op s ups) ops ->
  N / k <= pcount e (pickres ops (crun s ops)) <= ceil_div N k.
Proof. exact strict_sync. Qed.
Print Assumptions C14_strict_sync.

(* any number of concurrent pickers, any schedule of their two shared accesses (the atomic get-or-create
   of the counter, then the atomic add): the picks in the order of their atomic adds are the
   sequential round-robin sequence, the goroutines' picks partition it, and after T picks every
   position has floor(T/k) or ceil(T/k) of them *)
Theorem C14_concurrent : forall k c0 picks sched j,
  2 <= k -> 0 <= j < k -> 0 <= c0 < two64 ->
  let st := run (pstep k) (pinit c0 picks) sched in
  let T := List.length (plog (fst st)) in
  plog (fst st) = seqlog k c0 T /\
  sumT (fun t => zcount j (got t)) (snd st) = zcount j (plog (fst st)) /\
  (c0 + Z.of_nat T < two64 ->
   Z.of_nat T / k <= zcount j (plog (fst st)) <= ceil_div (Z.of_nat T) k).
Proof. exact concurrent. Qed.
Print Assumptions C14_concurrent.

(* no explicit subset: the upstream order of every pick is arbitrary; with P distinct ready lists
   used in the window, |k * count(e) - N| <= P * (k - 1): a constant independent of N *)
Theorem C14_unordered : forall e ok orders cur,
  let k := Z.of_nat (List.length (filter ok (hd [] orders))) in
  let N := Z.of_nat (List.length orders) in
  let P := Z.of_nat (List.length (nodup (list_eq_dec Z.eq_dec) (map (filter ok) orders))) in
  2 <= k ->
  Forall (fun u => Z.of_nat (List.length (filter ok u)) = k /\ NoDup (filter ok u) /\ In e (filter ok u)) orders ->
  (forall p, 0 <= get cur p /\ get cur p + N < two64) ->
  let c := pcount e (snd (pops cur orders ok)) in
  - (P * (k - 1)) <= k * c - N <= P * (k - 1).
Proof. exact unordered. Qed.
Print Assumptions C14_unordered.

(* the counter crossing 2^64 inside the window changes any count by at most 1 *)
Theorem C14_wrap : forall cur ups ok e n,
  let rd := filter ok ups in
  let k := Z.of_nat (List.length rd) in
  let N := Z.of_nat n in
  2 <= k -> NoDup rd -> In e rd ->
  0 <= get cur rd < two64 -> N <= two64 ->
  N / k - 1 <= pcount e (snd (pops cur (repeat ups n) ok)) <= ceil_div N k + 1.
Proof. exact wrap. Qed.
Print Assumptions C14_wrap.

(* the executable strict checker accepts every window of every model run (no false alarms) *)
Theorem C14_spec_strict : forall rd,
  let k := Z.of_nat (List.length rd) in
  2 <= k -> NoDup rd ->
  forall m n a, 0 <= a -> a + Z.of_nat n < two64 ->
  suffixes_ok m (fc_ok k) rd (map pres_code (results rd k a n)) = true.
Proof. exact spec_strict. Qed.
Print Assumptions C14_spec_strict.

(* ---------------- non-vacuity ---------------- *)
Definition ok3 (e : Z) : bool := zin e [0; 1; 3].

(* subset [3;2;9;0;1] with 2 unready and 9 unknown: ready list [3;0;1]; 7 picks from a fresh cluster *)
Example C14_strict_nonvacuous :
  let ups := [3; 2; 9; 0; 1] in
  filter ok3 ups = [3; 0; 1] /\ NoDup (filter ok3 ups) /\
  map pres_code (snd (pops [] (repeat ups 7) ok3)) = [0; 1; 3; 0; 1; 3; 0] /\
  pcount 3 (skipn 2 (snd (pops [] (repeat ups (2 + 5)) ok3))) = 2.
Proof. vm_compute. repeat split; repeat constructor; simpl; intuition lia. Qed.

(* two orders of the same three ready endpoints alternate: P = 2 *)
Example C14_unordered_nonvacuous :
  let orders := [[0; 1; 3]; [3; 0; 1]; [0; 1; 3]; [3; 0; 1]; [0; 1; 3]; [3; 0; 1]] in
  map pres_code (snd (pops [] orders ok3)) = [1; 0; 3; 1; 0; 3] /\
  List.length (nodup (list_eq_dec Z.eq_dec) (map (filter ok3) orders)) = 2%nat.
Proof. vm_compute. split; reflexivity. Qed.

(* the wrap really moves a count: k = 3, cursor 2^64 - 3, 6 picks: endpoint 0 three times *)
Example C14_wrap_nonvacuous :
  map pres_code (snd (pops [([0; 1; 2], two64 - 3)] (repeat [0; 1; 2] 6) (fun _ => true))) = [2; 0; 0; 1; 2; 0].
Proof. vm_compute. reflexivity. Qed.

Example C14_concurrent_nonvacuous :
  (* both pickers reach the map access before either proceeds, on a counter that does not exist yet *)
  let st := run (pstep 3) (pinit 0 [2; 2]%nat) [0; 1; 1; 0; 0; 0; 1; 1]%nat in
  rev (plog (fst st)) = [1; 2; 0; 1] /\ map (fun t => rev (got t)) (snd st) = [[2; 0]; [1; 1]].
Proof. vm_compute. split; reflexivity. Qed.

(* 3 ready endpoints in the subset, server 3 disabled outside it; {pick, pick, Sync(same object)} x 3:
   the Syncs are window ops and the picks keep rotating 1, 2, 0, 1, 2, 0 *)
Example C14_strict_sync_nonvacuous :
  let s := {| servers := [0; 1; 2; 3]; readyset := [0; 1; 2; 3]; disabled := [3]; curs := [] |} in
  let sy := OServers [3; 2; 1; 0] [3] in
  let ops := [OPick [0; 1; 2]; OPick [0; 1; 2]; sy; OPick [0; 1; 2]; OPick [0; 1; 2]; sy;
              OPick [0; 1; 2]; OPick [0; 1; 2]; sy] in
  Forall (window_op s [0; 1; 2]) ops /\
  map pres_code (pickres ops (crun s ops)) = [1; 2; 0; 1; 2; 0].
Proof.
  intros s sy ops. split; [|vm_compute; reflexivity].
  assert (P : window_op s [0; 1; 2] (OPick [0; 1; 2])) by (left; reflexivity).
  assert (Q : window_op s [0; 1; 2] sy).
  { right. left. exists [3; 2; 1; 0], [3]. split; [reflexivity|]. split; [reflexivity|]. intros e; reflexivity. }
  unfold ops. repeat (apply Forall_cons; [first [exact P | exact Q]|]). apply Forall_nil.
Qed.

(* request level (dispatcher.ServeHTTP): one Pop per forwarded request, none for a refused one, so the
   policy's TRAFFIC is shared floor/ceil among its k ready endpoints *)
Theorem C14_request_level_even : forall ups ok s ops e,
  let rd := filter ok ups in
  let k := Z.of_nat (List.length rd) in
  let F := Z.of_nat (nfwd (qzero s) ops) in
  2 <= k -> NoDup rd -> In e rd ->
  0 <= get (qcur s) rd -> get (qcur s) rd + F < two64 ->
  forwarded (qrun ups ok s ops) = snd (pops (qcur s) (repeat ups (nfwd (qzero s) ops)) ok) /\
  F / k <= pcount e (forwarded (qrun ups ok s ops)) <= ceil_div F k.
Proof. exact request_level_even. Qed.
Print Assumptions C14_request_level_even.

(* k = 2: four forwarded requests alternate 1, 0, 1, 0 although two refused ones sit in between *)
Example C14_request_level_nonvacuous :
  let ops := [QReq; QReq; QLimit true; QReq; QReq; QLimit false; QReq; QReq] in
  map qres_code (qrun [0; 1] (fun _ => true) {| qcur := []; qzero := false |} ops) = [1; 0; -2; -3; -3; -2; 1; 0]
  /\ nfwd false ops = 4%nat.
Proof. vm_compute. split; reflexivity. Qed.

(* status writes that change neither `healthy` nor `disabled` (the health checker recording an unchanged
   result) and Syncs that add / remove no server are invisible to the picks: the picks of such a window are
   the plain round-robin sequence, the same as if those ops were not there *)
Theorem C14_idempotent_status_write_invisible : forall s ups ops,
  Forall (window_op s ups) ops ->
  pickres ops (crun s ops) = snd (pops (curs s) (repeat ups (npicks ops)) (is_ok s)) /\
  pickres ops (crun s ops) = pickres (filter is_pick ops) (crun s (filter is_pick ops)).
Proof. exact idempotent_status_write_invisible. Qed.
Print Assumptions C14_idempotent_status_write_invisible.

(* k = 2, a "healthy" recorded for an already healthy endpoint before every pick: still 1, 0, 1, 0 *)
Example C14_idempotent_write_nonvacuous :
  let s := {| servers := [0; 1]; readyset := [0; 1]; disabled := []; curs := [] |} in
  let ops := [OReady 1 true; OPick [0; 1]; OReady 0 true; OPick [0; 1]; OReady 1 true; OPick [0; 1];
              OReady 7 false; OPick [0; 1]] in
  Forall (window_op s [0; 1]) ops /\ map pres_code (pickres ops (crun s ops)) = [1; 0; 1; 0].
Proof.
  intros s ops. split; [|vm_compute; reflexivity].
  assert (P : window_op s [0; 1] (OPick [0; 1])) by (left; reflexivity).
  assert (Q : forall e, window_op s [0; 1] (OReady e (zin e (readyset s)))) by (intros e; right; right; exists e; reflexivity).
  unfold ops.
  apply Forall_cons; [exact (Q 1)|]. apply Forall_cons; [exact P|].
  apply Forall_cons; [exact (Q 0)|]. apply Forall_cons; [exact P|].
  apply Forall_cons; [exact (Q 1)|]. apply Forall_cons; [exact P|].
  apply Forall_cons; [exact (Q 7)|]. apply Forall_cons; [exact P|]. apply Forall_nil.
Qed.
