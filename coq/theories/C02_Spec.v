(* C02 — specification, as an executable checker over observations only:
   the header set the Go server handed to the gateway, the identity the
   authenticator returned, the authorizer's script, and what was observed
   (status seen by the client, header sets received by the stub upstream).

   Reading of the property.
   * "told to act as": what a kube-apiserver makes of the identity headers it
     receives: user = first Impersonate-User value (empty = no impersonation: the
     request then runs as the bearer of the credential, i.e. the gateway), groups =
     the Impersonate-Group values in order, extra = one (key, value) pair per value
     of every Impersonate-Extra-<k> header, key = PathUnescape(lower-case(<k>)).
   * Extra KEYS are compared modulo ASCII case and extra pairs as a multiset:
     header names are case-insensitive on the wire and the upstream lower-cases
     them before unescaping, and a Go map has no key order.
   * "the identity the client asked to impersonate" includes the group rules of the
     Kubernetes impersonation protocol (service-account groups when no group is
     asked, system:authenticated / system:unauthenticated).
   * Identities that cannot be written as HTTP field values (control bytes,
     leading/trailing blanks in the name, a group or an extra VALUE; extra KEYS are
     unrestricted) are outside clause 1 ([told_clean]): such a request is refused
     (502) or trimmed by net/http, see C02_Model.send / wire.  A user without a
     name is never forwarded (an empty Impersonate-User means "no impersonation"). *)
From KG Require Import Prelude C02_Model.
Open Scope Z_scope.
Open Scope string_scope.
Open Scope list_scope.

Record obs := mkObs {
  o_status : Z;                 (* status code received by the client *)
  o_ups : list headers;         (* header set of every request the stub upstream received *)
}.

Record told := mkTold { t_user : string; t_groups : list string; t_extra : list (string * string) }.

(* (key, value) pairs of the Impersonate-Extra-* headers, as the receiving apiserver decodes them *)
Definition extra_pairs (h : headers) : list (string * string) :=
  flat_map (fun e =>
    if has_prefix (fst e) H_EXTRA
    then map (pair (unescape_extra_key (to_lower (str_drop (String.length H_EXTRA) (fst e))))) (snd e)
    else []) h.

Definition told_identity (h : headers) : option told :=
  if String.eqb (h_get H_USER h) EmptyString then None
  else Some (mkTold (h_get H_USER h) (h_values H_GROUP h) (extra_pairs h)).

(* --- what the client asked for *)
Definition asks (h : headers) : bool := negb (String.eqb (h_get H_USER h) EmptyString).
Definition has_group_hdr (h : headers) : bool := match h_values H_GROUP h with [] => false | _ => true end.
Definition malformed (h : headers) : bool := (negb (asks h) && (has_group_hdr h || has_extra_hdr h))%bool.

Definition asked_items (h : headers) : list imp_item :=
  let u := h_get H_USER h in
  (match split_sa_username u with
   | Some (ns, n) => mkItem "serviceaccounts" ns n ""
   | None => mkItem "users" "" u ""
   end)
  :: map (fun g => mkItem "groups" "" g "") (h_values H_GROUP h)
  ++ map (fun p => mkItem "userextras" "" (snd p) (fst p)) (extra_pairs h).

Definition id_pairs (e : list (string * list string)) : list (string * string) :=
  flat_map (fun kv => map (pair (fst kv)) (snd kv)) e.

Definition expected (h : headers) (id : identity) : told :=
  if asks h then
    let u := h_get H_USER h in
    let gs := match h_values H_GROUP h with
              | [] => match split_sa_username u with
                      | Some (ns, _) => ["system:serviceaccounts"; "system:serviceaccounts:" +++ ns]
                      | None => []
                      end
              | l => l
              end in
    mkTold u (finish_groups u gs) (extra_pairs h)
  else mkTold (uname id) (ugroups id) (id_pairs (uextra id)).

(* --- comparison: multiset equality by counting *)
Definition pair_eqb (a b : string * string) : bool := (String.eqb (fst a) (fst b) && String.eqb (snd a) (snd b))%bool.
Definition count (x : string * string) (l : list (string * string)) : nat :=
  List.length (filter (pair_eqb x) l).
Definition ms_eqb (a b : list (string * string)) : bool :=
  forallb (fun x => Nat.eqb (count x a) (count x b)) (a ++ b).
Definition lowkeys (ps : list (string * string)) : list (string * string) :=
  map (fun p => (to_lower (fst p), snd p)) ps.

Definition told_matches (got : option told) (want : told) : bool :=
  match got with
  | None => false
  | Some g => (String.eqb (t_user g) (t_user want) && list_eqb String.eqb (t_groups g) (t_groups want) &&
               ms_eqb (lowkeys (t_extra g)) (lowkeys (t_extra want)))%bool
  end.

(* --- identities that HTTP can carry *)
Definition wire_clean_str (v : string) : bool := (valid_value v && String.eqb (trim_ows v) v)%bool.
Definition wire_clean (id : identity) : bool :=
  (wire_clean_str (uname id) && forallb wire_clean_str (ugroups id) &&
   forallb (fun kv => forallb wire_clean_str (snd kv)) (uextra id))%bool.

Definition told_clean (t : told) : bool :=
  (wire_clean_str (t_user t) && forallb wire_clean_str (t_groups t) && forallb (fun p => wire_clean_str (snd p)) (t_extra t))%bool.

(* the identity headers the gateway generates for a context user: a function of that identity alone *)
Definition extra_header (k : string) : string := canonical_key (H_EXTRA +++ header_key_escape k).
Definition generated_headers (id : identity) : headers :=
  (H_USER, [uname id]) :: map (fun g => (H_GROUP, [g])) (ugroups id)
  ++ flat_map (fun kv => map (fun v => (extra_header (fst kv), [v])) (snd kv)) (uextra id).

Definition allowed (deny : list imp_item) (it : imp_item) : bool := negb (existsb (item_eqb it) deny).

(* clause 1: a forwarded request tells the upstream exactly the expected identity; an impersonation is
   forwarded only if every asked item was allowed; a user without a name is never forwarded *)
Definition identity_ok (h : headers) (id : identity) (deny : list imp_item) (o : obs) : bool :=
  match o_ups o with
  | [] => true
  | [u] =>
      if (asks h && negb (forallb (allowed deny) (asked_items h)))%bool then false
      else if (negb (asks h) && String.eqb (uname id) EmptyString)%bool then false
      else if told_clean (expected h id) then told_matches (told_identity u) (expected h id)
      else true
  | _ => false
  end.

(* clause 2: a denied impersonation is answered 403 by the gateway and not forwarded *)
Definition denied_ok (h : headers) (deny : list imp_item) (o : obs) : bool :=
  if (asks h && negb (forallb (allowed deny) (asked_items h)))%bool
  then (match o_ups o with [] => true | _ => false end && (Z.eqb (o_status o) 403))%bool
  else true.

(* clause 3: a malformed impersonation (groups/extras without a user) is answered by the gateway with an
   error status and not forwarded *)
Definition malformed_ok (h : headers) (o : obs) : bool :=
  if malformed h
  then (match o_ups o with [] => true | _ => false end && (Z.leb 400 (o_status o)))%bool
  else true.

(* clause 4: the upstream receives the gateway's credential only (on the connection-upgrade path the bearer
   wrapper is not applied: no Authorization header at all is then accepted too, never a client's), and no header of the Impersonate-*
   family other than one Impersonate-User value, Impersonate-Group and Impersonate-Extra-* (whose content
   is pinned by clause 1) *)
Definition no_client_header_ok (token : string) (upgrade : bool) (o : obs) : bool :=
  forallb (fun u =>
    ((list_eqb String.eqb (h_values H_AUTH u) [trim_ows ("Bearer " +++ token)]
      || (upgrade && match h_values H_AUTH u with [] => true | _ => false end)) &&
     forallb (fun e =>
       if has_prefix (fst e) H_IMP then
         ((String.eqb (fst e) H_USER && Nat.eqb (List.length (h_values H_USER u)) 1)
          || String.eqb (fst e) H_GROUP || has_prefix (fst e) H_EXTRA)%bool
       else true) u)%bool) (o_ups o).

Definition spec_clauses (token : string) (h : headers) (id : identity) (deny : list imp_item) (o : obs) : list bool :=
  [identity_ok h id deny o; denied_ok h deny o; malformed_ok h o; no_client_header_ok token (is_upgrade_request h) o].
