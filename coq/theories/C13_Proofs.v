(* C13 — proofs: the model satisfies the executable specification on every history. *)
From KG Require Import Prelude C13_Model C13_Spec.
From Coq Require Import ZifyBool.
Open Scope Z_scope.

(* ---------- hash ---------- *)
Lemma shard_id_range name n :
  1 <= n < two32 -> exists z, shard_id name n = Some z /\ 0 <= z < n.
Proof.
  intros Hn. unfold shard_id, wrapu32. unfold two32 in *.
  rewrite (Z.mod_small n) by lia.
  destruct (n =? 0) eqn:E; [lia|].
  eexists; split; [reflexivity|]. apply Z.mod_pos_bound; lia.
Qed.

Lemma both_sides name n : n <> 0 -> gw_shard_id name n = shard_id name n.
Proof. intros H. unfold gw_shard_id. destruct (n =? 0) eqn:E; [lia|reflexivity]. Qed.

(* ---------- association-list lemmas ---------- *)
Lemma In_zset {A} k (v : A) l p : In p (zset k v l) -> p = (k, v) \/ In p l.
Proof.
  induction l as [|[k' v'] r IH]; simpl; [intros [H|[]]; auto|].
  destruct (k =? k') eqn:E.
  - simpl; intros [H|H]; auto.
  - destruct (k <? k'); simpl.
    + intros [H|[H|H]]; auto.
    + intros [H|H]; auto. destruct (IH H); auto.
Qed.

Lemma In_zdel {A} k (l : list (Z * A)) p : In p (zdel k l) -> In p l /\ fst p <> k.
Proof.
  induction l as [|[k' v'] r IH]; simpl; [tauto|].
  destruct (k =? k') eqn:E.
  - intros H; destruct (IH H); auto.
  - simpl; intros [H|H]; [subst; simpl; split; [auto|lia]|destruct (IH H); auto].
Qed.

Lemma zlookup_In {A} k (l : list (Z * A)) v : zlookup k l = Some v -> In (k, v) l.
Proof.
  induction l as [|[k' v'] r IH]; simpl; [discriminate|].
  destruct (k =? k') eqn:E; [intros H; inversion H; left; f_equal; lia|auto].
Qed.

Lemma In_ins_sorted x l p : In p (ins_sorted x l) -> p = x \/ In p l.
Proof.
  induction l as [|y r IH]; simpl; [intros [H|[]]; auto|].
  destruct (pair_cmp x y); simpl; intros H; auto.
  - destruct H as [H|[H|H]]; auto.
  - destruct H as [H|H]; auto. destruct (IH H); auto.
Qed.

(* ---------- invariants ---------- *)
(* every condition kept in shard store [sh] belongs to an upstream whose shard is [sh] *)
Definition own (s : st) : Prop :=
  forall sh sto, In (sh, sto) (stores s) -> forall uc, In uc sto -> shard_of s (fst uc) = sh.

Lemma shard_of_set_stores s x u : shard_of (set_stores s x) u = shard_of s u.
Proof. reflexivity. Qed.

Lemma handler_own s u : own s -> own (fst (handler s u)).
Proof.
  intros H. unfold handler.
  destruct (negb (is_leader s (shard_of s u))); [exact H|].
  destruct (zlookup (shard_of s u) (stores s)) as [sto|] eqn:EL; [|exact H].
  apply zlookup_In in EL.
  destruct (negb (str_mem u (lister s))); simpl.
  - intros sh sto' Hin uc Huc. apply In_zset in Hin. destruct Hin as [Heq|Hin].
    + inversion Heq; subst. apply filter_In in Huc. destruct Huc as [Huc _].
      exact (H _ _ EL _ Huc).
    + exact (H _ _ Hin _ Huc).
  - intros sh sto' Hin uc Huc. unfold add_lock in Hin; simpl in Hin.
    apply In_zset in Hin. destruct Hin as [Heq|Hin].
    + inversion Heq; subst. apply In_ins_sorted in Huc. destruct Huc as [->|Huc]; [reflexivity|].
      exact (H _ _ EL _ Huc).
    + exact (H _ _ Hin _ Huc).
Qed.

Lemma handler_meta s u :
  let s' := fst (handler s u) in
  me s' = me s /\ nshards s' = nshards s /\ leaders s' = leaders s /\ lister s' = lister s.
Proof.
  unfold handler.
  destruct (negb (is_leader s (shard_of s u))); [simpl; tauto|].
  destruct (zlookup (shard_of s u) (stores s)); [|simpl; tauto].
  destruct (negb (str_mem u (lister s))); simpl; tauto.
Qed.

Lemma fold_handler_own sh l s :
  own s -> own (fold_left (fun acc u => if shard_of acc u =? sh then fst (handler acc u) else acc) l s).
Proof.
  revert s; induction l as [|u l IH]; simpl; intros s H; [exact H|].
  apply IH. destruct (shard_of s u =? sh); [apply handler_own; exact H|exact H].
Qed.

Lemma fold_handler_meta sh l s :
  let s' := fold_left (fun acc u => if shard_of acc u =? sh then fst (handler acc u) else acc) l s in
  me s' = me s /\ nshards s' = nshards s /\ leaders s' = leaders s /\ lister s' = lister s.
Proof.
  revert s; induction l as [|u l IH]; simpl; intros s; [tauto|].
  specialize (IH (if shard_of s u =? sh then fst (handler s u) else s)). simpl in IH.
  destruct IH as (A & B & C & D).
  rewrite A, B, C, D.
  destruct (shard_of s u =? sh); [apply handler_meta|tauto].
Qed.

Lemma lim_start_own s sh : own s -> own (lim_start s sh).
Proof.
  intros H. unfold lim_start. destruct (zlookup sh (stores s)) eqn:E; [exact H|].
  apply fold_handler_own.
  intros sh' sto Hin uc Huc. simpl in Hin. apply In_zset in Hin. destruct Hin as [Heq|Hin].
  - inversion Heq; subst. destruct Huc.
  - exact (H _ _ Hin _ Huc).
Qed.

Lemma lim_start_meta s sh :
  let s' := lim_start s sh in
  me s' = me s /\ nshards s' = nshards s /\ leaders s' = leaders s /\ lister s' = lister s.
Proof.
  unfold lim_start. destruct (zlookup sh (stores s)); [simpl; tauto|].
  apply (fold_handler_meta sh (lister s) (set_stores s (zset sh [] (stores s)))).
Qed.

Lemma lim_stop_own s sh : own s -> own (lim_stop s sh).
Proof.
  intros H sh' sto Hin uc Huc. simpl in Hin. apply In_zdel in Hin. destruct Hin as [Hin _].
  exact (H _ _ Hin _ Huc).
Qed.

Lemma own_meta s s' :
  nshards s' = nshards s -> stores s' = stores s -> own s -> own s'.
Proof.
  intros Hn Hs H sh sto Hin uc Huc. rewrite Hs in Hin.
  unfold shard_of; rewrite Hn. exact (H _ _ Hin _ Huc).
Qed.

(* first loop of leaderCheck *)
Definition lc1 (acc : st) (p : Z * string) : st :=
  if String.eqb (snd p) (me acc) then
    match zlookup (fst p) (stores acc) with
    | None => lim_start acc (fst p)
    | Some _ => acc
    end
  else acc.
Definition lc2 (acc : st) (p : Z * store) : st :=
  let led := match zlookup (fst p) (leaders acc) with
             | Some l => String.eqb l (me acc) | None => false end in
  if led then acc else lim_stop acc (fst p).

Lemma leader_check_eq s :
  leader_check s = fold_left lc2 (stores (fold_left lc1 (leaders s) s)) (fold_left lc1 (leaders s) s).
Proof. reflexivity. Qed.

Lemma lc1_meta acc p :
  me (lc1 acc p) = me acc /\ nshards (lc1 acc p) = nshards acc /\ leaders (lc1 acc p) = leaders acc /\
  lister (lc1 acc p) = lister acc.
Proof.
  unfold lc1. destruct (String.eqb (snd p) (me acc)); [|tauto].
  destruct (zlookup (fst p) (stores acc)); [tauto|apply lim_start_meta].
Qed.

Lemma fold_lc1 l s :
  let s' := fold_left lc1 l s in
  (own s -> own s') /\ me s' = me s /\ nshards s' = nshards s /\ leaders s' = leaders s.
Proof.
  revert s; induction l as [|p l IH]; simpl; intros s; [tauto|].
  destruct (IH (lc1 s p)) as (A & B & C & D). destruct (lc1_meta s p) as (E & F & G & _).
  rewrite B, C, D, E, F, G. split; [|tauto].
  intros H. apply A. unfold lc1. destruct (String.eqb (snd p) (me s)); [|exact H].
  destruct (zlookup (fst p) (stores s)); [exact H|apply lim_start_own; exact H].
Qed.

Lemma lc2_meta acc p :
  me (lc2 acc p) = me acc /\ nshards (lc2 acc p) = nshards acc /\ leaders (lc2 acc p) = leaders acc.
Proof. unfold lc2. destruct (match zlookup (fst p) (leaders acc) with Some l => String.eqb l (me acc) | None => false end); simpl; tauto. Qed.

Definition led_by_me (s : st) (sh : Z) : bool :=
  match zlookup sh (leaders s) with Some l => String.eqb l (me s) | None => false end.

Lemma fold_lc2 l s :
  let s' := fold_left lc2 l s in
  (own s -> own s') /\ me s' = me s /\ nshards s' = nshards s /\ leaders s' = leaders s /\
  (forall q, In q (stores s') -> In q (stores s)) /\
  (forall q, In q (stores s') -> forall p, In p l -> fst p = fst q -> led_by_me s (fst q) = true).
Proof.
  revert s; induction l as [|p l IH]; simpl; intros s.
  - repeat split; auto. all: try (intros q _ p' []).
  - destruct (IH (lc2 s p)) as (A & B & C & D & E & F). destruct (lc2_meta s p) as (G & H & I).
    rewrite B, C, D, G, H, I. repeat split; auto.
    + intros Ho. apply A. unfold lc2. destruct (match zlookup (fst p) (leaders s) with Some l => String.eqb l (me s) | None => false end);
        [exact Ho|apply lim_stop_own; exact Ho].
    + intros q Hq. specialize (E q Hq). unfold lc2 in E.
      destruct (match zlookup (fst p) (leaders s) with Some l0 => String.eqb l0 (me s) | None => false end); [exact E|].
      simpl in E. apply In_zdel in E. tauto.
    + intros q Hq p' [->|Hp'] Hfst.
      * specialize (E q Hq). unfold lc2 in E. unfold led_by_me. rewrite <- Hfst.
        destruct (match zlookup (fst p') (leaders s) with Some l0 => String.eqb l0 (me s) | None => false end) eqn:EL;
          [reflexivity|].
        simpl in E. apply In_zdel in E. destruct E as [_ E]. congruence.
      * specialize (F q Hq p' Hp' Hfst). unfold led_by_me in *. rewrite I, G in F. exact F.
Qed.

Lemma leader_check_props s :
  let s' := leader_check s in
  (own s -> own s') /\ me s' = me s /\ nshards s' = nshards s /\ leaders s' = leaders s /\
  (forall q, In q (stores s') -> led_by_me s' (fst q) = true).
Proof.
  rewrite leader_check_eq.
  destruct (fold_lc1 (leaders s) s) as (A & B & C & D).
  set (s1 := fold_left lc1 (leaders s) s) in *.
  destruct (fold_lc2 (stores s1) s1) as (A2 & B2 & C2 & D2 & E2 & F2).
  set (s2 := fold_left lc2 (stores s1) s1) in *.
  repeat split; try congruence; auto.
  intros q Hq. specialize (F2 q Hq q (E2 q Hq) eq_refl).
  unfold led_by_me in *. rewrite D2, B2. exact F2.
Qed.

(* leaderCheck on a stale snapshot *)
Lemma lc1m_is_lc1 : lc1m = lc1.
Proof. reflexivity. Qed.

Lemma fold_lc2m snap l s :
  let s' := fold_left (lc2m snap) l s in
  (own s -> own s') /\ me s' = me s /\ nshards s' = nshards s.
Proof.
  revert s; induction l as [|p l IH]; simpl; intros s; [tauto|].
  destruct (IH (lc2m snap s p)) as (A & B & C).
  assert (M : me (lc2m snap s p) = me s /\ nshards (lc2m snap s p) = nshards s).
  { unfold lc2m. destruct (match zlookup (fst p) snap with Some l0 => String.eqb l0 (me s) | None => false end); simpl; tauto. }
  destruct M as (M1 & M2). rewrite B, C, M1, M2. split; [|tauto].
  intros Ho. apply A. unfold lc2m.
  destruct (match zlookup (fst p) snap with Some l0 => String.eqb l0 (me s) | None => false end);
    [exact Ho|apply lim_stop_own; exact Ho].
Qed.

Lemma leader_check_snap_props snap s :
  let s' := leader_check_snap snap s in
  (own s -> own s') /\ me s' = me s /\ nshards s' = nshards s.
Proof.
  unfold leader_check_snap. rewrite lc1m_is_lc1.
  destruct (fold_lc1 snap s) as (A & B & C & _).
  set (s1 := fold_left lc1 snap s) in *.
  destruct (fold_lc2m snap (stores s1) s1) as (A2 & B2 & C2).
  split; [intros H; apply A2; apply A; exact H|]. split; congruence.
Qed.

(* ---------- single step ---------- *)
Lemma step_own s o : own s -> own (fst (step s o)).
Proof.
  intros H. destruct o; simpl.
  - apply (own_meta s); auto.
  - apply lim_start_own. apply (own_meta s); auto.
  - apply lim_stop_own. destruct (is_leader s sh); [apply (own_meta s); auto|exact H].
  - apply lim_stop_own. destruct (is_leader s sh); [apply (own_meta s); auto|exact H].
  - apply leader_check_props; exact H.
  - apply leader_check_snap_props. apply lim_stop_own.
    destruct (is_leader s sh); [apply (own_meta s); auto|exact H].
  - apply handler_own. apply (own_meta s); auto.
  - apply handler_own. apply (own_meta s); auto.
  - destruct (negb (is_leader s (shard_of s u))); [exact H|].
    destruct (zlookup (shard_of s u) (stores s)) as [sto|] eqn:EL; [|exact H].
    destruct (negb (has_cond u (state_name u) sto)); [exact H|].
    destruct (negb (str_mem u (locks s))); [exact H|]. simpl.
    apply zlookup_In in EL.
    intros sh sto' Hin uc Huc. apply In_zset in Hin. destruct Hin as [Heq|Hin].
    + inversion Heq; subst. apply In_ins_sorted in Huc. destruct Huc as [->|Huc]; [reflexivity|].
      exact (H _ _ EL _ Huc).
    + exact (H _ _ Hin _ Huc).
  - destruct (negb (is_leader s (shard_of s u))); [exact H|].
    destruct (zlookup (shard_of s u) (stores s)); exact H.
Qed.

Lemma step_meta s o : me (fst (step s o)) = me s /\ nshards (fst (step s o)) = nshards s.
Proof.
  destruct o; simpl; try tauto.
  - destruct (lim_start_meta (set_leaders s (zset sh (me s) (leaders s))) sh) as (A & B & _). simpl in *. tauto.
  - destruct (is_leader s sh); simpl; tauto.
  - destruct (is_leader s sh); simpl; tauto.
  - destruct (leader_check_props s) as (_ & A & B & _). tauto.
  - match goal with |- context [leader_check_snap ?a ?b] => destruct (leader_check_snap_props a b) as (_ & A & B) end.
    rewrite A, B. destruct (is_leader s sh); simpl; tauto.
  - match goal with |- context [handler ?x ?y] => destruct (handler_meta x y) as (A & B & _) end. simpl in *; tauto.
  - match goal with |- context [handler ?x ?y] => destruct (handler_meta x y) as (A & B & _) end. simpl in *; tauto.
  - destruct (negb (is_leader s (shard_of s u))); [simpl; tauto|].
    destruct (zlookup (shard_of s u) (stores s)); [|simpl; tauto].
    destruct (negb (has_cond u (state_name u) s0)); [simpl; tauto|].
    destruct (negb (str_mem u (locks s))); simpl; tauto.
  - destruct (negb (is_leader s (shard_of s u))); [simpl; tauto|].
    destruct (zlookup (shard_of s u) (stores s)); simpl; tauto.
Qed.

(* guard: not leader of the upstream's shard => refused, stores untouched *)
Lemma handler_guard s u :
  is_leader s (shard_of s u) = false -> handler s u = (s, RNil).
Proof. intros H. unfold handler. rewrite H. reflexivity. Qed.

Lemma guard s o u :
  op_upstream o = Some u ->
  is_leader s (shard_of s u) = false ->
  stores (fst (step s o)) = stores s /\ refusal o (snd (step s o)) = true.
Proof.
  intros Hu Hl. destruct o; simpl in Hu; try discriminate; inversion Hu; subst; simpl.
  - rewrite handler_guard by exact Hl. simpl; tauto.
  - rewrite handler_guard by exact Hl. simpl; tauto.
  - rewrite Hl. simpl; tauto.
  - rewrite Hl. simpl; tauto.
Qed.

Lemma serve_only_leader s o u i :
  (o = OUpdate u i \/ o = OAcquire u i) ->
  snd (step s o) = ROk -> is_leader s (shard_of s u) = true.
Proof.
  intros [->| ->]; simpl; destruct (is_leader s (shard_of s u)); simpl; try reflexivity; discriminate.
Qed.

(* ---------- the model's own observations, and the history theorem ---------- *)
Fixpoint zrange (k : nat) (from : Z) : list Z :=
  match k with O => [] | S k' => from :: zrange k' (from + 1) end.

Definition model_obs (s : st) (o : op) : obs :=
  let '(s', r) := step s o in
  {| leader_before := match op_upstream o with Some u => is_leader s (shard_of s u) | None => false end;
     ores := r;
     names_leader := true;
     snap := stores s';
     led_after := filter (is_leader s') (zrange (Z.to_nat (nshards s')) 0 ++ map fst (stores s')) |}.

Fixpoint model_hist (s : st) (ops : list op) : list (op * obs) :=
  match ops with
  | [] => []
  | o :: r => (o, model_obs s o) :: model_hist (fst (step s o)) r
  end.

Lemma pair_eqb_refl p : pair_eqb p p = true.
Proof. unfold pair_eqb. rewrite !String.eqb_refl. reflexivity. Qed.
Lemma store_eqb_refl a : store_eqb a a = true.
Proof. induction a as [|x a IH]; simpl; [reflexivity|]. unfold store_eqb in *. simpl. rewrite pair_eqb_refl, IH. reflexivity. Qed.
Lemma snap_eqb_refl a : snap_eqb a a = true.
Proof.
  induction a as [|x a IH]; simpl; [reflexivity|]. unfold snap_eqb in *. simpl.
  rewrite Z.eqb_refl, store_eqb_refl, IH. reflexivity.
Qed.

Lemma zmem_In k l : zmem k l = true <-> In k l.
Proof.
  unfold zmem. rewrite existsb_exists. split.
  - intros (x & Hx & E). apply Z.eqb_eq in E. subst; exact Hx.
  - intros H. exists k. split; [exact H|apply Z.eqb_refl].
Qed.

Lemma zrange_In k from z : In z (zrange k from) <-> from <= z < from + Z.of_nat k.
Proof.
  revert from; induction k as [|k IH]; intros from; simpl; [lia|].
  rewrite IH. lia.
Qed.

Definition wf (s : st) : Prop :=
  1 <= nshards s < two32 /\ me s <> EmptyString /\ own s /\
  (forall q, In q (stores s) -> 0 <= fst q).

Lemma shard_of_range s u : 1 <= nshards s < two32 -> 0 <= shard_of s u < nshards s.
Proof.
  intros H. unfold shard_of. destruct (shard_id_range u (nshards s) H) as (z & -> & Hz). exact Hz.
Qed.

Lemma own_shard_ok_model s : 1 <= nshards s < two32 -> own s -> own_shard_ok (nshards s) {| leader_before := false; ores := RNil; names_leader := true; snap := stores s; led_after := [] |} = true.
Proof.
  intros Hn H. unfold own_shard_ok; simpl. apply forallb_forall. intros [sh sto] Hin.
  apply forallb_forall. intros uc Huc. specialize (H _ _ Hin _ Huc).
  unfold shard_of in H. destruct (shard_id_range (fst uc) (nshards s) Hn) as (z & E & _).
  rewrite E in *. simpl. lia.
Qed.

Lemma step_ok_model s o :
  1 <= nshards s < two32 -> me s <> EmptyString -> own s ->
  step_ok (nshards s) (stores s) o (model_obs s o) = [true; true; true; true; true].
Proof.
  intros Hn Hme Ho. unfold step_ok, model_obs.
  destruct (step s o) as [s' r] eqn:ES.
  assert (Hs' : s' = fst (step s o)) by (rewrite ES; reflexivity).
  assert (Hr : r = snd (step s o)) by (rewrite ES; reflexivity).
  destruct (step_meta s o) as (Hme' & Hn'). rewrite <- Hs' in *.
  assert (Ho' : own s') by (rewrite Hs'; apply step_own; exact Ho).
  f_equal; [|f_equal; [|f_equal; [|f_equal; [|f_equal]]]].
  - (* guard *)
    unfold guard_ok; simpl. destruct (op_upstream o) as [u|] eqn:EU; [|reflexivity].
    destruct (is_leader s (shard_of s u)) eqn:EL; [reflexivity|].
    destruct (guard s o u EU EL) as (A & B). rewrite <- Hs', <- Hr in *.
    rewrite B, A, snap_eqb_refl. reflexivity.
  - (* serve *)
    unfold serve_ok; simpl. destruct o; try reflexivity; simpl.
    + destruct (res_eqb r ROk) eqn:ER; [|reflexivity].
      apply (serve_only_leader s (OUpdate u i) u i); [auto|]. rewrite <- Hr.
      destruct r; simpl in ER; congruence.
    + destruct (res_eqb r ROk) eqn:ER; [|reflexivity].
      apply (serve_only_leader s (OAcquire u i) u i); [auto|]. rewrite <- Hr.
      destruct r; simpl in ER; congruence.
  - unfold names_ok; simpl. destruct (res_eqb r RNotLeader); reflexivity.
  - (* drop *)
    unfold drop_ok; simpl. destruct o; try reflexivity.
    + (* stop *)
      simpl in ES. inversion ES; subst s'. simpl.
      apply Bool.negb_true_iff. apply Bool.not_true_is_false. intros Hm.
      apply zmem_In in Hm. apply in_map_iff in Hm. destruct Hm as (q & Hq1 & Hq2).
      apply In_zdel in Hq2. destruct (is_leader s sh); simpl in Hq2; tauto.
    + (* stop during an API outage *)
      simpl in ES. inversion ES; subst s'. simpl.
      apply Bool.negb_true_iff. apply Bool.not_true_is_false. intros Hm.
      apply zmem_In in Hm. apply in_map_iff in Hm. destruct Hm as (q & Hq1 & Hq2).
      apply In_zdel in Hq2. destruct (is_leader s sh); simpl in Hq2; tauto.
    + (* leader check *)
      simpl in ES. inversion ES. subst r.
      destruct (leader_check_props s) as (_ & A & B & C & D).
      rewrite H0 in *. apply forallb_forall. intros q Hq. apply zmem_In. apply filter_In.
      specialize (D q Hq). split.
      * apply in_or_app; right. apply in_map; exact Hq.
      * unfold is_leader. unfold led_by_me in D. destruct (zlookup (fst q) (leaders s')); [exact D|discriminate].
  - rewrite <- Hn'. apply (own_shard_ok_model s'); [lia|exact Ho'].
Qed.

Theorem history_ok id n ops :
  1 <= n < two32 -> id <> EmptyString ->
  hist_ok n [] (model_hist (init id n) ops) = [true; true; true; true; true].
Proof.
  intros Hn Hid.
  assert (G : forall ops s, nshards s = n -> me s <> EmptyString -> own s ->
              hist_ok n (stores s) (model_hist s ops) = [true; true; true; true; true]).
  { clear ops. induction ops as [|o ops IH]; intros s Hs Hme Ho; simpl; [reflexivity|].
    pose proof (step_ok_model s o) as K. rewrite Hs in K. specialize (K Hn Hme Ho).
    rewrite K.
    assert (E : snap (model_obs s o) = stores (fst (step s o))).
    { unfold model_obs. destruct (step s o); reflexivity. }
    rewrite E. destruct (step_meta s o) as (A & B).
    rewrite IH; [reflexivity|congruence|congruence|apply step_own; exact Ho]. }
  apply (G ops (init id n)); [reflexivity|exact Hid|].
  intros sh sto [].
Qed.

(* the trace the correspondence run compares is the same run *)
Lemma model_hist_run s ops :
  map (fun p => (ores (snd p), snap (snd p))) (model_hist s ops) = run s ops.
Proof.
  revert s; induction ops as [|o ops IH]; intros s; simpl; [reflexivity|].
  unfold model_obs at 1 2. destruct (step s o) as [s' r] eqn:E. simpl. rewrite IH. reflexivity.
Qed.

(* ---------------- gateway side: the server addressed is the announced leader ---------------- *)
Fixpoint gw_model_hist (g : gw) (ops : list gwop) : list (gwop * gwres) :=
  match ops with
  | [] => []
  | o :: r => (o, snd (gw_step g o)) :: gw_model_hist (fst (gw_step g o)) r
  end.

(* announcements name their leaders (an empty leader address is not an announcement of a leader) *)
Definition ann_ok (o : gwop) : Prop :=
  match o with
  | GSync _ eps => Forall (fun p : Z * string => snd p <> EmptyString) eps
  | _ => True
  end.

Lemma zlookup_zset {A} k k' (v : A) l :
  zlookup k (zset k' v l) = if k =? k' then Some v else zlookup k l.
Proof.
  induction l as [|[k0 v0] r IH]; simpl.
  - destruct (k =? k'); reflexivity.
  - destruct (k' =? k0) eqn:E1.
    + simpl. destruct (k =? k') eqn:E2; [reflexivity|].
      apply Z.eqb_eq in E1; subst k0. rewrite E2. reflexivity.
    + destruct (k' <? k0) eqn:E3; simpl.
      * destruct (k =? k') eqn:E2; reflexivity.
      * destruct (k =? k0) eqn:E4.
        -- destruct (k =? k') eqn:E2; [|reflexivity].
           apply Z.eqb_eq in E2; apply Z.eqb_eq in E4; subst. rewrite Z.eqb_refl in E1. discriminate.
        -- exact IH.
Qed.

Definition nonempty_vals (l : list (Z * string)) : Prop :=
  forall k v, zlookup k l = Some v -> v <> EmptyString.

Lemma zlookup_gw_set acc p k :
  nonempty_vals acc -> snd p <> EmptyString ->
  zlookup k (gw_set acc p) = if k =? fst p then Some (snd p) else zlookup k acc.
Proof.
  intros Hne Hp. unfold gw_set.
  destruct (zlookup (fst p) acc) as [old|] eqn:E.
  - destruct (String.eqb old (snd p)) eqn:E2.
    + apply String.eqb_eq in E2; subst old.
      destruct (k =? fst p) eqn:E3; [|reflexivity].
      apply Z.eqb_eq in E3; subst k. exact E.
    + apply zlookup_zset.
  - destruct (String.eqb EmptyString (snd p)) eqn:E2.
    + apply String.eqb_eq in E2. congruence.
    + apply zlookup_zset.
Qed.

Lemma gw_set_nonempty acc p : nonempty_vals acc -> snd p <> EmptyString -> nonempty_vals (gw_set acc p).
Proof.
  intros Hne Hp k v H. rewrite zlookup_gw_set in H by assumption.
  destruct (k =? fst p); [congruence | eauto].
Qed.

Lemma fold_gw_set eps : forall acc k,
  nonempty_vals acc -> Forall (fun p : Z * string => snd p <> EmptyString) eps ->
  nonempty_vals (fold_left gw_set eps acc) /\
  zlookup k (fold_left gw_set eps acc) = last_in k eps (zlookup k acc).
Proof.
  induction eps as [|[k0 l0] r IH]; intros acc k Hne Hall; simpl.
  - split; [exact Hne | reflexivity].
  - inversion Hall as [|? ? Hp Hr]; subst.
    destruct (IH (gw_set acc (k0, l0)) k (gw_set_nonempty acc (k0, l0) Hne Hp) Hr) as [H1 H2].
    split; [exact H1|]. rewrite H2, (zlookup_gw_set acc (k0, l0) k Hne Hp). simpl. reflexivity.
Qed.

Lemma last_in_found sh a : forall found,
  last_in sh a found = match last_in sh a None with Some l => Some l | None => found end.
Proof.
  induction a as [|[k l] r IH]; intros found; simpl; [reflexivity|].
  destruct (sh =? k).
  - rewrite (IH (Some l)). destruct (last_in sh r None); reflexivity.
  - apply IH.
Qed.

Definition gw_inv (g : gw) (anns : list (list (Z * string))) : Prop :=
  nonempty_vals (g_leaders g) /\ forall sh, zlookup sh (g_leaders g) = known_leader sh anns.

Lemma gw_client_ok g anns u :
  gw_inv g anns -> addressed_ok (g_n g) anns u (snd (gw_step g (GClientFor u))) = true.
Proof.
  intros [_ Hl]. unfold addressed_ok. simpl.
  destruct ((1 <=? g_n g) && (g_n g <? two32))%bool eqn:En.
  - apply andb_true_iff in En. destruct En as [E1 E2].
    apply Z.leb_le in E1. apply Z.ltb_lt in E2.
    unfold gw_shard_id, shard_id, wrapu32. unfold two32 in *.
    destruct (g_n g =? 0) eqn:E0; [apply Z.eqb_eq in E0; lia|].
    rewrite (Z.mod_small (g_n g) 4294967296) by lia. rewrite E0.
    rewrite <- Hl. destruct (zlookup _ (g_leaders g)); simpl; [apply String.eqb_refl | reflexivity].
  - destruct (g_n g =? 0) eqn:E0; [|reflexivity].
    unfold gw_shard_id. rewrite E0. reflexivity.
Qed.

Lemma gw_hist_inv ops : forall g anns,
  Forall ann_ok ops -> gw_inv g anns -> gw_hist_ok (g_n g) anns (gw_model_hist g ops) = true.
Proof.
  induction ops as [|o r IH]; intros g anns Hall Hinv; [reflexivity|].
  inversion Hall as [|? ? Ho Hr]; subst.
  destruct o as [n eps| |u]; cbn [gw_model_hist gw_hist_ok].
  - cbn [gw_step fst snd]. apply (IH {| g_n := n; g_leaders := fold_left gw_set eps (g_leaders g) |} (eps :: anns) Hr).
    destruct Hinv as [Hne Hl]. split; cbn [g_leaders].
    + apply (proj1 (fold_gw_set eps (g_leaders g) 0 Hne Ho)).
    + intros sh. rewrite (proj2 (fold_gw_set eps (g_leaders g) sh Hne Ho)).
      rewrite last_in_found, Hl. reflexivity.
  - cbn [gw_step fst snd]. apply IH; assumption.
  - assert (E : fst (gw_step g (GClientFor u)) = g).
    { simpl. destruct (gw_shard_id u (g_n g)); [destruct (zlookup _ _)|]; reflexivity. }
    rewrite E, (gw_client_ok g anns u Hinv). cbn [andb]. apply IH; assumption.
Qed.

Theorem gw_follows ops : Forall ann_ok ops -> gw_hist_ok 0 [] (gw_model_hist gw_init ops) = true.
Proof.
  intros H. apply (gw_hist_inv ops gw_init [] H).
  split; [intros k v Hk; discriminate | intros sh; reflexivity].
Qed.

Lemma gw_model_hist_run g ops : map snd (gw_model_hist g ops) = gw_run g ops.
Proof.
  revert g; induction ops as [|o r IH]; intros g; simpl; [reflexivity|].
  destruct (gw_step g o) as [g' x] eqn:E. simpl. rewrite IH. reflexivity.
Qed.

Lemma single_shard : forall name, shard_id name 1 = Some 0.
Proof.
  intros name. destruct (shard_id_range name 1) as [z [Hz Hr]]; [unfold two32; lia|].
  rewrite Hz. f_equal. lia.
Qed.
