(* C08 — proofs: exact accounting, bound, decreases applied, stale ids refused over ALL sequences of
   atomic operations (= all interleavings, see C08_Model); token-bucket grants via the C06 model. *)
From KG Require Import Prelude C06_Model C06_Spec C06_Check C06_Proofs C08_Model C08_Spec C08_Check.
From Coq Require Import ZifyBool ZifyNat ZifyN.
Open Scope Z_scope.

Arguments Z.add : simpl never.
Arguments Z.sub : simpl never.
Arguments Z.mul : simpl never.
Arguments Z.opp : simpl never.
Arguments Z.leb : simpl never.
Arguments Z.ltb : simpl never.
Arguments Z.gtb : simpl never.
Arguments Z.geb : simpl never.
Arguments Z.eqb : simpl never.
Arguments Z.quot : simpl never.
Arguments Z.max : simpl never.
Arguments wrap32 : simpl never.

(* ---------- association lists ---------- *)
Definition keys (l : list (string * inst)) : list string := map fst l.
Definition total (l : list (string * inst)) : Z := sumZ (map (fun p => icount (snd p)) l).

Lemma lookup_none_remove k : forall l, lookup k l = None -> remove k l = l.
Proof.
  induction l as [|[k' v] r IH]; intros H; [reflexivity|]. simpl in *.
  destruct (String.eqb k k'); [discriminate|]. rewrite (IH H). reflexivity.
Qed.

Lemma lookup_remove_same k : forall l, lookup k (remove k l) = None.
Proof.
  induction l as [|[k' v] r IH]; [reflexivity|]. simpl.
  destruct (String.eqb k k') eqn:E; [exact IH|]. simpl. rewrite E. exact IH.
Qed.

Lemma lookup_remove_other k k' : k <> k' -> forall l, lookup k (remove k' l) = lookup k l.
Proof.
  intros Hne. induction l as [|[k2 v] r IH]; [reflexivity|]. simpl.
  destruct (String.eqb k' k2) eqn:E2.
  - apply String.eqb_eq in E2. subst k2. destruct (String.eqb k k') eqn:E; [apply String.eqb_eq in E; congruence|exact IH].
  - simpl. destruct (String.eqb k k2); [reflexivity|exact IH].
Qed.

Lemma in_keys_remove k k' : forall l, In k (keys (remove k' l)) -> In k (keys l) /\ k <> k'.
Proof.
  induction l as [|[k2 v] r IH]; intros H; [destruct H|]. simpl in *.
  destruct (String.eqb k' k2) eqn:E.
  - destruct (IH H) as (H1 & H2). split; [right; exact H1|exact H2].
  - simpl in H. destruct H as [<-|H].
    + split; [left; reflexivity|]. intros ->. rewrite String.eqb_refl in E. discriminate.
    + destruct (IH H) as (H1 & H2). split; [right; exact H1|exact H2].
Qed.

Lemma nodup_remove k : forall l, NoDup (keys l) -> NoDup (keys (remove k l)).
Proof.
  induction l as [|[k2 v] r IH]; intros H; [constructor|]. simpl in *. inversion H as [|? ? Hn Hr]; subst.
  destruct (String.eqb k k2); [exact (IH Hr)|]. simpl. constructor; [|exact (IH Hr)].
  intros Hin. apply in_keys_remove in Hin as (Hin & _). exact (Hn Hin).
Qed.

Lemma nodup_upsert k v l : NoDup (keys l) -> NoDup (keys (upsert k v l)).
Proof.
  intros H. unfold upsert. simpl. constructor; [|apply nodup_remove; exact H].
  intros Hin. apply in_keys_remove in Hin as (_ & Hne). congruence.
Qed.

Lemma lookup_not_in k : forall l, ~ In k (keys l) -> lookup k l = None.
Proof.
  induction l as [|[k2 v] r IH]; intros H; [reflexivity|]. simpl in *.
  destruct (String.eqb k k2) eqn:E; [apply String.eqb_eq in E; subst; exfalso; apply H; left; reflexivity|].
  apply IH. intros Hin; apply H; right; exact Hin.
Qed.

(* with distinct keys, removing a key subtracts exactly its count *)
Lemma total_remove k : forall l, NoDup (keys l) ->
  total (remove k l) = total l - match lookup k l with Some s => icount s | None => 0 end.
Proof.
  induction l as [|[k2 v] r IH]; intros H; [reflexivity|]. simpl in H. inversion H as [|? ? Hn Hr]; subst.
  simpl. destruct (String.eqb k k2) eqn:E.
  - apply String.eqb_eq in E. subst k2. rewrite (IH Hr), (lookup_not_in k r Hn). unfold total; simpl. lia.
  - unfold total in *; simpl. rewrite (IH Hr). lia.
Qed.

Lemma total_upsert k v l : NoDup (keys l) ->
  total (upsert k v l) = icount v + total l - match lookup k l with Some s => icount s | None => 0 end.
Proof. intros H. unfold upsert. unfold total at 1; simpl. fold (total (remove k l)). rewrite (total_remove k l H). lia. Qed.

Lemma lookup_upsert_same k v l : lookup k (upsert k v l) = Some v.
Proof. unfold upsert; simpl. rewrite String.eqb_refl. reflexivity. Qed.

Lemma total_nonneg : forall l, Forall (fun p => 0 <= icount (snd p)) l -> 0 <= total l.
Proof.
  induction l as [|p r IH]; intros H; [unfold total; simpl; lia|]. inversion H as [|? ? H1 H2]; subst.
  specialize (IH H2). unfold total in *; simpl. lia.
Qed.

Lemma lookup_le_total k : forall l s, Forall (fun p => 0 <= icount (snd p)) l -> lookup k l = Some s ->
  0 <= icount s <= total l.
Proof.
  induction l as [|[k2 v] r IH]; intros s H Hl; [discriminate|]. inversion H as [|? ? H1 H2]; subst. simpl in *.
  pose proof (total_nonneg r H2) as Hr.
  destruct (String.eqb k k2).
  - injection Hl as <-. unfold total; simpl. fold (total r). lia.
  - specialize (IH s H2 Hl). unfold total; simpl. fold (total r). lia.
Qed.

Lemma forall_remove (Q : string * inst -> Prop) k : forall l, Forall Q l -> Forall Q (remove k l).
Proof.
  induction l as [|[k2 v] r IH]; intros H; [constructor|]. inversion H; subst. simpl.
  destruct (String.eqb k k2); [apply IH; assumption|constructor; [assumption|apply IH; assumption]].
Qed.

(* ---------- the invariant of the max-in-flight object ---------- *)
Definition Inv (m : mif) : Prop :=
  0 <= mmax m < lim30 /\ 0 <= mcount m < lim30 /\ mcount m = total (minsts m) /\
  Forall (fun p => 0 <= icount (snd p)) (minsts m) /\ NoDup (keys (minsts m)).

Lemma inst_total_total m : inst_total m = total (minsts m).
Proof. reflexivity. Qed.

Lemma Inv_new max : 0 <= max < lim30 -> Inv (mif_new max).
Proof. intros H. unfold Inv, mif_new; simpl. unfold lim30 in *. repeat split; try lia; try constructor. Qed.

Lemma wrap32_small z : - lim30 * 2 <= z < lim30 * 2 -> wrap32 z = z.
Proof. intros H. apply wrap32_id. unfold in_int32, two31, lim30 in *. lia. Qed.

Definition cur_of (m : mif) (i : string) : Z := match lookup i (minsts m) with Some s => icount s | None => 0 end.
Definition req_of (m : mif) (i : string) : Z := match lookup i (minsts m) with Some s => ireq s | None => 0 end.
Definition is_stale (m : mif) (i : string) (rid : Z) : bool := ((rid >? 0) && (rid <=? req_of m i))%bool.

(* complete description of a report (cur >= 0) in the no-wrap range *)
Lemma set_state_report m i rid cur : Inv m -> 0 <= cur < lim30 ->
  let old := cur_of m i in
  let rid' := if rid >? 0 then rid else req_of m i in
  set_state m i rid cur =
  if is_stale m i rid then
    ({| mmax := mmax m; mcount := mcount m;
        minsts := match lookup i (minsts m) with Some _ => minsts m
                  | None => upsert i {| icount := 0; ireq := 0 |} (minsts m) end |},
     {| s_accept := false; s_latest := cur; s_err := true |})
  else if ((mcount m + (cur - old) >? mmax m) && (cur >? old))%bool then
    ({| mmax := mmax m; mcount := mcount m; minsts := upsert i {| icount := old; ireq := rid' |} (minsts m) |},
     {| s_accept := false; s_latest := old; s_err := false |})
  else
    ({| mmax := mmax m; mcount := mcount m + (cur - old);
        minsts := upsert i {| icount := cur; ireq := rid' |} (minsts m) |},
     {| s_accept := negb ((mcount m + (cur - old) >=? mmax m) && (cur >? 0)); s_latest := cur; s_err := false |}).
Proof.
  intros (Hmax & Hcnt & Htot & Hnn & Hnd) Hcur. cbn zeta.
  unfold set_state, is_stale, cur_of, req_of.
  replace (cur <? 0) with false by lia.
  destruct (lookup i (minsts m)) as [s|] eqn:El.
  - pose proof (lookup_le_total i _ s Hnn El) as Hs. rewrite <- Htot in Hs.
    destruct ((rid >? 0) && (rid <=? ireq s))%bool eqn:Es; [reflexivity|].
    unfold add32.
    rewrite (wrap32_small (cur - icount s)) by (unfold lim30 in *; lia).
    rewrite (wrap32_small (mcount m + (cur - icount s))) by (unfold lim30 in *; lia).
    rewrite (wrap32_small (mcount m + (cur - icount s) - mmax m)) by (unfold lim30 in *; lia).
    replace (mcount m + (cur - icount s) - mmax m >? 0) with (mcount m + (cur - icount s) >? mmax m) by lia.
    replace (cur - icount s >? 0) with (cur >? icount s) by lia.
    destruct ((mcount m + (cur - icount s) >? mmax m) && (cur >? icount s))%bool eqn:Eo.
    + rewrite (wrap32_small (- (cur - icount s))) by (unfold lim30 in *; lia).
      rewrite (wrap32_small (mcount m + (cur - icount s) + - (cur - icount s))) by (unfold lim30 in *; lia).
      rewrite (wrap32_small (cur - (cur - icount s))) by (unfold lim30 in *; lia).
      replace (mcount m + (cur - icount s) + - (cur - icount s)) with (mcount m) by lia.
      replace (cur - (cur - icount s)) with (icount s) by lia. reflexivity.
    + replace (mcount m + (cur - icount s) - mmax m >=? 0) with (mcount m + (cur - icount s) >=? mmax m) by lia.
      destruct ((mcount m + (cur - icount s) >=? mmax m) && (cur >? 0))%bool; reflexivity.
  - cbn [icount ireq].
    replace ((rid >? 0) && (rid <=? 0))%bool with false by lia.
    unfold add32.
    rewrite (wrap32_small (cur - 0)) by (unfold lim30 in *; lia).
    rewrite (wrap32_small (mcount m + (cur - 0))) by (unfold lim30 in *; lia).
    rewrite (wrap32_small (mcount m + (cur - 0) - mmax m)) by (unfold lim30 in *; lia).
    replace (mcount m + (cur - 0) - mmax m >? 0) with (mcount m + (cur - 0) >? mmax m) by lia.
    replace (cur - 0 >? 0) with (cur >? 0) by lia.
    destruct ((mcount m + (cur - 0) >? mmax m) && (cur >? 0))%bool eqn:Eo.
    + rewrite (wrap32_small (- (cur - 0))) by (unfold lim30 in *; lia).
      rewrite (wrap32_small (mcount m + (cur - 0) + - (cur - 0))) by (unfold lim30 in *; lia).
      rewrite (wrap32_small (cur - (cur - 0))) by (unfold lim30 in *; lia).
      replace (mcount m + (cur - 0) + - (cur - 0)) with (mcount m) by lia.
      replace (cur - (cur - 0)) with 0 by lia. reflexivity.
    + replace (mcount m + (cur - 0) - mmax m >=? 0) with (mcount m + (cur - 0) >=? mmax m) by lia.
      destruct ((mcount m + (cur - 0) >=? mmax m) && (cur >? 0))%bool; reflexivity.
Qed.

Lemma set_state_removal m i rid cur : Inv m -> cur < 0 ->
  set_state m i rid cur =
  ({| mmax := mmax m; mcount := mcount m - cur_of m i; minsts := remove i (minsts m) |},
   {| s_accept := false; s_latest := -1; s_err := false |}).
Proof.
  intros (Hmax & Hcnt & Htot & Hnn & Hnd) Hcur. unfold set_state, cur_of.
  replace (cur <? 0) with true by lia.
  destruct (lookup i (minsts m)) as [s|] eqn:El.
  - pose proof (lookup_le_total i _ s Hnn El) as Hs. rewrite <- Htot in Hs. unfold add32.
    rewrite (wrap32_small (- icount s)) by (unfold lim30 in *; lia).
    rewrite (wrap32_small (mcount m + - icount s)) by (unfold lim30 in *; lia).
    replace (mcount m + - icount s) with (mcount m - icount s) by lia. reflexivity.
  - rewrite (lookup_none_remove i _ El). replace (mcount m - 0) with (mcount m) by lia. destruct m; reflexivity.
Qed.

Definition op_ok (o : gop) : Prop :=
  match o with GSet _ _ cur => cur < lim30 | GResize n => 0 <= n < lim30 end.

Lemma op_in_range_ok o : op_in_range o = true <-> op_ok o.
Proof. destruct o; simpl; lia. Qed.

Lemma Inv_upsert m i v c : Inv m -> 0 <= icount v -> 0 <= c < lim30 ->
  c = mcount m + icount v - cur_of m i ->
  Inv {| mmax := mmax m; mcount := c; minsts := upsert i v (minsts m) |}.
Proof.
  intros (Hmax & Hcnt & Htot & Hnn & Hnd) Hv Hc Ec. unfold Inv; cbn [mmax mcount minsts].
  split; [exact Hmax|]. split; [exact Hc|]. split.
  - rewrite (total_upsert i v _ Hnd). unfold cur_of in Ec. lia.
  - split; [|apply nodup_upsert; exact Hnd]. unfold upsert. constructor; [exact Hv|apply forall_remove; exact Hnn].
Qed.

Lemma cur_of_bounds m i : Inv m -> 0 <= cur_of m i <= mcount m.
Proof.
  intros (Hmax & Hcnt & Htot & Hnn & Hnd). unfold cur_of. destruct (lookup i (minsts m)) as [s|] eqn:El; [|lia].
  pose proof (lookup_le_total i _ s Hnn El). lia.
Qed.

(* the invariant is kept by every in-range operation *)
Lemma Inv_step m o : Inv m -> op_ok o -> Inv (fst (gstep m o)).
Proof.
  intros Hi Ho. pose proof Hi as (Hmax & Hcnt & Htot & Hnn & Hnd). destruct o as [i rid cur|n]; simpl in Ho.
  - cbn [gstep]. destruct (Z_lt_ge_dec cur 0) as [Hneg|Hpos].
    + rewrite (set_state_removal m i rid cur Hi Hneg). cbn [fst].
      pose proof (cur_of_bounds m i Hi) as Hb. unfold Inv; simpl.
      split; [exact Hmax|]. split; [lia|]. split.
      * rewrite (total_remove i _ Hnd). unfold cur_of. lia.
      * split; [apply forall_remove; exact Hnn|apply nodup_remove; exact Hnd].
    + pose proof (cur_of_bounds m i Hi) as Hb.
      rewrite (set_state_report m i rid cur Hi ltac:(lia)). cbn zeta.
      destruct (is_stale m i rid) eqn:Es; cbn [fst].
      * unfold is_stale, req_of in Es. destruct (lookup i (minsts m)) as [s|] eqn:El.
        -- destruct m; exact Hi.
        -- lia.
      * destruct ((mcount m + (cur - cur_of m i) >? mmax m) && (cur >? cur_of m i))%bool eqn:Eo; cbn [fst].
        -- apply (Inv_upsert m i {| icount := cur_of m i; ireq := if rid >? 0 then rid else req_of m i |} (mcount m) Hi);
             simpl; lia.
        -- apply (Inv_upsert m i {| icount := cur; ireq := if rid >? 0 then rid else req_of m i |}
                    (mcount m + (cur - cur_of m i)) Hi); simpl; lia.
  - cbn [gstep]. unfold mif_resize. destruct (mmax m =? n); cbn [fst]; [exact Hi|].
    unfold Inv; simpl. repeat split; try lia; assumption.
Qed.

Lemma Inv_run : forall ops m, Inv m -> Forall op_ok ops -> Inv (grun_state m ops).
Proof.
  induction ops as [|o r IH]; intros m Hi Ho; [exact Hi|]. inversion Ho; subst. simpl.
  apply IH; [apply Inv_step; assumption|assumption].
Qed.

(* C08_total_exact: after every operation of every history the running total equals the sum of the
   per-instance counts (which are the latest accepted ones, see spec_history) *)
Lemma total_exact max0 ops : 0 <= max0 < lim30 -> Forall op_ok ops ->
  let m := grun_state (mif_new max0) ops in mcount m = inst_total m.
Proof. intros H Ho. pose proof (Inv_run ops _ (Inv_new max0 H) Ho) as (_ & _ & Ht & _). exact Ht. Qed.

(* C08_bound, one step: within the limit the total stays within; above a lowered limit it never grows *)
Lemma bound_step m o : Inv m -> op_ok o ->
  let m' := fst (gstep m o) in
  match o with
  | GSet _ _ _ => mcount m' <= Z.max (mcount m) (mmax m) /\ mmax m' = mmax m
  | GResize n => mcount m' = mcount m /\ mmax m' = n
  end.
Proof.
  intros Hi Ho. pose proof Hi as (Hmax & Hcnt & Htot & Hnn & Hnd). destruct o as [i rid cur|n]; simpl in Ho; cbn zeta.
  - cbn [gstep]. pose proof (cur_of_bounds m i Hi) as Hb. destruct (Z_lt_ge_dec cur 0) as [Hneg|Hpos].
    + rewrite (set_state_removal m i rid cur Hi Hneg). simpl. lia.
    + rewrite (set_state_report m i rid cur Hi ltac:(lia)). cbn zeta.
      destruct (is_stale m i rid); [simpl; lia|].
      destruct ((mcount m + (cur - cur_of m i) >? mmax m) && (cur >? cur_of m i))%bool eqn:Eo; simpl; lia.
  - cbn [gstep]. unfold mif_resize. destruct (mmax m =? n) eqn:E; simpl; lia.
Qed.

Definition no_resize (ops : list gop) : Prop := Forall (fun o => match o with GResize _ => False | _ => True end) ops.

(* C08_bound over histories: while the limit is unchanged the total never exceeds it *)
Lemma bound_history : forall ops m, Inv m -> Forall op_ok ops -> no_resize ops -> mcount m <= mmax m ->
  mcount (grun_state m ops) <= mmax m /\ mmax (grun_state m ops) = mmax m.
Proof.
  induction ops as [|o r IH]; intros m Hi Ho Hn Hle; [simpl; lia|].
  inversion Ho as [|? ? Ho1 Ho2]; subst. inversion Hn as [|? ? Hn1 Hn2]; subst. simpl.
  pose proof (bound_step m o Hi Ho1) as Hb. cbn zeta in Hb. destruct o as [i rid cur|n]; [|contradiction].
  destruct Hb as (Hb1 & Hb2).
  destruct (IH (fst (gstep m (GSet i rid cur))) (Inv_step _ _ Hi Ho1) Ho2 Hn2 ltac:(simpl in *; lia)) as (H1 & H2).
  simpl in *. lia.
Qed.

(* C08_decrease_applied *)
Lemma cur_of_upsert m c i v l : cur_of {| mmax := m; mcount := c; minsts := upsert i v l |} i = icount v.
Proof. unfold cur_of. cbn [minsts]. rewrite lookup_upsert_same. reflexivity. Qed.

Lemma decrease_applied m i rid cur : Inv m -> 0 <= cur <= cur_of m i -> is_stale m i rid = false ->
  let m' := fst (set_state m i rid cur) in let r := snd (set_state m i rid cur) in
  s_latest r = cur /\ s_err r = false /\ cur_of m' i = cur /\ mcount m' = mcount m - (cur_of m i - cur).
Proof.
  intros Hi Hc Hs. pose proof (cur_of_bounds m i Hi) as Hb. pose proof Hi as (Hmax & Hcnt & _).
  cbn zeta. rewrite (set_state_report m i rid cur Hi ltac:(lia)). cbn zeta. rewrite Hs.
  replace ((mcount m + (cur - cur_of m i) >? mmax m) && (cur >? cur_of m i))%bool with false by lia.
  cbn [fst snd s_latest s_err mcount]. rewrite cur_of_upsert. cbn [icount]. lia.
Qed.

(* C08_stale_id_refused *)
Lemma stale_id_refused m i rid cur : Inv m -> 0 <= cur < lim30 -> is_stale m i rid = true ->
  let m' := fst (set_state m i rid cur) in let r := snd (set_state m i rid cur) in
  s_err r = true /\ s_accept r = false /\ m' = m.
Proof.
  intros Hi Hc Hs. cbn zeta. rewrite (set_state_report m i rid cur Hi Hc). cbn zeta. rewrite Hs.
  unfold is_stale, req_of in Hs. destruct (lookup i (minsts m)) as [s|] eqn:El; [|lia].
  cbn [fst snd s_err s_accept]. repeat split. destruct m; reflexivity.
Qed.

(* a processed (non-stale) positive id is recorded, also when the increase is rolled back *)
Lemma id_recorded m i rid cur : Inv m -> 0 <= cur < lim30 -> 0 < rid -> is_stale m i rid = false ->
  req_of (fst (set_state m i rid cur)) i = rid.
Proof.
  intros Hi Hc Hr Hs. rewrite (set_state_report m i rid cur Hi Hc). cbn zeta. rewrite Hs.
  replace (rid >? 0) with true by lia.
  destruct ((mcount m + (cur - cur_of m i) >? mmax m) && (cur >? cur_of m i))%bool; cbn [fst];
    unfold req_of; cbn [minsts]; rewrite lookup_upsert_same; reflexivity.
Qed.

(* ---------- the model satisfies the executable spec, for every history ---------- *)
Definition proj_l (l : list (string * inst)) : tracked :=
  map (fun p => (fst p, (icount (snd p), ireq (snd p)))) l.

Definition model_obs (m' : mif) (r : sres) : gobs :=
  {| o_res := r; o_count := mcount m'; o_total := inst_total m'; o_max := mmax m';
     o_insts := map (fun p => (fst p, icount (snd p))) (minsts m') |}.

Fixpoint model_hist (m : mif) (ops : list gop) : list (gop * gobs) :=
  match ops with
  | [] => []
  | o :: r => (o, model_obs (fst (gstep m o)) (snd (gstep m o))) :: model_hist (fst (gstep m o)) r
  end.

Lemma model_hist_ops : forall ops m, map fst (model_hist m ops) = ops.
Proof. induction ops as [|o r IH]; intros m; [reflexivity|]. simpl. rewrite IH. reflexivity. Qed.

Lemma tlookup_proj i : forall l,
  tlookup i (proj_l l) = match lookup i l with Some s => Some (icount s, ireq s) | None => None end.
Proof. induction l as [|[k v] r IH]; [reflexivity|]. simpl. destruct (String.eqb i k); [reflexivity|exact IH]. Qed.

Lemma tremove_proj i : forall l, tremove i (proj_l l) = proj_l (remove i l).
Proof. induction l as [|[k v] r IH]; [reflexivity|]. simpl. destruct (String.eqb i k); [exact IH|]. simpl. rewrite IH. reflexivity. Qed.

Lemma tsum_proj : forall l, tsum (proj_l l) = total l.
Proof. induction l as [|[k v] r IH]; [reflexivity|]. unfold tsum, total in *; simpl. rewrite IH. reflexivity. Qed.

Lemma proj_upsert i v l : proj_l (upsert i v l) = (i, (icount v, ireq v)) :: tremove i (proj_l l).
Proof. unfold upsert. simpl. rewrite tremove_proj. reflexivity. Qed.

Definition sim (s : sstate) (m : mif) : Prop :=
  t_insts s = proj_l (minsts m) /\ t_count s = mcount m /\ t_max s = mmax m.

Definition all_true (c : bool * bool * bool * bool) : Prop := c = (true, true, true, true).

Ltac all4 :=
  unfold all_true;
  apply f_equal2; [apply f_equal2; [apply f_equal2|]|];
  try reflexivity; try lia.

Lemma spec_step_model s m o : Inv m -> op_ok o -> sim s m ->
  let m' := fst (gstep m o) in let r := snd (gstep m o) in
  sim (fst (spec_step s o (model_obs m' r))) m' /\ all_true (snd (spec_step s o (model_obs m' r))).
Proof.
  intros Hi Ho (S1 & S2 & S3). cbn zeta.
  pose proof (Inv_step m o Hi Ho) as Hi'. pose proof (bound_step m o Hi Ho) as Hb. cbn zeta in Hb.
  pose proof Hi' as (_ & _ & Htot' & _). pose proof Hi as (Hmax & Hcnt & Htot & _).
  destruct o as [i rid cur|n]; simpl in Ho.
  - destruct Hb as (Hb1 & Hb2). cbn [gstep] in *.
    unfold spec_step. cbn [model_obs o_res o_count o_total].
    rewrite S1, tlookup_proj.
    pose proof (cur_of_bounds m i Hi) as Hcb.
    replace (match match lookup i (minsts m) with Some s0 => Some (icount s0, ireq s0) | None => None end with
             | Some v => (true, v) | None => (false, (0, 0)) end)
      with (match lookup i (minsts m) with Some _ => true | None => false end, (cur_of m i, req_of m i))
      by (unfold cur_of, req_of; destruct (lookup i (minsts m)); reflexivity).
    cbn beta iota.
    destruct (Z_lt_ge_dec cur 0) as [Hneg|Hpos].
    + (* removal *)
      replace (cur <? 0) with true by lia.
      rewrite (set_state_removal m i rid cur Hi Hneg) in *. cbn [fst snd mcount minsts mmax s_err] in *.
      rewrite tremove_proj, tsum_proj, inst_total_total, S2, S3. cbn [minsts].
      split; [unfold sim; cbn [t_insts t_count t_max mmax mcount minsts]; auto|]. all4.
    + replace (cur <? 0) with false by lia.
      pose proof (set_state_report m i rid cur Hi ltac:(lia)) as E. cbn zeta in E.
      fold (is_stale m i rid).
      destruct (is_stale m i rid) eqn:Es.
      * (* stale: nothing changes *)
        assert (Hsome : exists s0, lookup i (minsts m) = Some s0).
        { unfold is_stale, req_of in Es. destruct (lookup i (minsts m)) as [s0|]; [eauto|lia]. }
        destruct Hsome as (s0 & Hs0). rewrite Hs0 in E. rewrite E in *. clear E.
        cbn [fst snd mcount minsts mmax s_err s_accept] in *.
        rewrite tsum_proj, inst_total_total, S2, S3. cbn [minsts].
        split; [unfold sim; cbn [t_insts t_count t_max mmax mcount minsts]; auto|]. all4.
      * rewrite E in *. clear E.
        destruct ((mcount m + (cur - cur_of m i) >? mmax m) && (cur >? cur_of m i))%bool eqn:Eo;
          cbn [fst snd mcount minsts mmax s_err s_accept s_latest] in *.
        -- (* increase rolled back *)
           replace (cur_of m i =? cur) with false by lia.
           rewrite <- proj_upsert with (v := {| icount := cur_of m i; ireq := if rid >? 0 then rid else req_of m i |}).
           rewrite tsum_proj, inst_total_total, S2, S3. cbn [minsts].
           split; [unfold sim; cbn [t_insts t_count t_max mmax mcount minsts]; auto|]. all4.
           replace (cur <=? cur_of m i) with false by lia. reflexivity.
        -- rewrite Z.eqb_refl.
           rewrite <- proj_upsert with (v := {| icount := cur; ireq := if rid >? 0 then rid else req_of m i |}).
           rewrite tsum_proj, inst_total_total, S2, S3. cbn [minsts].
           split; [unfold sim; cbn [t_insts t_count t_max mmax mcount minsts]; auto|]. all4.
           destruct (cur <=? cur_of m i); reflexivity.
  - destruct Hb as (Hb1 & Hb2). cbn [gstep] in *. unfold spec_step. cbn [model_obs o_count o_total].
    unfold mif_resize in *. destruct (mmax m =? n) eqn:En; cbn [fst snd mcount minsts mmax] in *;
      rewrite S1, tsum_proj, S2, inst_total_total; cbn [minsts];
      (split; [unfold sim; cbn [t_insts t_count t_max mmax mcount minsts]; repeat split; auto; lia|]); all4.
Qed.

Lemma spec_run_model : forall ops s m, Inv m -> Forall op_ok ops -> sim s m ->
  Forall all_true (spec_run s (model_hist m ops)).
Proof.
  induction ops as [|o r IH]; intros s m Hi Ho Hs; [constructor|].
  inversion Ho as [|? ? Ho1 Ho2]; subst. cbn [model_hist spec_run].
  destruct (spec_step_model s m o Hi Ho1 Hs) as (Hs' & Hc). cbn zeta in Hs', Hc.
  destruct (spec_step s o (model_obs (fst (gstep m o)) (snd (gstep m o)))) as [s' c]. cbn [fst snd] in *.
  constructor; [exact Hc|]. apply IH; auto. apply Inv_step; assumption.
Qed.

Lemma forallb_all_true (f : bool * bool * bool * bool -> bool) cs :
  f (true, true, true, true) = true -> Forall all_true cs -> forallb f cs = true.
Proof. intros Hf H. induction H as [|c r Hc Hr IH]; [reflexivity|]. simpl. rewrite Hc, Hf, IH. reflexivity. Qed.

(* C08_spec_history *)
Lemma spec_history max0 ops : mif_ok max0 (model_hist (mif_new max0) ops) = [true; true; true; true].
Proof.
  unfold mif_ok. rewrite model_hist_ops. destruct (in_range max0 ops) eqn:Er; [|reflexivity].
  unfold in_range in Er. apply Bool.andb_true_iff in Er as (Er1 & Er2).
  assert (Hm : 0 <= max0 < lim30) by lia.
  assert (Ho : Forall op_ok ops).
  { apply Forall_forall. intros o Hin. apply op_in_range_ok. exact (proj1 (forallb_forall _ _) Er2 o Hin). }
  pose proof (spec_run_model ops (sinit max0) (mif_new max0) (Inv_new max0 Hm) Ho
                ltac:(unfold sim, sinit, mif_new; simpl; auto)) as H.
  rewrite !(forallb_all_true _ _ eq_refl H). reflexivity.
Qed.

(* beyond the stated range the int32 arithmetic wraps: with the limit lowered from MaxInt32 to 0 while
   MaxInt32 is recorded, a second instance is "accepted" at MaxInt32 and the total becomes -2 *)
Lemma wrap_refuted :
  let ops := [GSet "gw1" 0 2147483647; GResize 0; GSet "gw2" 0 2147483647] in
  let m := grun_state (mif_new 2147483647) ops in
  mcount m = -2 /\ inst_total m = 4294967294 /\ mmax m = 0 /\
  s_accept (snd (gstep (grun_state (mif_new 2147483647) [GSet "gw1" 0 2147483647; GResize 0]) (GSet "gw2" 0 2147483647))) = true.
Proof. vm_compute. repeat split; reflexivity. Qed.

(* ---------- token bucket: DoAcquire's halving sequence over the C06 limiter ---------- *)
Lemma quot2_bounds tok : 0 <= tok -> 0 <= Z.quot tok 2 <= tok.
Proof. intros H. rewrite Z.quot_div_nonneg by lia. lia. Qed.

Lemma halving_props c now : forall fuel s tok, 0 <= tok ->
  let calls := halving fuel c s now tok in
  nonneg_calls calls /\ Forall (fun p => fst p = now) calls /\
  0 <= gsum (trace c s calls) <= tok /\
  (existsb eok (trace c s calls) = false -> gsum (trace c s calls) = 0).
Proof.
  induction fuel as [|f IH]; intros s tok Ht; cbn zeta.
  - cbn [halving]. rewrite trace_nil. unfold gsum; simpl.
    split; [constructor|]. split; [constructor|]. split; [lia|reflexivity].
  - cbn [halving]. destruct (allow_n c s now tok) as [s' ok] eqn:E.
    destruct ok.
    + rewrite trace_cons, E, trace_nil. cbn [fst snd]. unfold gsum, granted; simpl.
      split; [repeat constructor; simpl; lia|]. split; [repeat constructor|]. split; [lia|discriminate].
    + pose proof (quot2_bounds tok Ht) as Hq.
      destruct (Z.quot tok 2 <=? 0) eqn:Eq.
      * rewrite trace_cons, E, trace_nil. cbn [fst snd]. unfold gsum, granted; simpl.
        split; [repeat constructor; simpl; lia|]. split; [repeat constructor|]. split; [lia|reflexivity].
      * destruct (IH s' (Z.quot tok 2) ltac:(lia)) as (H1 & H2 & H3 & H4). cbn zeta in *.
        rewrite trace_cons, E. cbn [fst snd]. rewrite gsum_cons.
        replace (granted {| etime := now; easked := tok; eok := false |}) with 0 by reflexivity.
        cbn [existsb eok]. rewrite Bool.orb_false_l.
        split; [constructor; [simpl; lia|exact H1]|].
        split; [constructor; [reflexivity|exact H2]|].
        split; [lia|]. intros Hx. specialize (H4 Hx). lia.
Qed.

(* C08_grant_range *)
Lemma grant_range c s now n : 0 <= n ->
  let r := snd (acquire_tb c s now n) in
  0 <= a_limit r <= n /\ (a_accept r = false -> a_limit r = 0) /\ a_err r = false.
Proof.
  intros Hn. unfold acquire_tb. replace (n <? 0) with false by lia. cbn [snd a_limit a_accept a_err].
  destruct (halving_props c now 4 s n Hn) as (_ & _ & H3 & H4). cbn zeta in *.
  change (sumZ (map (fun e => if eok e then easked e else 0) (trace c s (halving 4 c s now n))))
    with (gsum (trace c s (halving 4 c s now n))).
  repeat split; auto; lia.
Qed.

(* C08_negative_refused: both schema types, before the flow control is touched *)
Lemma negative_refused_tb c s now n : n < 0 ->
  acquire_tb c s now n = (s, {| a_accept := false; a_limit := 0; a_err := true |}).
Proof. intros H. unfold acquire_tb. replace (n <? 0) with true by lia. reflexivity. Qed.
Lemma negative_refused_mif m i rid n : n < 0 ->
  acquire_mif m i rid n = (m, {| a_accept := false; a_limit := 0; a_err := true |}).
Proof. intros H. unfold acquire_mif. replace (n <? 0) with true by lia. reflexivity. Qed.

(* a sequence of DoAcquire requests (server clock reading, amount) on one token bucket *)
Definition op_calls (c : cfg) (s : st) (o : Z * Z) : list (Z * Z) :=
  if snd o <? 0 then [] else halving 4 c s (fst o) (snd o).

Fixpoint acq_calls (c : cfg) (s : st) (ops : list (Z * Z)) : list (Z * Z) :=
  match ops with
  | [] => []
  | o :: r => op_calls c s o ++ acq_calls c (run_state c s (op_calls c s o)) r
  end.
Fixpoint acq_results (c : cfg) (s : st) (ops : list (Z * Z)) : list ares :=
  match ops with
  | [] => []
  | o :: r => snd (acquire_tb c s (fst o) (snd o)) :: acq_results c (fst (acquire_tb c s (fst o) (snd o))) r
  end.
Fixpoint acq_state (c : cfg) (s : st) (ops : list (Z * Z)) : st :=
  match ops with [] => s | o :: r => acq_state c (fst (acquire_tb c s (fst o) (snd o))) r end.

Lemma acquire_state c s o : fst (acquire_tb c s (fst o) (snd o)) = run_state c s (op_calls c s o).
Proof. unfold acquire_tb, op_calls. destruct (snd o <? 0); reflexivity. Qed.

Lemma acquire_limit c s o : a_limit (snd (acquire_tb c s (fst o) (snd o))) = gsum (trace c s (op_calls c s o)).
Proof. unfold acquire_tb, op_calls. destruct (snd o <? 0); reflexivity. Qed.

Lemma op_calls_props c s o :
  nonneg_calls (op_calls c s o) /\ Forall (fun p => fst p = fst o) (op_calls c s o).
Proof.
  unfold op_calls. destruct (snd o <? 0) eqn:E; [split; constructor|].
  destruct (halving_props c (fst o) 4 s (snd o) ltac:(lia)) as (H1 & H2 & _). auto.
Qed.

Definition granted_total (rs : list ares) : Z := sumZ (map a_limit rs).

Lemma acq_results_sum c : forall ops s,
  granted_total (acq_results c s ops) = gsum (trace c s (acq_calls c s ops)).
Proof.
  induction ops as [|o r IH]; intros s; [reflexivity|].
  cbn [acq_results acq_calls]. unfold granted_total in *. cbn [map sumZ].
  rewrite trace_app, gsum_app, acquire_limit, acquire_state, IH. reflexivity.
Qed.

Lemma acq_calls_nonneg c : forall ops s, nonneg_calls (acq_calls c s ops).
Proof.
  induction ops as [|o r IH]; intros s; [constructor|]. cbn [acq_calls].
  apply Forall_app; split; [exact (proj1 (op_calls_props c s o))|apply IH].
Qed.

Lemma acq_state_run c : forall ops s, acq_state c s ops = run_state c s (acq_calls c s ops).
Proof.
  induction ops as [|o r IH]; intros s; [reflexivity|]. cbn [acq_state acq_calls].
  rewrite run_state_app, acquire_state. apply IH.
Qed.

(* clock readings of the requests: non-decreasing from prev, and the last one *)
Fixpoint ops_sorted (prev : Z) (ops : list (Z * Z)) : Prop :=
  match ops with [] => True | o :: r => prev <= fst o /\ ops_sorted (fst o) r end.
Fixpoint ops_end (prev : Z) (ops : list (Z * Z)) : Z :=
  match ops with [] => prev | o :: r => ops_end (fst o) r end.

Lemma same_time_trace c t : forall calls s prev, prev <= t -> Forall (fun p => fst p = t) calls ->
  sorted_from prev (trace c s calls) = true /\ prev <= end_time prev (trace c s calls) <= t.
Proof.
  induction calls as [|[t' n] r IH]; intros s prev Hp H; [simpl; split; [reflexivity|lia]|].
  apply Forall_cons_iff in H as (H1 & H2). simpl in H1. subst t'. rewrite trace_cons. cbn [sorted_from end_time etime].
  destruct (IH (fst (allow_n c s t n)) t ltac:(lia) H2) as (Hs & He).
  split; [apply Bool.andb_true_iff; split; [lia|exact Hs]|lia].
Qed.

Lemma sorted_from_app : forall a b prev, sorted_from prev a = true -> sorted_from (end_time prev a) b = true ->
  sorted_from prev (a ++ b) = true.
Proof.
  induction a as [|e a IH]; intros b prev Ha Hb; [exact Hb|]. simpl in *.
  apply Bool.andb_true_iff in Ha as (H1 & H2). apply Bool.andb_true_iff; split; [exact H1|apply IH; assumption].
Qed.

Lemma acq_calls_sorted c : forall ops s prev, ops_sorted prev ops ->
  sorted_from prev (trace c s (acq_calls c s ops)) = true /\
  prev <= end_time prev (trace c s (acq_calls c s ops)) <= ops_end prev ops.
Proof.
  induction ops as [|o r IH]; intros s prev Hs; [simpl; split; [reflexivity|lia]|].
  destruct Hs as (Hp & Hr). cbn [acq_calls ops_end]. rewrite trace_app.
  destruct (same_time_trace c (fst o) (op_calls c s o) s prev Hp (proj2 (op_calls_props c s o))) as (S1 & E1).
  set (mid := end_time prev (trace c s (op_calls c s o))) in *.
  assert (Hr' : ops_sorted mid r).
  { destruct r as [|o2 r2]; [exact I|]. destruct Hr as (Hr1 & Hr2). split; [lia|exact Hr2]. }
  destruct (IH (run_state c s (op_calls c s o)) mid Hr') as (S2 & E2).
  rewrite end_time_app. fold mid.
  assert (Hend : ops_end mid r <= ops_end (fst o) r).
  { destruct r as [|o2 r2]; simpl; lia. }
  split; [apply sorted_from_app; assumption|lia].
Qed.

(* any calls with non-decreasing readings from prev, from a good state *)
Lemma calls_bound c s calls prev : cfg_ok c -> C06_Proofs.inv c s -> nonneg_calls calls ->
  sorted_from prev (trace c s calls) = true ->
  NS * gsum (trace c s calls) < cap c + qps c * (end_time prev (trace c s calls) - prev + 1).
Proof.
  intros Hc Hi Hn Hs.
  pose proof (run_potential c calls s prev Hc Hi Hn) as H.
  pose proof (run_inv c calls s Hc Hi Hn) as Hi'.
  pose proof (P_lower c _ (end_time prev (trace c s calls)) Hc Hi').
  assert (P c s prev <= cap c) by (unfold P; lia).
  rewrite (fwd_sorted _ _ Hs) in H. lia.
Qed.

(* C08_tokens_rate: every window of consecutive DoAcquire requests of every history *)
Lemma tokens_rate c l1 w t0 : cfg_ok c -> ops_sorted t0 w ->
  let s1 := acq_state c init_st l1 in
  NS * granted_total (acq_results c s1 w) < cap c + qps c * (ops_end t0 w - t0 + 1).
Proof.
  intros Hc Hs. cbn zeta. rewrite acq_results_sum.
  set (s1 := acq_state c init_st l1).
  assert (Hi : C06_Proofs.inv c s1).
  { unfold s1. rewrite acq_state_run. apply run_inv; [exact Hc|apply init_inv; exact Hc|apply acq_calls_nonneg]. }
  destruct (acq_calls_sorted c w s1 t0 Hs) as (S & E).
  pose proof (calls_bound c s1 (acq_calls c s1 w) t0 Hc Hi (acq_calls_nonneg c w s1) S) as H.
  assert (Hq : 1 <= qps c) by (destruct Hc; lia).
  assert (qps c * (end_time t0 (trace c s1 (acq_calls c s1 w)) - t0 + 1) <= qps c * (ops_end t0 w - t0 + 1)) by nia.
  lia.
Qed.

(* C08_tokens_rate_concurrent: overlapping TryAcquireN calls, clock read under the object's lock *)
Definition wcall_of (e : ev) (x : wcev) : Prop :=
  easked e = wn x /\ 0 <= wn x /\ wadm x = eok e /\ winv x <= etime e <= wresp x.

Lemma conc_sum_le a b : forall evs l, Forall2 wcall_of evs l ->
  conc_sum a b l <= gsum (filter (inr a b) evs).
Proof.
  induction 1 as [|e x evs l (H1 & H0 & H2 & H3) HF IH]; [reflexivity|].
  unfold conc_sum in *. cbn [map sumZ filter].
  assert (Hg : 0 <= granted e) by (unfold granted; destruct (eok e); lia).
  destruct (wadm x && (a <=? winv x) && (wresp x <=? b))%bool eqn:Ei.
  - apply Bool.andb_true_iff in Ei as (Ei & E3). apply Bool.andb_true_iff in Ei as (E1 & E2).
    unfold inr at 1. replace ((a <=? etime e) && (etime e <=? b))%bool with true by lia.
    rewrite gsum_cons. unfold granted at 1. rewrite <- H2, E1, H1. lia.
  - destruct (inr a b e); [rewrite gsum_cons|]; lia.
Qed.

Lemma nonneg_of_events c : forall calls s, Forall (fun e => 0 <= easked e) (trace c s calls) -> nonneg_calls calls.
Proof.
  induction calls as [|[t n] r IH]; intros s H; [constructor|]. rewrite trace_cons in H. inversion H; subst.
  constructor; [assumption|eapply IH; eassumption].
Qed.

Lemma tokens_rate_concurrent c calls l a b : cfg_ok c ->
  (match trace c init_st calls with [] => true | e :: r => sorted_from (etime e) r end) = true ->
  Forall2 wcall_of (trace c init_st calls) l -> a <= b ->
  NS * conc_sum a b l <= cap c + qps c * (b - a + 1).
Proof.
  intros Hc Hs HF Hab.
  assert (Hn : nonneg_calls calls).
  { apply (nonneg_of_events c calls init_st). clear -HF. induction HF as [|e x evs l (H1 & H0 & _) _ IH]; constructor; [lia|exact IH]. }
  pose proof (conc_sum_le a b _ _ HF). pose proof NS_pos.
  pose proof (range_bound c calls a b Hc Hn Hab Hs). nia.
Qed.
