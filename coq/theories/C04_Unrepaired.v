(* C04 — the defects repaired in /repo, kept as refutations of the UNREPAIRED models.
   (a) e0b198a: the dispatcher dropped RawPath        -> %2F forwarded as a path separator;
   (b) c778678: RawPath kept, but net/url ignores a RawPath containing a byte it would escape itself
                (a double quote, '<', '#', bytes >= 0x80) and re-encodes the DECODED path -> same effect;
   (c) ed0d98d: WithCacheControl's default Cache-Control was mixed into the upstream's answer.
   (d) d482638 (a path segment that is not valid UTF-8 made the metrics filter panic: no response at all)
       is not restated here: the model has no notion of the metrics side channel; its witness
       /api/v1/namespaces/n/pods/p/%FF stays in the corpus of the check. *)
From KG Require Import Prelude C02_Model C04_Model C04_Spec.
Open Scope Z_scope.
Open Scope string_scope.
Open Scope list_scope.

Definition finish (u : url) : string := request_uri (director_path u).

(* (a) location.Path only *)
Definition rebuild_no_rawpath (t : string) : option string :=
  match parse_target t with
  | None => None
  | Some u => Some (finish (mkUrl (u_path u) EmptyString (encode_query (parse_query (u_query u)))))
  end.

Theorem C04_path_segments_refuted_no_rawpath :
  exists t uri, rebuild_no_rawpath t = Some uri /\ segments (path_of uri) <> segments (path_of t).
Proof.
  exists "/apis/x/v1/things/a%2Fb/sub%41", "/apis/x/v1/things/a/b/subA".
  split; [vm_compute; reflexivity|vm_compute; discriminate].
Qed.
Print Assumptions C04_path_segments_refuted_no_rawpath.

(* (b) location.RawPath = req.URL.RawPath, without the per-segment re-encoding *)
Definition rebuild_raw_only (t : string) : option string :=
  match parse_target t with
  | None => None
  | Some u => Some (finish (mkUrl (u_path u) (u_rawpath u) (encode_query (parse_query (u_query u)))))
  end.

Theorem C04_path_segments_refuted_raw_only :
  exists t uri, rebuild_raw_only t = Some uri /\ segments (path_of uri) <> segments (path_of t).
Proof.
  exists "/apis/x/v1/things/a%2Fb/""x", "/apis/x/v1/things/a/b/%22x".
  split; [vm_compute; reflexivity|vm_compute; discriminate].
Qed.
Print Assumptions C04_path_segments_refuted_raw_only.

(* (c) copyHeader ADDS the upstream's headers to a response that already carries the filter's default *)
Definition relay_headers_with_default (h : headers) : headers :=
  ("Cache-Control", ["no-cache, private"]) :: relay_headers h.

Theorem C04_response_relayed_refuted_cache_control :
  exists rh k, resp_key (read_headers rh) k = true /\
               h_values k (relay_headers_with_default rh) <> h_values k (read_headers rh).
Proof.
  exists [("Cache-Control", ["max-age=3"])], "Cache-Control". split; [reflexivity|vm_compute; discriminate].
Qed.
Print Assumptions C04_response_relayed_refuted_cache_control.
