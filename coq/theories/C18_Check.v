(* C18 — case format of the correspondence run and its evaluator. *)
From KG Require Import Prelude C13_Model C19_Model C18_Model C18_Spec.
Open Scope Z_scope.

Inductive case :=
| CHist (c : cfg) (tr : list (sop * obs)).

Definition sub {K V} (keqb : K -> K -> bool) (veqb : V -> V -> bool) (a b : list (K * V)) : bool :=
  forallb (fun p => opt_eqb veqb (alookup keqb (fst p) b) (Some (snd p))) a.
Definition seteq {K V} (keqb : K -> K -> bool) (veqb : V -> V -> bool) (a b : list (K * V)) : bool :=
  (sub keqb veqb a b && sub keqb veqb b a && Nat.eqb (List.length a) (List.length b))%bool.

Definition fcst_eqb (a b : fcst) : bool := (seteq String.eqb Z.eqb (fst a) (fst b) && (snd a =? snd b))%bool.

Definition agree_step (m : res * srv) (b : obs) : bool :=
  let '(q, x) := m in
  let s := core x in
  let vis := fun {A} (l : list A) => if lead x then l else [] in
  (res_eqb q (ores b)
   && forallb (fun i => str_mem i (oclients b)) (map fst (hb s))
   && Nat.eqb (List.length (hb s)) (List.length (oclients b))
   && seteq key_eqb cnd_eqb (vis (conds s)) (oconds b)
   && seteq key_eqb cnd_eqb (conds s) (opers b)
   && seteq String.eqb Z.eqb (vis (sums s)) (osums b)
   && seteq String.eqb fcst_eqb (cnts s) (ocnts b)
   && seteq String.eqb fcst_eqb (cnts s) (ocnts2 b) && (oother b =? 0))%bool.

Definition agree_hist (c : cfg) (tr : list (sop * obs)) : bool :=
  forall2b agree_step (srun c impl_label_fix impl_acquire_hb (sinit c) (map fst tr)) (map snd tr).

(* clause layout: agree, live, reclaimed, capacity *)
Definition eval (c : case) : list bool :=
  match c with
  | CHist c tr => agree_hist c tr :: hist_ok (ups c) tr
  end.
