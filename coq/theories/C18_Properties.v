(* C18 — property theorems (statements only; proofs live in C18_Proofs.v).
   step c lf ah : lf = the instance label is the condition's own Spec.Instance, ah = DoAcquire
   records the acquiring instance in the client cache (the two repairs; the tree under test has
   both).  Every theorem quantifies over the state it starts from (Inv / CountCached hold in every
   reachable state: Inv_init, Inv_run, reach_inv) and over arbitrary histories and timings. *)
From KG Require Import Prelude C13_Model C19_Model C19_Proofs C18_Model C18_Proofs.
Open Scope Z_scope.

(* an instance that is in the client cache and, at every timeout pass of the history, has a
   heartbeat at most 3 s old, keeps its condition and its counted in-flight for every upstream that
   stays in the lister — through both kinds of cleanup pass and through anything the other instances
   do (its own reports and acquires, which replace that state, are excluded by [idle]) *)
Theorem C18_live_kept : forall c ah i u ops s h,
  Inv true s -> alookup String.eqb i (hb s) = Some h -> live_along c ah i s ops -> Forall (idle i) ops ->
  str_mem u (lister s) = true -> Forall (fun o => o <> ClusterGone u) ops ->
  let s' := run_state c true ah s ops in
  (exists h', alookup String.eqb i (hb s') = Some h')
  /\ cond_of u i s' = cond_of u i s /\ count_of u i s' = count_of u i s.
Proof. exact live_kept. Qed.
Print Assumptions C18_live_kept.

(* the same over histories in which the replica loses and regains its shard any number of times
   (StopLeading / StartLeading), heartbeats arrive while it leads nothing, and clean-up passes run at
   any point: the client cache records every heartbeat whether or not the replica leads, so an instance
   whose heartbeat is at most 3 s old at every timeout pass keeps its cache entry and its persisted
   condition — in particular through the unknown-condition pass right after a take-over *)
Theorem C18_takeover_keeps_live : forall c ah i u ops x h,
  Inv true (core x) -> alookup String.eqb i (hb (core x)) = Some h -> slive_along c ah i x ops -> Forall (sidle i) ops ->
  str_mem u (lister (core x)) = true -> Forall (fun o => o <> Op (ClusterGone u)) ops ->
  let x' := srun_state c true ah x ops in
  (exists h', alookup String.eqb i (hb (core x')) = Some h') /\ cond_of u i (core x') = cond_of u i (core x).
Proof. exact takeover_keeps_live. Qed.
Print Assumptions C18_takeover_keeps_live.

(* non-vacuity: g1 and g2 hold conditions; the replica loses the shard; g1 keeps heartbeating the
   standby, g2 does not; the cache is aged, the shard is regained and the unknown-condition pass runs at
   once: g1's persisted condition is kept, g2's is reclaimed *)
Example C18_takeover_nonvacuous :
  let ops1 := [Op (Heartbeat "g1"); Op (Heartbeat "g2"); Op (Report "a" "g1" 50); Op (Report "a" "g2" 47)]%string in
  let x := srun_state cfg0 true true (sinit cfg0) ops1 in
  let ops := [StopLeading; Op (Advance 2000); Op (Heartbeat "g1"); Op (Advance 2000); Op TickTimeout;
              StartLeading; Op TickUnknown; Op TickTimeout]%string in
  let x' := srun_state cfg0 true true x ops in
  slive_along cfg0 true "g1" x ops /\ Forall (sidle "g1") ops
  /\ lead x' = true
  /\ cond_of "a" "g1" (core x') = Some (50, "g1"%string) /\ cond_of "a" "g2" (core x) = Some (47, "g2"%string)
  /\ cond_of "a" "g2" (core x') = None.
Proof.
  intros ops1 x ops x'. split.
  - vm_compute.
    repeat match goal with
           | |- _ /\ _ => split
           | |- True => exact I
           | |- Op _ = Op _ -> _ => let E := fresh in intros E; try discriminate E
           | |- StopLeading = _ -> _ => let E := fresh in intros E; discriminate E
           | |- StartLeading = _ -> _ => let E := fresh in intros E; discriminate E
           | |- exists _, _ => eexists
           | |- Some _ = Some _ => reflexivity
           | |- _ = Gt -> False => let X := fresh in intros X; discriminate X
           end.
  - split; [repeat constructor|]. vm_compute. repeat split; reflexivity.
Qed.

(* an upstream that left the lister without its handler running is deleted as a whole by the
   unknown-condition pass (conditions, recorded sum, counted in-flight) as soon as it holds a condition
   — the upstream state condition included — of an instance that is not in the cache *)
Theorem C18_orphan_upstream_removed : forall c lf ah s u, orphan s u = true ->
  let s' := fst (step c lf ah s TickUnknown) in
  (forall i, cond_of u i s' = None) /\ alookup String.eqb u (sums s') = None /\ (forall i, count_of u i s' = None).
Proof. exact orphan_removed. Qed.
Print Assumptions C18_orphan_upstream_removed.

(* code before the repair (label copied from the previous condition): refuted *)
Theorem C18_live_kept_refuted :
  let ops := [Heartbeat ""; Heartbeat "g1"; Report "a" "g1" 50; Advance 1500; Heartbeat "g1"; Advance 1800; Heartbeat "g1"]%string in
  let s := run_state cfg0 false false (init cfg0) ops in
  alookup String.eqb "g1"%string (hb s) = Some (now s) /\ cond_of "a" "g1" s = Some (50, ""%string)
  /\ cond_of "a" "g1" (fst (step cfg0 false false s TickTimeout)) = None.
Proof. exact live_kept_refuted. Qed.
Print Assumptions C18_live_kept_refuted.

(* an instance whose cache entry (if it has one) is more than 3 s old when a timeout pass runs, and
   that stays silent: from that pass on nothing is counted for it (and it has no condition if the
   pass found it in the cache); from the next unknown-condition pass on it has no condition, no
   count and no cache entry, whatever else happens.  Passes run every 1 s / 30 s, so this is
   reached within 3 s + 1 s + 30 s of the last sign of life. *)
Theorem C18_reclaimed : forall c i s ops2 ops3,
  Inv true s -> CountCached s -> i <> EmptyString ->
  (forall h, alookup String.eqb i (hb s) = Some h -> now s > h + timeout_ms) ->
  Forall (quiet i) ops2 -> Forall (quiet i) ops3 ->
  let s2 := run_state c true true (fst (step c true true s TickTimeout)) ops2 in
  let s5 := run_state c true true (fst (step c true true s2 TickUnknown)) ops3 in
  (alookup String.eqb i (hb s2) = None /\ (forall u, count_of u i s2 = None)
   /\ (alookup String.eqb i (hb s) <> None -> forall u, cond_of u i s2 = None))
  /\ (alookup String.eqb i (hb s5) = None /\ (forall u, count_of u i s5 = None) /\ (forall u, cond_of u i s5 = None)).
Proof. exact reclaimed. Qed.
Print Assumptions C18_reclaimed.

(* the hypotheses of C18_reclaimed hold in every reachable state of the repaired model *)
Theorem C18_reachable_inv : forall c ops,
  Inv true (run_state c true true (init c) ops) /\ CountCached (run_state c true true (init c) ops).
Proof. exact reach_inv. Qed.
Print Assumptions C18_reachable_inv.

(* code before the second repair (DoAcquire does not record the client): refuted *)
Theorem C18_reclaimed_refuted :
  let ops := [Heartbeat "g1"; Acquire "a" "g1" 5; Advance 3500; TickTimeout; Acquire "a" "g1" 5;
              Advance 4000; TickTimeout; TickUnknown; Advance 40000; TickTimeout; TickUnknown; Heartbeat "g2"]%string in
  let s := run_state cfg0 true false (init cfg0) ops in
  alookup String.eqb "g1"%string (hb s) = None /\ count_of "a" "g1" s = Some 5
  /\ snd (step cfg0 true false s (Acquire "a" "g2" 6)) = RAcc false.
Proof. exact reclaimed_refuted. Qed.
Print Assumptions C18_reclaimed_refuted.

(* a report records the allocated sum of its upstream as the sum over the conditions that exist:
   an instance without a condition (reclaimed) contributes nothing to what the survivors see *)
Theorem C18_capacity_returns : forall c lf ah s u j q i,
  alookup String.eqb u (sums s) <> None ->
  let s' := fst (step c lf ah s (Report u j q)) in
  alookup String.eqb u (sums s') = Some (sum_quota u (conds s'))
  /\ (forall u' i', (u', i') <> (u, j) -> cond_of u' i' s' = cond_of u' i' s)
  /\ ((forall v, ~ In ((u, i), v) (conds s')) ->
      sum_quota u (conds s') = sum_quota u (filter (fun p : key * cnd => negb (String.eqb (snd (fst p)) i)) (conds s'))).
Proof.
  intros c lf ah s u j q i Hu s'. destruct (capacity_returns c lf ah s u j q Hu) as [A B].
  split; [exact A|]. split; [exact B|]. apply sum_quota_without.
Qed.
Print Assumptions C18_capacity_returns.

(* non-vacuity: join, report, acquire, one instance goes silent and is reclaimed, the other stays *)
Example C18_nonvacuous :
  let ops1 := [Heartbeat "g1"; Heartbeat "g2"; Report "a" "g1" 50; Report "a" "g2" 47; Acquire "a" "g1" 4;
               Acquire "a" "g2" 3; Advance 1000; Heartbeat "g2"; TickTimeout; Advance 2500; Heartbeat "g2"]%string in
  let s := run_state cfg0 true true (init cfg0) ops1 in
  let ops2 := [Heartbeat "g2"; Report "a" "g2" 60]%string in
  let s2 := run_state cfg0 true true (fst (step cfg0 true true s TickTimeout)) ops2 in
  (exists h, alookup String.eqb "g1"%string (hb s) = Some h /\ now s > h + timeout_ms)
  /\ Forall (quiet "g1") ops2
  /\ cond_of "a" "g1" s = Some (50, "g1"%string) /\ count_of "a" "g1" s = Some 4
  /\ cond_of "a" "g1" s2 = None /\ count_of "a" "g1" s2 = None
  /\ cond_of "a" "g2" s2 = Some (60, "g2"%string) /\ count_of "a" "g2" s2 = Some 3
  /\ alookup String.eqb "a"%string (sums s2) = Some 60
  /\ live_along cfg0 true "g2" (init cfg0) (ops1 ++ [TickTimeout]).
Proof.
  intros ops1 s ops2 s2. split; [exists 0; vm_compute; split; reflexivity|].
  split; [repeat constructor; discriminate|].
  vm_compute. repeat split; try reflexivity; try discriminate;
    try (intros _; eexists; split; [reflexivity|intros X; discriminate X]).
Qed.
