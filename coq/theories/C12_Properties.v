(* C12 — property theorems (statements only; proofs live in C12_Proofs.v). *)
From KG Require Import Prelude C12_Model C12_Spec C12_Proofs.
Open Scope Z_scope.
Open Scope string_scope.

(* Over every configuration (registry of names/aliases, endpoint counts, the four TTLs, retry bounds),
   every answer oracle (an arbitrary function of cluster and call index, for token reviews and for
   subject access reviews) and every sequence of operations (requests for any hosts with any
   tokens / attributes at any clock values, endpoint status changes, cluster replacement, cache
   evictions, and pairs of overlapping requests), what the caller gets is either what the LAST review made during this very request
   means — and that review was answered by the request's own cluster — or, when no review was made, an
   answer the same cluster gave earlier to the same key, within its TTL and since that cluster was last
   replaced.  Never an answer of another cluster. *)
Theorem C12_answer_provenance : forall cfg torc sorc ops,
  let '((_, _, fresh, cached), _) := spec_ok cfg torc sorc (runx cfg torc sorc (init cfg) ops) in
  fresh = true /\ cached = true.
Proof. exact provenance_ok. Qed.
Print Assumptions C12_answer_provenance.

(* what a positive answer of the checker's provenance search means *)
Theorem C12_source_meaning : forall (R : Type) (eqb : R -> R -> bool) hist c k (r : R) now,
  has_source eqb hist c k r now = true ->
  exists pre r' exp post,
    hist = (pre ++ HFill c k r' exp :: post)%list /\ eqb r r' = true /\ now <= exp /\ ~ In (HRestart c) pre.
Proof. exact @has_source_sound. Qed.
Print Assumptions C12_source_meaning.

(* If the cluster the request is addressed to cannot be asked (no ExtraRequestInfo, unknown host, no
   ready endpoint): not authenticated / denied with an error, no review sent to anybody, no cache
   read or written — in every state, i.e. whatever other clusters have answered or cached before. *)
Theorem C12_unavailable_denies : forall cfg torc sorc s ho,
  can_ask cfg (eps s) ho = None ->
  (forall tok now, exists e,
      e <> ENone /\
      snd (step cfg torc sorc s (OAuthn ho tok now)) = OutT {| t_user := None; t_ok := false; t_err := e |} [] /\
      same_state (fst (step cfg torc sorc s (OAuthn ho tok now))) s) /\
  (forall a now, exists e,
      e <> ENone /\
      snd (step cfg torc sorc s (OAuthz ho a now)) = OutS {| s_dec := DDeny; s_reason := EmptyString; s_err := e |} [] /\
      same_state (fst (step cfg torc sorc s (OAuthz ho a now))) s).
Proof. exact unavailable_denies. Qed.
Print Assumptions C12_unavailable_denies.

(* Caches are disjoint structures, one per (host, serving cluster): an operation that does not concern
   the cache id2 = (h2, c2) (a request or eviction for another host, a replacement / deletion of another
   cluster, an endpoint status change, a server name moving) leaves everything that token cache and
   SAR cache return unchanged. *)
Theorem C12_no_shared_entry : forall cfg torc sorc s o id2,
  ~ touches o id2 ->
  forall k, kc (ts (fst (step cfg torc sorc s o))) id2 k = kc (ts s) id2 k /\
            kc (ss (fst (step cfg torc sorc s o))) id2 k = kc (ss s) id2 k.
Proof. exact no_shared_entry. Qed.
Print Assumptions C12_no_shared_entry.

(* Each review is sent to a ready endpoint of the request's own cluster: an endpoint that is in the
   cluster's CURRENT server list (after all additions / removals / re-homings so far), healthy and
   not disabled ... *)
Theorem C12_own_cluster : forall cfg torc sorc s o cl,
  In cl (out_calls (snd (step cfg torc sorc s o))) ->
  exists h, op_host o = Some h /\ cluster_of (eps s) h = Some (fst cl) /\ snd cl = true /\
    exists srv st, In (srv, st) (e_list (eps s) (fst cl)) /\ ep_ready st = true.
Proof. exact own_cluster. Qed.
Print Assumptions C12_own_cluster.

(* ... and no other cluster is asked (its answer oracle is not advanced). *)
Theorem C12_other_clusters_not_asked : forall cfg torc sorc s o c2,
  (forall h, op_host o = Some h -> cluster_of (eps s) h <> Some c2) ->
  kn (ts (fst (step cfg torc sorc s o))) c2 = kn (ts s) c2 /\
  kn (ss (fst (step cfg torc sorc s o))) c2 = kn (ss s) c2.
Proof. exact other_clusters_not_asked. Qed.
Print Assumptions C12_other_clusters_not_asked.

(* Two requests in flight at the same time, addressed to hosts of different clusters (or to a host
   that names no cluster): whichever completes first, both callers get the same results, the same
   reviews are sent, and the final state is the same (same endpoints, same cache contents for every
   host and key, same review counters for every cluster).  So an overlap is equivalent to either
   sequential order, and the model's [Ovl a b] = "a then b" loses nothing. *)
Theorem C12_overlap_commutes : forall cfg torc sorc s a b,
  is_request a = true -> is_request b = true ->
  (op_cluster (eps s) a = None \/ op_cluster (eps s) b = None \/ op_cluster (eps s) a <> op_cluster (eps s) b) ->
  let ra := step cfg torc sorc s a in
  let rab := step cfg torc sorc (fst ra) b in
  let rb := step cfg torc sorc s b in
  let rba := step cfg torc sorc (fst rb) a in
  snd ra = snd rba /\ snd rab = snd rb /\ state_eqv (fst rab) (fst rba).
Proof. exact overlap_commutes. Qed.
Print Assumptions C12_overlap_commutes.

(* A request through the proxy chain (ExtraRequestInfo -> WithUpstreamInfo -> bearer authentication ->
   impersonation filter -> dispatcher) that reaches the dispatcher is dispatched to the cluster its
   Host names, and every TokenReview / SubjectAccessReview made for it was received by that same cluster
   (nothing but the Host decides either) ... *)
Theorem C12_dispatch_cluster_is_review_cluster : forall cfg torc sorc s h tok imp now t z d,
  snd (stepx cfg torc sorc s (Chain h tok imp now)) = RC t z (Some d) ->
  cluster_of (eps s) h = Some d /\
  (forall x cl, (t = Some x \/ z = Some x) -> In cl (out_calls x) -> fst cl = d /\ snd cl = true).
Proof. exact chain_dispatch. Qed.
Print Assumptions C12_dispatch_cluster_is_review_cluster.

(* ... and on every history the executable clause same_cluster holds: whatever decided a dispatched
   request — fresh reviews or cached answers — came from the cluster it is dispatched to. *)
Theorem C12_same_cluster_history : forall cfg torc sorc ops,
  snd (spec_ok cfg torc sorc (runx cfg torc sorc (init cfg) ops)) = true.
Proof. exact dispatch_ok. Qed.
Print Assumptions C12_same_cluster_history.

(* What a request for host h gets depends on nothing but the endpoints, the cache (h, c) of the cluster c
   that owns h NOW and c's own oracle: whatever was cached for h while it was a server name of another
   cluster (or of an earlier incarnation, whose caches are dropped when it stops) cannot influence it. *)
Theorem C12_owner_cache_only : forall cfg torc sorc s s' h c,
  eps s = eps s' -> cluster_of (eps s) h = Some c ->
  (forall k, kc (ts s) (h, c) k = kc (ts s') (h, c) k) -> kn (ts s) c = kn (ts s') c ->
  (forall k, kc (ss s) (h, c) k = kc (ss s') (h, c) k) -> kn (ss s) c = kn (ss s') c ->
  (forall tok now, snd (step cfg torc sorc s (OAuthn (Some h) tok now)) = snd (step cfg torc sorc s' (OAuthn (Some h) tok now))) /\
  (forall a now, snd (step cfg torc sorc s (OAuthz (Some h) a now)) = snd (step cfg torc sorc s' (OAuthz (Some h) a now))).
Proof. exact owner_cache_only. Qed.
Print Assumptions C12_owner_cache_only.

(* All five clauses of the executable specification hold on every history of the model. *)
Theorem C12_history : forall cfg torc sorc ops,
  spec_ok cfg torc sorc (runx cfg torc sorc (init cfg) ops) = ((true, true, true, true), true).
Proof. exact history_ok. Qed.
Print Assumptions C12_history.

(* ---------- non-vacuity ---------- *)
Definition ex_cfg : config :=
  {| reg := [("a", "a"); ("b", "b"); ("alias-a", "a")]; servers := [("a", ["a0"; "a1"]); ("b", ["b0"])];
     sttl := 100; fttl := 10; attl := 100; dttl := 10; tretries := 3%nat; sretries := 4%nat |}.
Definition ex_torc := script_orc (TFail 0 false)
  [("a", [TAuth "alice@a" "1"; TFail 7 true; TAuth "alice@a" "1"]); ("b", [TUnauth; TAuth "mallory@b" "9"])].
Definition ex_sorc := script_orc (SFail 0 false)
  [("a", [SStatus true false "ok@a"]); ("b", [SStatus false true "no@b"; SStatus false false "none@b"])].
Definition ex_attrs : attrs :=
  {| a_user := "alice"; a_uid := ""; a_groups := ["dev"]; a_isres := true; a_ns := "default"; a_verb := "get";
     a_group := ""; a_version := "v1"; a_resource := "pods"; a_subres := ""; a_name := "p"; a_path := "" |}.

(* same token / same attributes alternating between hosts of two clusters: every answer comes from the
   host's own cluster, hits stay within the host, the other spelling "A" of a has its own cache (filled
   by asking a again, with one retried failure), a cluster without ready endpoint is refused, a
   replaced cluster is asked again *)
Example C12_history_nonvacuous :
  let ops := [OHealthy "a1" true; OHealthy "b0" true;
              OAuthn (Some "a") "tok" 0; OAuthn (Some "b") "tok" 1; OAuthn (Some "A") "tok" 2;
              OAuthn (Some "a") "tok" 3; OAuthn (Some "b") "tok" 11;
              OAuthz (Some "a") ex_attrs 4; OAuthz (Some "b") ex_attrs 5; OAuthz (Some "b") ex_attrs 15;
              OAuthz (Some "b") ex_attrs 16; OAuthz (Some "a") ex_attrs 104; OAuthz (Some "a") ex_attrs 105;
              ODisabled "b0" true; OAuthz (Some "b") ex_attrs 17; OAuthn (Some "nowhere") "tok" 18; OAuthn None "tok" 19;
              ORestart "a"; OAuthn (Some "a") "tok" 20; OHealthy "a0" true; OAuthn (Some "a") "tok" 21] in
  map snd (run ex_cfg ex_torc ex_sorc (init ex_cfg) ops) =
  [OutNone; OutNone;
   OutT {| t_user := Some ("alice@a", "1"); t_ok := true; t_err := ENone |} [("a", true)];
   OutT {| t_user := None; t_ok := false; t_err := ENone |} [("b", true)];
   OutT {| t_user := Some ("alice@a", "1"); t_ok := true; t_err := ENone |} [("a", true); ("a", true)];
   OutT {| t_user := Some ("alice@a", "1"); t_ok := true; t_err := ENone |} [];
   OutT {| t_user := Some ("mallory@b", "9"); t_ok := true; t_err := ENone |} [("b", true)];
   OutS {| s_dec := DAllow; s_reason := "ok@a"; s_err := ENone |} [("a", true)];
   OutS {| s_dec := DDeny; s_reason := "no@b"; s_err := ENone |} [("b", true)];
   OutS {| s_dec := DDeny; s_reason := "no@b"; s_err := ENone |} [];
   OutS {| s_dec := DNoOpinion; s_reason := "none@b"; s_err := ENone |} [("b", true)];
   OutS {| s_dec := DAllow; s_reason := "ok@a"; s_err := ENone |} [];
   OutS {| s_dec := DDeny; s_reason := ""; s_err := EUp 0 |} [("a", true)];
   OutNone;
   OutS {| s_dec := DDeny; s_reason := ""; s_err := ENoReady |} [];
   OutT {| t_user := None; t_ok := false; t_err := ENotFound |} [];
   OutT {| t_user := None; t_ok := false; t_err := ENoInfo |} [];
   OutNone;
   OutT {| t_user := None; t_ok := false; t_err := ENoReady |} [];
   OutNone;
   OutT {| t_user := None; t_ok := false; t_err := EUp 0 |} [("a", true)]].
Proof. vm_compute. reflexivity. Qed.

(* the hypothesis of C12_unavailable_denies is satisfiable in a state where ANOTHER cluster has a
   valid cached answer for the same token *)
Example C12_unavailable_denies_nonvacuous :
  let s := run_state ex_cfg ex_torc ex_sorc (init ex_cfg) [OHealthy "a0" true; OAuthn (Some "a") "tok" 0] in
  can_ask ex_cfg (eps s) (Some "b") = None /\
  (exists v, kc (ts s) ("a", "a") ["tok"] = Some v) /\
  snd (step ex_cfg ex_torc ex_sorc s (OAuthn (Some "b") "tok" 1))
  = OutT {| t_user := None; t_ok := false; t_err := ENoReady |} [].
Proof. vm_compute. split; [reflexivity|]. split; [eexists; reflexivity|reflexivity]. Qed.

(* the hypothesis of C12_no_shared_entry is satisfiable: a request for b while a's cache is filled *)
Example C12_no_shared_entry_nonvacuous :
  ~ touches (OAuthn (Some "b") "tok" 1) ("a", "a") /\ ~ touches (ORestart "b") ("alias-a", "a") /\
  touches (ORestart "a") ("alias-a", "a") /\ ~ touches (OUnname "a" "alias-a") ("alias-a", "a").
Proof. repeat split; vm_compute; try discriminate; tauto. Qed.

(* the specification is not trivially true: a history in which host b is served cluster a's cached
   answer without any review (the cross-cluster leak) fails clause 4, and a review that reaches the
   wrong cluster fails clause 1 *)
Example C12_spec_rejects_leak :
  spec_ok ex_cfg ex_torc ex_sorc
    [(One (OHealthy "a0" true), R1 OutNone); (One (OHealthy "b0" true), R1 OutNone);
     (One (OAuthn (Some "a") "tok" 0), R1 (OutT {| t_user := Some ("alice@a", "1"); t_ok := true; t_err := ENone |} [("a", true)]));
     (One (OAuthn (Some "b") "tok" 1), R1 (OutT {| t_user := Some ("alice@a", "1"); t_ok := true; t_err := ENone |} []))]
  = ((true, true, true, false), true)
  /\
  spec_ok ex_cfg ex_torc ex_sorc
    [(One (OHealthy "a0" true), R1 OutNone); (One (OHealthy "b0" true), R1 OutNone);
     (One (OAuthn (Some "b") "tok" 0), R1 (OutT {| t_user := Some ("alice@a", "1"); t_ok := true; t_err := ENone |} [("a", true)]))]
  = ((false, true, true, true), true)
  /\
  spec_ok ex_cfg ex_torc ex_sorc
    [(One (OHealthy "a0" true), R1 OutNone);
     (One (OAuthz (Some "b") ex_attrs 0), R1 (OutS {| s_dec := DAllow; s_reason := "ok@a"; s_err := ENone |} [("a", true)]))]
  = ((false, false, true, true), true).
Proof. vm_compute. repeat split. Qed.

(* overlapping requests: the same attributes for a host of a and a host of b while a's review is in
   flight — b's caller gets b's own answer; the history in which it gets a's (no review sent to b) and
   the later sequential request to b served from that poisoned entry are both rejected by clause 4 *)
Example C12_overlap_nonvacuous :
  let ops := [One (OHealthy "a0" true); One (OHealthy "b0" true);
              Ovl (OAuthz (Some "a") ex_attrs 0) (OAuthz (Some "b") ex_attrs 0);
              One (OAuthz (Some "b") ex_attrs 1)] in
  map snd (runx ex_cfg ex_torc ex_sorc (init ex_cfg) ops) =
  [R1 OutNone; R1 OutNone;
   R2 (OutS {| s_dec := DAllow; s_reason := "ok@a"; s_err := ENone |} [("a", true)])
      (OutS {| s_dec := DDeny; s_reason := "no@b"; s_err := ENone |} [("b", true)]);
   R1 (OutS {| s_dec := DDeny; s_reason := "no@b"; s_err := ENone |} [])]
  /\
  (op_cluster (init_eps ex_cfg) (OAuthz (Some "a") ex_attrs 0) <> op_cluster (init_eps ex_cfg) (OAuthz (Some "b") ex_attrs 0))
  /\
  spec_ok ex_cfg ex_torc ex_sorc
    [(One (OHealthy "a0" true), R1 OutNone); (One (OHealthy "b0" true), R1 OutNone);
     (Ovl (OAuthz (Some "a") ex_attrs 0) (OAuthz (Some "b") ex_attrs 0),
      R2 (OutS {| s_dec := DAllow; s_reason := "ok@a"; s_err := ENone |} [("a", true)])
         (OutS {| s_dec := DAllow; s_reason := "ok@a"; s_err := ENone |} []));
     (One (OAuthz (Some "b") ex_attrs 1), R1 (OutS {| s_dec := DAllow; s_reason := "ok@a"; s_err := ENone |} []))]
  = ((true, true, true, false), true).
Proof. vm_compute. split; [reflexivity|]. split; [discriminate|reflexivity]. Qed.

(* server lists change: a0 is removed from a and re-homed to b.  Requests for a are then answered by
   a's remaining endpoint (or refused while a has none that is ready), never through a0; the history
   in which the review for a is received by a0 — now an endpoint of b, answering as b — is rejected by
   clause 1 *)
Example C12_rehoming_nonvacuous :
  let ops := [One (OHealthy "a0" true); One (OHealthy "b0" true); One (OAuthn (Some "a") "t1" 0);
              One (ORemoveEp "a" "a0"); One (OAddEp "b" "a0"); One (OHealthy "a0" true);
              One (OAuthn (Some "a") "t2" 1); One (OHealthy "a1" true); One (OAuthn (Some "a") "t2" 2);
              One (ODisabled "b0" true); One (OAuthn (Some "b") "t2" 3)] in
  map snd (runx ex_cfg ex_torc ex_sorc (init ex_cfg) ops) =
  [R1 OutNone; R1 OutNone; R1 (OutT {| t_user := Some ("alice@a", "1"); t_ok := true; t_err := ENone |} [("a", true)]);
   R1 OutNone; R1 OutNone; R1 OutNone;
   R1 (OutT {| t_user := None; t_ok := false; t_err := ENoReady |} []); R1 OutNone;
   R1 (OutT {| t_user := Some ("alice@a", "1"); t_ok := true; t_err := ENone |} [("a", true); ("a", true)]);
   R1 OutNone;
   R1 (OutT {| t_user := None; t_ok := false; t_err := ENone |} [("b", true)])]
  /\
  e_list (eps (fst (stepx ex_cfg ex_torc ex_sorc
                      (fst (stepx ex_cfg ex_torc ex_sorc (init ex_cfg) (One (ORemoveEp "a" "a0")))) (One (OAddEp "b" "a0"))))) "b"
  = [("b0", (false, false)); ("a0", (false, false))]
  /\
  spec_ok ex_cfg ex_torc ex_sorc
    [(One (OHealthy "a0" true), R1 OutNone); (One (OHealthy "b0" true), R1 OutNone);
     (One (ORemoveEp "a" "a0"), R1 OutNone); (One (OAddEp "b" "a0"), R1 OutNone); (One (OHealthy "a0" true), R1 OutNone);
     (One (OAuthn (Some "a") "t2" 1), R1 (OutT {| t_user := None; t_ok := false; t_err := ENone |} [("b", true)]))]
  = ((false, false, true, true), true).
Proof. vm_compute. repeat split. Qed.

(* chain requests: authenticated by a, allowed to impersonate by a, dispatched to a; refused ones never
   reach the dispatcher.  A history in which the same request is dispatched to b although a's reviews
   decided it (TLS SNI naming b) fails clause 5 only. *)
Example C12_chain_nonvacuous :
  let ops := [One (OHealthy "a0" true); One (OHealthy "b0" true);
              Chain "a" "tok" (Some "admin") 0; Chain "a" "tok" None 1; Chain "b" "tok" None 2;
              Chain "nowhere" "tok" None 3; Chain "b" "tok" (Some "admin") 12] in
  map snd (runx ex_cfg ex_torc ex_sorc (init ex_cfg) ops) =
  [R1 OutNone; R1 OutNone;
   RC (Some (OutT {| t_user := Some ("alice@a", "1"); t_ok := true; t_err := ENone |} [("a", true)]))
      (Some (OutS {| s_dec := DAllow; s_reason := "ok@a"; s_err := ENone |} [("a", true)])) (Some "a");
   RC (Some (OutT {| t_user := Some ("alice@a", "1"); t_ok := true; t_err := ENone |} [])) None (Some "a");
   RC (Some (OutT {| t_user := None; t_ok := false; t_err := ENone |} [("b", true)])) None None;
   RC None None None;
   RC (Some (OutT {| t_user := Some ("mallory@b", "9"); t_ok := true; t_err := ENone |} [("b", true)]))
      (Some (OutS {| s_dec := DDeny; s_reason := "no@b"; s_err := ENone |} [("b", true)])) None]
  /\
  spec_ok ex_cfg ex_torc ex_sorc
    [(One (OHealthy "a0" true), R1 OutNone); (One (OHealthy "b0" true), R1 OutNone);
     (Chain "a" "tok" (Some "admin") 0,
      RC (Some (OutT {| t_user := Some ("alice@a", "1"); t_ok := true; t_err := ENone |} [("a", true)]))
         (Some (OutS {| s_dec := DAllow; s_reason := "ok@a"; s_err := ENone |} [("a", true)])) (Some "b"));
     (Chain "a" "tok" None 1,
      RC (Some (OutT {| t_user := Some ("alice@a", "1"); t_ok := true; t_err := ENone |} [])) None (Some "b"))]
  = ((true, true, true, true), false).
Proof. vm_compute. split; reflexivity. Qed.

(* server names move between running clusters; clusters are deleted and re-created.
   H1: a (alias h, allows) and b (denies); request via h -> a asked; h moves a -> b; same request via h
       -> b asked (a's cached allow is NOT applied); h moves back to a -> a's entry, still within its TTL
       and from the same incarnation, is used again.
   H2: after the move and past the TTL b is asked and its answer cached; b is deleted and re-created; the
       same request via h asks the new b.
   The histories in which the moved host is served the old owner's cached answer without any review
   fail clause 4. *)
Example C12_moves_nonvacuous :
  let cfg := {| reg := [("a", "a"); ("b", "b"); ("h", "a")]; servers := [("a", ["a0"]); ("b", ["b0"])];
                sttl := 100; fttl := 100; attl := 100; dttl := 100; tretries := 3%nat; sretries := 4%nat |} in
  let torc := script_orc (TFail 0 false) [("a", [TAuth "alice@a" "1"]); ("b", [TUnauth; TAuth "bob@b" "2"; TUnauth])] in
  let sorc := script_orc (SFail 0 false) [("a", [SStatus true false "ok@a"]); ("b", [SStatus false true "no@b"; SStatus false false "none@b"])] in
  let ops := [One (OHealthy "a0" true); One (OHealthy "b0" true);
              One (OAuthn (Some "h") "t" 0); One (OAuthz (Some "h") ex_attrs 0);
              One (OUnname "a" "h"); One (OAuthn (Some "h") "t" 1); One (OName "b" "h");
              One (OAuthn (Some "h") "t" 2); One (OAuthz (Some "h") ex_attrs 2);
              One (OUnname "b" "h"); One (OName "a" "h"); One (OAuthn (Some "h") "t" 3);
              One (OUnname "a" "h"); One (OName "b" "h"); One (OAuthn (Some "h") "t" 200);
              One (ODelete "b"); One (OAuthn (Some "h") "t" 201); One (ORecreate "b"); One (OName "b" "h");
              One (OHealthy "b0" true); One (OAuthn (Some "h") "t" 202); One (OAuthz (Some "h") ex_attrs 202)] in
  map snd (runx cfg torc sorc (init cfg) ops) =
  [R1 OutNone; R1 OutNone;
   R1 (OutT {| t_user := Some ("alice@a", "1"); t_ok := true; t_err := ENone |} [("a", true)]);
   R1 (OutS {| s_dec := DAllow; s_reason := "ok@a"; s_err := ENone |} [("a", true)]);
   R1 OutNone; R1 (OutT {| t_user := None; t_ok := false; t_err := ENotFound |} []); R1 OutNone;
   R1 (OutT {| t_user := None; t_ok := false; t_err := ENone |} [("b", true)]);
   R1 (OutS {| s_dec := DDeny; s_reason := "no@b"; s_err := ENone |} [("b", true)]);
   R1 OutNone; R1 OutNone;
   R1 (OutT {| t_user := Some ("alice@a", "1"); t_ok := true; t_err := ENone |} []);
   R1 OutNone; R1 OutNone;
   R1 (OutT {| t_user := Some ("bob@b", "2"); t_ok := true; t_err := ENone |} [("b", true)]);
   R1 OutNone; R1 (OutT {| t_user := None; t_ok := false; t_err := ENotFound |} []); R1 OutNone; R1 OutNone;
   R1 OutNone;
   R1 (OutT {| t_user := None; t_ok := false; t_err := ENone |} [("b", true)]);
   R1 (OutS {| s_dec := DNoOpinion; s_reason := "none@b"; s_err := ENone |} [("b", true)])]
  /\
  spec_ok cfg torc sorc
    [(One (OHealthy "a0" true), R1 OutNone); (One (OHealthy "b0" true), R1 OutNone);
     (One (OAuthz (Some "h") ex_attrs 0), R1 (OutS {| s_dec := DAllow; s_reason := "ok@a"; s_err := ENone |} [("a", true)]));
     (One (OUnname "a" "h"), R1 OutNone); (One (OName "b" "h"), R1 OutNone);
     (One (OAuthz (Some "h") ex_attrs 2), R1 (OutS {| s_dec := DAllow; s_reason := "ok@a"; s_err := ENone |} []))]
  = ((true, true, true, false), true)
  /\
  spec_ok cfg torc sorc
    [(One (OHealthy "b0" true), R1 OutNone); (One (OName "b" "x"), R1 OutNone);
     (One (OAuthn (Some "x") "t" 0), R1 (OutT {| t_user := None; t_ok := false; t_err := ENone |} [("b", true)]));
     (One (ODelete "b"), R1 OutNone); (One (ORecreate "b"), R1 OutNone); (One (OName "b" "x"), R1 OutNone);
     (One (OHealthy "b0" true), R1 OutNone);
     (One (OAuthn (Some "x") "t" 1), R1 (OutT {| t_user := None; t_ok := false; t_err := ENone |} []))]
  = ((true, true, true, false), true).
Proof. vm_compute. repeat split. Qed.
