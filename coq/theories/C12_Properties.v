(* C12 — property theorems (statements only; proofs live in C12_Proofs.v). *)
From KG Require Import Prelude C12_Model C12_Spec C12_Proofs.
Open Scope Z_scope.
Open Scope string_scope.

(* Over every configuration (registry of names/aliases, endpoint counts, the four TTLs, retry bounds),
   every answer oracle (an arbitrary function of cluster and call index, for token reviews and for
   subject access reviews) and every sequence of operations (requests for any hosts with any
   tokens / attributes at any clock values, endpoint status changes, cluster replacement, cache
   evictions, and pairs of overlapping requests), what the caller gets is either what the LAST review made during this very request
   means — and that review was answered by the request's own cluster — or, when no review was made, an
   answer the same cluster gave earlier to the same key, within its TTL and since that cluster was last
   replaced.  Never an answer of another cluster. *)
Theorem C12_answer_provenance : forall cfg torc sorc ops,
  let '((_, _, fresh, cached), _) := spec_ok cfg torc sorc (runx cfg torc sorc (init cfg) ops) in
  fresh = true /\ cached = true.
Proof. exact provenance_ok. Qed.
Print Assumptions C12_answer_provenance.

(* what a positive answer of the checker's provenance search means *)
Theorem C12_source_meaning : forall (R : Type) (eqb : R -> R -> bool) hist c k (r : R) now,
  has_source eqb hist c k r now = true ->
  exists pre r' exp post,
    hist = (pre ++ HFill c k r' exp :: post)%list /\ eqb r r' = true /\ now <= exp /\ ~ In (HRestart c) pre.
Proof. exact @has_source_sound. Qed.
Print Assumptions C12_source_meaning.

(* If the cluster the request is addressed to cannot be asked (no ExtraRequestInfo, unknown host, no
   ready endpoint): not authenticated / denied with an error, no review sent to anybody, no cache
   read or written — in every state, i.e. whatever other clusters have answered or cached before. *)
Theorem C12_unavailable_denies : forall cfg torc sorc s ho,
  can_ask cfg (eps s) ho = None ->
  (forall tok now, exists e,
      e <> ENone /\
      snd (step cfg torc sorc s (OAuthn ho tok now)) = OutT {| t_user := None; t_ok := false; t_err := e |} [] /\
      same_state (fst (step cfg torc sorc s (OAuthn ho tok now))) s) /\
  (forall a now, exists e,
      e <> ENone /\
      snd (step cfg torc sorc s (OAuthz ho a now)) = OutS {| s_dec := DDeny; s_reason := EmptyString; s_err := e |} [] /\
      same_state (fst (step cfg torc sorc s (OAuthz ho a now))) s).
Proof. exact unavailable_denies. Qed.
Print Assumptions C12_unavailable_denies.

(* Caches of different hosts are disjoint structures: an operation that does not concern host h2
   (a request or eviction for another host, a replacement of another cluster, an endpoint status
   change) leaves everything h2's token cache and SAR cache return unchanged. *)
Theorem C12_no_shared_entry : forall cfg torc sorc s o h2,
  ~ touches cfg o h2 ->
  forall k, kc (ts (fst (step cfg torc sorc s o))) h2 k = kc (ts s) h2 k /\
            kc (ss (fst (step cfg torc sorc s o))) h2 k = kc (ss s) h2 k.
Proof. exact no_shared_entry. Qed.
Print Assumptions C12_no_shared_entry.

(* Each review is sent to a ready endpoint of the request's own cluster: an endpoint that is in the
   cluster's CURRENT server list (after all additions / removals / re-homings so far), healthy and
   not disabled ... *)
Theorem C12_own_cluster : forall cfg torc sorc s o cl,
  In cl (out_calls (snd (step cfg torc sorc s o))) ->
  exists h, op_host o = Some h /\ cluster_of cfg h = Some (fst cl) /\ snd cl = true /\
    exists srv st, In (srv, st) (e_list (eps s) (fst cl)) /\ ep_ready st = true.
Proof. exact own_cluster. Qed.
Print Assumptions C12_own_cluster.

(* ... and no other cluster is asked (its answer oracle is not advanced). *)
Theorem C12_other_clusters_not_asked : forall cfg torc sorc s o c2,
  (forall h, op_host o = Some h -> cluster_of cfg h <> Some c2) ->
  kn (ts (fst (step cfg torc sorc s o))) c2 = kn (ts s) c2 /\
  kn (ss (fst (step cfg torc sorc s o))) c2 = kn (ss s) c2.
Proof. exact other_clusters_not_asked. Qed.
Print Assumptions C12_other_clusters_not_asked.

(* Two requests in flight at the same time, addressed to hosts of different clusters (or to a host
   that names no cluster): whichever completes first, both callers get the same results, the same
   reviews are sent, and the final state is the same (same endpoints, same cache contents for every
   host and key, same review counters for every cluster).  So an overlap is equivalent to either
   sequential order, and the model's [Ovl a b] = "a then b" loses nothing. *)
Theorem C12_overlap_commutes : forall cfg torc sorc s a b,
  is_request a = true -> is_request b = true ->
  (op_cluster cfg a = None \/ op_cluster cfg b = None \/ op_cluster cfg a <> op_cluster cfg b) ->
  let ra := step cfg torc sorc s a in
  let rab := step cfg torc sorc (fst ra) b in
  let rb := step cfg torc sorc s b in
  let rba := step cfg torc sorc (fst rb) a in
  snd ra = snd rba /\ snd rab = snd rb /\ state_eqv (fst rab) (fst rba).
Proof. exact overlap_commutes. Qed.
Print Assumptions C12_overlap_commutes.

(* A request through the proxy chain (ExtraRequestInfo -> WithUpstreamInfo -> bearer authentication ->
   impersonation filter -> dispatcher) that reaches the dispatcher is dispatched to the cluster its
   Host names, and every TokenReview / SubjectAccessReview made for it was received by that same cluster
   (nothing but the Host decides either) ... *)
Theorem C12_dispatch_cluster_is_review_cluster : forall cfg torc sorc s h tok imp now t z d,
  snd (stepx cfg torc sorc s (Chain h tok imp now)) = RC t z (Some d) ->
  cluster_of cfg h = Some d /\
  (forall x cl, (t = Some x \/ z = Some x) -> In cl (out_calls x) -> fst cl = d /\ snd cl = true).
Proof. exact chain_dispatch. Qed.
Print Assumptions C12_dispatch_cluster_is_review_cluster.

(* ... and on every history the executable clause same_cluster holds: whatever decided a dispatched
   request — fresh reviews or cached answers — came from the cluster it is dispatched to. *)
Theorem C12_same_cluster_history : forall cfg torc sorc ops,
  snd (spec_ok cfg torc sorc (runx cfg torc sorc (init cfg) ops)) = true.
Proof. exact dispatch_ok. Qed.
Print Assumptions C12_same_cluster_history.

(* All five clauses of the executable specification hold on every history of the model. *)
Theorem C12_history : forall cfg torc sorc ops,
  spec_ok cfg torc sorc (runx cfg torc sorc (init cfg) ops) = ((true, true, true, true), true).
Proof. exact history_ok. Qed.
Print Assumptions C12_history.

(* ---------- non-vacuity ---------- *)
Definition ex_cfg : config :=
  {| reg := [("a", "a"); ("b", "b"); ("alias-a", "a")]; servers := [("a", ["a0"; "a1"]); ("b", ["b0"])];
     sttl := 100; fttl := 10; attl := 100; dttl := 10; tretries := 3%nat; sretries := 4%nat |}.
Definition ex_torc := script_orc (TFail 0 false)
  [("a", [TAuth "alice@a" "1"; TFail 7 true; TAuth "alice@a" "1"]); ("b", [TUnauth; TAuth "mallory@b" "9"])].
Definition ex_sorc := script_orc (SFail 0 false)
  [("a", [SStatus true false "ok@a"]); ("b", [SStatus false true "no@b"; SStatus false false "none@b"])].
Definition ex_attrs : attrs :=
  {| a_user := "alice"; a_uid := ""; a_groups := ["dev"]; a_isres := true; a_ns := "default"; a_verb := "get";
     a_group := ""; a_version := "v1"; a_resource := "pods"; a_subres := ""; a_name := "p"; a_path := "" |}.

(* same token / same attributes alternating between hosts of two clusters: every answer comes from the
   host's own cluster, hits stay within the host, the other spelling "A" of a has its own cache (filled
   by asking a again, with one retried failure), a cluster without ready endpoint is refused, a
   replaced cluster is asked again *)
Example C12_history_nonvacuous :
  let ops := [OHealthy "a1" true; OHealthy "b0" true;
              OAuthn (Some "a") "tok" 0; OAuthn (Some "b") "tok" 1; OAuthn (Some "A") "tok" 2;
              OAuthn (Some "a") "tok" 3; OAuthn (Some "b") "tok" 11;
              OAuthz (Some "a") ex_attrs 4; OAuthz (Some "b") ex_attrs 5; OAuthz (Some "b") ex_attrs 15;
              OAuthz (Some "b") ex_attrs 16; OAuthz (Some "a") ex_attrs 104; OAuthz (Some "a") ex_attrs 105;
              ODisabled "b0" true; OAuthz (Some "b") ex_attrs 17; OAuthn (Some "nowhere") "tok" 18; OAuthn None "tok" 19;
              ORestart "a"; OAuthn (Some "a") "tok" 20; OHealthy "a0" true; OAuthn (Some "a") "tok" 21] in
  map snd (run ex_cfg ex_torc ex_sorc (init ex_cfg) ops) =
  [OutNone; OutNone;
   OutT {| t_user := Some ("alice@a", "1"); t_ok := true; t_err := ENone |} [("a", true)];
   OutT {| t_user := None; t_ok := false; t_err := ENone |} [("b", true)];
   OutT {| t_user := Some ("alice@a", "1"); t_ok := true; t_err := ENone |} [("a", true); ("a", true)];
   OutT {| t_user := Some ("alice@a", "1"); t_ok := true; t_err := ENone |} [];
   OutT {| t_user := Some ("mallory@b", "9"); t_ok := true; t_err := ENone |} [("b", true)];
   OutS {| s_dec := DAllow; s_reason := "ok@a"; s_err := ENone |} [("a", true)];
   OutS {| s_dec := DDeny; s_reason := "no@b"; s_err := ENone |} [("b", true)];
   OutS {| s_dec := DDeny; s_reason := "no@b"; s_err := ENone |} [];
   OutS {| s_dec := DNoOpinion; s_reason := "none@b"; s_err := ENone |} [("b", true)];
   OutS {| s_dec := DAllow; s_reason := "ok@a"; s_err := ENone |} [];
   OutS {| s_dec := DDeny; s_reason := ""; s_err := EUp 0 |} [("a", true)];
   OutNone;
   OutS {| s_dec := DDeny; s_reason := ""; s_err := ENoReady |} [];
   OutT {| t_user := None; t_ok := false; t_err := ENotFound |} [];
   OutT {| t_user := None; t_ok := false; t_err := ENoInfo |} [];
   OutNone;
   OutT {| t_user := None; t_ok := false; t_err := ENoReady |} [];
   OutNone;
   OutT {| t_user := None; t_ok := false; t_err := EUp 0 |} [("a", true)]].
Proof. vm_compute. reflexivity. Qed.

(* the hypothesis of C12_unavailable_denies is satisfiable in a state where ANOTHER cluster has a
   valid cached answer for the same token *)
Example C12_unavailable_denies_nonvacuous :
  let s := run_state ex_cfg ex_torc ex_sorc (init ex_cfg) [OHealthy "a0" true; OAuthn (Some "a") "tok" 0] in
  can_ask ex_cfg (eps s) (Some "b") = None /\
  (exists v, kc (ts s) "a" ["tok"] = Some v) /\
  snd (step ex_cfg ex_torc ex_sorc s (OAuthn (Some "b") "tok" 1))
  = OutT {| t_user := None; t_ok := false; t_err := ENoReady |} [].
Proof. vm_compute. split; [reflexivity|]. split; [eexists; reflexivity|reflexivity]. Qed.

(* the hypothesis of C12_no_shared_entry is satisfiable: a request for b while a's cache is filled *)
Example C12_no_shared_entry_nonvacuous :
  ~ touches ex_cfg (OAuthn (Some "b") "tok" 1) "a" /\ ~ touches ex_cfg (ORestart "b") "alias-a" /\
  touches ex_cfg (ORestart "a") "alias-a".
Proof. split; [|split]; vm_compute; [discriminate|discriminate|reflexivity]. Qed.

(* the specification is not trivially true: a history in which host b is served cluster a's cached
   answer without any review (the cross-cluster leak) fails clause 4, and a review that reaches the
   wrong cluster fails clause 1 *)
Example C12_spec_rejects_leak :
  spec_ok ex_cfg ex_torc ex_sorc
    [(One (OHealthy "a0" true), R1 OutNone); (One (OHealthy "b0" true), R1 OutNone);
     (One (OAuthn (Some "a") "tok" 0), R1 (OutT {| t_user := Some ("alice@a", "1"); t_ok := true; t_err := ENone |} [("a", true)]));
     (One (OAuthn (Some "b") "tok" 1), R1 (OutT {| t_user := Some ("alice@a", "1"); t_ok := true; t_err := ENone |} []))]
  = ((true, true, true, false), true)
  /\
  spec_ok ex_cfg ex_torc ex_sorc
    [(One (OHealthy "a0" true), R1 OutNone); (One (OHealthy "b0" true), R1 OutNone);
     (One (OAuthn (Some "b") "tok" 0), R1 (OutT {| t_user := Some ("alice@a", "1"); t_ok := true; t_err := ENone |} [("a", true)]))]
  = ((false, true, true, true), true)
  /\
  spec_ok ex_cfg ex_torc ex_sorc
    [(One (OHealthy "a0" true), R1 OutNone);
     (One (OAuthz (Some "b") ex_attrs 0), R1 (OutS {| s_dec := DAllow; s_reason := "ok@a"; s_err := ENone |} [("a", true)]))]
  = ((false, false, true, true), true).
Proof. vm_compute. repeat split. Qed.

(* overlapping requests: the same attributes for a host of a and a host of b while a's review is in
   flight — b's caller gets b's own answer; the history in which it gets a's (no review sent to b) and
   the later sequential request to b served from that poisoned entry are both rejected by clause 4 *)
Example C12_overlap_nonvacuous :
  let ops := [One (OHealthy "a0" true); One (OHealthy "b0" true);
              Ovl (OAuthz (Some "a") ex_attrs 0) (OAuthz (Some "b") ex_attrs 0);
              One (OAuthz (Some "b") ex_attrs 1)] in
  map snd (runx ex_cfg ex_torc ex_sorc (init ex_cfg) ops) =
  [R1 OutNone; R1 OutNone;
   R2 (OutS {| s_dec := DAllow; s_reason := "ok@a"; s_err := ENone |} [("a", true)])
      (OutS {| s_dec := DDeny; s_reason := "no@b"; s_err := ENone |} [("b", true)]);
   R1 (OutS {| s_dec := DDeny; s_reason := "no@b"; s_err := ENone |} [])]
  /\
  (op_cluster ex_cfg (OAuthz (Some "a") ex_attrs 0) <> op_cluster ex_cfg (OAuthz (Some "b") ex_attrs 0))
  /\
  spec_ok ex_cfg ex_torc ex_sorc
    [(One (OHealthy "a0" true), R1 OutNone); (One (OHealthy "b0" true), R1 OutNone);
     (Ovl (OAuthz (Some "a") ex_attrs 0) (OAuthz (Some "b") ex_attrs 0),
      R2 (OutS {| s_dec := DAllow; s_reason := "ok@a"; s_err := ENone |} [("a", true)])
         (OutS {| s_dec := DAllow; s_reason := "ok@a"; s_err := ENone |} []));
     (One (OAuthz (Some "b") ex_attrs 1), R1 (OutS {| s_dec := DAllow; s_reason := "ok@a"; s_err := ENone |} []))]
  = ((true, true, true, false), true).
Proof. vm_compute. split; [reflexivity|]. split; [discriminate|reflexivity]. Qed.

(* server lists change: a0 is removed from a and re-homed to b.  Requests for a are then answered by
   a's remaining endpoint (or refused while a has none that is ready), never through a0; the history
   in which the review for a is received by a0 — now an endpoint of b, answering as b — is rejected by
   clause 1 *)
Example C12_rehoming_nonvacuous :
  let ops := [One (OHealthy "a0" true); One (OHealthy "b0" true); One (OAuthn (Some "a") "t1" 0);
              One (ORemoveEp "a" "a0"); One (OAddEp "b" "a0"); One (OHealthy "a0" true);
              One (OAuthn (Some "a") "t2" 1); One (OHealthy "a1" true); One (OAuthn (Some "a") "t2" 2);
              One (ODisabled "b0" true); One (OAuthn (Some "b") "t2" 3)] in
  map snd (runx ex_cfg ex_torc ex_sorc (init ex_cfg) ops) =
  [R1 OutNone; R1 OutNone; R1 (OutT {| t_user := Some ("alice@a", "1"); t_ok := true; t_err := ENone |} [("a", true)]);
   R1 OutNone; R1 OutNone; R1 OutNone;
   R1 (OutT {| t_user := None; t_ok := false; t_err := ENoReady |} []); R1 OutNone;
   R1 (OutT {| t_user := Some ("alice@a", "1"); t_ok := true; t_err := ENone |} [("a", true); ("a", true)]);
   R1 OutNone;
   R1 (OutT {| t_user := None; t_ok := false; t_err := ENone |} [("b", true)])]
  /\
  e_list (eps (fst (stepx ex_cfg ex_torc ex_sorc
                      (fst (stepx ex_cfg ex_torc ex_sorc (init ex_cfg) (One (ORemoveEp "a" "a0")))) (One (OAddEp "b" "a0"))))) "b"
  = [("b0", (false, false)); ("a0", (false, false))]
  /\
  spec_ok ex_cfg ex_torc ex_sorc
    [(One (OHealthy "a0" true), R1 OutNone); (One (OHealthy "b0" true), R1 OutNone);
     (One (ORemoveEp "a" "a0"), R1 OutNone); (One (OAddEp "b" "a0"), R1 OutNone); (One (OHealthy "a0" true), R1 OutNone);
     (One (OAuthn (Some "a") "t2" 1), R1 (OutT {| t_user := None; t_ok := false; t_err := ENone |} [("b", true)]))]
  = ((false, false, true, true), true).
Proof. vm_compute. repeat split. Qed.

(* chain requests: authenticated by a, allowed to impersonate by a, dispatched to a; refused ones never
   reach the dispatcher.  A history in which the same request is dispatched to b although a's reviews
   decided it (TLS SNI naming b) fails clause 5 only. *)
Example C12_chain_nonvacuous :
  let ops := [One (OHealthy "a0" true); One (OHealthy "b0" true);
              Chain "a" "tok" (Some "admin") 0; Chain "a" "tok" None 1; Chain "b" "tok" None 2;
              Chain "nowhere" "tok" None 3; Chain "b" "tok" (Some "admin") 12] in
  map snd (runx ex_cfg ex_torc ex_sorc (init ex_cfg) ops) =
  [R1 OutNone; R1 OutNone;
   RC (Some (OutT {| t_user := Some ("alice@a", "1"); t_ok := true; t_err := ENone |} [("a", true)]))
      (Some (OutS {| s_dec := DAllow; s_reason := "ok@a"; s_err := ENone |} [("a", true)])) (Some "a");
   RC (Some (OutT {| t_user := Some ("alice@a", "1"); t_ok := true; t_err := ENone |} [])) None (Some "a");
   RC (Some (OutT {| t_user := None; t_ok := false; t_err := ENone |} [("b", true)])) None None;
   RC None None None;
   RC (Some (OutT {| t_user := Some ("mallory@b", "9"); t_ok := true; t_err := ENone |} [("b", true)]))
      (Some (OutS {| s_dec := DDeny; s_reason := "no@b"; s_err := ENone |} [("b", true)])) None]
  /\
  spec_ok ex_cfg ex_torc ex_sorc
    [(One (OHealthy "a0" true), R1 OutNone); (One (OHealthy "b0" true), R1 OutNone);
     (Chain "a" "tok" (Some "admin") 0,
      RC (Some (OutT {| t_user := Some ("alice@a", "1"); t_ok := true; t_err := ENone |} [("a", true)]))
         (Some (OutS {| s_dec := DAllow; s_reason := "ok@a"; s_err := ENone |} [("a", true)])) (Some "b"));
     (Chain "a" "tok" None 1,
      RC (Some (OutT {| t_user := Some ("alice@a", "1"); t_ok := true; t_err := ENone |} [])) None (Some "b"))]
  = ((true, true, true, true), false).
Proof. vm_compute. split; reflexivity. Qed.
