(* C20 — control-plane objects: spec/status separation and generation conventions.
   Model of k8s.io/apiserver rest.BeforeCreate / rest.BeforeUpdate wrapped around the strategies that
   pkg/gateway/controlplane/registry/proxy/rest/rest.go registers:
     UpstreamCluster     ClusterScopeStorageStrategySingleton (subStatus = true), options.SubStatus = true
                         => status endpoint served with DefaultStatusRESTStrategy{that strategy}
     RateLimitCondition  NewDefaultRESTStrategy(false, false), no status endpoint
   Executable definitions only. *)
From KG Require Import Prelude.
Open Scope Z_scope.

(* A Go slice / map value: nil, or a (possibly empty) sequence.  reflect.DeepEqual distinguishes nil from
   empty; the JSON form (omitempty) and apiequality.Semantic.DeepEqual do not.
   Maps are carried as key-sorted association lists with distinct keys (canonical form produced by the
   harness projection), so list equality is map equality. *)
Inductive coll (A : Type) := CNil | CList (l : list A).
Arguments CNil {A}.
Arguments CList {A} l.

Definition sem {A} (c : coll A) : list A := match c with CNil => [] | CList l => l end.

(* abstract spec / status payload: one scalar member and one collection member *)
Record payload := { ps : Z; pc : coll Z }.

Record obj := {
  gen : Z;                      (* metadata.generation, int64 *)
  labels : coll (Z * Z);
  annotations : coll (Z * Z);
  meta_rest : coll Z;           (* other metadata that an update may change: finalizers *)
  spec : payload;
  status : payload;
}.

Definition zero_payload : payload := {| ps := 0; pc := CNil |}.   (* reflect.New(T).Elem() *)

Definition set_gen (o : obj) (g : Z) : obj :=
  {| gen := g; labels := labels o; annotations := annotations o; meta_rest := meta_rest o; spec := spec o; status := status o |}.
Definition set_labels (o : obj) (l : coll (Z * Z)) : obj :=
  {| gen := gen o; labels := l; annotations := annotations o; meta_rest := meta_rest o; spec := spec o; status := status o |}.
Definition set_spec (o : obj) (p : payload) : obj :=
  {| gen := gen o; labels := labels o; annotations := annotations o; meta_rest := meta_rest o; spec := p; status := status o |}.
Definition set_status (o : obj) (p : payload) : obj :=
  {| gen := gen o; labels := labels o; annotations := annotations o; meta_rest := meta_rest o; spec := spec o; status := p |}.

(* ---------- equalities ---------- *)
Definition zz_eqb (a b : Z * Z) : bool := (Z.eqb (fst a) (fst b) && Z.eqb (snd a) (snd b))%bool.

(* reflect.DeepEqual on a slice/map member *)
Definition coll_rep_eqb {A} (eqb : A -> A -> bool) (a b : coll A) : bool :=
  match a, b with
  | CNil, CNil => true
  | CList x, CList y => list_eqb eqb x y
  | _, _ => false
  end.
(* apiequality.Semantic.DeepEqual on a slice/map member: nil and empty are equal *)
Definition coll_sem_eqb {A} (eqb : A -> A -> bool) (a b : coll A) : bool := list_eqb eqb (sem a) (sem b).

Inductive eqmode := Representation | Semantic.

Definition coll_eqb {A} (m : eqmode) (eqb : A -> A -> bool) : coll A -> coll A -> bool :=
  match m with Representation => coll_rep_eqb eqb | Semantic => coll_sem_eqb eqb end.
Definition payload_eqb (m : eqmode) (a b : payload) : bool := (Z.eqb (ps a) (ps b) && coll_eqb m Z.eqb (pc a) (pc b))%bool.
Definition kv_eqb (m : eqmode) (a b : coll (Z * Z)) : bool := coll_eqb m zz_eqb a b.

Definition obj_rep_eqb (a b : obj) : bool :=
  (Z.eqb (gen a) (gen b) && kv_eqb Representation (labels a) (labels b) && kv_eqb Representation (annotations a) (annotations b)
   && coll_rep_eqb Z.eqb (meta_rest a) (meta_rest b) && payload_eqb Representation (spec a) (spec b)
   && payload_eqb Representation (status a) (status b))%bool.

(* ---------- int64 ---------- *)
Definition max_int64 : Z := 9223372036854775807.
Definition wrap64 (z : Z) : Z := (z + 9223372036854775808) mod two64 - 9223372036854775808.

(* ---------- kinds as registered by rest.go ---------- *)
Inductive kind := KUpstreamCluster | KRateLimitCondition.
Record kindcfg := {
  strat_sub : bool;    (* DefaultRESTStrategy.subStatus of the registered strategy *)
  served_sub : bool;   (* RESTStorageOptions.SubStatus && the type has a Status field: "<resource>/status" is served *)
}.
Definition cfg (k : kind) : kindcfg :=
  match k with
  | KUpstreamCluster => {| strat_sub := true; served_sub := true |}
  | KRateLimitCondition => {| strat_sub := false; served_sub := false |}
  end.

Inductive outcome := Rejected | NoEndpoint | Stored (o : obj).

(* genericvalidation.ValidateObjectMetaAccessor: generation must be >= 0;
   ValidateObjectMetaAccessorUpdate: generation must not be decremented *)
Definition validate_update (old r : obj) : outcome :=
  if (gen r <? 0) || (gen r <? gen old) then Rejected else Stored r.

(* DefaultRESTStrategy.PrepareForCreate (both kinds have ObjectMeta and a Status field) *)
Definition prepare_create (c : kindcfg) (o : obj) : obj :=
  let o1 := if strat_sub c then set_status o zero_payload else o in
  set_gen o1 1.
Definition before_create (c : kindcfg) (o : obj) : outcome := Stored (prepare_create c o).

(* DefaultRESTStrategy.PrepareForUpdate; [m] = how spec and annotations are compared *)
Definition prepare_update (m : eqmode) (c : kindcfg) (old new : obj) : obj :=
  let n1 := if strat_sub c then set_status new (status old) else new in
  if negb (payload_eqb m (spec n1) (spec old)) || negb (kv_eqb m (annotations n1) (annotations old))
  then set_gen n1 (wrap64 (gen old + 1)) else n1.
(* rest.BeforeUpdate: generation reset to the stored one, then the strategy, then metadata validation *)
Definition before_update_main_mode (m : eqmode) (c : kindcfg) (old new : obj) : outcome :=
  validate_update old (prepare_update m c old (set_gen new (gen old))).

(* DefaultStatusRESTStrategy.PrepareForUpdate (does not call the wrapped strategy's PrepareForUpdate) *)
Definition prepare_update_status (old new : obj) : obj := set_labels (set_spec new (spec old)) (labels old).
Definition before_update_status (c : kindcfg) (old new : obj) : outcome :=
  if served_sub c then validate_update old (prepare_update_status old (set_gen new (gen old))) else NoEndpoint.

(* The comparison the code under test uses.  Commit 1d76359 compared the .Interface() values with
   reflect.DeepEqual (= Representation: "annotations": {} against none bumped 5 -> 6); commit 8d25f0d
   (build/fixes/C20_semantic_equality.diff) uses apiequality.Semantic.DeepEqual (= Semantic). *)
Definition code_mode : eqmode := Semantic.
Definition before_update_main := before_update_main_mode code_mode.

(* ---------- the whole step: what is STORED ----------
   rest.BeforeCreate / rest.BeforeUpdate call the strategy's Canonicalize AFTER PrepareFor* and after validation;
   what Canonicalize leaves in the object is what the store persists and serves.  On /repo
   DefaultRESTStrategy.Canonicalize is empty: the identity. *)
Definition canonicalize (o : obj) : obj := o.
Definition then_canonicalize (out : outcome) : outcome :=
  match out with Stored r => Stored (canonicalize r) | x => x end.
Definition step_create (c : kindcfg) (new : obj) : outcome := then_canonicalize (before_create c new).
Definition step_update_main (c : kindcfg) (old new : obj) : outcome := then_canonicalize (before_update_main c old new).
Definition step_update_status (c : kindcfg) (old new : obj) : outcome := then_canonicalize (before_update_status c old new).
