(* C16 — admission validation is total, and what it accepts the data plane can apply.
   Model over object FACTS.  Facts that depend on library code (net/url, crypto/tls, client-go cert
   parsing, featuregate.Set, metadata name validation, client-go host acceptance) are oracle inputs
   computed by the Go side with the real functions; everything else is read off the object.
   validate       mirrors pkg/apis/proxy/v1alpha1/validation/validation.go + the feature-gate check of
                  plugin/admission/upstreamcluster/admission.go (Validate), branch by branch; pointer
                  dereferences are explicit ([deref]: nil -> VPanic) and their nil guards are separate tests
   apply_gateway  mirrors clusters.CreateClusterInfo: buildClusterRESTConfig, ClusterInfo.Sync
                  (syncFeatureGate, upstreamLimiter.Sync -> localWrapper.Sync -> flowcontrol.NewFlowControl,
                  syncSecureServingConfigLocked, syncEndpoints -> rest.TransportFor / TLSConfigFor /
                  kubernetes.NewForConfig); the controller's syncUpstreamCluster maps its error to a requeue
   apply_limiter  mirrors rateLimiter.UpstreamConditionHandler (leader, local store):
                  updateUpstreamStateCondition / toFlowControlLimit / NewGlobalFlowControl
   Executable definitions only. *)
From KG Require Import Prelude.
Open Scope Z_scope.

(* ---------- facts ---------- *)
Inductive prefix := PNone | PHttp | PHttps.          (* strings.HasPrefix(endpoint, "http://" / "https://") *)

Record endpoint := {
  ep_id : Z;                 (* identity of the endpoint string (equal strings = equal ids) *)
  ep_prefix : prefix;
  ep_parses : bool;          (* ORACLE url.Parse(endpoint) err == nil *)
  ep_scheme_https : bool;    (* ORACLE u.Scheme == "https" (meaningful when it parses) *)
  ep_host : bool;            (* ORACLE len(u.Host) > 0 *)
  ep_client_ok : bool;       (* ORACLE kubernetes.NewForConfig(&rest.Config{Host: endpoint}) err == nil *)
}.

Record clientcfg := {
  cc_insecure : bool;
  cc_token : bool; cc_key : bool; cc_cert : bool; cc_ca : bool;   (* len(data) > 0 *)
  cc_pair_ok : bool;         (* ORACLE tls.X509KeyPair(cert, key) err == nil *)
  cc_ca_ok : bool;           (* ORACLE certutil.ParseCertsPEM(ca) err == nil *)
  cc_qps : Z; cc_burst : Z; cc_div : Z;
}.

Record serving := {
  ss_key : bool; ss_cert : bool; ss_ca : bool;                    (* len(data) > 0 *)
  ss_pair_ok : bool; ss_ca_ok : bool;                             (* ORACLES as above *)
}.

Record schema := {
  s_name : Z;                (* 0 = "" *)
  s_strategy : Z;            (* 0 "", 1 local, 2 globalAllocate, 3 globalCount, anything else: another string *)
  s_exempt : bool;
  s_mri : option Z;          (* maxRequestsInflight.max *)
  s_tb : option (Z * Z);     (* tokenBucket (qps, burst) *)
  s_gmri : option Z;         (* globalMaxRequestsInflight.max *)
  s_gtb : option (Z * Z);    (* globalTokenBucket (qps, burst) *)
}.

Record policy := {
  p_strategy_ok : bool;      (* == RoundRobin *)
  p_subset : list Z;         (* endpoint ids *)
  p_schema : Z;              (* flowControlSchemaName, 0 = "" *)
  p_rules : bool;            (* len(rules) > 0 *)
  p_logmode_ok : bool;
}.

Inductive gatefact := GAbsent | GOk | GBad.  (* annotation absent/empty | ORACLE featuregate Set ok | Set fails *)

Record facts := {
  f_name_ok : bool;          (* ORACLE ValidateObjectMeta(...NameIsDNSSubdomain...) has no error *)
  f_gate : gatefact;
  f_servers : list endpoint;
  f_cc : clientcfg;
  f_ss : serving;
  f_schemas : list schema;
  f_logging_ok : bool;
  f_policies : list policy;
}.

(* ---------- validation ---------- *)
Inductive errclass :=
| EMeta
| EServersRequired | EEpScheme (i : Z) | EEpURL (i : Z) | EMixedSchemes
| ECcQps | ECcBurst | ECcDiv | ECcBurstLtQps | ECcCAReq | ECcInsecureCA | ECcAuthReq | ECcKeyReq | ECcCertReq | ECcTokenReq
| ECcCertInvalid | ECcKeyInvalid | ECcCAInvalid
| ESsCertInvalid | ESsKeyInvalid | ESsCAInvalid
| ESchemaNameReq (i : Z) | ESchemaDup (i : Z) | ESchemaStrategy (i : Z)
| EFcMriForbidden (i : Z) | EFcMriNeg (i : Z) | EFcGmriNeg (i : Z) | EFcMriReq (i : Z) | EFcGmriLtMri (i : Z)
| EFcTbForbidden (i : Z) | EFcTbQps (i : Z) | EFcTbBurst (i : Z)
| EFcGtbQps (i : Z) | EFcTbReq (i : Z) | EFcGtbQpsLt (i : Z) | EFcGtbBurstLt (i : Z) | EFcNone (i : Z)
| ELogging
| EPoliciesReq | EPolStrategy (j : Z) | EPolSubset (j k : Z) | EPolSchema (j : Z) | EPolRules (j : Z) | EPolLogMode (j : Z)
| EGate.

Inductive vres := VPanic | VErrs (l : list errclass).

(* p.Field on a pointer: nil -> panic *)
Definition deref {A} (o : option A) (k : A -> vres) : vres :=
  match o with None => VPanic | Some a => k a end.
Definition is_nil {A} (o : option A) : bool := match o with None => true | Some _ => false end.
Definition vapp (pre : list errclass) (r : vres) : vres :=
  match r with VPanic => VPanic | VErrs l => VErrs (pre ++ l) end.
Definition vbind (r : vres) (k : list errclass -> vres) : vres :=
  match r with VPanic => VPanic | VErrs l => k l end.
Definition when (b : bool) (e : errclass) : list errclass := if b then [e] else [].

Definition zmem (k : Z) (l : list Z) : bool := existsb (Z.eqb k) l.

(* ValidateServers: errors, and whether an http / https endpoint was seen *)
Fixpoint validate_servers_from (i : Z) (l : list endpoint) : list errclass :=
  match l with
  | [] => []
  | e :: r =>
      (match ep_prefix e with
       | PNone => [EEpScheme i]
       | _ => when (negb (ep_parses e) || negb (ep_host e)) (EEpURL i)
       end) ++ validate_servers_from (i + 1) r
  end.
Definition has_http (l : list endpoint) : bool := existsb (fun e => match ep_prefix e with PHttp => true | _ => false end) l.
Definition has_https (l : list endpoint) : bool := existsb (fun e => match ep_prefix e with PHttps => true | _ => false end) l.
Definition validate_servers (l : list endpoint) : list errclass :=
  when (match l with [] => true | _ => false end) EServersRequired
  ++ validate_servers_from 0 l
  ++ when (has_http l && has_https l) EMixedSchemes.
(* scheme, _ := schemes.PopAny(): ANY element of the set; [pick] resolves the choice when both are present *)
Definition scheme_is_https (pick : bool) (l : list endpoint) : bool :=
  if has_https l then (if has_http l then pick else true) else false.

(* [fixd] = the insecure+caData check (commit 4d69cfc, build/fixes/C16_insecure_with_ca.diff) is present *)
Definition validate_clientcfg (fixd : bool) (https : bool) (c : clientcfg) : list errclass :=
  when (cc_qps c <? 0) ECcQps
  ++ when (cc_burst c <? 0) ECcBurst
  ++ when (cc_div c <? 0) ECcDiv
  ++ when ((cc_qps c >? 0) && (cc_burst c <? cc_qps c)) ECcBurstLtQps
  ++ (if https then
        when (negb (cc_insecure c) && negb (cc_ca c)) ECcCAReq
        ++ when (fixd && cc_insecure c && cc_ca c) ECcInsecureCA
        ++ (if negb (cc_token c) && negb (cc_key c) && negb (cc_cert c) then [ECcAuthReq]
            else if cc_key c || cc_cert c
                 then when (negb (cc_key c)) ECcKeyReq ++ when (negb (cc_cert c)) ECcCertReq
                 else when (negb (cc_token c)) ECcTokenReq)
      else [])
  ++ (if cc_key c && cc_cert c && negb (cc_pair_ok c) then [ECcCertInvalid; ECcKeyInvalid] else [])
  ++ when (cc_ca c && negb (cc_ca_ok c)) ECcCAInvalid.

Definition validate_serving (s : serving) : list errclass :=
  (if ss_cert s && ss_key s && negb (ss_pair_ok s) then [ESsCertInvalid; ESsKeyInvalid] else [])
  ++ when (ss_ca s && negb (ss_ca_ok s)) ESsCAInvalid.

Definition strategy_known (z : Z) : bool := (0 <=? z) && (z <=? 3).

(* ValidateFlowControlConfiguration *)
Definition validate_config (i : Z) (s : schema) : vres :=
  let num0 := if s_exempt s then 1 else 0 in
  (* if schema.MaxRequestsInflight != nil *)
  let mri_part : vres * Z :=
    if is_nil (s_mri s) then (VErrs [], num0)
    else if num0 >? 0 then (VErrs [EFcMriForbidden i], num0)
         else (deref (s_mri s) (fun m => VErrs (when (m <? 0) (EFcMriNeg i))), num0 + 1) in
  let num1 := snd mri_part in
  (* if schema.GlobalMaxRequestsInflight != nil *)
  let gmri_part : vres :=
    if is_nil (s_gmri s) then VErrs []
    else deref (s_gmri s) (fun g =>
           vapp (when (g <? 0) (EFcGmriNeg i))
                (if is_nil (s_mri s) then VErrs [EFcMriReq i]
                 else deref (s_mri s) (fun m => VErrs (when (g <? m) (EFcGmriLtMri i))))) in
  (* if schema.TokenBucket != nil *)
  let tb_part : vres * Z :=
    if is_nil (s_tb s) then (VErrs [], num1)
    else if num1 >? 0 then (VErrs [EFcTbForbidden i], num1)
         else (deref (s_tb s) (fun t => VErrs (when (fst t <=? 0) (EFcTbQps i) ++ when (snd t <? fst t) (EFcTbBurst i))), num1 + 1) in
  let num2 := snd tb_part in
  (* if schema.GlobalTokenBucket != nil *)
  let gtb_part : vres :=
    if is_nil (s_gtb s) then VErrs []
    else deref (s_gtb s) (fun g =>
           vapp (when (fst g <=? 0) (EFcGtbQps i))
                (if is_nil (s_tb s) then VErrs [EFcTbReq i]
                 else deref (s_tb s) (fun t =>
                        VErrs (if fst g <? fst t then [EFcGtbQpsLt i]
                               else if snd g <? snd t then [EFcGtbBurstLt i] else [])))) in
  vbind (fst mri_part) (fun e1 =>
  vbind gmri_part (fun e2 =>
  vbind (fst tb_part) (fun e3 =>
  vbind gtb_part (fun e4 =>
  VErrs (e1 ++ e2 ++ e3 ++ e4 ++ when (num2 =? 0) (EFcNone i)))))).

(* ValidateFlowControl: errors and the set of accepted schema names *)
Fixpoint validate_schemas_from (i : Z) (names : list Z) (l : list schema) : vres * list Z :=
  match l with
  | [] => (VErrs [], names)
  | s :: r =>
      let name_errs := if s_name s =? 0 then [ESchemaNameReq i]
                       else if zmem (s_name s) names then [ESchemaDup i] else [] in
      let names' := if (s_name s =? 0) || zmem (s_name s) names then names else s_name s :: names in
      let here := vapp (name_errs ++ when (negb (strategy_known (s_strategy s))) (ESchemaStrategy i)) (validate_config i s) in
      let rest := validate_schemas_from (i + 1) names' r in
      (vbind here (fun a => vapp a (fst rest)), snd rest)
  end.

Fixpoint validate_subset (j k : Z) (ids : list Z) (sub : list Z) : list errclass :=
  match sub with
  | [] => []
  | u :: r => when (negb (zmem u ids)) (EPolSubset j k) ++ validate_subset j (k + 1) ids r
  end.
Definition validate_policy (j : Z) (ids names : list Z) (p : policy) : list errclass :=
  when (negb (p_strategy_ok p)) (EPolStrategy j)
  ++ validate_subset j 0 ids (p_subset p)
  ++ when (negb (p_schema p =? 0) && negb (zmem (p_schema p) names)) (EPolSchema j)
  ++ when (negb (p_rules p)) (EPolRules j)
  ++ when (negb (p_logmode_ok p)) (EPolLogMode j).
Fixpoint validate_policies_from (j : Z) (ids names : list Z) (l : list policy) : list errclass :=
  match l with
  | [] => []
  | p :: r => validate_policy j ids names p ++ validate_policies_from (j + 1) ids names r
  end.

(* validation.ValidateUpstreamCluster *)
Definition validate_object (fixd pick : bool) (f : facts) : vres :=
  let fc := validate_schemas_from 0 [] (f_schemas f) in
  vapp (when (negb (f_name_ok f)) EMeta
        ++ validate_servers (f_servers f)
        ++ validate_clientcfg fixd (scheme_is_https pick (f_servers f)) (f_cc f)
        ++ validate_serving (f_ss f))
       (vbind (fst fc) (fun e =>
          VErrs (e ++ when (negb (f_logging_ok f)) ELogging
                   ++ when (match f_policies f with [] => true | _ => false end) EPoliciesReq
                   ++ validate_policies_from 0 (map ep_id (f_servers f)) (snd fc) (f_policies f)))).

(* admission plugin Validate (no other cluster registered): + the feature-gate annotation *)
Definition validate_gen (fixd pick : bool) (f : facts) : vres :=
  vbind (validate_object fixd pick f) (fun e => VErrs (e ++ when (match f_gate f with GBad => true | _ => false end) EGate)).
(* the code under test: the model follows the repaired validation *)
Definition code_fix : bool := true.
Definition validate := validate_gen code_fix.

(* ---------- consumers ---------- *)
Inductive ares := Ok | Err | Panic.

Inductive fctype := TExempt | TMaxInflight | TTokenBucket.
Definition fctype_eqb (a b : fctype) : bool :=
  match a, b with TExempt, TExempt | TMaxInflight, TMaxInflight | TTokenBucket, TTokenBucket => true | _, _ => false end.

(* flowcontrol.GuessFlowControlSchemaType *)
Definition guess_type (s : schema) : fctype :=
  if s_exempt s then TExempt
  else if negb (is_nil (s_mri s)) || negb (is_nil (s_gmri s)) then TMaxInflight
  else if negb (is_nil (s_tb s)) || negb (is_nil (s_gtb s)) then TTokenBucket
  else TExempt.

Definition optZ_eqb := opt_eqb Z.eqb.
Definition optZZ_eqb := opt_eqb (fun a b : Z * Z => (Z.eqb (fst a) (fst b) && Z.eqb (snd a) (snd b))%bool).
(* reflect.DeepEqual on two FlowControlSchema values *)
Definition schema_eqb (a b : schema) : bool :=
  (Z.eqb (s_name a) (s_name b) && Z.eqb (s_strategy a) (s_strategy b) && Bool.eqb (s_exempt a) (s_exempt b)
   && optZ_eqb (s_mri a) (s_mri b) && optZZ_eqb (s_tb a) (s_tb b) && optZ_eqb (s_gmri a) (s_gmri b) && optZZ_eqb (s_gtb a) (s_gtb b))%bool.
Definition zero_schema : schema :=
  {| s_name := 0; s_strategy := 0; s_exempt := false; s_mri := None; s_tb := None; s_gmri := None; s_gtb := None |}.

(* a flowControlCache: localWrapper.localConfig and the type of localWrapper.FlowControl (None = nil) *)
Definition fcache := (schema * option fctype)%type.

(* the dereferences of NewFlowControl (create) and of the Resize branch of localWrapper.Sync are the same:
   schema.MaxRequestsInflight.Max for type MaxRequestsInflight, schema.TokenBucket.QPS/.Burst for TokenBucket *)
Definition touch_members (t : fctype) (s : schema) : bool :=   (* true = no nil dereference *)
  match t with
  | TExempt => true
  | TMaxInflight => negb (is_nil (s_mri s))
  | TTokenBucket => negb (is_nil (s_tb s))
  end.

(* localWrapper.Sync(schema) on cache [c]; None = panic *)
Definition local_sync (c : fcache) (s : schema) : option fcache :=
  if schema_eqb s (fst c) then Some c
  else if touch_members (guess_type s) s then Some (s, Some (guess_type s)) else None.

Fixpoint cache_lookup (n : Z) (m : list (Z * fcache)) : option fcache :=
  match m with
  | [] => None
  | (k, c) :: r => if k =? n then Some c else cache_lookup n r
  end.
Fixpoint cache_store (n : Z) (c : fcache) (m : list (Z * fcache)) : list (Z * fcache) :=
  match m with
  | [] => [(n, c)]
  | (k, c0) :: r => if k =? n then (k, c) :: r else (k, c0) :: cache_store n c r
  end.

(* upstreamLimiter.syncLocalFlowControls on a fresh limiter; None = panic *)
Fixpoint sync_flowcontrols (m : list (Z * fcache)) (l : list schema) : option (list (Z * fcache)) :=
  match l with
  | [] => Some m
  | s :: r =>
      let c := match cache_lookup (s_name s) m with Some c => c | None => (zero_schema, None) end in
      match local_sync c s with
      | None => None
      | Some c' => sync_flowcontrols (cache_store (s_name s) c' m) r
      end
  end.

(* client-go transport.TLSConfigFor on the rest config built by buildClusterRESTConfig *)
Definition tls_config_err (https : bool) (c : clientcfg) : bool :=
  https && ((cc_ca c && cc_insecure c) || (cc_key c && cc_cert c && negb (cc_pair_ok c))).

Definition apply_gateway (f : facts) : ares :=
  (* buildClusterRESTConfig: only the first server is parsed *)
  let rest_cfg : option bool :=        (* Some https? | None = error *)
    match f_servers f with
    | [] => Some true
    | e :: _ => if ep_parses e then Some (ep_scheme_https e) else None
    end in
  match rest_cfg with
  | None => Err
  | Some https =>
      (* Sync: feature gates, flow control, secure serving, endpoints *)
      match f_gate f with
      | GBad => Err
      | _ =>
          match sync_flowcontrols [] (f_schemas f) with
          | None => Panic
          | Some _ =>
              if ss_ca (f_ss f) && negb (ss_ca_ok (f_ss f)) then Err
              else if ss_key (f_ss f) && ss_cert (f_ss f) && negb (ss_pair_ok (f_ss f)) then Err
              else if existsb (fun e => tls_config_err https (f_cc f) || negb (ep_client_ok e)) (f_servers f) then Err
              else Ok
          end
      end
  end.

(* UpstreamClusterController.syncUpstreamCluster on a fresh controller: CreateClusterInfo's error becomes a
   requeue and the cluster is not registered; a panic is not recovered *)
Definition apply_controller (f : facts) : ares := apply_gateway f.

(* rateLimiter.UpstreamConditionHandler as leader with the local store: updateUpstreamStateCondition
   (toFlowControlLimit reads only non-nil members), Save, SyncFlowControl (NewGlobalFlowControl reads the
   global member it has just tested).  No branch returns an error or dereferences an untested pointer. *)
Definition limit_detail (s : schema) : option (Z + Z * Z) :=
  match s_gmri s, s_gtb s with
  | Some g, _ => Some (inl g)
  | None, Some t => Some (inr t)
  | None, None => None
  end.
Definition apply_limiter (f : facts) : ares :=
  let _conditions := map limit_detail (f_schemas f) in
  let _global := filter (fun s => negb (is_nil (s_gmri s)) || negb (is_nil (s_gtb s))) (f_schemas f) in
  Ok.

(* ---------- laws relating the library oracles (checked on every case of the correspondence run) ---------- *)
(* an endpoint that starts with http(s):// and parses has that scheme; one that also has a host is accepted by
   client-go's DefaultServerURL *)
Definition endpoint_laws (e : endpoint) : bool :=
  (match ep_prefix e with
   | PHttps => if ep_parses e then ep_scheme_https e else true
   | PHttp => if ep_parses e then negb (ep_scheme_https e) else true
   | PNone => true
   end)
  && (match ep_prefix e with
      | PNone => true
      | _ => if ep_parses e && ep_host e then ep_client_ok e else true
      end).
Definition oracle_laws (f : facts) : bool := forallb endpoint_laws (f_servers f).

(* ---------- is every dispatch policy of the applied object usable? ---------- *)
(* ClusterInfo.MatchAttributes for a request that only policy p's rules match: (a policy matched, how many of the
   picker's upstreams are endpoints the ClusterInfo knows — the lookup is by exact endpoint string —, the picker's
   flow control is the system default) *)
Fixpoint dedup (l : list Z) : list Z :=
  match l with [] => [] | x :: r => if zmem x r then dedup r else x :: dedup r end.
Definition policy_view (f : facts) (p : policy) : bool * Z * bool :=
  if negb (p_rules p) then (false, 0, false)       (* no rule: ErrNoRouterRuleMatches *)
  else
    let ids := map ep_id (f_servers f) in
    (true,
     match p_subset p with
     | [] => Z.of_nat (List.length (dedup ids))                                   (* AllEndpoints() *)
     | sub => Z.of_nat (List.length (filter (fun u => zmem u ids) sub))
     end,
     (p_schema p =? 0) || negb (zmem (p_schema p) (map s_name (f_schemas f)))).   (* GetOrDefault *)
Definition policy_views (f : facts) : option (list (bool * Z * bool)) :=
  match apply_gateway f with Ok => Some (map (policy_view f) (f_policies f)) | _ => None end.

(* ====================================================================================================
   EXTENSION 1 — updates: an existing ClusterInfo (created from object 1) is given object 2 of the same name
   through UpstreamClusterController.syncUpstreamCluster -> ClusterInfo.Sync.
   ==================================================================================================== *)

(* apiequality.Semantic.DeepEqual of the old and new PEM bytes (nil = empty) — relation between the two objects *)
Record delta := { d_ss_key_same : bool; d_ss_cert_same : bool; d_ss_ca_same : bool }.

Definition rest_https (f : facts) : bool :=      (* the rest config is built once, from object 1, and kept *)
  match f_servers f with [] => true | e :: _ => ep_scheme_https e end.

(* ClusterInfo.Sync(object 2) on the ClusterInfo that CreateClusterInfo(object 1) returned *)
Definition apply_gateway_update (f1 f2 : facts) (d : delta) : ares :=
  match f_gate f2 with
  | GBad => Err                                                      (* syncFeatureGate *)
  | _ =>
      (* upstreamLimiter.syncLocalFlowControls: nothing to do when the specs are semantically equal; otherwise
         every schema of object 2 is synced into the caches left by object 1 (removed names are deleted afterwards) *)
      let fc := if list_eqb schema_eqb (f_schemas f1) (f_schemas f2) then Some []
                else match sync_flowcontrols [] (f_schemas f1) with
                     | Some m1 => sync_flowcontrols m1 (f_schemas f2)
                     | None => None
                     end in
      match fc with
      | None => Panic
      | Some _ =>
          (* syncSecureServingConfigLocked: only data that changed is parsed again *)
          if negb (d_ss_ca_same d) && ss_ca (f_ss f2) && negb (ss_ca_ok (f_ss f2)) then Err
          else if (negb (d_ss_key_same d) || negb (d_ss_cert_same d))
                  && ss_key (f_ss f2) && ss_cert (f_ss f2) && negb (ss_pair_ok (f_ss f2)) then Err
          (* syncEndpoints: endpoints already present are only re-flagged; new ones get transports built from the
             rest config of object 1 *)
          else if existsb (fun e => negb (zmem (ep_id e) (map ep_id (f_servers f1)))
                                    && (tls_config_err (rest_https f1) (f_cc f1) || negb (ep_client_ok e))) (f_servers f2)
          then Err else Ok
      end
  end.

Definition ares_is_ok (a : ares) : bool := match a with Ok => true | _ => false end.
(* second syncUpstreamCluster of a controller: an object-1 failure left nothing registered, so object 2 is created *)
Definition apply_update_ctrl (f1 f2 : facts) (d : delta) : ares :=
  if ares_is_ok (apply_gateway f1) then apply_gateway_update f1 f2 d else apply_gateway f2.
(* ClusterInfo.Sync directly: only when CreateClusterInfo(object 1) returned a ClusterInfo *)
Definition apply_update_info (f1 f2 : facts) (d : delta) : option ares :=
  if ares_is_ok (apply_gateway f1) then Some (apply_gateway_update f1 f2 d) else None.
(* second UpstreamConditionHandler: updateUpstreamStateCondition on the stored condition, syncLocalFlowControls
   (NewGlobalFlowControl on a type change, ResizeGlobalFlowControl otherwise, delete of schemas without a global
   member): every member that is read has just been tested *)
Definition apply_limiter_update (f1 f2 : facts) : ares :=
  let _kinds1 := map limit_detail (f_schemas f1) in
  let _kinds2 := map limit_detail (f_schemas f2) in
  Ok.

(* ====================================================================================================
   EXTENSION 2 — the remote rate limiter: one reconcile round of a gateway
   (upstreamLimiter.Sync; reconcile.updateGlobalCuntFlowControls; buildLimitConditions ->
   rateLimiter.UpdateRateLimitConditionStatus -> updateFlowControls; Load), for a sequence of versions,
   with a second gateway replica that starts on the last version.
   [fixes]: which of the three repairs of build/fixes/C16_*.diff are present.
   ==================================================================================================== *)
Inductive dkind := DMri | DTb.                      (* which member a LimitItemDetail carries *)
Definition dkind_eqb (a b : dkind) : bool := match a, b with DMri, DMri | DTb, DTb => true | _, _ => false end.
Definition kind_type (k : dkind) : fctype := match k with DMri => TMaxInflight | DTb => TTokenBucket end.
Definition type_kind (t : fctype) : option dkind :=
  match t with TMaxInflight => Some DMri | TTokenBucket => Some DTb | TExempt => None end.

(* toFlowControlLimit on the limiter side / the member updateGlobalCuntFlowControls copies *)
Definition global_kind (s : schema) : option dkind :=
  if negb (is_nil (s_gmri s)) then Some DMri else if negb (is_nil (s_gtb s)) then Some DTb else None.
(* remote.EnableGlobalFlowControl *)
Definition enable_global (s : schema) : bool :=
  ((s_strategy s =? 2) || (s_strategy s =? 3)) && (negb (is_nil (s_gtb s)) || negb (is_nil (s_gmri s))).

(* flowControlCache.remote: absent | enabled, no limiter inside yet | limiter of that kind inside *)
Inductive rstate := RNone | REnabled | RKind (k : dkind).

Record gcache := { g_cfg : schema; g_type : option fctype; g_remote : rstate }.
Definition fresh_cache : gcache := {| g_cfg := zero_schema; g_type := None; g_remote := RNone |}.

Record fixes := {
  fx_stale_remote : bool;     (* C16_stale_remote_limiter_after_type_change.diff: localWrapper.Sync drops the remote wrapper on a type change *)
  fx_stale_status : bool;     (* C16_limiter_stale_status_after_type_change.diff: nil guards in calculateUpstreamCondition *)
  fx_no_limiter : bool;       (* C16_remote_wrapper_without_limiter.diff: a wrapper without limiter is not asked for its type *)
}.
Definition all_fixes : fixes := {| fx_stale_remote := true; fx_stale_status := true; fx_no_limiter := true |}.

(* localWrapper.Sync, with what it does to the remote wrapper; None = panic *)
Definition glocal_sync (fx : fixes) (c : gcache) (s : schema) : option gcache :=
  if schema_eqb s (g_cfg c) then Some c
  else if negb (touch_members (guess_type s) s) then None
  else
    let same_type := match g_type c with Some t => fctype_eqb t (guess_type s) | None => false end in
    if same_type
    then Some {| g_cfg := s; g_type := g_type c; g_remote := if enable_global s then g_remote c else RNone |}
    else Some {| g_cfg := s; g_type := Some (guess_type s); g_remote := if fx_stale_remote fx then RNone else g_remote c |}.

Fixpoint alookup {A} (n : Z) (m : list (Z * A)) : option A :=
  match m with [] => None | (k, c) :: r => if k =? n then Some c else alookup n r end.
Fixpoint astore {A} (n : Z) (c : A) (m : list (Z * A)) : list (Z * A) :=
  match m with
  | [] => [(n, c)]
  | (k, c0) :: r => if k =? n then (k, c) :: r else (k, c0) :: astore n c r
  end.

Fixpoint gsync_each (fx : fixes) (m : list (Z * gcache)) (l : list schema) : option (list (Z * gcache)) :=
  match l with
  | [] => Some m
  | s :: r =>
      let c := match alookup (s_name s) m with Some c => c | None => fresh_cache end in
      match glocal_sync fx c s with
      | None => None
      | Some c' => gsync_each fx (astore (s_name s) c' m) r
      end
  end.

Record gateway := { gw_spec : list schema; gw_caches : list (Z * gcache) }.
Definition fresh_gateway : gateway := {| gw_spec := []; gw_caches := [] |}.

(* upstreamLimiter.Sync *)
Definition gsync (fx : fixes) (g : gateway) (l : list schema) : option gateway :=
  if list_eqb schema_eqb (gw_spec g) l then Some g
  else match gsync_each fx (gw_caches g) l with
       | None => None
       | Some m => Some {| gw_spec := l;
                           gw_caches := filter (fun p => zmem (fst p) (map s_name l)) m |}   (* deleted names *)
       end.

(* reconcile.updateGlobalCuntFlowControls: every globalCount schema gets a wrapper; remoteWrapper.Sync keeps the
   answer only if sanitize finds the matching global member (never panics) *)
Definition count_pass (g : gateway) : gateway :=
  {| gw_spec := gw_spec g;
     gw_caches := map (fun p =>
       let c := snd p in
       if s_strategy (g_cfg c) =? 3
       then (fst p, {| g_cfg := g_cfg c; g_type := g_type c;
                       g_remote := match global_kind (g_cfg c) with
                                   | Some k => RKind k
                                   | None => match g_remote c with RNone => REnabled | r => r end
                                   end |})
       else p) (gw_caches g) |}.

(* limiter server state that matters here: per instance, the (schema name, kind of the reported status) it stored *)
Definition limstate := list (Z * list (Z * option dkind)).

Fixpoint last_named (n : Z) (l : list schema) : option schema :=
  match l with
  | [] => None
  | s :: r => match last_named n r with Some x => Some x | None => if s_name s =? n then Some s else None end
  end.

Definition selected (c : gcache) : bool := (s_strategy (g_cfg c) =? 2) && enable_global (g_cfg c).
Definition item_kind (fx : fixes) (c : gcache) : option dkind :=      (* getRateLimitItemConfiguration *)
  match g_remote c with RKind k => Some k | _ => None end.
Definition status_kind (c : gcache) : option dkind :=                 (* getRateLimitItemStatus *)
  match g_remote c with
  | RKind k => Some k
  | _ => match g_type c with Some t => type_kind t | None => None end
  end.
Definition optk_eqb (a b : option dkind) : bool := opt_eqb dkind_eqb a b.

(* remoteWrapper.sanitize on the answered item (members [rm], [rt]) against the local schema *)
Definition sanitize_kind (rm rt : bool) (s : schema) : option dkind :=
  if rm && negb (is_nil (s_gmri s)) then Some DMri
  else if rt && negb (is_nil (s_gtb s)) then Some DTb else None.

Inductive rres := RSkip | ROk | RErr | RPanic.

(* the allocate round trip of instance [inst] for the version [l] the limiter's handler has seen *)
Definition alloc_pass (fx : fixes) (inst : Z) (lower : bool) (l : list schema) (g : gateway) (ls : limstate)
  : rres * gateway * limstate :=
  let sel := filter (fun p => selected (snd p)) (gw_caches g) in
  (* buildLimitConditions *)
  if negb (fx_no_limiter fx) && existsb (fun p => match g_remote (snd p) with REnabled => true | _ => false end) sel
  then (RPanic, g, ls)
  (* UpdateRateLimitConditionStatus: the state condition is stored under the object's own name *)
  else if negb lower then (RErr, g, ls)
  else if existsb (fun p => match item_kind fx (snd p) with
                            | Some k => negb (optk_eqb (Some k) (global_kind (g_cfg (snd p))))
                            | None => false end) sel
  then (RErr, g, ls)
  else
    let ls' := astore inst (map (fun p => (fst p, status_kind (snd p))) sel) ls in
    (* calculateUpstreamCondition over every stored condition *)
    if negb (fx_stale_status fx)
       && existsb (fun ic => existsb (fun ns => match snd ns, last_named (fst ns) l with
                                                | Some k, Some s => negb (optk_eqb (Some k) (global_kind s))
                                                | _, _ => false end) (snd ic)) ls'
    then (RPanic, g, ls')
    else
      (* updateFlowControls: the answer carries the reported member and the member of the upstream's type *)
      let g' := {| gw_spec := gw_spec g;
                   gw_caches := map (fun p =>
                     let c := snd p in
                     if selected c
                     then let has k := optk_eqb (item_kind fx c) (Some k) || optk_eqb (global_kind (g_cfg c)) (Some k) in
                          (fst p, {| g_cfg := g_cfg c; g_type := g_type c;
                                     g_remote := match sanitize_kind (has DMri) (has DTb) (g_cfg c) with
                                                 | Some k => RKind k
                                                 | None => match g_remote c with RNone => REnabled | r => r end
                                                 end |})
                     else p) (gw_caches g) |} in
      (ROk, g', ls')
  .

Record round_res := { rr_sync : rres; rr_count : rres; rr_alloc : rres; rr_load : rres }.
Definition dead_round (s c a : rres) : round_res := {| rr_sync := s; rr_count := c; rr_alloc := a; rr_load := RSkip |}.

(* one round of a live gateway; None = the gateway is dead (a step panicked) *)
Definition round (fx : fixes) (inst : Z) (lower : bool) (l : list schema) (g : option gateway) (ls : limstate)
  : round_res * option gateway * limstate :=
  match g with
  | None => (dead_round RSkip RSkip RSkip, None, ls)
  | Some g0 =>
      match gsync fx g0 l with
      | None => (dead_round RPanic RSkip RSkip, None, ls)
      | Some g1 =>
          let g2 := count_pass g1 in
          match alloc_pass fx inst lower l g2 ls with
          | (RPanic, _, ls') => (dead_round ROk ROk RPanic, None, ls')
          | (a, g3, ls') => ({| rr_sync := ROk; rr_count := ROk; rr_alloc := a; rr_load := ROk |}, Some g3, ls')
          end
      end
  end.

(* Script.  Before each round the limiter's handler has seen that round's version.  Gateway A plays a round on every
   version in turn; when there is more than one version, replica B (which never saw an earlier one) plays its first
   round on the last version BEFORE A does - so A's stored condition is still the one of the previous version. *)
Fixpoint rounds_tail (fx : fixes) (lower : bool) (vs : list (list schema)) (g : option gateway) (ls : limstate)
  : list round_res :=
  match vs with
  | [] => []
  | [l] => let '(rb, _, ls1) := round fx 2 lower l (Some fresh_gateway) ls in
           let '(ra, _, _) := round fx 1 lower l g ls1 in [rb; ra]
  | l :: r => let '(rr, g', ls') := round fx 1 lower l g ls in rr :: rounds_tail fx lower r g' ls'
  end.
Definition remote_rounds (fx : fixes) (lower : bool) (vs : list (list schema)) : list round_res :=
  match vs with
  | [] => []
  | l :: r => let '(rr, g', ls') := round fx 1 lower l (Some fresh_gateway) [] in rr :: rounds_tail fx lower r g' ls'
  end.

(* ====================================================================================================
   EXTENSION 3 — the feature-gate annotation as a RAW string.
   The admission plugin (Validate) and the gateway (ClusterInfo.syncFeatureGate) each read
   annotations["proxy.kubegateway.io/feature-gates"] and hand it to featuregate.Set on a copy of the default
   gates; the fact [f_gate] of an object is what that parser says about its raw value.
   [gate_accepts] follows k8s.io/component-base@v0.18.10 featuregate.Set + SetFromMap:
     for each piece of strings.Split(value, ","): skip the EMPTY piece (length 0 - a blank one is not skipped);
     strings.SplitN(piece, "=", 2): no "=" -> error; key and value are TrimSpace'd; strconv.ParseBool(value);
     afterwards every key must be a known feature (the four gateway gates, and AllAlpha / AllBeta which every
     feature gate knows); no gate is locked to its default.
   White space = the ASCII white space of unicode.IsSpace (\t \n \v \f \r and blank); the generator stays ASCII.
   ==================================================================================================== *)
Definition is_space (a : ascii) : bool :=
  let n := N_of_ascii a in ((9 <=? n) && (n <=? 13) || (n =? 32))%N.
Fixpoint ltrim (s : string) : string :=
  match s with String a r => if is_space a then ltrim r else s | EmptyString => EmptyString end.
Definition trim_space (s : string) : string := str_rev (ltrim (str_rev (ltrim s))).

(* strings.Split(s, sep) for a one-character separator: always at least one piece *)
Fixpoint split_aux (sep : ascii) (s : string) (cur : string) : list string :=
  match s with
  | EmptyString => [str_rev cur]
  | String a r => if Ascii.eqb a sep then str_rev cur :: split_aux sep r EmptyString
                  else split_aux sep r (String a cur)
  end.
Definition split_on (sep : ascii) (s : string) : list string := split_aux sep s EmptyString.

(* strings.SplitN(s, "=", 2): None = no "=" *)
Fixpoint cut_eq_aux (s : string) (cur : string) : option (string * string) :=
  match s with
  | EmptyString => None
  | String a r => if Ascii.eqb a "="%char then Some (str_rev cur, r) else cut_eq_aux r (String a cur)
  end.
Definition cut_eq (s : string) : option (string * string) := cut_eq_aux s EmptyString.

(* strconv.ParseBool *)
Definition parse_bool_ok (v : string) : bool :=
  str_mem v ["1"; "t"; "T"; "TRUE"; "true"; "True"; "0"; "f"; "F"; "FALSE"; "false"; "False"]%string.
Definition known_gate (k : string) : bool :=
  str_mem k ["CloseConnectionWhenIdle"; "DenyAllRequests"; "GlobalRateLimiter"; "Tracing"; "AllAlpha"; "AllBeta"]%string.

Definition piece_ok (p : string) : bool :=
  match p with
  | EmptyString => true                                   (* len(s) == 0: continue *)
  | _ => match cut_eq p with
         | None => false                                  (* missing bool value *)
         | Some (k, v) => parse_bool_ok (trim_space v) && known_gate (trim_space k)
         end
  end.
(* featuregate.Set(value) == nil.  (A key that fails ParseBool in one piece and is unknown in another: error either
   way; keys are only looked up after all pieces parsed, the verdict is the conjunction.) *)
Definition gate_accepts (value : string) : bool := forallb piece_ok (split_on ","%char value).

(* admission plugin: if cluster.Annotations != nil { fg := annotations[key]; if len(fg) > 0 { copy.Set(fg) != nil -> error } } *)
Definition admit_gate (raw : option string) : bool :=
  match raw with
  | None => true
  | Some EmptyString => true
  | Some v => gate_accepts v
  end.
(* ClusterInfo.syncFeatureGate: fg := annotations[key] (a nil map reads as ""); len(fg) == 0 -> reset, nil;
   else gates.Set(fg) *)
Definition sync_gate (raw : option string) : bool :=
  let v := match raw with None => EmptyString | Some v => v end in
  match v with EmptyString => true | _ => gate_accepts v end.

(* the fact of the object *)
Definition gate_of_raw (raw : option string) : gatefact :=
  match raw with
  | None | Some EmptyString => GAbsent
  | Some v => if gate_accepts v then GOk else GBad
  end.
Definition gatefact_eqb (a b : gatefact) : bool :=
  match a, b with GAbsent, GAbsent | GOk, GOk | GBad, GBad => true | _, _ => false end.
