(* C02 — property theorems (statements only; proofs live in C02_Proofs.v).
   Partial proof: the header / percent-codec algebra of the gateway is proved for all inputs;
   net/http (parsing, canonicalisation, field-value rules) is part of the model and is validated
   by the correspondence run only.  Connection upgrades (exec / attach / port-forward) are covered at the
   identity level: [pipeline] follows apimachinery's tryUpgrade path (all headers cloned, X-Forwarded-For
   appended, WrapRequest of the endpoint's upgrade transport, no bearer / user-agent wrapper); the tunnel
   after "101 Switching Protocols" is not modelled. *)
From KG Require Import Prelude C02_Model C02_Spec C02_Proofs C02_HistModel C02_HistSpec C02_HistProofs.
Open Scope Z_scope.
Open Scope string_scope.
Open Scope list_scope.

(* Whenever a request is forwarded, the identity the upstream decodes from the headers it receives is
   exactly the expected one: the authenticated identity, or — only if the authorizer allowed every asked
   item — the asked identity with Kubernetes' group rules.  Name and groups are equal as strings / lists;
   extra attributes are equal as multisets of (key, value) with keys compared modulo ASCII case, because
   the upstream lower-cases header names before percent-decoding them ([told_matches]).  Hypothesis
   [told_clean]: every string of the expected identity is an HTTP field value that net/http does not
   alter (no control byte, no leading/trailing blank); extra KEYS are unrestricted.  A request of a user
   without a name is never forwarded. *)
Theorem C02_identity_exact : forall token ip h id authz h',
  pipeline token ip h id authz = Forwarded h' ->
  told_clean (expected h id) = true ->
  told_matches (told_identity h') (expected h id) = true
  /\ (asks h = true -> forallb authz (asked_items h) = true)
  /\ (asks h = false -> uname id <> "").
Proof. exact identity_exact_full. Qed.
Print Assumptions C02_identity_exact.

(* a denied impersonation is answered 403 by the gateway: nothing reaches the upstream *)
Theorem C02_denied_not_forwarded : forall token ip h id authz,
  asks h = true -> forallb authz (asked_items h) = false ->
  pipeline token ip h id authz = Answered 403.
Proof. exact denied_not_forwarded. Qed.
Print Assumptions C02_denied_not_forwarded.

(* a malformed impersonation (groups or extras without a user) is answered 500 by the gateway *)
Theorem C02_malformed_not_forwarded : forall token ip h id authz,
  malformed h = true ->
  pipeline token ip h id authz = Answered 500.
Proof. exact malformed_not_forwarded. Qed.
Print Assumptions C02_malformed_not_forwarded.

(* an authenticated identity without a name is never forwarded (an empty Impersonate-User would make the
   upstream act as the gateway itself); holds for the code repaired by 473834c *)
Theorem C02_unnamed_not_forwarded : forall token ip h id authz,
  asks h = false -> uname id = "" -> forall h', pipeline token ip h id authz <> Forwarded h'.
Proof. exact unnamed_not_forwarded. Qed.
Print Assumptions C02_unnamed_not_forwarded.

(* the upstream receives exactly one Authorization value, the gateway's own credential (none at all on the
   connection-upgrade path, where the bearer wrapper is not applied), never a client's, and every header of
   the Impersonate-* family it receives is one the gateway generated from the context user [id1] (which
   matches the expected identity): nothing identity-bearing the client sent survives *)
Theorem C02_no_client_identity_header_survives : forall token ip h id authz h',
  pipeline token ip h id authz = Forwarded h' ->
  exists id1, matches_expected id1 (expected h id) /\
    h_values H_AUTH h' = (if is_upgrade_request h then [] else [trim_ows ("Bearer " +++ token)]) /\
    forall e, In e h' -> has_prefix (fst e) H_IMP = true -> In e (wire (generated_headers id1)).
Proof. exact no_client_identity_header_survives. Qed.
Print Assumptions C02_no_client_identity_header_survives.

(* for every byte string k: the header the gateway emits for extra key k carries the Impersonate-Extra-
   prefix, and lower-casing + percent-decoding its suffix (what the upstream does) yields k with exactly
   the unescaped ASCII letters A-Z folded to lower case; every byte that had to be escaped (non-token
   bytes and '%') is restored exactly — none of them is a letter *)
Theorem C02_escape_roundtrip : forall k : string,
  has_prefix (extra_header k) H_EXTRA = true /\
  unescape_extra_key (to_lower (str_drop (String.length H_EXTRA) (extra_header k))) = to_lower k /\
  (forall c, hk_should_escape c = true -> lower_ascii c = c).
Proof. exact escape_roundtrip. Qed.
Print Assumptions C02_escape_roundtrip.

(* the model satisfies every clause of the executable specification that the check evaluates on the
   real observations (C02_Spec.spec_clauses) *)
Theorem C02_model_meets_spec : forall token ip h id deny,
  spec_clauses token h id deny (obs_of (pipeline token ip h id (allowed deny))) = [true; true; true; true].
Proof. exact model_meets_spec. Qed.
Print Assumptions C02_model_meets_spec.

(* Histories with the multi-cluster SubjectAccessReview authorizer (decision caches per (host, cluster serving
   it), dropped when that cluster is stopped; as repaired by 95b80b4): for every history of cluster creations,
   deletions, re-creations under the same name (same or other server names, other RBAC), policy changes,
   server names moving between two LIVE clusters, time steps and requests, every request is decided by the
   incarnation that owns its host at that moment:
     fst: a forwarded impersonation goes to that incarnation, carries exactly the requested Impersonate-User,
          and that incarnation's policy allows it now or it answered "allow" within the allow-TTL;
     snd: otherwise the request is answered 403 and nothing is forwarded.
   ([hcheck] is the executable specification the check evaluates on the real observations.) *)
Theorem C02_decision_of_current_cluster : forall attl dttl ops,
  hcheck attl world0 [] (combine ops (hrun attl dttl hstate0 ops)) = (true, true).
Proof. exact decision_of_current_cluster. Qed.
Print Assumptions C02_decision_of_current_cluster.

(* ResetTransport (GatewayHealthCheck after repeated hanging probes) rebuilds an endpoint's transports from its
   stored config: after any number of resets a request is still forwarded through the impersonating round
   tripper, i.e. the pipeline - and with it every theorem above - is independent of the transport generation *)
Theorem C02_identity_survives_transport_reset : forall n token ip h id authz,
  pipeline_ep (after_resets n new_endpoint) token ip h id authz = pipeline token ip h id authz.
Proof. exact identity_survives_transport_reset. Qed.
Print Assumptions C02_identity_survives_transport_reset.

Example C02_transport_reset_nonvacuous :
  after_resets 2 new_endpoint = mkEp true true /\
  pipeline_ep (after_resets 2 new_endpoint) "tok" "10.0.0.9" [("X-Custom", ["1"])] (mkId "alice" ["g1"] []) (fun _ => true) =
    Forwarded [("X-Custom", ["1"]); ("X-Forwarded-For", ["10.0.0.9"]); ("User-Agent", ["<gateway-user-agent>"]);
               ("Authorization", ["Bearer tok"]); ("Impersonate-User", ["alice"]); ("Impersonate-Group", ["g1"])] /\
  (* without the impersonating round tripper the upstream would see the gateway's credential only *)
  send_with false "tok" "10.0.0.9" (mkId "alice" ["g1"] []) [("X-Custom", ["1"])] =
    Forwarded [("X-Custom", ["1"]); ("X-Forwarded-For", ["10.0.0.9"]); ("User-Agent", ["<gateway-user-agent>"]);
               ("Authorization", ["Bearer tok"])].
Proof. vm_compute. repeat split. Qed.

(* ---- non-vacuity *)
(* the first decision is cached through an alias, the cluster is deleted and re-created with an RBAC that
   denies: the re-created cluster is asked and the request is refused *)
Example C02_decision_of_current_cluster_nonvacuous :
  let ops := [HCreate "a" ["h"] [(("alice", "bob"), AAllow)]; HReq "h" "alice" "bob"; HReq "h" "alice" "bob";
              HDelete "a"; HCreate "a" ["h"] [(("alice", "bob"), ADeny)]; HReq "h" "alice" "bob";
              HPolicy "a" [(("alice", "bob"), AAllow)]; HAdvance 31; HReq "a" "alice" "bob"] in
  hrun 300 30 hstate0 ops =
    [mkHObs true 0 [] []; mkHObs true 200 [(1, ["bob"])] [(1, ("alice", "bob"), AAllow)]; mkHObs true 200 [(1, ["bob"])] [];
     mkHObs true 0 [] []; mkHObs true 0 [] []; mkHObs true 403 [] [(2, ("alice", "bob"), ADeny)];
     mkHObs true 0 [] []; mkHObs true 0 [] []; mkHObs true 200 [(2, ["bob"])] [(2, ("alice", "bob"), AAllow)]]
  /\
  (* H1: a server name moves from a cluster that allows to a live cluster that denies: the new owner is asked *)
  hrun 300 30 hstate0 [HCreate "a" ["h"] [(("alice", "bob"), AAllow)]; HCreate "b" [] [(("alice", "bob"), ADeny)];
                       HReq "h" "alice" "bob"; HMove "h" "a" "b"; HReq "h" "alice" "bob"] =
    [mkHObs true 0 [] []; mkHObs true 0 [] []; mkHObs true 200 [(1, ["bob"])] [(1, ("alice", "bob"), AAllow)];
     mkHObs true 0 [] []; mkHObs true 403 [] [(2, ("alice", "bob"), ADeny)]].
Proof. vm_compute. split; reflexivity. Qed.

Definition ex_headers : headers :=
  [("Authorization", ["Bearer client"]); ("Impersonate-Extra-Scopes%2fx", ["view"]); ("Impersonate-Group", ["dev"; "ops"]);
   ("Impersonate-Uid", ["9"]); ("Impersonate-User", ["bob"]); ("X-Custom", ["1"])].
Definition ex_id : identity := mkId "alice" ["g1"] [("K/1", ["v1"; "v2"]); ("aB", ["z"])].

Example C02_identity_exact_nonvacuous :
  pipeline "tok" "10.0.0.9" ex_headers ex_id (fun _ => true) =
    Forwarded [("X-Custom", ["1"]); ("X-Forwarded-For", ["10.0.0.9"]); ("User-Agent", ["<gateway-user-agent>"]);
               ("Authorization", ["Bearer tok"]); ("Impersonate-User", ["bob"]);
               ("Impersonate-Group", ["dev"]); ("Impersonate-Group", ["ops"]); ("Impersonate-Group", ["system:authenticated"]);
               ("Impersonate-Extra-Scopes%2fx", ["view"])]
  /\ told_clean (expected ex_headers ex_id) = true
  /\ asks ex_headers = true
  /\ pipeline "tok" "10.0.0.9" [("X-Custom", ["1"])] ex_id (fun _ => true) =
     Forwarded [("X-Custom", ["1"]); ("X-Forwarded-For", ["10.0.0.9"]); ("User-Agent", ["<gateway-user-agent>"]);
                ("Authorization", ["Bearer tok"]); ("Impersonate-User", ["alice"]); ("Impersonate-Group", ["g1"]);
                ("Impersonate-Extra-K%2f1", ["v1"]); ("Impersonate-Extra-K%2f1", ["v2"]); ("Impersonate-Extra-Ab", ["z"])].
Proof. vm_compute. repeat split. Qed.

Example C02_denied_nonvacuous :
  asks ex_headers = true /\
  forallb (fun it => negb (String.eqb (it_name it) "ops")) (asked_items ex_headers) = false.
Proof. vm_compute. repeat split. Qed.

(* a connection upgrade (kubectl exec) with an allowed impersonation: same identity headers, no Authorization,
   Connection / Upgrade forwarded *)
Example C02_upgrade_nonvacuous :
  is_upgrade_request (("Connection", ["Upgrade"]) :: ("Upgrade", ["SPDY/3.1"]) :: ex_headers) = true /\
  pipeline "tok" "10.0.0.9" (("Connection", ["Upgrade"]) :: ("Upgrade", ["SPDY/3.1"]) :: ex_headers) ex_id (fun _ => true) =
    Forwarded [("Connection", ["Upgrade"]); ("Upgrade", ["SPDY/3.1"]); ("X-Custom", ["1"]); ("X-Forwarded-For", ["10.0.0.9"]);
               ("User-Agent", ["Go-http-client/1.1"]); ("Impersonate-User", ["bob"]);
               ("Impersonate-Group", ["dev"]); ("Impersonate-Group", ["ops"]); ("Impersonate-Group", ["system:authenticated"]);
               ("Impersonate-Extra-Scopes%2fx", ["view"])].
Proof. vm_compute. split; reflexivity. Qed.

Example C02_malformed_nonvacuous : malformed [("Impersonate-Group", ["dev"])] = true.
Proof. reflexivity. Qed.

Example C02_escape_roundtrip_nonvacuous :
  extra_header "k%/ A" = "Impersonate-Extra-K%25%2f%20a" /\
  unescape_extra_key (to_lower (str_drop (String.length H_EXTRA) (extra_header "k%/ A"))) = "k%/ a".
Proof. vm_compute. split; reflexivity. Qed.
