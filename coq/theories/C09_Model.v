(* C09 — executable model of the gateway-side limiter selection and of the
   remote (server-driven) limiters of one flow-control schema.

   Mirrors, branch by branch:
     pkg/flowcontrols/limiter.go            upstreamLimiter.Load / GetOrDefault     -> [select]
     pkg/flowcontrols/remote/flowcontrol_wrapper.go
                                            remoteWrapper.Sync / newFlowControl      -> [rw_sync] [new_inner]
                                            localWrapper.Sync (strategy change)      -> [EStrategy]
     pkg/flowcontrols/remote/global_flowcontrol.go
                                            newFlowControlCounter, maxInflightWrapper
                                            / tokenBucketWrapper .Resize .SetLimit   -> [mi_resize] [tb_resize] [set_limit]
     pkg/flowcontrols/remote/remote_allocation.go
                                            updateFlowControls / updateGlobalCuntFlowControls -> [EQuota] [ECfgSync]
     pkg/ratelimiter/clientsets/clientsets.go  setLeaderStatus / IsReady             -> [heartbeat] [is_ready]
     pkg/flowcontrols/flowcontrol/flowcontrol.go NewFlowControl / Resize (uint32 conversions) -> [new_lim] [resize_lim]

   Two parameters select the behaviour:
     [fx]  the repair build/fixes/C09_clamp.diff (applied to /repo as 95d346a, 4ffdf03, 82b2250);
           [fx = false] is the tree before it;
     [fy]  the repair build/fixes/C09_reclamp_on_schema_update.diff (applied as 9fe3fd1, 6549ff0): a
           schema update re-bounds the quota in force at once, also while the limiter server is unavailable;
     [fz]  the repair 06780c0: a schema update that changes the flow-control TYPE drops the remote
           wrapper (its quota was granted for the other type).
   The theorems are about [fx = fy = fz = true]; C09_Unrepaired.v refutes them for the other trees.
   Machine integers: int32 values are [Z] with explicit [wrap32]/[wrapu32] at every
   Go conversion.  No proofs here. *)
From KG Require Import Prelude.
Open Scope Z_scope.

(* ---------- configuration (type, strategy and limits change with ESchema) ---------- *)
Inductive kind := KMI | KTB.                  (* max-in-flight schema | token-bucket schema *)
Inductive strategy := SEmpty | SLocal | SAlloc | SCount | SOther.   (* "", local, globalAllocate, globalCount, other text *)
Inductive mode := MRemote | MLocal | MOther.  (* upstreamLimiter.rateLimiter *)
Inductive csk := CSOk | CSZero | CSNil.       (* clientSets: shard count known | shard count 0 (server unknown) | nil *)

(* KMI: l1 = maxRequestsInflight.max, g1 = globalMaxRequestsInflight.max (l2 g2 unused)
   KTB: l1,l2 = tokenBucket qps,burst ; g1,g2 = globalTokenBucket qps,burst *)
Record config := { ck : kind; l1 : Z; l2 : Z; g1 : Z; g2 : Z }.
Record static := { cfg : config; md : mode; cs : csk }.

(* ---------- what the limiter server can say ---------- *)
Inductive detail := DNone | DMI (m : Z) | DTB (q b : Z)        (* LimitItemDetail *)
                  | DBoth (m q b : Z).                          (* both members set *)
Record item := { idet : detail; istr : strategy }.             (* RateLimitItemConfiguration (name fixed) *)
Inductive reply :=                                             (* RateLimitAcquireResult given to SetLimit *)
| RErr (mx rate : Z)      (* Error != "" (not RequestIDTooOld); mx, rate = what the meter reports at that moment *)
| ROld                    (* Error = "RequestIDTooOld" *)
| ROk (accept : bool) (limit : Z).

(* what the (scripted) limiter server does with one acquire call of the counter manager *)
Inductive sreply :=
| SvAccept (limit : Z) | SvReject (limit : Z)
| SvError               (* a result with Error set *)
| SvCallErr             (* the call fails: doAcquire synthesizes an error result for every request *)
| SvOmit.               (* the call succeeds but carries no result for the schema: a MISSING reply *)

Inductive ev :=
| EQuota (it : item)            (* reconcile.updateFlowControls with a server answer for the schema *)
| EWorker (idle : bool) (sv : sreply) (mx rate : Z)
                                (* one round of the counter manager's worker (doAcquire): idle = no request was
                                   counted since the last round; mx, rate = meter readings if the reply is an error *)
| EWatchdog (mx rate : Z)       (* one tick of globalCounter.resetCheck *)
| ECfgSync                      (* reconcile.updateGlobalCuntFlowControls *)
| ECount (r : reply) (rt : Z)   (* globalCounter.send -> remoteWrapper.SetLimit, rt = requestTime *)
| EHb (ok : bool)               (* one heartbeat outcome -> clientSets.setLeaderStatus *)
| ELeader                       (* clientSets.sync sees another leader of the shard: setLeaderStatus(.., true) *)
| EElapse (ms : Z)              (* time passes (milliseconds) *)
| EStrategy (s : strategy)      (* schema update changing only the strategy -> localWrapper.Sync *)
| ESchema (k : kind) (x : strategy) (a b g h : Z)
                                (* schema update (or the schema added again): type k, strategy x, local a,b ; global g,h *)
| EDelete                       (* the schema is removed from the UpstreamCluster: FlowControlMap.Delete *)
| EEnable.                      (* reconcile goroutine preempted between EnableRemoteFlowControl and Sync *)

(* ---------- limiters ---------- *)
Inductive lim := LMI (n : Z) | LTB (q b : Z) | LInf.           (* flowcontrol.FlowControl: sizes are uint32 *)
Inductive ltype := TMI | TTB | TExempt | TUnknown.
Inductive wk := WEmpty | WMI | WTB.                            (* emptyGlobalWrapper | maxInflightWrapper | tokenBucketWrapper *)

Record inner := {
  iw : wk; il : lim;
  imax : Z; irsv : Z;          (* maxInflightWrapper.max / reserve (int32) *)
  iqps : Z; iburst : Z;        (* tokenBucketWrapper.qps / burst (uint32) *)
  iun : bool; iover : bool;    (* serverUnavailable / overLimited *)
  ilast : Z;                   (* maxInflightWrapper.lastAcquireTime *)
  ifb : Z;                     (* (fy) fallback: max(observed, local) when the server became unavailable *)
  isync : Z                    (* globalCounter.lastSyncTime (Unix seconds) of the counter created with this limiter *)
}.
Record rwrap := { rin : option inner; rcfg : option item }.    (* remoteWrapper; rcfg None = zero value *)

Record state := {
  present : bool;              (* the schema name is in upstreamLimiter.flowControls *)
  scfg : config;               (* localConfig: type and limits currently configured *)
  sstr : strategy;             (* localConfig.Strategy *)
  rem : option rwrap;          (* flowControlCache.remote *)
  hlast : bool; hready : bool; hage : Z;   (* heartbeatStatus: lastState, ready, milliseconds since lastChange *)
  crashed : bool;              (* a nil dereference happened in the reconcile goroutine *)
  snow : Z;                    (* the clock: milliseconds since the start of the history *)
  srounds : Z                  (* worker rounds so far (one virtual nanosecond each: request times are distinct) *)
}.

Definition init (c : config) (s : strategy) : state :=
  {| present := true; scfg := c; sstr := s; rem := None; hlast := false; hready := false; hage := 0; crashed := false;
     snow := 0; srounds := 0 |}.

(* ---------- small helpers ---------- *)
Definition strategy_eqb (a b : strategy) : bool :=
  match a, b with
  | SEmpty, SEmpty | SLocal, SLocal | SAlloc, SAlloc | SCount, SCount | SOther, SOther => true
  | _, _ => false
  end.
Definition detail_eqb (a b : detail) : bool :=
  match a, b with
  | DNone, DNone => true
  | DMI x, DMI y => x =? y
  | DTB q b, DTB q' b' => (q =? q') && (b =? b')
  | DBoth m q b, DBoth m' q' b' => (m =? m') && (q =? q') && (b =? b')
  | _, _ => false
  end.
Definition kind_eqb (a b : kind) : bool := match a, b with KMI, KMI | KTB, KTB => true | _, _ => false end.
Definition item_eqb (a b : item) : bool := detail_eqb (idet a) (idet b) && strategy_eqb (istr a) (istr b).
Definition ltype_eqb (a b : ltype) : bool :=
  match a, b with
  | TMI, TMI | TTB, TTB | TExempt, TExempt | TUnknown, TUnknown => true
  | _, _ => false
  end.

Definition clamp (v lo hi : Z) : Z :=
  let v1 := if hi <? v then hi else v in if v1 <? lo then lo else v1.

(* flowcontrol.NewFlowControl(toFlowControlSchema(item)) *)
Definition new_lim (d : detail) : lim :=
  match d with
  | DMI m => LMI (wrapu32 m)
  | DTB q b => LTB (wrapu32 q) (wrapu32 b)
  | DBoth m _ _ => LMI (wrapu32 m)                 (* toFlowControlSchema looks at MaxRequestsInflight first *)
  | DNone => LInf                                  (* GuessFlowControlSchemaType -> Exempt: infinite bucket *)
  end.
Definition lim_type (l : lim) : ltype :=
  match l with LMI _ => TMI | LTB _ _ => TTB | LInf => TExempt end.
Definition det_type (d : detail) : ltype :=       (* GetFlowControlTypeFromLimitItem *)
  match d with DMI _ | DBoth _ _ _ => TMI | DTB _ _ => TTB | DNone => TUnknown end.
(* flowControl.Resize / resizeableTokenBucket.Resize *)
Definition resize_lim (l : lim) (n b : Z) : lim :=
  match l with LMI _ => LMI n | LTB _ _ => LTB n b | LInf => LInf end.

Definition local_lim (c : config) : lim :=
  match ck c with KMI => LMI (wrapu32 (l1 c)) | KTB => LTB (wrapu32 (l1 c)) (wrapu32 (l2 c)) end.
Definition global_detail (c : config) : detail :=
  match ck c with KMI => DMI (g1 c) | KTB => DTB (g1 c) (g2 c) end.
(* EnableGlobalFlowControl (the schema always carries its global section) *)
Definition enable_global (s : strategy) : bool :=
  match s with SAlloc | SCount => true | _ => false end.

(* the 2 % burst reserve of maxInflightWrapper.Resize, in int32 arithmetic *)
Definition reserve_raw (mx : Z) : Z :=
  let r0 := Z.quot (wrap32 (mx * 2)) 100 in if r0 <? 1 then 1 else r0.
Definition reserve_of (fx : bool) (mx : Z) : Z :=
  let r := reserve_raw mx in if fx && (mx <? r) then mx else r.

(* ---------- the global-count wrappers ---------- *)
Definition set_il (i : inner) (l : lim) : inner :=
  {| iw := iw i; il := l; imax := imax i; irsv := irsv i; iqps := iqps i; iburst := iburst i;
     iun := iun i; iover := iover i; ilast := ilast i; ifb := ifb i; isync := isync i |}.

(* maxInflightWrapper.Resize(max uint32, _); (fy) while the server is unavailable the fallback in
   force is kept within the new maximum: unavailableMax() *)
Definition mi_resize (fx fy : bool) (i : inner) (n : Z) : inner :=
  let mx := wrap32 n in
  let r := reserve_of fx mx in
  {| iw := iw i;
     il := if iun i
           then (if fy then resize_lim (il i) (wrapu32 (if mx <? ifb i then mx else ifb i)) 0 else il i)
           else resize_lim (il i) (wrapu32 r) 0;
     imax := mx; irsv := r; iqps := iqps i; iburst := iburst i;
     iun := iun i; iover := iover i; ilast := ilast i; ifb := ifb i; isync := isync i |}.

(* tokenBucketWrapper.Resize(qps, burst uint32): the unrepaired code stores burst := qps;
   (fy) unavailableLimits() while the server is unavailable *)
Definition tb_resize (fx fy : bool) (i : inner) (q b : Z) : inner :=
  let b' := if fx then b else q in
  {| iw := iw i;
     il := if iun i
           then (if fy then resize_lim (il i) (wrapu32 (if q <? ifb i then q else ifb i))
                                              (wrapu32 (if b' <? ifb i then b' else ifb i))
                 else il i)
           else resize_lim (il i) q b;
     imax := imax i; irsv := irsv i; iqps := q; iburst := b';
     iun := iun i; iover := iover i; ilast := ilast i; ifb := ifb i; isync := isync i |}.

Definition inner_resize (fx fy : bool) (i : inner) (n b : Z) : inner :=
  match iw i with
  | WEmpty => set_il i (resize_lim (il i) n b)
  | WMI => mi_resize fx fy i n
  | WTB => tb_resize fx fy i n b
  end.

Definition blank (w : wk) (l : lim) (t : Z) : inner :=
  {| iw := w; il := l; imax := 0; irsv := 0; iqps := 0; iburst := 0; iun := false; iover := false; ilast := 0;
     ifb := 0; isync := t |}.

(* remoteWrapper.newFlowControl + newFlowControlCounter; None = nil dereference *)
(* [t]: the clock (Unix seconds): a global-count limiter gets a counter whose watchdog starts now *)
Definition new_inner (fx fy : bool) (t : Z) (it : item) : option inner :=
  let fc := new_lim (idet it) in
  if negb (strategy_eqb (istr it) SCount) then Some (blank WEmpty fc t)
  else match idet it with
       | DMI m | DBoth m _ _ => Some (mi_resize fx fy (blank WMI fc t) (wrapu32 m))
       | DTB q b => Some (tb_resize fx fy (blank WTB fc t) (wrapu32 q) (wrapu32 b))
       | DNone => None            (* default branch reads limitItem.TokenBucket.QPS of a nil pointer *)
       end.

(* the repair: bound the answered item by the configured global limit; reject a wrong type *)
Definition sanitize (c : config) (it : item) : option item :=
  match ck c, idet it with
  | KMI, DMI m | KMI, DBoth m _ _ => Some {| idet := DMI (clamp m 0 (g1 c)); istr := istr it |}
  | KTB, DTB q b | KTB, DBoth _ q b => Some {| idet := DTB (clamp q 0 (g1 c)) (clamp b 0 (g2 c)); istr := istr it |}
  | _, _ => None
  end.

Definition rcfg_strategy (w : rwrap) : strategy :=
  match rcfg w with Some it => istr it | None => SEmpty end.
Definition rcfg_is (w : rwrap) (it : item) : bool :=
  match rcfg w with Some x => item_eqb x it | None => false end.

(* remoteWrapper.Sync; None = nil dereference *)
Definition rw_sync (fx fy : bool) (c : config) (t : Z) (w : rwrap) (it0 : item) : option rwrap :=
  match (if fx then sanitize c it0 else Some it0) with
  | None => Some w                                      (* repaired: answer of the wrong type is ignored *)
  | Some it =>
      if rcfg_is w it then Some w else
      let recreate := match new_inner fx fy t it with
                      | Some i => Some {| rin := Some i; rcfg := Some it |}
                      | None => None
                      end in
      match rin w with
      | None => recreate
      | Some i =>
          if negb (ltype_eqb (lim_type (il i)) (det_type (idet it)))
             || negb (strategy_eqb (rcfg_strategy w) (istr it))
          then recreate
          else match idet it, ck c with
               | DMI m, KMI | DBoth m _ _, KMI =>
                   let m' := if g1 c <? m then g1 c else m in
                   Some {| rin := Some (inner_resize fx fy i (wrapu32 m') 0); rcfg := Some it |}
               | DTB q b, KTB =>
                   let q' := if g1 c <? q then g1 c else q in
                   Some {| rin := Some (inner_resize fx fy i (wrapu32 q') (wrapu32 b)); rcfg := Some it |}
               | DMI _, KTB | DBoth _ _ _, KTB => None  (* local.Config().GlobalMaxRequestsInflight is nil *)
               | DTB _ _, KMI => None                   (* local.Config().GlobalTokenBucket is nil *)
               | DNone, _ => recreate
               end
      end
  end.

(* maxInflightWrapper.SetLimit / tokenBucketWrapper.SetLimit / emptyGlobalWrapper.SetLimit *)
Definition set_limit (fx : bool) (c : config) (i : inner) (r : reply) (rt : Z) : option inner :=
  match iw i with
  | WEmpty => Some i
  | WMI =>
      if (0 <? rt) && (rt <=? ilast i) then Some i else
      match r with
      | ROld => Some i
      | RErr mx _ =>
          if iun i then Some i else
          match ck c with
          | KTB => None                                  (* localConfig.MaxRequestsInflight is nil *)
          | KMI =>
              let x0 := if mx <? l1 c then l1 c else mx in
              let x := if fx && (imax i <? x0) then imax i else x0 in
              Some {| iw := WMI; il := resize_lim (il i) (wrapu32 x) 0; imax := imax i; irsv := irsv i;
                      iqps := iqps i; iburst := iburst i; iun := true; iover := iover i; ilast := ilast i;
                      ifb := x0; isync := isync i |}
          end
      | ROk true limit =>
          let v := if limit <? irsv i then irsv i else limit in
          let v := if imax i <? v then imax i else v in
          Some {| iw := WMI; il := resize_lim (il i) (wrapu32 v) 0; imax := imax i; irsv := irsv i;
                  iqps := iqps i; iburst := iburst i; iun := false; iover := false; ilast := rt; ifb := ifb i; isync := isync i |}
      | ROk false limit =>
          let v := if fx then clamp limit 0 (imax i) else limit in
          Some {| iw := WMI; il := resize_lim (il i) (wrapu32 v) 0; imax := imax i; irsv := irsv i;
                  iqps := iqps i; iburst := iburst i; iun := iun i; iover := true; ilast := rt; ifb := ifb i; isync := isync i |}
      end
  | WTB =>
      match r with
      | ROld => Some i
      | RErr _ rate =>
          if iun i then Some i else
          match ck c with
          | KMI => None                                  (* localConfig.TokenBucket is nil *)
          | KTB =>
              let x := if rate <? l1 c then l1 c else rate in          (* float64 comparison *)
              let q := wrapu32 (if fx && (iqps i <? x) then iqps i else x) in
              let b := wrapu32 (if fx && (iburst i <? x) then iburst i else x) in
              Some {| iw := WTB; il := resize_lim (il i) q b; imax := imax i; irsv := irsv i;
                      iqps := iqps i; iburst := iburst i; iun := true; iover := iover i; ilast := ilast i;
                      ifb := x; isync := isync i |}
          end
      | ROk true _ =>
          if iun i
          then Some {| iw := WTB; il := resize_lim (il i) (iqps i) (iburst i); imax := imax i; irsv := irsv i;
                       iqps := iqps i; iburst := iburst i; iun := false; iover := iover i; ilast := ilast i;
                       ifb := ifb i; isync := isync i |}
          else Some i
      | ROk false _ => Some i
      end
  end.

(* ---------- state updates ---------- *)
Definition set_rem (s : state) (r : option rwrap) : state :=
  {| present := present s; scfg := scfg s; sstr := sstr s; rem := r; hlast := hlast s; hready := hready s; hage := hage s; crashed := crashed s; snow := snow s; srounds := srounds s |}.
Definition crash (s : state) : state :=
  {| present := present s; scfg := scfg s; sstr := sstr s; rem := rem s; hlast := hlast s; hready := hready s; hage := hage s; crashed := true; snow := snow s; srounds := srounds s |}.

Definition empty_rw : rwrap := {| rin := None; rcfg := None |}.

(* EnableRemoteFlowControl (if needed) followed by remoteWrapper.Sync(it) *)
Definition now_sec (s : state) : Z := snow s / 1000.       (* time.Now().Unix() *)

Definition apply_sync (fx fy : bool) (c : config) (s : state) (it : item) : state :=
  let w := match rem s with Some w => w | None => empty_rw end in
  match rw_sync fx fy c (now_sec s) w it with
  | Some w' => set_rem s (Some w')
  | None => crash s
  end.

(* clientSets.setLeaderStatus with ServerHeartBeatTimeout = 5 s; [hage] in milliseconds *)
Definition heartbeat (s : state) (ok : bool) : state :=
  let changed := negb (Bool.eqb (hlast s) ok) in
  let age := if changed then 0 else hage s in
  let rdy := if Bool.eqb (hready s) ok then hready s
             else if ok then true
             else if 5000 <=? age then false else hready s in      (* now.After(lastChange + 5 s) *)
  {| present := present s; scfg := scfg s; sstr := sstr s; rem := rem s; hlast := ok; hready := rdy; hage := age; crashed := crashed s; snow := snow s; srounds := srounds s |}.

Definition config_eqb (a b : config) : bool :=
  (l1 a =? l1 b) && (l2 a =? l2 b) && (g1 a =? g1 b) && (g2 a =? g2 b).

Definition set_cfg (s : state) (c : config) (x : strategy) (r : option rwrap) : state :=
  {| present := true; scfg := c; sstr := x; rem := r;
     hlast := hlast s; hready := hready s; hage := hage s; crashed := crashed s; snow := snow s; srounds := srounds s |}.

(* UpstreamLimiter.Sync with the schema (type k, strategy x, limits c') *)
Definition sync_schema (fx fy fz : bool) (s : state) (c' : config) (x : strategy) : state :=
  let c := scfg s in
  if negb (present s) then set_cfg s c' x None              (* NewFlowControlCache + first localWrapper.Sync *)
  else if kind_eqb (ck c') (ck c) && config_eqb c' c && strategy_eqb x (sstr s) then s   (* DeepEqual *)
  else if negb (kind_eqb (ck c') (ck c)) then
    (* the type changes: a new local limiter, and localWrapper.Sync returns;
       (fz) the remote wrapper, whose quota was granted for the other type, is stopped *)
    set_cfg s c' x (if fz then None else rem s)
  else if negb (enable_global x) then set_cfg s c' x None   (* stopRemoteWrapper *)
  else if fy then                                           (* remote.rebound() = Sync(remoteConfig) *)
    match rem s with
    | Some w =>
        match rin w, rcfg w with
        | Some _, Some it =>
            match rw_sync fx fy c' (now_sec s) w it with
            | Some w' => set_cfg s c' x (Some w')
            | None => crash (set_cfg s c' x (rem s))
            end
        | _, _ => set_cfg s c' x (rem s)
        end
    | None => set_cfg s c' x None
    end
  else set_cfg s c' x (rem s).

Definition set_rounds (s : state) (n : Z) : state :=
  {| present := present s; scfg := scfg s; sstr := sstr s; rem := rem s; hlast := hlast s; hready := hready s;
     hage := hage s; crashed := crashed s; snow := snow s; srounds := n |}.
Definition set_sync (i : inner) (t : Z) : inner :=
  {| iw := iw i; il := il i; imax := imax i; irsv := irsv i; iqps := iqps i; iburst := iburst i;
     iun := iun i; iover := iover i; ilast := ilast i; ifb := ifb i; isync := t |}.
Definition has_counter (i : inner) : bool := match iw i with WEmpty => false | _ => true end.
Definition reply_of (sv : sreply) (mx rate : Z) : reply :=
  match sv with
  | SvAccept l => ROk true l
  | SvReject l => ROk false l
  | _ => RErr mx rate
  end.
(* requestTime of a round: UnixNano of the virtual clock, one nanosecond per round *)
Definition request_time (s : state) : Z := snow s * 1000000 + srounds s + 1.
(* the counter that takes part in the acquire request of this round, if any *)
Definition worker_target (st : static) (s : state) (idle : bool) : option (rwrap * inner) :=
  match cs st with
  | CSOk =>
      match rem s with
      | Some w =>
          match rin w with
          | Some i => if has_counter i && (negb idle || (2 <? now_sec s - isync i)) then Some (w, i) else None
          | None => None
          end
      | None => None
      end
  | _ => None                                   (* ClientFor fails: no round *)
  end.

Definition step (fx fy fz : bool) (st : static) (s : state) (e : ev) : state :=
  let c := scfg s in
  if crashed s then s else
  match e with
  | EQuota it => if present s && enable_global (sstr s) then apply_sync fx fy c s it else s
  | ECfgSync =>
      if present s && strategy_eqb (sstr s) SCount
      then apply_sync fx fy c s {| idet := global_detail c; istr := SCount |}
      else s
  | ECount r rt =>
      match rem s with
      | Some w =>
          match rin w with
          | Some i => match set_limit fx c i r rt with
                      | Some i' => set_rem s (Some {| rin := Some i'; rcfg := rcfg w |})
                      | None => crash s
                      end
          | None => s
          end
      | None => s
      end
  | EWorker idle sv mx rate =>
      (* globalCounterManager.doAcquire: ClientFor, acquireRequest (a counter takes part if requests were counted
         or its last sync is more than 2 s old), the call, send = SetLimit + lastSyncTime := now *)
      let s1 := set_rounds s (srounds s + 1) in
      match worker_target st s idle with
      | Some (w, i) =>
          match sv with
          | SvOmit => s1
          | _ =>
              match set_limit fx c i (reply_of sv mx rate) (request_time s) with
              | Some i' => set_rem s1 (Some {| rin := Some (set_sync i' (now_sec s)); rcfg := rcfg w |})
              | None => crash s1
              end
          end
      | None => s1
      end
  | EWatchdog mx rate =>
      (* resetCheck: now - lastSync > 4 => SetLimit(timeout error, no request time) *)
      match rem s with
      | Some w =>
          match rin w with
          | Some i =>
              if has_counter i && (4 <? now_sec s - isync i) then
                match set_limit fx c i (RErr mx rate) 0 with
                | Some i' => set_rem s (Some {| rin := Some i'; rcfg := rcfg w |})
                | None => crash s
                end
              else s
          | None => s
          end
      | None => s
      end
  | EHb ok => heartbeat s ok
  | ELeader => heartbeat s true
  | EElapse ms =>
      {| present := present s; scfg := scfg s; sstr := sstr s; rem := rem s; hlast := hlast s; hready := hready s;
         hage := hage s + (if ms <? 0 then 0 else ms);
         crashed := crashed s; snow := snow s + (if ms <? 0 then 0 else ms);
         srounds := srounds s |}                 (* time does not run backwards *)
  | EStrategy x => sync_schema fx fy fz s c x      (* the same schema with another strategy *)
  | ESchema k x a b g h => sync_schema fx fy fz s {| ck := k; l1 := a; l2 := b; g1 := g; g2 := h |} x
  | EDelete =>
      if present s
      then {| present := false; scfg := scfg s; sstr := sstr s; rem := None;
              hlast := hlast s; hready := hready s; hage := hage s; crashed := crashed s; snow := snow s; srounds := srounds s |}
      else s
  | EEnable =>
      if present s && enable_global (sstr s)
      then match rem s with None => set_rem s (Some empty_rw) | Some _ => s end
      else s
  end.

Definition run (fx fy fz : bool) (st : static) (s : state) (l : list ev) : state := fold_left (step fx fy fz st) l s.

(* ---------- upstreamLimiter.Load ---------- *)
Inductive sel := SelLocal | SelRemote | SelDefault | SelPanic.

Definition is_ready (st : static) (s : state) : bool :=
  match cs st with CSOk => hready s | _ => false end.

Definition select (fx : bool) (st : static) (s : state) : sel :=
  if negb (present s) then SelDefault else       (* GetOrDefault: unknown name -> the exempt default *)
  match md st with
  | MRemote =>
      match sstr s with
      | SEmpty | SLocal => SelLocal
      | _ =>
          match cs st with
          | CSNil => SelLocal
          | _ =>
              if negb (is_ready st s) then SelLocal else
              match rem s with
              | None => SelLocal
              | Some w =>
                  match rin w with
                  | Some _ => SelRemote
                  | None => if fx then SelLocal    (* repaired: a wrapper without limiter is "not synced" *)
                            else SelPanic          (* nil GlobalCounterFlowControl is dereferenced by the request *)
                  end
              end
          end
      end
  | _ => SelLocal
  end.

(* ---------- what the harness observes after each event ---------- *)
Record robs := {
  r_inner : option wk; r_lim : option lim; r_unavail : bool; r_over : bool; r_cfg : option item
}.
Record obs := {
  o_evp : bool;            (* the event itself panicked *)
  o_sel : sel;             (* which limiter GetOrDefault returned (SelPanic: using it panics) *)
  o_lim : option lim;      (* size / qps,burst of the limiter a request is pinned to *)
  o_adm : Z;               (* max-in-flight: number of back-to-back TryAcquire admitted (capped); else -1 *)
  o_ready : bool;          (* clientSets.IsReady *)
  o_rem : option robs;     (* the remote wrapper, whether selected or not *)
  o_sync : Z;              (* lastSyncTime of the schema's global counter, -1: there is none *)
  o_sent : bool            (* (worker round) the limiter server was asked for the schema *)
}.

(* the harness stops counting admissions at global + 5 (and at 70 for large limits) *)
Definition probe_cap (c : config) : Z :=
  let k := g1 c + 5 in if k <? 5 then 5 else if 70 <? k then 70 else k.
Definition admitted (c : config) (l : option lim) : Z :=
  match l with
  | Some (LMI n) => if probe_cap c <? n then probe_cap c else n
  | _ => -1
  end.

Definition observe_rem (s : state) : option robs :=
  match rem s with
  | None => None
  | Some w =>
      Some match rin w with
           | Some i => {| r_inner := Some (iw i); r_lim := Some (il i); r_unavail := iun i; r_over := iover i; r_cfg := rcfg w |}
           | None => {| r_inner := None; r_lim := None; r_unavail := false; r_over := false; r_cfg := rcfg w |}
           end
  end.

Definition observe_sync (s : state) : Z :=
  match rem s with
  | Some w => match rin w with Some i => if has_counter i then isync i else -1 | None => -1 end
  | None => -1
  end.

Definition observe (fx : bool) (st : static) (s : state) : obs :=
  if crashed s then
    {| o_evp := true; o_sel := SelPanic; o_lim := None; o_adm := -1; o_ready := false; o_rem := None;
       o_sync := -1; o_sent := false |}
  else
    let se := select fx st s in
    let l := match se with
             | SelLocal => Some (local_lim (scfg s))
             | SelRemote => match rem s with
                            | Some w => match rin w with Some i => Some (il i) | None => None end
                            | None => None
                            end
             | SelDefault => Some LInf
             | _ => None
             end in
    {| o_evp := false; o_sel := se; o_lim := l; o_adm := admitted (scfg s) l;
       o_ready := is_ready st s; o_rem := observe_rem s; o_sync := observe_sync s; o_sent := false |}.

Definition with_sent (o : obs) (b : bool) : obs :=
  {| o_evp := o_evp o; o_sel := o_sel o; o_lim := o_lim o; o_adm := o_adm o; o_ready := o_ready o; o_rem := o_rem o;
     o_sync := o_sync o; o_sent := b |}.
(* whether the round of event e reaches the limiter server with a request for the schema *)
Definition sent_in (st : static) (s : state) (e : ev) : bool :=
  match e with
  | EWorker idle _ _ _ => negb (crashed s) && match worker_target st s idle with Some _ => true | None => false end
  | _ => false
  end.

(* the trace the harness records: one observation after every event *)
Fixpoint trace (fx fy fz : bool) (st : static) (s : state) (l : list ev) : list (ev * obs) :=
  match l with
  | [] => []
  | e :: r => let s' := step fx fy fz st s e in
              (e, with_sent (observe fx st s') (sent_in st s e)) :: trace fx fy fz st s' r
  end.
