(* C13 — specification, as an executable checker over observed histories.
   It never looks at the implementation model's state: only at the ops issued and
   at what was observed (leadership as the elector reports it, results, store
   snapshots).  The hash function of the spec is FNV-1a mod N (the documented
   mapping); "depends only on name and N" is its type. *)
From KG Require Import Prelude C13_Model.
Open Scope Z_scope.

Record obs := {
  leader_before : bool;          (* elector.IsLeader(shard of the op's upstream) just before the op *)
  ores : res;                    (* outcome class of the call *)
  names_leader : bool;           (* a NotLeader error text contains the known leader's identity *)
  snap : list (Z * store);       (* limitStoreMap contents after the op *)
  led_after : list Z;            (* shards for which IsLeader holds after the op *)
}.

Definition op_upstream (o : op) : option string :=
  match o with
  | OClusterSet u | OClusterDel u | OUpdate u _ | OAcquire u _ => Some u
  | _ => None
  end.

Definition refusal (o : op) (r : res) : bool :=
  match o with
  | OUpdate _ _ | OAcquire _ _ => res_eqb r RNotLeader
  | _ => res_eqb r RNil
  end.

Definition pair_eqb (a b : string * string) : bool :=
  (String.eqb (fst a) (fst b) && String.eqb (snd a) (snd b))%bool.
Definition store_eqb (a b : store) : bool := list_eqb pair_eqb a b.
Definition snap_eqb (a b : list (Z * store)) : bool :=
  list_eqb (fun x y => (Z.eqb (fst x) (fst y) && store_eqb (snd x) (snd y))%bool) a b.

Definition zmem (k : Z) (l : list Z) : bool := existsb (Z.eqb k) l.

(* (1) a call for an upstream whose shard this server does not lead is refused and changes nothing *)
Definition guard_ok (prev : list (Z * store)) (o : op) (b : obs) : bool :=
  match op_upstream o with
  | Some _ => if leader_before b then true
              else (refusal o (ores b) && snap_eqb (snap b) prev)%bool
  | None => true
  end.
(* (2) a served call implies leadership *)
Definition serve_ok (o : op) (b : obs) : bool :=
  match o with
  | OUpdate _ _ | OAcquire _ _ => if res_eqb (ores b) ROk then leader_before b else true
  | _ => true
  end.
(* (3) the refusal names the leader *)
Definition names_ok (o : op) (b : obs) : bool :=
  if res_eqb (ores b) RNotLeader then names_leader b else true.
(* (4) in-memory state of a shard is gone once leadership is lost *)
Definition drop_ok (o : op) (b : obs) : bool :=
  match o with
  | OStopLeading sh | OStopFlaky sh => negb (zmem sh (map fst (snap b)))
  | OLeaderCheck => forallb (fun p => zmem (fst p) (led_after b)) (snap b)
  | _ => true
  end.
(* (5) state of an upstream lives only in that upstream's shard *)
Definition own_shard_ok (n : Z) (b : obs) : bool :=
  forallb (fun p => forallb (fun uc => match shard_id (fst uc) n with
                                       | Some z => z =? fst p | None => false end) (snd p)) (snap b).

Definition step_ok (n : Z) (prev : list (Z * store)) (o : op) (b : obs) : list bool :=
  [guard_ok prev o b; serve_ok o b; names_ok o b; drop_ok o b; own_shard_ok n b].

Definition and_lists (a b : list bool) : list bool := map (fun p => (fst p && snd p)%bool) (combine a b).

Fixpoint hist_ok (n : Z) (prev : list (Z * store)) (l : list (op * obs)) : list bool :=
  match l with
  | [] => [true; true; true; true; true]
  | (o, b) :: r => and_lists (step_ok n prev o b) (hist_ok n (snap b) r)
  end.

(* hash clauses *)
(* the quantifier is N >= 1; N is an int converted to uint32 by the code, so the claim is
   checked for 1 <= N < 2^32 (larger or non-positive counts are outside the property) *)
Definition range_ok (n : Z) (r : option Z) : bool :=
  if (1 <=? n) && (n <? two32) then
    match r with Some z => (0 <=? z) && (z <? n) | None => false end
  else true.
Definition both_sides_ok (srv gw : option Z) : bool := opt_eqb Z.eqb srv gw.

(* ---- gateway side: "a gateway addresses an upstream's requests to the server it knows as
   leader of that shard".  What it knows = the announcements it received: the shard count of the
   latest one, and for each shard the leader named by the latest announcement that lists the
   shard (within one announcement the last entry for a shard counts).  The checker reads only
   the announcements served to the gateway and the server each ClientFor call addressed. ---- *)
Fixpoint last_in (sh : Z) (a : list (Z * string)) (found : option string) : option string :=
  match a with
  | [] => found
  | (k, l) :: r => last_in sh r (if sh =? k then Some l else found)
  end.
(* anns: the announcements received so far, newest first *)
Fixpoint known_leader (sh : Z) (anns : list (list (Z * string))) : option string :=
  match anns with
  | [] => None
  | a :: r => match last_in sh a None with
              | Some l => Some l
              | None => known_leader sh r
              end
  end.

Definition addressed_ok (n : Z) (anns : list (list (Z * string))) (u : string) (r : gwres) : bool :=
  if (1 <=? n) && (n <? two32) then
    match known_leader (fnv32a (bytes_of u) mod n) anns with
    | Some l => gwres_eqb r (GTo l)
    | None => gwres_eqb r GErr
    end
  else if n =? 0 then gwres_eqb r GErr      (* no announcement yet: nobody may be addressed *)
  else true.

Fixpoint gw_hist_ok (n : Z) (anns : list (list (Z * string))) (l : list (gwop * gwres)) : bool :=
  match l with
  | [] => true
  | (GSync n' eps, _) :: r => gw_hist_ok n' (eps :: anns) r
  | (GSyncFail, _) :: r => gw_hist_ok n anns r
  | (GClientFor u, x) :: r => (addressed_ok n anns u x && gw_hist_ok n anns r)%bool
  end.
