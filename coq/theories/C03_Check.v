(* C03 — case format of the correspondence run and its evaluator. *)
From KG Require Import Prelude C03_Model C03_Spec.
Open Scope Z_scope.

Inductive case :=
| CHist (tr : list (op * obs))          (* ops with what the real code showed after each *)
| CStress (rounds strays : Z)           (* disable-at-tick-time loop: /healthz arrivals after the disable *)
| CBroken.                              (* the harness panicked / returned something unreadable *)

(* ---- projection of the model state onto the observation format ---- *)
Definition count_ev (f : event -> bool) (l : list event) : Z := Z.of_nat (List.length (filter f l)).
Definition is_probe (id : Z) (e : event) : bool := match e with EProbe x => x =? id | _ => false end.

Definition proj_ep (s : st) (evs : list event) (prox : list Z) (id : Z) : epobs :=
  let mine := filter (fun i => iid i =? id) (incs s) in
  let cur := if cexists s then find_live (incs s) (cgen s) id else None in
  let flag (f : inc -> bool) := match cur with Some i => f i | None => false end in
  mkEpobs (flag (fun _ => true)) (flag disabled) (flag healthy)
          (match cur with Some i => ucount i | None => 0 end)
          (flag hascancel) (flag chanfull)
          (Z.of_nat (List.length (filter (fun g => wpc_eqb (wp g) WProbe) (flat_map gens mine))))
          (count_ev (is_probe id) evs)
          (Z.of_nat (List.length (filter (Z.eqb id) prox)))
          (flat_map (fun i => map (fun g => (tpend g, tp g, chanfull i)) (gens i)) mine).

Definition all_gens (s : st) : list gen := flat_map gens (incs s).
Definition proj_workers (s : st) : Z :=
  Z.of_nat (List.length (filter (fun g => negb (wpc_eqb (wp g) WExit)) (all_gens s))).
Definition proj_probing (s : st) : Z :=
  Z.of_nat (List.length (filter (fun g => wpc_eqb (wp g) WProbe) (all_gens s))).

Definition tick_eqb (a b : bool * tpc * bool) : bool :=
  Bool.eqb (fst (fst a)) (fst (fst b)) && tpc_eqb (snd (fst a)) (snd (fst b)) && Bool.eqb (snd a) (snd b).

Definition epobs_eqb (a b : epobs) : bool :=
  Bool.eqb (present a) (present b) && Bool.eqb (odisabled a) (odisabled b) && Bool.eqb (ohealthy a) (ohealthy b)
  && (oucount a =? oucount b) && Bool.eqb (ohascancel a) (ohascancel b) && Bool.eqb (ochan a) (ochan b)
  && (oheld a =? oheld b) && (ohits a =? ohits b) && (oproxied a =? oproxied b)
  && list_eqb tick_eqb (otickers a) (otickers b).

Fixpoint ids_from (k : Z) (n : nat) : list Z :=
  match n with O => [] | S n' => k :: ids_from (k + 1) n' end.

Definition state_matches (s : st) (evs : list event) (prox : list Z) (b : obs) : bool :=
  list_eqb epobs_eqb (map (proj_ep s evs prox) (ids_from 0 (List.length (oeps b)))) (oeps b)
  && (proj_workers s =? onworkers b) && (proj_probing s =? onprobing b)
  && quiet s.

(* ---- what the model says about the result of an op (picks are nondeterministic: membership) ---- *)
Definition result_matches (s : st) (o : op) (r : result) : bool :=
  match o with
  | OSync _ _ => match r with ROk => true | _ => false end
  | OTick id =>
      match r with
      | RFired n => n =? Z.of_nat (List.length (incs_where O id (fun g => negb (tpc_eqb (tp g) TExit) && negb (tpend g)) (incs s)))
      | _ => false end
  | OProbe id _ =>
      match oldest (incs_where O id (fun g => wpc_eqb (wp g) WProbe) (incs s)), r with
      | Some _, ROk | None, RNoneHeld => true
      | _, _ => false end
  | OTrigger id =>
      match (if cexists s then find_live (incs s) (cgen s) id else None), r with
      | Some _, ROk | None, RAbsent => true
      | _, _ => false end
  | OMatch p _ =>
      if negb (cexists s) then match r with RNoCluster => true | _ => false end else
      match upstreams_of s p, r with
      | Some _, ROk | None, RNoMatch => true
      | _, _ => false end
  | OPop slot =>
      match zlook slot (pickers s) with
      | None => match r with RNoSlot => true | _ => false end
      | Some (c, ups) =>
          match ready_of s c ups, r with
          | [], RNoReady => true
          | rd, RPicked id => existsb (Z.eqb id) rd
          | _, _ => false end
      end
  | OPickOne slot =>
      match zlook slot (handles s) with
      | None => match r with RNoSlot => true | _ => false end
      | Some c =>
          match ready_of s c (live_ids (incs s) c), r with
          | [], RNoReady => true
          | rd, RPicked id => existsb (Z.eqb id) rd
          | _, _ => false end
      end
  | OHold _ => match r with ROk => cexists s | RNoCluster => negb (cexists s) | _ => false end
  | ODelete => match r with ROk => true | _ => false end
  | ORequest p =>
      if negb (cexists s) then match r with RHttp code stub => (code =? 503) && (stub =? -1) | _ => false end else
      match upstreams_of s p, r with
      | None, RHttp code stub => (code =? 500) && (stub =? -1)
      | Some ups, RHttp code stub =>
          match ready_of s (cgen s) ups with
          | [] => (code =? 503) && (stub =? -1)
          | rd => (code =? 200) && existsb (Z.eqb stub) rd
          end
      | _, _ => false end
  end.

Definition all_bits : list (list bool) :=
  [ []; [true]; [false; true]; [true; true];
    [false; false; true]; [true; false; true]; [false; true; true]; [true; true; true];
    [false; false; false; true]; [true; false; false; true]; [false; true; false; true]; [true; true; false; true];
    [false; false; true; true]; [true; false; true; true]; [false; true; true; true]; [true; true; true; true] ].

(* schedules tried for one op: every resolution of up to 4 racy selects, under each of 6 running orders *)
Definition all_schedules : list (nat * list bool) :=
  flat_map (fun ord => map (fun bits => (ord, bits)) all_bits) [0; 1; 2; 3; 4; 5]%nat.

Record mstate := mkM { m_st : st; m_evs : list event; m_prox : list Z }.

Definition is_goroutine_event (e : event) : bool := match e with EProbe _ => true | _ => false end.

(* one op: the result must be one the model allows in its current state, and some resolution of the
   racy selects must lead the model to the observed quiescent state *)
Definition agree_step (rc : bool) (m : mstate) (x : op * obs) : option mstate :=
  let '(o, b) := x in
  if negb (result_matches (m_st m) o (ores b)) then None else
  let prox' := match o, ores b with
               | ORequest _, RHttp code stub => if code =? 200 then stub :: m_prox m else m_prox m
               | _, _ => m_prox m end in
  let try (ob : nat * list bool) :=
      let '(s', ev) := macro rc (m_st m) o O (fst ob) (snd ob) in
      let evs' := m_evs m ++ filter is_goroutine_event ev in
      if state_matches s' evs' prox' b then Some (mkM s' evs' prox') else None in
  fold_left (fun acc ob => match acc with Some _ => acc | None => try ob end) all_schedules None.

Fixpoint agree_hist (rc : bool) (m : mstate) (tr : list (op * obs)) : bool :=
  match tr with
  | [] => true
  | x :: r => match agree_step rc m x with
              | Some m' => agree_hist rc m' r
              | None => false
              end
  end.

(* clause layout: agree, pick_sound, pick_complete, contacted_is_picked, disabled_no_traffic, disabled_no_probe, removed_no_probe *)
Definition eval (c : case) : list bool :=
  match c with
  | CHist tr => agree_hist code_recheck (mkM init [] []) tr :: hist_ok spec_init tr
  | CStress rounds strays =>
      [ if code_recheck then strays =? 0 else true; true; true; true; true; strays =? 0; true ]
  | CBroken => [false; true; true; true; true; true; true]
  end.

(* for debugging a disagreement: index of the first step that does not agree *)
Fixpoint first_disagree (rc : bool) (m : mstate) (tr : list (op * obs)) (k : Z) : Z :=
  match tr with
  | [] => -1
  | x :: r => match agree_step rc m x with
              | Some m' => first_disagree rc m' r (k + 1)
              | None => k
              end
  end.
