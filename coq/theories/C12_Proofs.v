(* C12 — proofs: for every configuration, every answer oracle, every sequence of operations the model
   satisfies the specification (simulation invariant between the model's caches and the history the
   checker accumulates), plus the step-level isolation facts. *)
From KG Require Import Prelude C12_Model C12_Spec.
From Coq Require Import ZifyBool ZifyNat.
Open Scope Z_scope.

(* ---------- boolean equalities ---------- *)
Lemma key_eqb_eq a b : key_eqb a b = true <-> a = b.
Proof. unfold key_eqb. apply list_eqb_eq. intros x y. apply String.eqb_eq. Qed.

Lemma key_eqb_refl k : key_eqb k k = true.
Proof. apply key_eqb_eq. reflexivity. Qed.

Lemma cid_eqb_eq a b : cid_eqb a b = true <-> a = b.
Proof.
  destruct a as [h c], b as [h' c']. unfold cid_eqb; simpl.
  rewrite Bool.andb_true_iff, !String.eqb_eq. split; [intros [-> ->]; reflexivity|intros E; inversion E; auto].
Qed.
Lemma cid_eqb_refl a : cid_eqb a a = true.
Proof. apply cid_eqb_eq. reflexivity. Qed.

Lemma eclass_eqb_refl e : eclass_eqb e e = true.
Proof. destruct e; simpl; try reflexivity. apply Z.eqb_refl. Qed.

Lemma tresult_eqb_refl r : tresult_eqb r r = true.
Proof.
  destruct r as [u o e]. unfold tresult_eqb; simpl.
  rewrite eclass_eqb_refl, Bool.eqb_reflx.
  destruct u as [[n i]|]; simpl; [unfold user_eqb; simpl; rewrite !String.eqb_refl|]; reflexivity.
Qed.

Lemma sresult_eqb_refl r : sresult_eqb r r = true.
Proof.
  destruct r as [d re e]. unfold sresult_eqb; simpl.
  rewrite eclass_eqb_refl, String.eqb_refl. destruct d; reflexivity.
Qed.

Lemma existsb_ext' {X} (f g : X -> bool) l : (forall x, f x = g x) -> existsb f l = existsb g l.
Proof. intros H. induction l as [|x l IH]; simpl; [reflexivity|]. rewrite H, IH. reflexivity. Qed.

Lemma and_cl_ok c : and_cl all_ok c = c.
Proof. destruct c as [[[a b] c] d]. reflexivity. Qed.

(* ---------- routing: the model's ClientFor and the spec's "can be asked" coincide ---------- *)
Lemma can_ask_route cfg s ho :
  can_ask cfg (eps s) ho = match route cfg s ho with inl (_, c) => Some c | inr _ => None end.
Proof.
  unfold can_ask, route. destruct ho as [h|]; [|reflexivity].
  destruct (cluster_of (eps s) h) as [c|]; [|reflexivity].
  unfold ready. rewrite (existsb_ext' _ (fun e => ep_ready (snd e))).
  - destruct (existsb (fun e => ep_ready (snd e)) (e_list (eps s) c)); reflexivity.
  - intros [srv [a b]]. unfold ep_ready; simpl. apply Bool.andb_comm.
Qed.

Lemma route_inl cfg s ho h c :
  route cfg s ho = inl (h, c) -> ho = Some h /\ cluster_of (eps s) h = Some c /\ ready s c = true.
Proof.
  unfold route. destruct ho as [h'|]; [|discriminate].
  destruct (cluster_of (eps s) h') as [c'|] eqn:Ec; [|discriminate].
  destruct (ready s c') eqn:Er; [|discriminate].
  intros E. inversion E; subst. auto.
Qed.

(* ---------- ask: the answer returned is the one of the last call made ---------- *)
Lemma ask_spec {A} (retri : A -> bool) more : forall (orc : nat -> A) k a n,
  ask retri more orc k = (a, n) -> exists m, n = S m /\ a = orc (k + m)%nat /\ (m <= more)%nat.
Proof.
  induction more as [|more IH]; intros orc k a n H; simpl in H.
  - inversion H; subst. exists O. rewrite Nat.add_0_r. auto.
  - destruct (retri (orc k)).
    + destruct (ask retri more orc (S k)) as [a' n'] eqn:E. inversion H; subst.
      destruct (IH _ _ _ _ E) as [m [-> [-> Hm]]].
      exists (S m). repeat split; [f_equal; lia | lia].
    + inversion H; subst. exists O. rewrite Nat.add_0_r. repeat split. lia.
Qed.

Lemma consume_repeat {A} (orc : cluster -> nat -> A) c : forall n cnt last,
  exists cnt',
    consume orc cnt (repeat (c, true) n) last
    = (cnt', match n with O => last | S m => Some (c, orc c (cnt c + m)%nat) end)
    /\ forall c', cnt' c' = if String.eqb c' c then (cnt c + n)%nat else cnt c'.
Proof.
  induction n as [|n IH]; intros cnt last; simpl.
  - exists cnt. split; [reflexivity|]. intros c'. destruct (String.eqb c' c) eqn:E; [|reflexivity].
    apply String.eqb_eq in E. subst. lia.
  - destruct (IH (upd_cnt cnt c (S (cnt c))) (Some (c, orc c (cnt c)))) as [cnt' [H1 H2]].
    exists cnt'. split.
    + rewrite H1. f_equal. unfold upd_cnt. rewrite String.eqb_refl.
      destruct n as [|m]; [rewrite Nat.add_0_r; reflexivity|].
      do 2 f_equal. f_equal. lia.
    + intros c'. rewrite H2. unfold upd_cnt. rewrite String.eqb_refl.
      destruct (String.eqb c' c); lia.
Qed.

Lemma forallb_repeat {X} (f : X -> bool) x n : f x = true -> forallb f (repeat x n) = true.
Proof. intros H. induction n as [|n IH]; simpl; [reflexivity|]. rewrite H, IH. reflexivity. Qed.

(* ---------- provenance of a cache entry in the checker's history ---------- *)
(* an answer of cluster c to key k, meaning r, reusable until exp, given since c was last replaced *)
Fixpoint src {R} (hist : list (hev R)) (c : cluster) (k : key) (r : R) (exp : Z) : Prop :=
  match hist with
  | [] => False
  | HRestart c' :: rest => c' <> c /\ src rest c k r exp
  | HFill c' k' r' exp' :: rest => (c' = c /\ k' = k /\ r' = r /\ exp' = exp) \/ src rest c k r exp
  end.

Lemma src_has_source {R} (eqb : R -> R -> bool) (Hrefl : forall r, eqb r r = true) :
  forall hist c k (r : R) exp now, src hist c k r exp -> now <= exp -> has_source eqb hist c k r now = true.
Proof.
  induction hist as [|e hist IH]; intros c k r exp now H Hle; simpl in *; [contradiction|].
  destruct e as [c' k' r' exp'|c'].
  - destruct H as [[-> [-> [-> ->]]]|H].
    + rewrite String.eqb_refl, key_eqb_refl, Hrefl. simpl.
      replace (now <=? exp) with true by lia. reflexivity.
    + rewrite (IH _ _ _ _ _ H Hle). apply Bool.orb_true_r.
  - destruct H as [Hne H]. destruct (String.eqb c' c) eqn:E.
    + apply String.eqb_eq in E. contradiction.
    + eapply IH; eauto.
Qed.

(* what a positive answer of the checker's search means *)
Lemma has_source_sound {R} (eqb : R -> R -> bool) : forall hist c k (r : R) now,
  has_source eqb hist c k r now = true ->
  exists pre r' exp post,
    hist = pre ++ HFill c k r' exp :: post /\ eqb r r' = true /\ now <= exp /\ ~ In (HRestart c) pre.
Proof.
  induction hist as [|e hist IH]; intros c k r now H; simpl in H; [discriminate|].
  destruct e as [c' k' r' exp'|c'].
  - apply Bool.orb_true_iff in H. destruct H as [H|H].
    + apply Bool.andb_true_iff in H. destruct H as [H H4].
      apply Bool.andb_true_iff in H. destruct H as [H H3].
      apply Bool.andb_true_iff in H. destruct H as [H1 H2].
      apply String.eqb_eq in H1. apply key_eqb_eq in H2. subst.
      exists [], r', exp', hist. repeat split; auto. lia.
    + destruct (IH _ _ _ _ H) as [pre [r'' [exp [post [-> [He [Hle Hno]]]]]]].
      exists (HFill c' k' r' exp' :: pre), r'', exp, post. repeat split; auto.
      intros [Hin|Hin]; [discriminate|contradiction].
  - destruct (String.eqb c' c) eqn:E; [discriminate|].
    destruct (IH _ _ _ _ H) as [pre [r'' [exp [post [-> [He [Hle Hno]]]]]]].
    exists (HRestart c' :: pre), r'', exp, post. repeat split; auto.
    intros [Hin|Hin]; [|contradiction]. inversion Hin; subst. rewrite String.eqb_refl in E. discriminate.
Qed.

(* ---------- one kind of review: model request vs. checker ---------- *)
Section Generic.
  Context {A R : Type}.
  Variable cfg : config.
  Variable K : kind A R.
  Variable P : spec_kind A R.
  Variable orc : cluster -> nat -> A.
  Hypothesis Hres : forall a, k_res_of K a = p_expected P a.
  Hypothesis Hrefl : forall r, p_eqb P r r = true.
  Hypothesis Hneg : forall u, p_refused P (k_unavail K u) = true.
  Hypothesis Httl : forall cb a ttl, k_ttl K cb a = Some ttl -> p_ttl P a = Some ttl.
  Hypothesis Hvalid : forall now exp, k_valid K now exp = true -> now <= exp.

  (* the checker has counted the same calls, and every entry of a cache (host, cluster) is an answer
     of that cluster recorded in the checker's history since the cluster was last replaced / deleted *)
  Definition inv_k (st : kstate R) (ck : ckk R) : Prop :=
    (forall c, c_cnt ck c = kn st c) /\
    (forall id k r exp, kc st id k = Some (r, exp) -> src (c_hist ck) (snd id) k r exp).

  Lemma src_push_fill hist c0 k0 r0 e0 c k (r : R) exp :
    src hist c k r exp -> src (HFill c0 k0 r0 e0 :: hist) c k r exp.
  Proof. intros H. simpl. right. exact H. Qed.

  Lemma request_ok (s : state) st ck ho k cb now st' r calls :
    inv_k st ck ->
    request cfg K orc s st ho k cb now = (st', r, calls) ->
    exists ck', check_req P orc (can_ask cfg (eps s) ho) ck k now r calls = (ck', all_ok) /\ inv_k st' ck'.
  Proof.
    intros [Hcnt Hcache] Hreq. unfold request in Hreq. rewrite can_ask_route.
    destruct (route cfg s ho) as [[h c]|u] eqn:Er.
    2:{ inversion Hreq; subst. unfold check_req; simpl. rewrite Hneg.
        eexists. split; [reflexivity|]. split; simpl; assumption. }
    destruct (route_inl _ _ _ _ _ Er) as [-> [Hc Hready]].
    unfold serve in Hreq.
    (* cache hit? *)
    destruct (if k_bypass K then None
              else match kc st (h, c) k with
                   | Some (r0, exp) => if k_valid K now exp then Some r0 else None
                   | None => None
                   end) as [r0|] eqn:Ehit.
    - inversion Hreq; subst. clear Hreq.
      destruct (k_bypass K); [discriminate|].
      destruct (kc st' (h, c) k) as [[r1 exp]|] eqn:Ek; [|discriminate].
      destruct (k_valid K now exp) eqn:Ev; [|discriminate]. inversion Ehit; subst.
      pose proof (Hcache _ _ _ _ Ek) as Hsrc. simpl in Hsrc.
      unfold check_req; simpl.
      rewrite (src_has_source _ Hrefl _ _ _ _ _ _ Hsrc (Hvalid _ _ Ev)).
      eexists. split; [reflexivity|]. split; simpl; assumption.
    - destruct (ask (k_retriable K) (k_retries K) (orc c) (kn st c)) as [a n] eqn:Ea.
      inversion Hreq; subst. clear Hreq.
      destruct (ask_spec _ _ _ _ _ _ Ea) as [m [-> [Ha _]]].
      unfold check_req.
      destruct (consume_repeat orc c (S m) (c_cnt ck) None) as [cnt' [Hcons Hcnt']].
      rewrite Hcons. rewrite Hcnt in Hcons |- *.
      rewrite forallb_repeat by (rewrite String.eqb_refl; reflexivity).
      rewrite <- Ha. rewrite Hres, Hrefl. simpl repeat.
      eexists. split; [reflexivity|].
      split; simpl.
      + intros c'. rewrite Hcnt'. unfold upd_cnt. rewrite !Hcnt. reflexivity.
      + intros h' k' r' exp' Hk'.
        assert (Hold : forall hist', (forall c1 k1 r1 e1, src (c_hist ck) c1 k1 r1 e1 -> src hist' c1 k1 r1 e1) ->
                  kc st h' k' = Some (r', exp') -> src hist' (snd h') k' r' exp').
        { intros hist' Hmono Hk. apply Hmono. eapply Hcache; eauto. }
        destruct (k_bypass K).
        * destruct (p_ttl P a) as [ttl|]; apply Hold; auto. intros; apply src_push_fill; assumption.
        * destruct (k_ttl K cb a) as [ttl|] eqn:Et.
          -- rewrite (Httl _ _ _ Et). unfold upd_cache in Hk'.
             destruct (cid_eqb h' (h, c) && key_eqb k' k)%bool eqn:Ehk.
             ++ apply Bool.andb_true_iff in Ehk. destruct Ehk as [E1 E2].
                apply cid_eqb_eq in E1. apply key_eqb_eq in E2. subst. inversion Hk'; subst.
                simpl. left. try rewrite Hres. auto.
             ++ apply Hold; auto. intros; apply src_push_fill; assumption.
          -- destruct (p_ttl P a) as [ttl|]; apply Hold; auto. intros; apply src_push_fill; assumption.
  Qed.

  Lemma forallb_weaken {X} (f g : X -> bool) l :
    (forall x, f x = true -> g x = true) -> forallb f l = true -> forallb g l = true.
  Proof.
    intros H. induction l as [|x l IH]; simpl; [reflexivity|].
    intros Hf. apply Bool.andb_true_iff in Hf. destruct Hf as [H1 H2]. rewrite (H _ H1), (IH H2). reflexivity.
  Qed.

  (* a request that was not refused for unavailability was decided by the host's own cluster:
     every review call received by it, or an answer of it in the checker's history *)
  Lemma request_decided (s : state) st ck h c k cb now st' r calls :
    inv_k st ck ->
    request cfg K orc s st (Some h) k cb now = (st', r, calls) ->
    cluster_of (eps s) h = Some c ->
    (forall u, r <> k_unavail K u) ->
    decided_by P ck c k now r calls = true.
  Proof.
    intros Hi Hreq Hc Hnu.
    destruct (request_ok s st ck (Some h) k cb now st' r calls Hi Hreq) as [ck' [Hck _]].
    rewrite can_ask_route in Hck. unfold request in Hreq.
    destruct (route cfg s (Some h)) as [[h' c']|u] eqn:Er.
    2:{ inversion Hreq; subst. exfalso. eapply Hnu. reflexivity. }
    destruct (route_inl _ _ _ _ _ Er) as [Eh [Hc' _]]. inversion Eh; subst h'.
    rewrite Hc in Hc'. inversion Hc'; subst c'.
    unfold check_req in Hck. destruct (consume orc (c_cnt ck) calls None) as [cnt' last].
    injection Hck as Hk0 Hown Hfresh Hcached.
    unfold decided_by. apply Bool.andb_true_iff. split.
    - eapply forallb_weaken; [|exact Hown]. intros cl Hcl. apply Bool.andb_true_iff in Hcl. tauto.
    - destruct calls as [|cl calls]; simpl; [|reflexivity]. simpl in Hcached. exact Hcached.
  Qed.

  Lemma inv_restart st ck c : inv_k st ck -> inv_k (drop_cluster c st) (restart_k c ck).
  Proof.
    intros [Hcnt Hcache]. split; simpl; [assumption|].
    intros id k r exp Hk. destruct (String.eqb (snd id) c) eqn:E; [discriminate|].
    split; [|eauto]. intros ->. rewrite String.eqb_refl in E. discriminate.
  Qed.

  Lemma inv_evict st ck h k : inv_k st ck -> inv_k (evict h k st) ck.
  Proof.
    intros [Hcnt Hcache]. split; simpl; [assumption|].
    intros h' k' r exp Hk.
    destruct (String.eqb (fst h') h && key_eqb k' k)%bool; [discriminate|]. eauto.
  Qed.

  Lemma inv_init : inv_k init_k {| c_cnt := fun _ => O; c_hist := [] |}.
  Proof. split; simpl; [reflexivity|]. intros; discriminate. Qed.

  (* what a request does, stated without the checker *)
  Lemma request_unavailable (s : state) st ho k cb now :
    can_ask cfg (eps s) ho = None ->
    exists u, request cfg K orc s st ho k cb now = (st, k_unavail K u, []).
  Proof.
    rewrite can_ask_route. unfold request. destruct (route cfg s ho) as [[h c]|u]; [discriminate|].
    intros _. exists u. reflexivity.
  Qed.

  Lemma request_calls (s : state) st ho k cb now st' r calls :
    request cfg K orc s st ho k cb now = (st', r, calls) ->
    forall cl, In cl calls ->
      exists h, ho = Some h /\ cluster_of (eps s) h = Some (fst cl) /\ ready s (fst cl) = true /\ snd cl = true.
  Proof.
    unfold request. destruct (route cfg s ho) as [[h c]|u] eqn:Er.
    2:{ intros H; inversion H; subst. intros cl []. }
    destruct (route_inl _ _ _ _ _ Er) as [-> [Hc Hready]].
    unfold serve.
    destruct (if k_bypass K then None
              else match kc st (h, c) k with
                   | Some (r0, exp) => if k_valid K now exp then Some r0 else None
                   | None => None
                   end) as [r0|].
    - intros H; inversion H; subst. intros cl [].
    - destruct (ask (k_retriable K) (k_retries K) (orc c) (kn st c)) as [a n].
      intros H; inversion H; subst. intros cl Hin. apply repeat_spec in Hin. subst cl. simpl. eauto.
  Qed.

  (* a request addressed to host h leaves every other host's cache as it was *)
  Lemma request_other_host (s : state) st ho k cb now st' r calls (id2 : cid) :
    request cfg K orc s st ho k cb now = (st', r, calls) ->
    ho <> Some (fst id2) -> forall k2, kc st' id2 k2 = kc st id2 k2.
  Proof.
    unfold request. destruct (route cfg s ho) as [[h c]|u] eqn:Er.
    2:{ intros H; inversion H; subst. reflexivity. }
    destruct (route_inl _ _ _ _ _ Er) as [-> [Hc Hready]].
    unfold serve.
    destruct (if k_bypass K then None
              else match kc st (h, c) k with
                   | Some (r0, exp) => if k_valid K now exp then Some r0 else None
                   | None => None
                   end) as [r0|].
    - intros H; inversion H; subst. reflexivity.
    - destruct (ask (k_retriable K) (k_retries K) (orc c) (kn st c)) as [a n].
      intros H Hne k2; inversion H; subst; simpl.
      destruct (k_bypass K); [reflexivity|].
      destruct (k_ttl K cb a); [|reflexivity].
      unfold upd_cache. destruct (cid_eqb id2 (h, c)) eqn:E; [|reflexivity].
      apply cid_eqb_eq in E. subst. contradiction Hne. reflexivity.
  Qed.

  (* ... and asks no cluster but its own: every other cluster's call counter is unchanged *)
  Lemma request_other_cluster (s : state) st ho k cb now st' r calls c2 :
    request cfg K orc s st ho k cb now = (st', r, calls) ->
    (forall h, ho = Some h -> cluster_of (eps s) h <> Some c2) -> kn st' c2 = kn st c2.
  Proof.
    unfold request. destruct (route cfg s ho) as [[h c]|u] eqn:Er.
    2:{ intros H; inversion H; subst. reflexivity. }
    destruct (route_inl _ _ _ _ _ Er) as [-> [Hc Hready]].
    unfold serve.
    destruct (if k_bypass K then None
              else match kc st (h, c) k with
                   | Some (r0, exp) => if k_valid K now exp then Some r0 else None
                   | None => None
                   end) as [r0|].
    - intros H; inversion H; subst. reflexivity.
    - destruct (ask (k_retriable K) (k_retries K) (orc c) (kn st c)) as [a n].
      intros H Hne; inversion H; subst; simpl. unfold upd_cnt.
      destruct (String.eqb c2 c) eqn:E; [|reflexivity].
      apply String.eqb_eq in E. subst. exfalso. eapply Hne; eauto.
  Qed.
End Generic.

(* ---------- the two instances ---------- *)
Lemma t_res_expected a : t_res_of a = t_expected a.
Proof. destruct a; reflexivity. Qed.
Lemma s_res_expected a : s_res_of a = s_expected a.
Proof. destruct a as [al de re|k r]; [destruct al, de|]; reflexivity. Qed.
Lemma t_neg cfg u : t_refused (k_unavail (tkind cfg) u) = true.
Proof. destruct u; reflexivity. Qed.
Lemma s_neg cfg u : s_refused (k_unavail (skind cfg) u) = true.
Proof. destruct u; reflexivity. Qed.
Lemma t_ttl_ok cfg cb a ttl : k_ttl (tkind cfg) cb a = Some ttl -> t_ttl cfg a = Some ttl.
Proof.
  destruct a; simpl; try discriminate.
  - destruct (sttl cfg >? 0); [tauto|discriminate].
  - destruct (fttl cfg >? 0); [tauto|discriminate].
Qed.
Lemma s_ttl_ok cfg cb a ttl : k_ttl (skind cfg) cb a = Some ttl -> s_ttl cfg a = Some ttl.
Proof. destruct a; simpl; [|discriminate]. destruct cb; [tauto|discriminate]. Qed.
Lemma t_valid_le cfg now exp : k_valid (tkind cfg) now exp = true -> now <= exp.
Proof. simpl. lia. Qed.
Lemma s_valid_le cfg now exp : k_valid (skind cfg) now exp = true -> now <= exp.
Proof. simpl. lia. Qed.

(* ---------- whole histories ---------- *)
Definition inv (cfg : config) (s : state) (k : ck) : Prop :=
  c_eps k = eps s /\ inv_k (ts s) (c_t k) /\ inv_k (ss s) (c_s k).

Lemma inv_start cfg : inv cfg (init cfg) (ck_init cfg).
Proof. split; [reflexivity|]. split; apply inv_init. Qed.

Lemma step_ok cfg torc sorc s k o :
  inv cfg s k ->
  exists k', check_step cfg torc sorc k o (snd (step cfg torc sorc s o)) = (k', all_ok)
             /\ inv cfg (fst (step cfg torc sorc s o)) k'.
Proof.
  intros [He [Ht Hs]].
  destruct o as [ho tok now|ho a now|srv b|srv b|c|h tok|h a|c srv|c srv|c h|c h|c|c]; simpl;
    try (eexists; split; [reflexivity|]; split; [|split]; simpl; [rewrite He; reflexivity|assumption|assumption]).
  - destruct (request cfg (tkind cfg) torc s (ts s) ho (tkey tok) true now) as [[st' r] calls] eqn:E. simpl.
    destruct (request_ok cfg (tkind cfg) (tspec cfg) torc t_res_expected tresult_eqb_refl (t_neg cfg)
                (t_ttl_ok cfg) (t_valid_le cfg) s _ _ _ _ _ _ _ _ _ Ht E) as [k' [Hk Hi]].
    rewrite He. unfold tkey in Hk. rewrite Hk.
    eexists. split; [reflexivity|]. split; [|split]; simpl; [reflexivity|assumption|assumption].
  - destruct (request cfg (skind cfg) sorc s (ss s) ho (sar_key a) (should_cache a) now) as [[st' r] calls] eqn:E. simpl.
    destruct (request_ok cfg (skind cfg) (sspec cfg) sorc s_res_expected sresult_eqb_refl (s_neg cfg)
                (s_ttl_ok cfg) (s_valid_le cfg) s _ _ _ _ _ _ _ _ _ Hs E) as [k' [Hk Hi]].
    rewrite He. rewrite Hk.
    eexists. split; [reflexivity|]. split; [|split]; simpl; [reflexivity|assumption|assumption].
  - eexists. split; [reflexivity|]. split; [|split]; simpl.
    + rewrite He. reflexivity.
    + apply inv_restart. assumption.
    + apply inv_restart. assumption.
  - eexists. split; [reflexivity|]. split; [|split]; simpl; [assumption| |assumption].
    apply inv_evict. assumption.
  - eexists. split; [reflexivity|]. split; [|split]; simpl; [assumption|assumption|].
    apply inv_evict. assumption.
  - eexists. split; [reflexivity|]. split; [|split]; simpl.
    + rewrite He. reflexivity.
    + apply inv_restart. assumption.
    + apply inv_restart. assumption.
Qed.

Definition is_request_op (o : op) : bool :=
  match o with OAuthn _ _ _ | OAuthz _ _ _ => true | _ => false end.

Lemma step_eps_request cfg torc sorc s o :
  is_request_op o = true -> eps (fst (step cfg torc sorc s o)) = eps s.
Proof.
  destruct o; simpl; try discriminate; intros _.
  - destruct (request cfg (tkind cfg) torc s (ts s) ho (tkey tok) true now) as [[st' r] calls]. reflexivity.
  - destruct (request cfg (skind cfg) sorc s (ss s) ho (sar_key a) (should_cache a) now) as [[st' r] calls]. reflexivity.
Qed.

(* the token authentication of a chain request that passes was decided by the host's cluster *)
Lemma authn_decided cfg torc sorc s k h c tok now r calls u :
  inv cfg s k -> cluster_of (eps s) h = Some c ->
  snd (step cfg torc sorc s (OAuthn (Some h) tok now)) = OutT r calls ->
  authn_passes (OutT r calls) = Some u ->
  decided_by (tspec cfg) (c_t k) c [tok] now r calls = true.
Proof.
  intros [He [Ht Hs]] Hc Hst Hp. simpl in Hst.
  destruct (request cfg (tkind cfg) torc s (ts s) (Some h) (tkey tok) true now) as [[st' r'] calls'] eqn:E.
  simpl in Hst. inversion Hst; subst r' calls'.
  eapply (request_decided cfg (tkind cfg) (tspec cfg) torc t_res_expected tresult_eqb_refl (t_neg cfg)
            (t_ttl_ok cfg) (t_valid_le cfg)); eauto.
  intros u0 ->. simpl in Hp. discriminate.
Qed.

Lemma authz_decided cfg torc sorc s k h c a now r calls :
  inv cfg s k -> cluster_of (eps s) h = Some c ->
  snd (step cfg torc sorc s (OAuthz (Some h) a now)) = OutS r calls ->
  authz_passes (OutS r calls) = true ->
  decided_by (sspec cfg) (c_s k) c (sar_key a) now r calls = true.
Proof.
  intros [He [Ht Hs]] Hc Hst Hp. simpl in Hst.
  destruct (request cfg (skind cfg) sorc s (ss s) (Some h) (sar_key a) (should_cache a) now) as [[st' r'] calls'] eqn:E.
  simpl in Hst. inversion Hst; subst r' calls'.
  eapply (request_decided cfg (skind cfg) (sspec cfg) sorc s_res_expected sresult_eqb_refl (s_neg cfg)
            (s_ttl_ok cfg) (s_valid_le cfg)); eauto.
  intros u0 ->. simpl in Hp. discriminate.
Qed.

Lemma step_authn_out cfg torc sorc s ho tok now :
  exists r calls, snd (step cfg torc sorc s (OAuthn ho tok now)) = OutT r calls.
Proof.
  simpl. destruct (request cfg (tkind cfg) torc s (ts s) ho (tkey tok) true now) as [[st' r] calls]. simpl. eauto.
Qed.
Lemma step_authz_out cfg torc sorc s ho a now :
  exists r calls, snd (step cfg torc sorc s (OAuthz ho a now)) = OutS r calls.
Proof.
  simpl. destruct (request cfg (skind cfg) sorc s (ss s) ho (sar_key a) (should_cache a) now) as [[st' r] calls]. simpl. eauto.
Qed.

Lemma authn_passes_user r calls u : authn_passes (OutT r calls) = Some u -> t_user r = Some u.
Proof. simpl. destruct (t_ok r && eclass_eqb (t_err r) ENone)%bool; [tauto|discriminate]. Qed.

Lemma stepx_ok cfg torc sorc s k o :
  inv cfg s k ->
  exists k', check_stepx cfg torc sorc k o (snd (stepx cfg torc sorc s o)) = (k', all_okx)
             /\ inv cfg (fst (stepx cfg torc sorc s o)) k'.
Proof.
  intros Hi. destruct o as [a|a b|h tok imp now].
  - simpl. destruct (step_ok cfg torc sorc s k a Hi) as [k' [Hk Hi']].
    destruct (step cfg torc sorc s a) as [s' x]. simpl in *. rewrite Hk. eauto.
  - simpl. destruct (step_ok cfg torc sorc s k a Hi) as [k1 [Hk1 Hi1]].
    destruct (step cfg torc sorc s a) as [s1 x]. simpl in *.
    destruct (step_ok cfg torc sorc s1 k1 b Hi1) as [k2 [Hk2 Hi2]].
    destruct (step cfg torc sorc s1 b) as [s2 y]. simpl in *.
    rewrite Hk1, Hk2. simpl. eauto.
  - cbn [stepx]. destruct (cluster_of (eps s) h) as [c|] eqn:Ec; [|simpl; eauto].
    destruct (step_ok cfg torc sorc s k (OAuthn (Some h) tok now) Hi) as [k1 [Hk1 Hi1]].
    destruct (step_authn_out cfg torc sorc s (Some h) tok now) as [r [calls Hout]].
    pose proof (authn_decided cfg torc sorc s k h c tok now r calls) as Hdt.
    destruct (step cfg torc sorc s (OAuthn (Some h) tok now)) as [s1 xt] eqn:Es1.
    cbn [fst snd] in *. subst xt.
    destruct (authn_passes (OutT r calls)) as [u|] eqn:Ep.
    2:{ cbn [fst snd check_stepx]. rewrite Hk1. eauto. }
    specialize (Hdt u Hi Ec eq_refl eq_refl).
    destruct imp as [target|].
    2:{ cbn [fst snd check_stepx]. rewrite Hk1, Hdt. eauto. }
    destruct (step_ok cfg torc sorc s1 k1 (OAuthz (Some h) (imp_attrs u target) now) Hi1) as [k2 [Hk2 Hi2]].
    destruct (step_authz_out cfg torc sorc s1 (Some h) (imp_attrs u target) now) as [r2 [calls2 Hout2]].
    assert (Ec1 : cluster_of (eps s1) h = Some c).
    { replace s1 with (fst (step cfg torc sorc s (OAuthn (Some h) tok now))) by (rewrite Es1; reflexivity).
      rewrite step_eps_request by reflexivity. exact Ec. }
    pose proof (authz_decided cfg torc sorc s1 k1 h c (imp_attrs u target) now r2 calls2 Hi1 Ec1) as Hdz.
    destruct (step cfg torc sorc s1 (OAuthz (Some h) (imp_attrs u target) now)) as [s2 xz] eqn:Es2.
    cbn [fst snd] in *. subst xz.
    cbn [check_stepx]. rewrite Hk1. rewrite (authn_passes_user _ _ _ Ep). rewrite Hk2.
    destruct (authz_passes (OutS r2 calls2)) eqn:Ez.
    + rewrite Hdt, (Hdz eq_refl eq_refl). eauto.
    + eauto.
Qed.

Lemma and_clx_ok c : and_clx all_okx c = c.
Proof. destruct c as [[[[a b] c] d] e]. reflexivity. Qed.

Lemma check_run cfg torc sorc : forall ops s k,
  inv cfg s k -> check cfg torc sorc k (runx cfg torc sorc s ops) = all_okx.
Proof.
  induction ops as [|o ops IH]; intros s k Hi; simpl; [reflexivity|].
  destruct (stepx_ok cfg torc sorc s k o Hi) as [k' [Hk Hi']].
  destruct (stepx cfg torc sorc s o) as [s' x] eqn:Es. simpl in *.
  rewrite Hk, and_clx_ok. apply IH. assumption.
Qed.

Theorem history_ok cfg torc sorc ops :
  spec_ok cfg torc sorc (runx cfg torc sorc (init cfg) ops) = all_okx.
Proof. apply check_run. apply inv_start. Qed.

Theorem provenance_ok cfg torc sorc ops :
  let '((_, _, fresh, cached), _) := spec_ok cfg torc sorc (runx cfg torc sorc (init cfg) ops) in
  fresh = true /\ cached = true.
Proof. rewrite history_ok. split; reflexivity. Qed.

Theorem dispatch_ok cfg torc sorc ops :
  snd (spec_ok cfg torc sorc (runx cfg torc sorc (init cfg) ops)) = true.
Proof. rewrite history_ok. reflexivity. Qed.

(* ---------- step-level statements ---------- *)
Definition same_state (s' s : state) : Prop := eps s' = eps s /\ ts s' = ts s /\ ss s' = ss s.

Theorem unavailable_denies cfg torc sorc s ho :
  can_ask cfg (eps s) ho = None ->
  (forall tok now, exists e,
      e <> ENone /\
      snd (step cfg torc sorc s (OAuthn ho tok now)) = OutT {| t_user := None; t_ok := false; t_err := e |} [] /\
      same_state (fst (step cfg torc sorc s (OAuthn ho tok now))) s) /\
  (forall a now, exists e,
      e <> ENone /\
      snd (step cfg torc sorc s (OAuthz ho a now)) = OutS {| s_dec := DDeny; s_reason := EmptyString; s_err := e |} [] /\
      same_state (fst (step cfg torc sorc s (OAuthz ho a now))) s).
Proof.
  intros Hc. split.
  - intros tok now.
    destruct (request_unavailable cfg (tkind cfg) torc s (ts s) ho (tkey tok) true now Hc) as [u Hu].
    exists (ucause_err u). simpl. rewrite Hu. simpl.
    split; [destruct u; discriminate|]. split; [reflexivity|]. repeat split.
  - intros a now.
    destruct (request_unavailable cfg (skind cfg) sorc s (ss s) ho (sar_key a) (should_cache a) now Hc) as [u Hu].
    exists (ucause_err u). simpl. rewrite Hu. simpl.
    split; [destruct u; discriminate|]. split; [reflexivity|]. repeat split.
Qed.

(* caches (host, cluster) an operation may touch *)
Definition touches (o : op) (id : cid) : Prop :=
  match o with
  | OAuthn (Some h') _ _ | OAuthz (Some h') _ _ | OEvictT h' _ | OEvictS h' _ => h' = fst id
  | ORestart c | ODelete c => c = snd id
  | _ => False
  end.

Theorem no_shared_entry cfg torc sorc s o id2 :
  ~ touches o id2 ->
  forall k, kc (ts (fst (step cfg torc sorc s o))) id2 k = kc (ts s) id2 k /\
            kc (ss (fst (step cfg torc sorc s o))) id2 k = kc (ss s) id2 k.
Proof.
  intros Hn k.
  destruct o as [ho tok now|ho a now|srv b|srv b|c|h tok|h a|c srv|c srv|c h|c h|c|c]; simpl in *;
    try (split; reflexivity).
  - destruct (request cfg (tkind cfg) torc s (ts s) ho (tkey tok) true now) as [[st' r] calls] eqn:E. simpl.
    split; [|reflexivity]. eapply request_other_host; eauto.
    intros ->. apply Hn. reflexivity.
  - destruct (request cfg (skind cfg) sorc s (ss s) ho (sar_key a) (should_cache a) now) as [[st' r] calls] eqn:E. simpl.
    split; [reflexivity|]. eapply request_other_host; eauto.
    intros ->. apply Hn. reflexivity.
  - destruct (String.eqb (snd id2) c) eqn:E; [|split; reflexivity].
    apply String.eqb_eq in E. subst. contradiction Hn. reflexivity.
  - split; [|reflexivity].
    destruct (String.eqb (fst id2) h) eqn:E; [|reflexivity].
    apply String.eqb_eq in E. subst. contradiction Hn. reflexivity.
  - split; [reflexivity|].
    destruct (String.eqb (fst id2) h) eqn:E; [|reflexivity].
    apply String.eqb_eq in E. subst. contradiction Hn. reflexivity.
  - destruct (String.eqb (snd id2) c) eqn:E; [|split; reflexivity].
    apply String.eqb_eq in E. subst. contradiction Hn. reflexivity.
Qed.

Definition out_calls (x : out) : list call :=
  match x with OutT _ c | OutS _ c => c | OutNone => [] end.
Definition op_host (o : op) : option host :=
  match o with OAuthn ho _ _ | OAuthz ho _ _ => ho | _ => None end.

Theorem own_cluster cfg torc sorc s o cl :
  In cl (out_calls (snd (step cfg torc sorc s o))) ->
  exists h, op_host o = Some h /\ cluster_of (eps s) h = Some (fst cl) /\ snd cl = true /\
    exists srv st, In (srv, st) (e_list (eps s) (fst cl)) /\ ep_ready st = true.
Proof.
  intros Hin.
  assert (H : exists h, op_host o = Some h /\ cluster_of (eps s) h = Some (fst cl) /\ ready s (fst cl) = true /\ snd cl = true).
  { destruct o as [ho tok now|ho a now|srv b|srv b|c|h tok|h a|c srv|c srv|c h|c h|c|c]; simpl in *; try contradiction.
    - destruct (request cfg (tkind cfg) torc s (ts s) ho (tkey tok) true now) as [[st' r] calls] eqn:E. simpl in Hin.
      eapply request_calls; eauto.
    - destruct (request cfg (skind cfg) sorc s (ss s) ho (sar_key a) (should_cache a) now) as [[st' r] calls] eqn:E. simpl in Hin.
      eapply request_calls; eauto. }
  destruct H as [h [H1 [H2 [H3 H4]]]]. exists h. repeat split; auto.
  unfold ready in H3. apply existsb_exists in H3. destruct H3 as [[srv st] [Hi Hr]].
  exists srv, st. split; assumption.
Qed.

(* a request never advances the review counter (= never consumes an answer) of a cluster it is not addressed to *)
Theorem other_clusters_not_asked cfg torc sorc s o c2 :
  (forall h, op_host o = Some h -> cluster_of (eps s) h <> Some c2) ->
  kn (ts (fst (step cfg torc sorc s o))) c2 = kn (ts s) c2 /\
  kn (ss (fst (step cfg torc sorc s o))) c2 = kn (ss s) c2.
Proof.
  intros Hn. destruct o as [ho tok now|ho a now|srv b|srv b|c|h tok|h a|c srv|c srv|c h|c h|c|c]; simpl in *; try (split; reflexivity).
  - destruct (request cfg (tkind cfg) torc s (ts s) ho (tkey tok) true now) as [[st' r] calls] eqn:E. simpl.
    split; [|reflexivity]. eapply request_other_cluster; eauto.
  - destruct (request cfg (skind cfg) sorc s (ss s) ho (sar_key a) (should_cache a) now) as [[st' r] calls] eqn:E. simpl.
    split; [reflexivity|]. eapply request_other_cluster; eauto.
Qed.

(* ---------- overlapping requests for hosts of different clusters commute ---------- *)
Section Commute.
  Context {A R : Type}.
  Variable cfg : config.
  Variable K : kind A R.
  Variable orc : cluster -> nat -> A.

  (* a served request reads and writes only its own cache (host, cluster) and its cluster's counter *)
  Lemma serve_local st st' h c k cb now :
    (forall k', kc st (h, c) k' = kc st' (h, c) k') -> kn st c = kn st' c ->
    snd (fst (serve K orc st h c k cb now)) = snd (fst (serve K orc st' h c k cb now)) /\
    snd (serve K orc st h c k cb now) = snd (serve K orc st' h c k cb now) /\
    (forall k', kc (fst (fst (serve K orc st h c k cb now))) (h, c) k' = kc (fst (fst (serve K orc st' h c k cb now))) (h, c) k') /\
    kn (fst (fst (serve K orc st h c k cb now))) c = kn (fst (fst (serve K orc st' h c k cb now))) c.
  Proof.
    intros Hk Hn. unfold serve. rewrite <- (Hk k), <- Hn.
    destruct (if k_bypass K then None
              else match kc st (h, c) k with
                   | Some (r0, exp) => if k_valid K now exp then Some r0 else None
                   | None => None
                   end) as [r0|]; simpl.
    - auto.
    - destruct (ask (k_retriable K) (k_retries K) (orc c) (kn st c)) as [a n]. simpl.
      repeat split; auto.
      + intros k'. destruct (k_bypass K); [apply Hk|].
        destruct (k_ttl K cb a); [|apply Hk].
        unfold upd_cache. destruct (cid_eqb (h, c) (h, c) && key_eqb k' k)%bool; [reflexivity|apply Hk].
      + unfold upd_cnt. rewrite String.eqb_refl. reflexivity.
  Qed.

  Lemma serve_other_host st h c k cb now (id2 : cid) k2 :
    id2 <> (h, c) -> kc (fst (fst (serve K orc st h c k cb now))) id2 k2 = kc st id2 k2.
  Proof.
    intros Hne. unfold serve.
    destruct (if k_bypass K then None
              else match kc st (h, c) k with
                   | Some (r0, exp) => if k_valid K now exp then Some r0 else None
                   | None => None
                   end) as [r0|]; simpl; [reflexivity|].
    destruct (ask (k_retriable K) (k_retries K) (orc c) (kn st c)) as [a n]. simpl.
    destruct (k_bypass K); [reflexivity|]. destruct (k_ttl K cb a); [|reflexivity].
    unfold upd_cache. destruct (cid_eqb id2 (h, c)) eqn:E; [|reflexivity].
    apply cid_eqb_eq in E. contradiction.
  Qed.

  Lemma serve_other_cluster st h c k cb now c2 :
    c2 <> c -> kn (fst (fst (serve K orc st h c k cb now))) c2 = kn st c2.
  Proof.
    intros Hne. unfold serve.
    destruct (if k_bypass K then None
              else match kc st (h, c) k with
                   | Some (r0, exp) => if k_valid K now exp then Some r0 else None
                   | None => None
                   end) as [r0|]; simpl; [reflexivity|].
    destruct (ask (k_retriable K) (k_retries K) (orc c) (kn st c)) as [a n]. simpl.
    unfold upd_cnt. destruct (String.eqb c2 c) eqn:E; [|reflexivity].
    apply String.eqb_eq in E. contradiction.
  Qed.

  Definition req_cluster (E : epstate) (ho : option host) : option cluster :=
    match ho with Some h => cluster_of E h | None => None end.

  Definition keqv (a b : kstate R) : Prop :=
    (forall h k, kc a h k = kc b h k) /\ (forall c, kn a c = kn b c).

  Lemma request_commute (s : state) st ho1 k1 cb1 now1 ho2 k2 cb2 now2 :
    (req_cluster (eps s) ho1 = None \/ req_cluster (eps s) ho2 = None \/ req_cluster (eps s) ho1 <> req_cluster (eps s) ho2) ->
    let r1 := request cfg K orc s st ho1 k1 cb1 now1 in
    let r12 := request cfg K orc s (fst (fst r1)) ho2 k2 cb2 now2 in
    let r2 := request cfg K orc s st ho2 k2 cb2 now2 in
    let r21 := request cfg K orc s (fst (fst r2)) ho1 k1 cb1 now1 in
    snd (fst r1) = snd (fst r21) /\ snd r1 = snd r21 /\
    snd (fst r12) = snd (fst r2) /\ snd r12 = snd r2 /\
    keqv (fst (fst r12)) (fst (fst r21)).
  Proof.
    intros Hd. unfold request.
    destruct (route cfg s ho1) as [[h1 c1]|u1] eqn:E1.
    2:{ simpl. destruct (route cfg s ho2) as [[h2 c2]|u2]; simpl; repeat split; reflexivity. }
    destruct (route cfg s ho2) as [[h2 c2]|u2] eqn:E2.
    2:{ simpl. repeat split; reflexivity. }
    destruct (route_inl _ _ _ _ _ E1) as [-> [Hc1 _]].
    destruct (route_inl _ _ _ _ _ E2) as [-> [Hc2 _]].
    simpl in Hd. rewrite Hc1, Hc2 in Hd.
    assert (Hc : c1 <> c2) by (destruct Hd as [H|[H|H]]; try discriminate; congruence).
    assert (Hh : (h1, c1) <> (h2, c2)) by congruence.
    assert (Hh' : (h2, c2) <> (h1, c1)) by congruence.
    set (a1 := serve K orc st h1 c1 k1 cb1 now1).
    set (a2 := serve K orc st h2 c2 k2 cb2 now2).
    (* serve 2 after 1 sees, at (h2, c2), the same as serve 2 on st *)
    destruct (serve_local (fst (fst a1)) st h2 c2 k2 cb2 now2) as [P1 [P2 [P3 P4]]].
    { intros k'. apply serve_other_host. auto. }
    { apply serve_other_cluster. auto. }
    destruct (serve_local (fst (fst a2)) st h1 c1 k1 cb1 now1) as [Q1 [Q2 [Q3 Q4]]].
    { intros k'. apply serve_other_host. auto. }
    { apply serve_other_cluster. auto. }
    fold a1 in Q1, Q2, Q3, Q4. fold a2 in P1, P2, P3, P4.
    repeat split; auto.
    - intros h k.
      destruct (cid_eqb h (h2, c2)) eqn:N2; [apply cid_eqb_eq in N2; subst h|].
      + rewrite P3. symmetry. apply serve_other_host. auto.
      + assert (N2' : h <> (h2, c2)) by (intros ->; rewrite cid_eqb_refl in N2; discriminate).
        clear N2. rename N2' into N2.
        rewrite serve_other_host by assumption.
        destruct (cid_eqb h (h1, c1)) eqn:N1; [apply cid_eqb_eq in N1; subst h|
          assert (N1' : h <> (h1, c1)) by (intros ->; rewrite cid_eqb_refl in N1; discriminate); clear N1; rename N1' into N1].
        * symmetry. apply Q3.
        * unfold a1. rewrite serve_other_host by assumption.
          rewrite serve_other_host by assumption. unfold a2. rewrite serve_other_host by assumption. reflexivity.
    - intros c.
      destruct (String.eqb_spec c c2) as [->|N2].
      + rewrite P4. symmetry. apply serve_other_cluster. auto.
      + rewrite serve_other_cluster by assumption.
        destruct (String.eqb_spec c c1) as [->|N1].
        * symmetry. apply Q4.
        * unfold a1. rewrite serve_other_cluster by assumption.
          rewrite serve_other_cluster by assumption. unfold a2. rewrite serve_other_cluster by assumption. reflexivity.
  Qed.
End Commute.

Lemma route_eps cfg s s' ho : eps s = eps s' -> route cfg s ho = route cfg s' ho.
Proof. intros H. unfold route, ready. rewrite H. reflexivity. Qed.

Lemma request_eps {A R} cfg (K : kind A R) orc s s' st ho k cb now :
  eps s = eps s' -> request cfg K orc s st ho k cb now = request cfg K orc s' st ho k cb now.
Proof. intros H. unfold request. rewrite (route_eps cfg s s' ho H). reflexivity. Qed.

Definition is_request (o : op) : bool :=
  match o with OAuthn _ _ _ | OAuthz _ _ _ => true | _ => false end.
Definition op_cluster (E : epstate) (o : op) : option cluster := req_cluster E (op_host o).

(* same endpoints, same cache contents for every host and key, same review counters for every cluster *)
Definition state_eqv (a b : state) : Prop :=
  eps a = eps b /\ keqv (ts a) (ts b) /\ keqv (ss a) (ss b).

Lemma keqv_refl {R} (a : kstate R) : keqv a a.
Proof. split; reflexivity. Qed.

Theorem overlap_commutes cfg torc sorc s a b :
  is_request a = true -> is_request b = true ->
  (op_cluster (eps s) a = None \/ op_cluster (eps s) b = None \/ op_cluster (eps s) a <> op_cluster (eps s) b) ->
  let ra := step cfg torc sorc s a in
  let rab := step cfg torc sorc (fst ra) b in
  let rb := step cfg torc sorc s b in
  let rba := step cfg torc sorc (fst rb) a in
  snd ra = snd rba /\ snd rab = snd rb /\ state_eqv (fst rab) (fst rba).
Proof.
  intros Ha Hb Hd.
  destruct a as [ho1 tok1 now1|ho1 a1 now1| | | | | | | | | | |]; try discriminate;
  destruct b as [ho2 tok2 now2|ho2 a2 now2| | | | | | | | | | |]; try discriminate; unfold op_cluster in Hd; simpl in Hd.
  - (* token / token *)
    pose proof (request_commute cfg (tkind cfg) torc s (ts s) ho1 (tkey tok1) true now1 ho2 (tkey tok2) true now2 Hd) as H.
    simpl in H. simpl.
    destruct (request cfg (tkind cfg) torc s (ts s) ho1 (tkey tok1) true now1) as [[st1 r1] c1] eqn:E1.
    destruct (request cfg (tkind cfg) torc s (ts s) ho2 (tkey tok2) true now2) as [[st2 r2] c2] eqn:E2.
    simpl in *.
    rewrite (request_eps cfg (tkind cfg) torc {| eps := eps s; ts := st1; ss := ss s |} s) by reflexivity.
    rewrite (request_eps cfg (tkind cfg) torc {| eps := eps s; ts := st2; ss := ss s |} s) by reflexivity.
    destruct (request cfg (tkind cfg) torc s st1 ho2 (tkey tok2) true now2) as [[st12 r12] c12].
    destruct (request cfg (tkind cfg) torc s st2 ho1 (tkey tok1) true now1) as [[st21 r21] c21].
    simpl in *. destruct H as [H1 [H2 [H3 [H4 H5]]]]. subst.
    repeat split; try reflexivity; apply H5.
  - (* token / SAR: different caches altogether *)
    simpl.
    destruct (request cfg (tkind cfg) torc s (ts s) ho1 (tkey tok1) true now1) as [[st1 r1] c1] eqn:E1.
    destruct (request cfg (skind cfg) sorc s (ss s) ho2 (sar_key a2) (should_cache a2) now2) as [[st2 r2] c2] eqn:E2.
    simpl.
    rewrite (request_eps cfg (skind cfg) sorc {| eps := eps s; ts := st1; ss := ss s |} s) by reflexivity.
    rewrite (request_eps cfg (tkind cfg) torc {| eps := eps s; ts := ts s; ss := st2 |} s) by reflexivity.
    simpl. rewrite E1, E2. simpl. repeat split; reflexivity.
  - (* SAR / token *)
    simpl.
    destruct (request cfg (skind cfg) sorc s (ss s) ho1 (sar_key a1) (should_cache a1) now1) as [[st1 r1] c1] eqn:E1.
    destruct (request cfg (tkind cfg) torc s (ts s) ho2 (tkey tok2) true now2) as [[st2 r2] c2] eqn:E2.
    simpl.
    rewrite (request_eps cfg (tkind cfg) torc {| eps := eps s; ts := ts s; ss := st1 |} s) by reflexivity.
    rewrite (request_eps cfg (skind cfg) sorc {| eps := eps s; ts := st2; ss := ss s |} s) by reflexivity.
    simpl. rewrite E1, E2. simpl. repeat split; reflexivity.
  - (* SAR / SAR *)
    pose proof (request_commute cfg (skind cfg) sorc s (ss s) ho1 (sar_key a1) (should_cache a1) now1
                  ho2 (sar_key a2) (should_cache a2) now2 Hd) as H.
    simpl in H. simpl.
    destruct (request cfg (skind cfg) sorc s (ss s) ho1 (sar_key a1) (should_cache a1) now1) as [[st1 r1] c1] eqn:E1.
    destruct (request cfg (skind cfg) sorc s (ss s) ho2 (sar_key a2) (should_cache a2) now2) as [[st2 r2] c2] eqn:E2.
    simpl in *.
    rewrite (request_eps cfg (skind cfg) sorc {| eps := eps s; ts := ts s; ss := st1 |} s) by reflexivity.
    rewrite (request_eps cfg (skind cfg) sorc {| eps := eps s; ts := ts s; ss := st2 |} s) by reflexivity.
    destruct (request cfg (skind cfg) sorc s st1 ho2 (sar_key a2) (should_cache a2) now2) as [[st12 r12] c12].
    destruct (request cfg (skind cfg) sorc s st2 ho1 (sar_key a1) (should_cache a1) now1) as [[st21 r21] c21].
    simpl in *. destruct H as [H1 [H2 [H3 [H4 H5]]]]. subst.
    repeat split; try reflexivity; apply H5.
Qed.

(* ---------- a chain request is dispatched to the cluster that reviewed it ---------- *)
Theorem chain_dispatch cfg torc sorc s h tok imp now t z d :
  snd (stepx cfg torc sorc s (Chain h tok imp now)) = RC t z (Some d) ->
  cluster_of (eps s) h = Some d /\
  (forall x cl, (t = Some x \/ z = Some x) -> In cl (out_calls x) -> fst cl = d /\ snd cl = true).
Proof.
  cbn [stepx]. destruct (cluster_of (eps s) h) as [c|] eqn:Ec; [|simpl; intros H; discriminate H].
  pose proof (own_cluster cfg torc sorc s (OAuthn (Some h) tok now)) as Ho1.
  destruct (step cfg torc sorc s (OAuthn (Some h) tok now)) as [s1 xt] eqn:Es1.
  destruct (authn_passes xt) as [u|]; [|simpl; intros H; discriminate H].
  destruct imp as [target|].
  - pose proof (own_cluster cfg torc sorc s1 (OAuthz (Some h) (imp_attrs u target) now)) as Ho2.
    destruct (step cfg torc sorc s1 (OAuthz (Some h) (imp_attrs u target) now)) as [s2 xz] eqn:Es2.
    simpl. destruct (authz_passes xz); [|intros H; discriminate H].
    intros H. inversion H; subst. split; [reflexivity|].
    intros x cl [E|E] Hin; inversion E; subst x.
    + destruct (Ho1 cl Hin) as [h' [E1 [E2 [E3 _]]]]. simpl in E1. inversion E1; subst h'.
      rewrite Ec in E2. inversion E2. auto.
    + destruct (Ho2 cl Hin) as [h' [E1 [E2 [E3 _]]]]. simpl in E1. inversion E1; subst h'.
      assert (He1 : eps s1 = eps s).
      { replace s1 with (fst (step cfg torc sorc s (OAuthn (Some h) tok now))) by (rewrite Es1; reflexivity).
        apply step_eps_request. reflexivity. }
      rewrite He1, Ec in E2. inversion E2. auto.
  - simpl. intros H. inversion H; subst. split; [reflexivity|].
    intros x cl [E|E] Hin; inversion E; subst x.
    destruct (Ho1 cl Hin) as [h' [E1 [E2 [E3 _]]]]. simpl in E1. inversion E1; subst h'.
    rewrite Ec in E2. inversion E2. auto.
Qed.

(* ---------- what a request for h gets depends on nothing but the cache (h, owner of h now), that
   owner's oracle position and the endpoints: never on a cache the host had under another cluster ---------- *)
Lemma request_local {A R} cfg (K : kind A R) orc s s' st st' h c k cb now :
  eps s = eps s' -> cluster_of (eps s) h = Some c ->
  (forall k', kc st (h, c) k' = kc st' (h, c) k') -> kn st c = kn st' c ->
  snd (fst (request cfg K orc s st (Some h) k cb now)) = snd (fst (request cfg K orc s' st' (Some h) k cb now)) /\
  snd (request cfg K orc s st (Some h) k cb now) = snd (request cfg K orc s' st' (Some h) k cb now).
Proof.
  intros He Hc Hk Hn. rewrite <- (request_eps cfg K orc s s' st' (Some h) k cb now He).
  unfold request. destruct (route cfg s (Some h)) as [[h' c']|u] eqn:Er; [|split; reflexivity].
  destruct (route_inl _ _ _ _ _ Er) as [Eh [Hc' _]]. inversion Eh; subst h'.
  rewrite Hc in Hc'. inversion Hc'; subst c'.
  destruct (serve_local K orc st st' h c k cb now Hk Hn) as [H1 [H2 _]]. split; assumption.
Qed.

Theorem owner_cache_only cfg torc sorc s s' h c :
  eps s = eps s' -> cluster_of (eps s) h = Some c ->
  (forall k, kc (ts s) (h, c) k = kc (ts s') (h, c) k) -> kn (ts s) c = kn (ts s') c ->
  (forall k, kc (ss s) (h, c) k = kc (ss s') (h, c) k) -> kn (ss s) c = kn (ss s') c ->
  (forall tok now, snd (step cfg torc sorc s (OAuthn (Some h) tok now)) = snd (step cfg torc sorc s' (OAuthn (Some h) tok now))) /\
  (forall a now, snd (step cfg torc sorc s (OAuthz (Some h) a now)) = snd (step cfg torc sorc s' (OAuthz (Some h) a now))).
Proof.
  intros He Hc Ht Hnt Hs Hns. split.
  - intros tok now. simpl.
    destruct (request_local cfg (tkind cfg) torc s s' (ts s) (ts s') h c (tkey tok) true now He Hc Ht Hnt) as [H1 H2].
    destruct (request cfg (tkind cfg) torc s (ts s) (Some h) (tkey tok) true now) as [[st1 r1] c1].
    destruct (request cfg (tkind cfg) torc s' (ts s') (Some h) (tkey tok) true now) as [[st2 r2] c2].
    simpl in *. subst. reflexivity.
  - intros a now. simpl.
    destruct (request_local cfg (skind cfg) sorc s s' (ss s) (ss s') h c (sar_key a) (should_cache a) now He Hc Hs Hns) as [H1 H2].
    destruct (request cfg (skind cfg) sorc s (ss s) (Some h) (sar_key a) (should_cache a) now) as [[st1 r1] c1].
    destruct (request cfg (skind cfg) sorc s' (ss s') (Some h) (sar_key a) (should_cache a) now) as [[st2 r2] c2].
    simpl in *. subst. reflexivity.
Qed.
