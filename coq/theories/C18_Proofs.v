(* C18 — proofs about the model of the limiter's per-instance bookkeeping. *)
From KG Require Import Prelude C13_Model C19_Model C19_Proofs C18_Model.
Open Scope Z_scope.

(* ------------------------------------------------------------------ association lists, continued *)
Section Assoc2.
  Context {K V : Type}.
  Variable eqb : K -> K -> bool.
  Hypothesis eqb_spec : forall a b, eqb a b = true <-> a = b.

  Lemma alookup_filter_nodup (f : K * V -> bool) k (l : list (K * V)) :
    NoDup (map fst l) ->
    alookup eqb k (filter f l) = match alookup eqb k l with
                                 | Some v => if f (k, v) then Some v else None
                                 | None => None
                                 end.
  Proof.
    induction l as [|[k2 v2] r IH]; simpl; intros Hnd; [reflexivity|].
    inversion Hnd as [|? ? Hk Hr]; subst.
    destruct (eqb k k2) eqn:E.
    - apply eqb_spec in E; subst k2.
      destruct (f (k, v2)) eqn:F; simpl.
      + rewrite (eqb_refl' eqb eqb_spec). reflexivity.
      + rewrite (IH Hr). rewrite (notin_alookup_None eqb eqb_spec k r Hk). reflexivity.
    - destruct (f (k2, v2)); simpl; [rewrite E|]; exact (IH Hr).
  Qed.

  Lemma alookup_filter_none (f : K * V -> bool) k (l : list (K * V)) :
    (forall v, In (k, v) l -> f (k, v) = false) -> alookup eqb k (filter f l) = None.
  Proof.
    induction l as [|[k2 v2] r IH]; simpl; intros H; [reflexivity|].
    destruct (f (k2, v2)) eqn:F; simpl.
    - destruct (eqb k k2) eqn:E.
      + apply eqb_spec in E; subst k2. rewrite H in F; [discriminate|left; reflexivity].
      + apply IH. intros v Hv; apply H; right; exact Hv.
    - apply IH. intros v Hv; apply H; right; exact Hv.
  Qed.

  Lemma alookup_filter_None_pres (f : K * V -> bool) k (l : list (K * V)) :
    alookup eqb k l = None -> alookup eqb k (filter f l) = None.
  Proof.
    intros H. apply alookup_filter_none. intros v Hv.
    apply (alookup_None_notin eqb eqb_spec) in H. exfalso; apply H.
    change k with (fst (k, v)). apply in_map; exact Hv.
  Qed.

  Lemma alookup_map_snd {W} (g : V -> W) k (l : list (K * V)) :
    alookup eqb k (map (fun p => (fst p, g (snd p))) l) = option_map g (alookup eqb k l).
  Proof.
    induction l as [|[k2 v2] r IH]; simpl; [reflexivity|]. destruct (eqb k k2); [reflexivity|exact IH].
  Qed.

  Lemma map_snd_keys {W} (g : V -> W) (l : list (K * V)) :
    map fst (map (fun p => (fst p, g (snd p))) l) = map fst l.
  Proof. induction l as [|[k2 v2] r IH]; simpl; [reflexivity|rewrite IH; reflexivity]. Qed.

  Lemma alookup_Some_in k v (l : list (K * V)) : alookup eqb k l = Some v -> In k (map fst l).
  Proof.
    intros H. apply (alookup_In eqb eqb_spec) in H. change k with (fst (k, v)). apply in_map; exact H.
  Qed.
End Assoc2.

Notation sget := (alookup String.eqb).
Notation kget := (alookup key_eqb).

Definition cond_of (u i : string) (s : st) : option cnd := kget (u, i) (conds s).
Definition count_of (u i : string) (s : st) : option Z :=
  match sget u (cnts s) with Some f => sget i (fst f) | None => None end.

Definition actor (o : op) : option string :=
  match o with Heartbeat i | Report _ i _ | Acquire _ i _ => Some i | _ => None end.
(* the instance does nothing at all *)
Definition quiet (i : string) (o : op) : Prop := actor o <> Some i.
(* the instance neither reports nor acquires (it may send heartbeats) *)
Definition idle (i : string) (o : op) : Prop :=
  match o with Report _ j _ | Acquire _ j _ => j <> i | _ => True end.

(* ------------------------------------------------------------------ invariant of reachable states *)
Definition Labelled (s : st) : Prop := forall u i q lab, In ((u, i), (q, lab)) (conds s) -> lab = i.

Definition Inv (lf : bool) (s : st) : Prop :=
  NoDup (map fst (hb s)) /\ NoDup (map fst (conds s)) /\ (lf = true -> Labelled s).

Lemma aset_In {K V} (eqb : K -> K -> bool) (Hs : forall a b, eqb a b = true <-> a = b) (k : K) (v : V) l p :
  In p (aset eqb k v l) -> p = (k, v) \/ In p l.
Proof.
  induction l as [|[k2 v2] r IH]; simpl.
  - intros [H|[]]; left; auto.
  - destruct (eqb k k2); simpl.
    + intros [H|H]; [left; auto|right; right; exact H].
    + intros [H|H]; [right; left; exact H|]. destruct (IH H) as [X|X]; [left; exact X|right; right; exact X].
Qed.

Lemma Inv_step c lf ah s o : Inv lf s -> Inv lf (fst (step c lf ah s o)).
Proof.
  intros [I1 [I2 I3]]. destruct o as [i|u i q|u i n| | |dt|u|u]; simpl.
  - split; [apply aset_nodup; [apply String.eqb_eq|exact I1]|]. split; [exact I2|exact I3].
  - destruct (sget u (sums s)); simpl; [|split; [exact I1|split; [exact I2|exact I3]]].
    destruct (String.eqb i "state"); simpl; [split; [exact I1|split; [exact I2|exact I3]]|].
    split; [exact I1|]. split; [apply aset_nodup; [apply key_eqb_spec|exact I2]|].
    intros Hlf. subst lf. intros u' i' q' lab' Hin. apply (aset_In key_eqb key_eqb_spec) in Hin.
    destruct Hin as [Hin|Hin]; [inversion Hin; reflexivity|eapply (I3 eq_refl); exact Hin].
  - assert (I1' : NoDup (map fst (if ah then aset String.eqb i (now s) (hb s) else hb s))).
    { destruct ah; [apply aset_nodup; [apply String.eqb_eq|exact I1]|exact I1]. }
    destruct (sget u (cnts s)) as [f|]; simpl; [|split; [exact I1'|split; [exact I2|exact I3]]].
    destruct (n <? 0); simpl; [split; [exact I1'|split; [exact I2|exact I3]]|].
    destruct (set_state (cmax c) f i n) as [f' acc]. simpl. split; [exact I1'|split; [exact I2|exact I3]].
  - split; [apply filter_keys_nodup; exact I1|]. split; [apply filter_keys_nodup; exact I2|].
    intros Hlf u i q lab Hin. apply filter_In in Hin. eapply (I3 Hlf); apply Hin.
  - split; [exact I1|]. split; [apply filter_keys_nodup; exact I2|].
    intros Hlf u i q lab Hin. apply filter_In in Hin. eapply (I3 Hlf); apply Hin.
  - split; [exact I1|split; [exact I2|exact I3]].
  - split; [exact I1|split; [exact I2|exact I3]].
  - destruct (sget u (sums s)); simpl; split; [exact I1|split; [exact I2|exact I3]|exact I1|split; [exact I2|exact I3]].
Qed.

Lemma Inv_run c lf ah ops : forall s, Inv lf s -> Inv lf (run_state c lf ah s ops).
Proof. induction ops as [|o r IH]; intros s H; simpl; [exact H|]. apply IH, Inv_step, H. Qed.

Lemma Inv_init c lf : Inv lf (init c).
Proof. split; [constructor|]. split; [constructor|]. intros _ u i q lab []. Qed.

(* ------------------------------------------------------------------ counts under DeleteInstanceState *)
Lemma count_drop_all dead u i (cs : list (string * fcst)) :
  match sget u (drop_all dead cs) with Some f => sget i (fst f) | None => None end
  = if str_mem i dead then None
    else match sget u cs with Some f => sget i (fst f) | None => None end.
Proof.
  unfold drop_all.
  rewrite (alookup_map_snd String.eqb (drop_insts dead) u cs).
  destruct (sget u cs) as [[entries total]|]; simpl; [|destruct (str_mem i dead); reflexivity].
  pose proof (alookup_filter String.eqb String.eqb_eq (fun x => negb (str_mem x dead)) i entries (V:=Z)) as HF.
  cbv beta in HF. rewrite HF. destruct (str_mem i dead); reflexivity.
Qed.

Lemma str_mem_false_iff x l : str_mem x l = false <-> ~ In x l.
Proof. rewrite <- str_mem_In. destruct (str_mem x l); split; intros; try reflexivity; try discriminate; congruence. Qed.

Lemma set_state_other max f i n j : i <> j -> sget j (fst (fst (set_state max f i n))) = sget j (fst f).
Proof.
  intros Hne. unfold set_state. destruct f as [entries total]. simpl.
  destruct ((0 <? _) && (0 <? _))%bool; simpl; [apply alookup_aset_other; [apply String.eqb_eq|exact Hne]|].
  destruct ((0 <=? _) && (0 <? n))%bool; simpl; apply alookup_aset_other; try apply String.eqb_eq; exact Hne.
Qed.

(* ------------------------------------------------------------------ live instances are left alone *)
Lemma dead_mem now (h : list (string * Z)) i :
  str_mem i (map fst (filter (fun p : string * Z => now >? snd p + timeout_ms) h)) = true
  <-> exists t, In (i, t) h /\ now > t + timeout_ms.
Proof.
  rewrite str_mem_In, in_map_iff. split.
  - intros [[j t] [E H]]. simpl in E; subst j. apply filter_In in H. destruct H as [H1 H2]. simpl in H2.
    exists t. split; [exact H1|]. apply Z.gtb_lt in H2. lia.
  - intros [t [H1 H2]]. exists (i, t). split; [reflexivity|]. apply filter_In. split; [exact H1|].
    simpl. apply Z.gtb_lt. lia.
Qed.

Lemma not_dead now (h : list (string * Z)) i t :
  NoDup (map fst h) -> sget i h = Some t -> now <= t + timeout_ms ->
  str_mem i (map fst (filter (fun p : string * Z => now >? snd p + timeout_ms) h)) = false.
Proof.
  intros Hnd Hi Hle. destruct (str_mem i _) eqn:E; [|reflexivity].
  apply dead_mem in E. destruct E as [t' [E1 E2]].
  apply (In_alookup String.eqb String.eqb_eq) in E1; [|exact Hnd]. rewrite Hi in E1. inversion E1; subst. lia.
Qed.

Arguments orphan : simpl never.

(* counted in-flight after the unknown-condition pass *)
Lemma count_tu (orphan : string -> bool) gone u i (cs : list (string * fcst)) :
  match sget u (filter (fun p : string * fcst => negb (orphan (fst p))) (drop_all gone cs)) with
  | Some f => sget i (fst f) | None => None end
  = if orphan u then None
    else if str_mem i gone then None
    else match sget u cs with Some f => sget i (fst f) | None => None end.
Proof.
  pose proof (alookup_filter String.eqb String.eqb_eq (fun x => negb (orphan x)) u (drop_all gone cs) (V:=fcst)) as HF.
  cbv beta in HF. rewrite HF. destruct (orphan u); simpl; [reflexivity|]. apply count_drop_all.
Qed.

(* one step: an instance that is in the client cache, whose last heartbeat is at most 3 s old when a
   timeout pass runs, keeps its cache entry, and — for every upstream that is in the lister when an
   unknown-condition pass runs — all its conditions and all its counted in-flight; whatever the step
   is, except its own report / acquire *)
Lemma live_kept_step c ah s o i h :
  Inv true s -> sget i (hb s) = Some h ->
  (o = TickTimeout -> now s <= h + timeout_ms) -> idle i o ->
  let s' := fst (step c true ah s o) in
  (exists h', sget i (hb s') = Some h' /\ (h' = h \/ h' = now s))
  /\ (forall u, (o = TickUnknown -> str_mem u (lister s) = true) -> cond_of u i s' = cond_of u i s)
  /\ (forall u, (o = TickUnknown -> str_mem u (lister s) = true) -> count_of u i s' = count_of u i s).
Proof.
  intros [I1 [I2 I3]] Hi Hlive Hidle. specialize (I3 eq_refl).
  destruct o as [j|u j q|u j n| | |dt|u|u]; simpl.
  - (* Heartbeat j *)
    split; [|split; reflexivity].
    destruct (String.eqb_spec j i) as [->|Hne].
    + exists (now s). rewrite (alookup_aset_same String.eqb String.eqb_eq). split; [reflexivity|right; reflexivity].
    + exists h. rewrite (alookup_aset_other String.eqb String.eqb_eq); [|exact Hne]. split; [exact Hi|left; reflexivity].
  - (* Report u j q, j <> i *)
    simpl in Hidle. destruct (sget u (sums s)); simpl.
    2:{ split; [exists h; split; [exact Hi|left; reflexivity]|split; reflexivity]. }
    destruct (String.eqb j "state"); simpl.
    { split; [exists h; split; [exact Hi|left; reflexivity]|split; reflexivity]. }
    split; [exists h; split; [exact Hi|left; reflexivity]|]. split; [|reflexivity].
    intros u' _. unfold cond_of; simpl. apply (alookup_aset_other key_eqb key_eqb_spec). congruence.
  - (* Acquire u j n, j <> i *)
    simpl in Hidle.
    assert (Hh : sget i (if ah then aset String.eqb j (now s) (hb s) else hb s) = Some h).
    { destruct ah; [rewrite (alookup_aset_other String.eqb String.eqb_eq); [exact Hi|exact Hidle]|exact Hi]. }
    destruct (sget u (cnts s)) as [f|] eqn:Ef; simpl.
    2:{ split; [exists h; split; [exact Hh|left; reflexivity]|split; reflexivity]. }
    destruct (n <? 0); simpl.
    { split; [exists h; split; [exact Hh|left; reflexivity]|split; reflexivity]. }
    destruct (set_state (cmax c) f j n) as [f' acc] eqn:Es. simpl.
    split; [exists h; split; [exact Hh|left; reflexivity]|]. split; [reflexivity|].
    intros u' _. unfold count_of; simpl.
    destruct (String.eqb_spec u u') as [->|Hne].
    + rewrite (alookup_aset_same String.eqb String.eqb_eq), Ef.
      pose proof (set_state_other (cmax c) f j n i Hidle) as X. rewrite Es in X. exact X.
    + rewrite (alookup_aset_other String.eqb String.eqb_eq); [reflexivity|exact Hne].
  - (* TickTimeout *)
    specialize (Hlive eq_refl).
    pose proof (not_dead (now s) (hb s) i h I1 Hi Hlive) as Hnd.
    split; [|split].
    + exists h. split; [|left; reflexivity].
      rewrite (alookup_filter_nodup String.eqb String.eqb_eq); [|exact I1]. rewrite Hi. simpl.
      destruct (now s >? h + timeout_ms) eqn:E; [apply Z.gtb_lt in E; lia|reflexivity].
    + intros u _. unfold cond_of; simpl.
      rewrite (alookup_filter_nodup key_eqb key_eqb_spec); [|exact I2].
      destruct (kget (u, i) (conds s)) as [[q lab]|] eqn:Ec; [|reflexivity].
      apply (alookup_In key_eqb key_eqb_spec) in Ec. rewrite (I3 _ _ _ _ Ec). simpl. rewrite Hnd. reflexivity.
    + intros u _. unfold count_of; simpl. rewrite count_drop_all. rewrite Hnd. reflexivity.
  - (* TickUnknown *)
    assert (Hk : str_mem i (map fst (hb s)) = true).
    { apply str_mem_In. eapply alookup_Some_in; [apply String.eqb_eq|exact Hi]. }
    split; [exists h; split; [exact Hi|left; reflexivity]|]. split.
    + intros u Hu. specialize (Hu eq_refl). unfold cond_of; simpl.
      rewrite (alookup_filter_nodup key_eqb key_eqb_spec); [|exact I2].
      destruct (kget (u, i) (conds s)) as [v|]; [|reflexivity]. simpl. rewrite Hk. unfold orphan. rewrite Hu. reflexivity.
    + intros u Hu. specialize (Hu eq_refl). unfold count_of; simpl. rewrite count_tu. unfold orphan at 1. rewrite Hu. simpl.
      match goal with |- (if str_mem i ?g then _ else _) = _ => destruct (str_mem i g) eqn:Eg end; [|reflexivity].
      apply str_mem_In in Eg. apply in_map_iff in Eg. destruct Eg as [[[u' i'] v] [E1 E2]]. simpl in E1; subst i'.
      apply filter_In in E2. destruct E2 as [_ E2]. simpl in E2. rewrite Hk in E2. discriminate.
  - split; [exists h; split; [exact Hi|left; reflexivity]|split; reflexivity].
  - split; [exists h; split; [exact Hi|left; reflexivity]|split; reflexivity].
  - (* ClusterSet *)
    assert (HC : forall u', count_of u' i (mkSt (now s) (hb s) (conds s) (sums s)
                   (match sget u (cnts s) with Some _ => cnts s | None => aset String.eqb u ([], 0) (cnts s) end) (lister s))
                 = count_of u' i s).
    { intros u'. unfold count_of; simpl. destruct (sget u (cnts s)) eqn:Ec; [reflexivity|].
      destruct (String.eqb_spec u u') as [->|Hne].
      - rewrite (alookup_aset_same String.eqb String.eqb_eq), Ec. reflexivity.
      - rewrite (alookup_aset_other String.eqb String.eqb_eq); [reflexivity|exact Hne]. }
    destruct (sget u (sums s)); simpl;
      (split; [exists h; split; [exact Hi|left; reflexivity]|]; split; [reflexivity|]; intros u' _; apply HC).
Qed.

Lemma lister_step c lf ah s o u :
  str_mem u (lister s) = true -> o <> ClusterGone u -> str_mem u (lister (fst (step c lf ah s o))) = true.
Proof.
  intros Hu Ho. destruct o as [j|u' j q|u' j n| | |dt|u'|u']; simpl; try exact Hu.
  - destruct (sget u' (sums s)); simpl; [|exact Hu]. destruct (String.eqb j "state"); simpl; exact Hu.
  - destruct (sget u' (cnts s)); simpl; [|exact Hu]. destruct (n <? 0); simpl; [exact Hu|].
    destruct (set_state (cmax c) _ j n). simpl. exact Hu.
  - apply str_mem_In. apply filter_In. split; [apply str_mem_In; exact Hu|].
    destruct (String.eqb_spec u u') as [->|Hne]; [exfalso; apply Ho; reflexivity|reflexivity].
  - assert (X : str_mem u (if str_mem u' (lister s) then lister s else u' :: lister s) = true).
    { destruct (str_mem u' (lister s)); [exact Hu|]. simpl. destruct (String.eqb u u'); [reflexivity|exact Hu]. }
    destruct (sget u' (sums s)); simpl; exact X.
Qed.

(* over a whole history: at every timeout pass the instance's last heartbeat is at most 3 s old *)
Fixpoint live_along (c : cfg) (ah : bool) (i : string) (s : st) (ops : list op) : Prop :=
  match ops with
  | [] => True
  | o :: r => (o = TickTimeout -> exists h, sget i (hb s) = Some h /\ now s <= h + timeout_ms)
              /\ live_along c ah i (fst (step c true ah s o)) r
  end.

Lemma live_kept c ah i u ops : forall s h,
  Inv true s -> sget i (hb s) = Some h -> live_along c ah i s ops -> Forall (idle i) ops ->
  str_mem u (lister s) = true -> Forall (fun o => o <> ClusterGone u) ops ->
  let s' := run_state c true ah s ops in
  (exists h', sget i (hb s') = Some h') /\ cond_of u i s' = cond_of u i s /\ count_of u i s' = count_of u i s.
Proof.
  induction ops as [|o r IH]; intros s h HI Hi Hl Hid Hu Hg; simpl.
  - split; [exists h; exact Hi|split; reflexivity].
  - simpl in Hl. destruct Hl as [Hl1 Hl2]. inversion Hid as [|? ? Ho Hr]; subst. inversion Hg as [|? ? Hgo Hgr]; subst.
    assert (Hlive : o = TickTimeout -> now s <= h + timeout_ms).
    { intros E. destruct (Hl1 E) as [h2 [E1 E2]]. rewrite Hi in E1; inversion E1; subst; exact E2. }
    pose proof (live_kept_step c ah s o i h HI Hi Hlive Ho) as [[h' [S1 _]] [S2 S3]].
    pose proof (Inv_step c true ah s o HI) as HI'.
    pose proof (lister_step c true ah s o u Hu Hgo) as Hu'.
    destruct (IH _ h' HI' S1 Hl2 Hr Hu' Hgr) as [R1 [R2 R3]].
    split; [exact R1|]. split; [rewrite R2; apply S2; intros _; exact Hu|rewrite R3; apply S3; intros _; exact Hu].
Qed.

(* ------------------------------------------------------------------ reclamation *)
(* with DoAcquire recording the client: whatever is counted belongs to an instance in the cache *)
Definition CountCached (s : st) : Prop := forall u i, count_of u i s <> None -> sget i (hb s) <> None.

Lemma aset_keeps_some (k j : string) (v : Z) (l : list (string * Z)) : sget k l <> None -> sget k (aset String.eqb j v l) <> None.
Proof.
  intros H. destruct (String.eqb_spec j k) as [->|Hne].
  - rewrite (alookup_aset_same String.eqb String.eqb_eq). discriminate.
  - rewrite (alookup_aset_other String.eqb String.eqb_eq); [exact H|exact Hne].
Qed.

Lemma CountCached_step c lf s o : Inv lf s -> CountCached s -> CountCached (fst (step c lf true s o)).
Proof.
  intros [I1 _] HC. destruct o as [j|u j q|u j n| | |dt|u|u]; simpl.
  - intros u i H. apply aset_keeps_some. apply (HC u i). exact H.
  - destruct (sget u (sums s)); simpl; [|exact HC]. destruct (String.eqb j "state"); simpl; exact HC.
  - destruct (sget u (cnts s)) as [f|] eqn:Ef; simpl.
    2:{ intros u' i H. apply aset_keeps_some. apply (HC u' i). exact H. }
    destruct (n <? 0); simpl.
    { intros u' i H. apply aset_keeps_some. apply (HC u' i). exact H. }
    destruct (set_state (cmax c) f j n) as [f' acc] eqn:Es. simpl.
    intros u' i H. unfold count_of in H; simpl in H. simpl.
    destruct (String.eqb_spec j i) as [->|Hne]; [rewrite (alookup_aset_same String.eqb String.eqb_eq); discriminate|].
    apply aset_keeps_some. apply (HC u' i). unfold count_of.
    destruct (String.eqb_spec u u') as [->|Hu].
    + rewrite (alookup_aset_same String.eqb String.eqb_eq) in H. rewrite Ef.
      pose proof (set_state_other (cmax c) f j n i Hne) as X. rewrite Es in X. simpl in X. rewrite <- X. exact H.
    + rewrite (alookup_aset_other String.eqb String.eqb_eq) in H; [exact H|exact Hu].
  - intros u i H. unfold count_of in H; simpl in H. rewrite count_drop_all in H.
    destruct (str_mem i _) eqn:Ed; [congruence|].
    pose proof (HC u i H) as Hc. destruct (sget i (hb s)) as [h|] eqn:Eh; [|congruence]. simpl.
    rewrite (alookup_filter_nodup String.eqb String.eqb_eq); [|exact I1]. rewrite Eh. simpl.
    destruct (now s >? h + timeout_ms) eqn:E; [|discriminate].
    exfalso. apply Z.gtb_lt in E.
    assert (X : str_mem i (map fst (filter (fun p : string * Z => now s >? snd p + timeout_ms) (hb s))) = true).
    { apply dead_mem. exists h. split; [apply (alookup_In String.eqb String.eqb_eq); exact Eh|lia]. }
    congruence.
  - intros u i H. unfold count_of in H; simpl in H. rewrite count_tu in H.
    destruct (orphan s u); [congruence|].
    destruct (str_mem i _); [congruence|]. apply (HC u i). exact H.
  - exact HC.
  - exact HC.
  - assert (G : forall u' i, match sget u' (match sget u (cnts s) with Some _ => cnts s | None => aset String.eqb u ([], 0) (cnts s) end) with
                          | Some f => sget i (fst f) | None => None end <> None -> sget i (hb s) <> None).
    { intros u' i H. apply (HC u' i). unfold count_of.
      destruct (sget u (cnts s)) eqn:Ec; [exact H|].
      destruct (String.eqb_spec u u') as [->|Hne].
      - rewrite (alookup_aset_same String.eqb String.eqb_eq) in H. simpl in H. congruence.
      - rewrite (alookup_aset_other String.eqb String.eqb_eq) in H; [exact H|exact Hne]. }
    destruct (sget u (sums s)); simpl; intros u' i H; apply (G u' i); exact H.
Qed.

Lemma count_of_init c u i : count_of u i (init c) = None.
Proof.
  unfold count_of, init; simpl. induction (ups c) as [|x r IH]; simpl; [reflexivity|].
  destruct (String.eqb u x); [reflexivity|exact IH].
Qed.

Lemma reach_inv c ops :
  Inv true (run_state c true true (init c) ops) /\ CountCached (run_state c true true (init c) ops).
Proof.
  assert (G : forall s, Inv true s -> CountCached s -> Inv true (run_state c true true s ops) /\ CountCached (run_state c true true s ops)).
  { induction ops as [|o r IH]; intros s H1 H2; simpl; [tauto|].
    apply IH; [apply Inv_step; exact H1|apply CountCached_step; assumption]. }
  apply G; [apply Inv_init|]. intros u i H. rewrite count_of_init in H. congruence.
Qed.

(* the timeout pass, for an instance whose cache entry (if any) is more than 3 s old *)
Lemma tt_clean c s i :
  Inv true s -> CountCached s -> i <> EmptyString ->
  (forall h, sget i (hb s) = Some h -> now s > h + timeout_ms) ->
  let s' := fst (step c true true s TickTimeout) in
  sget i (hb s') = None /\ (forall u, count_of u i s' = None)
  /\ (sget i (hb s) <> None -> forall u, cond_of u i s' = None).
Proof.
  intros [I1 [I2 I3]] HC Hne Hold. specialize (I3 eq_refl). simpl. split; [|split].
  - rewrite (alookup_filter_nodup String.eqb String.eqb_eq); [|exact I1].
    destruct (sget i (hb s)) as [h|] eqn:Eh; [|reflexivity]. simpl.
    specialize (Hold h eq_refl). destruct (now s >? h + timeout_ms) eqn:E; [reflexivity|].
    rewrite Z.gtb_ltb in E. rewrite Z.ltb_ge in E. lia.
  - intros u. unfold count_of; simpl. rewrite count_drop_all.
    destruct (str_mem i _) eqn:Ed; [reflexivity|].
    destruct (match sget u (cnts s) with Some f => sget i (fst f) | None => None end) eqn:Ec; [|reflexivity].
    exfalso. assert (Hc : count_of u i s <> None) by (unfold count_of; rewrite Ec; discriminate).
    apply HC in Hc. destruct (sget i (hb s)) as [h|] eqn:Eh; [|congruence].
    assert (X : str_mem i (map fst (filter (fun p : string * Z => now s >? snd p + timeout_ms) (hb s))) = true).
    { apply dead_mem. exists h. split; [apply (alookup_In String.eqb String.eqb_eq); exact Eh|apply Hold; reflexivity]. }
    congruence.
  - intros Hin u. unfold cond_of; simpl. apply (alookup_filter_none key_eqb key_eqb_spec).
    intros [q lab] Hv. rewrite (I3 _ _ _ _ Hv). simpl.
    destruct (sget i (hb s)) as [h|] eqn:Eh; [|congruence].
    assert (X : str_mem i (map fst (filter (fun p : string * Z => now s >? snd p + timeout_ms) (hb s))) = true).
    { apply dead_mem. exists h. split; [apply (alookup_In String.eqb String.eqb_eq); exact Eh|apply Hold; reflexivity]. }
    rewrite X. unfold deletable; simpl. destruct (String.eqb_spec i EmptyString); [contradiction|reflexivity].
Qed.

(* the unknown-condition pass, for an instance that is not in the cache *)
Lemma tu_clean c lf ah s i :
  i <> EmptyString -> sget i (hb s) = None ->
  let s' := fst (step c lf ah s TickUnknown) in
  forall u, cond_of u i s' = None.
Proof.
  intros Hne Hi. simpl. intros u. unfold cond_of; simpl. apply (alookup_filter_none key_eqb key_eqb_spec).
  intros v _. simpl.
  assert (X : str_mem i (map fst (hb s)) = false).
  { apply str_mem_false_iff. apply (alookup_None_notin String.eqb String.eqb_eq). exact Hi. }
  rewrite X. unfold deletable; simpl. destruct (String.eqb_spec i EmptyString); [contradiction|reflexivity].
Qed.

(* a silent instance stays forgotten *)
Definition Forgotten (i : string) (s : st) : Prop :=
  sget i (hb s) = None /\ forall u, count_of u i s = None.

Lemma quiet_forgotten c lf ah s o i : quiet i o -> Forgotten i s -> Forgotten i (fst (step c lf ah s o)).
Proof.
  intros Hq [F1 F2]. unfold quiet in Hq. unfold Forgotten. destruct o as [j|u j q|u j n| | |dt|u|u]; simpl in *.
  - split; [|exact F2]. rewrite (alookup_aset_other String.eqb String.eqb_eq); [exact F1|congruence].
  - destruct (sget u (sums s)); simpl; [|split; assumption]. destruct (String.eqb j "state"); simpl; split; assumption.
  - assert (Hj : j <> i) by congruence.
    assert (Hh : sget i (if ah then aset String.eqb j (now s) (hb s) else hb s) = None).
    { destruct ah; [rewrite (alookup_aset_other String.eqb String.eqb_eq); assumption|exact F1]. }
    destruct (sget u (cnts s)) as [f|] eqn:Ef; simpl; [|split; [exact Hh|exact F2]].
    destruct (n <? 0); simpl; [split; [exact Hh|exact F2]|].
    destruct (set_state (cmax c) f j n) as [f' acc] eqn:Es. simpl. split; [exact Hh|].
    intros u'. unfold count_of; simpl. destruct (String.eqb_spec u u') as [->|Hu].
    + rewrite (alookup_aset_same String.eqb String.eqb_eq).
      pose proof (set_state_other (cmax c) f j n i Hj) as X. rewrite Es in X. simpl in X. rewrite X.
      specialize (F2 u'). unfold count_of in F2. rewrite Ef in F2. exact F2.
    + rewrite (alookup_aset_other String.eqb String.eqb_eq); [apply F2|exact Hu].
  - split; [apply (alookup_filter_None_pres String.eqb String.eqb_eq); exact F1|].
    intros u. unfold count_of; simpl. rewrite count_drop_all. destruct (str_mem i _); [reflexivity|apply F2].
  - split; [exact F1|]. intros u. unfold count_of; simpl. rewrite count_tu.
    destruct (orphan s u); [reflexivity|]. destruct (str_mem i _); [reflexivity|apply F2].
  - split; assumption.
  - split; assumption.
  - assert (G : forall u', match sget u' (match sget u (cnts s) with Some _ => cnts s | None => aset String.eqb u ([], 0) (cnts s) end) with
                          | Some f => sget i (fst f) | None => None end = None).
    { intros u'. destruct (sget u (cnts s)) eqn:Ec; [apply F2|].
      destruct (String.eqb_spec u u') as [->|Hne].
      - rewrite (alookup_aset_same String.eqb String.eqb_eq). reflexivity.
      - rewrite (alookup_aset_other String.eqb String.eqb_eq); [apply F2|exact Hne]. }
    destruct (sget u (sums s)); simpl; (split; [exact F1|]; intros u'; apply G).
Qed.

Lemma quiet_noconds c lf ah s o i : quiet i o -> (forall u, cond_of u i s = None) ->
  forall u, cond_of u i (fst (step c lf ah s o)) = None.
Proof.
  intros Hq F. unfold quiet in Hq. destruct o as [j|u j q|u j n| | |dt|u|u]; simpl in *; try exact F.
  - destruct (sget u (sums s)); simpl; [|exact F]. destruct (String.eqb j "state"); simpl; [exact F|].
    intros u'. unfold cond_of; simpl.
    rewrite (alookup_aset_other key_eqb key_eqb_spec); [apply F|congruence].
  - destruct (sget u (cnts s)) as [f|]; simpl; [|exact F]. destruct (n <? 0); simpl; [exact F|].
    destruct (set_state (cmax c) f j n) as [f' acc]. simpl. exact F.
  - intros u. unfold cond_of; simpl. apply (alookup_filter_None_pres key_eqb key_eqb_spec). apply F.
  - intros u. unfold cond_of; simpl. apply (alookup_filter_None_pres key_eqb key_eqb_spec). apply F.
  - destruct (sget u (sums s)); simpl; exact F.
Qed.

Lemma quiet_run_forgotten c lf ah i ops : forall s, Forall (quiet i) ops -> Forgotten i s -> Forgotten i (run_state c lf ah s ops).
Proof.
  induction ops as [|o r IH]; intros s Hq F; simpl; [exact F|]. inversion Hq; subst.
  apply IH; [assumption|apply quiet_forgotten; assumption].
Qed.
Lemma quiet_run_noconds c lf ah i ops : forall s, Forall (quiet i) ops -> (forall u, cond_of u i s = None) ->
  forall u, cond_of u i (run_state c lf ah s ops) = None.
Proof.
  induction ops as [|o r IH]; intros s Hq F; simpl; [exact F|]. inversion Hq; subst.
  apply IH; [assumption|apply quiet_noconds; assumption].
Qed.

(* an instance whose cache entry (if any) is more than 3 s old at a timeout pass and that stays
   silent: its counted in-flight is gone from that pass on (and its conditions too if the pass found
   it in the cache); after the next unknown-condition pass nothing of it is left, for good *)
Lemma reclaimed c i s ops2 ops3 :
  Inv true s -> CountCached s -> i <> EmptyString ->
  (forall h, sget i (hb s) = Some h -> now s > h + timeout_ms) ->
  Forall (quiet i) ops2 -> Forall (quiet i) ops3 ->
  let s2 := run_state c true true (fst (step c true true s TickTimeout)) ops2 in
  let s5 := run_state c true true (fst (step c true true s2 TickUnknown)) ops3 in
  (sget i (hb s2) = None /\ (forall u, count_of u i s2 = None)
   /\ (sget i (hb s) <> None -> forall u, cond_of u i s2 = None))
  /\ (sget i (hb s5) = None /\ (forall u, count_of u i s5 = None) /\ (forall u, cond_of u i s5 = None)).
Proof.
  intros HI HC Hne Hold Hq2 Hq3 s2 s5.
  pose proof (tt_clean c s i HI HC Hne Hold) as [T1 [T2 T3]].
  assert (F2 : Forgotten i s2) by (apply quiet_run_forgotten; [exact Hq2|split; assumption]).
  split.
  - destruct F2 as [A B]. split; [exact A|]. split; [exact B|].
    intros Hin. apply quiet_run_noconds; [exact Hq2|apply T3; exact Hin].
  - assert (F3 : Forgotten i (fst (step c true true s2 TickUnknown))) by (apply quiet_forgotten; [discriminate|exact F2]).
    assert (F5 : Forgotten i s5) by (apply quiet_run_forgotten; assumption).
    destruct F5 as [A B]. split; [exact A|]. split; [exact B|].
    apply quiet_run_noconds; [exact Hq3|]. apply tu_clean; [exact Hne|apply F2].
Qed.

(* ------------------------------------------------------------------ capacity *)
Lemma capacity_returns c lf ah s u j q : sget u (sums s) <> None ->
  let s' := fst (step c lf ah s (Report u j q)) in
  sget u (sums s') = Some (sum_quota u (conds s'))
  /\ (forall u' i, (u', i) <> (u, j) -> cond_of u' i s' = cond_of u' i s).
Proof.
  intros Hu. simpl. destruct (sget u (sums s)); [|congruence]. destruct (String.eqb j "state"); simpl.
  - split; [apply (alookup_aset_same String.eqb String.eqb_eq)|reflexivity].
  - split; [apply (alookup_aset_same String.eqb String.eqb_eq)|].
    intros u' i Hne. unfold cond_of; simpl. apply (alookup_aset_other key_eqb key_eqb_spec). congruence.
Qed.

(* the recorded sum counts nothing for an instance that has no condition *)
Lemma sum_quota_without u i (l : list (key * cnd)) :
  (forall v, ~ In ((u, i), v) l) ->
  sum_quota u l = sum_quota u (filter (fun p : key * cnd => negb (String.eqb (snd (fst p)) i)) l).
Proof.
  unfold sum_quota. induction l as [|[[u' i'] v] r IH]; simpl; intros H; [reflexivity|].
  assert (Hr : forall v0, ~ In ((u, i), v0) r) by (intros v0 X; apply (H v0); right; exact X).
  destruct (String.eqb_spec i' i) as [->|Hi]; simpl.
  - destruct (String.eqb_spec u' u) as [->|Hu]; simpl.
    + exfalso. apply (H v). left; reflexivity.
    + apply IH; exact Hr.
  - destruct (String.eqb u' u); simpl; [rewrite (IH Hr); reflexivity|apply IH; exact Hr].
Qed.

(* ------------------------------------------------------------------ losing and regaining the shard *)
Definition sidle (i : string) (o : sop) : Prop := match o with Op o => idle i o | _ => True end.

Lemma Inv_sstep c lf ah x o : Inv lf (core x) -> Inv lf (core (fst (sstep c lf ah x o))).
Proof.
  intros HI. destruct o as [o| |]; simpl.
  - destruct (lead x).
    + pose proof (Inv_step c lf ah (core x) o HI) as H. destruct (step c lf ah (core x) o) as [s' r]. exact H.
    + destruct HI as [I1 [I2 I3]].
      destruct o as [j|u j q|u j n| | |dt|u|u]; simpl; try (split; [exact I1|split; [exact I2|exact I3]]).
      * split; [apply aset_nodup; [apply String.eqb_eq|exact I1]|split; [exact I2|exact I3]].
      * split; [apply filter_keys_nodup; exact I1|split; [exact I2|exact I3]].
  - destruct (lead x); simpl; exact HI.
  - destruct (lead x); simpl; exact HI.
Qed.

(* one step of a history with leadership changes: cache entry and persisted conditions of a live instance *)
Lemma live_kept_sstep c ah x o i h :
  Inv true (core x) -> sget i (hb (core x)) = Some h ->
  (o = Op TickTimeout -> now (core x) <= h + timeout_ms) -> sidle i o ->
  let x' := fst (sstep c true ah x o) in
  (exists h', sget i (hb (core x')) = Some h' /\ (h' = h \/ h' = now (core x)))
  /\ (forall u, (o = Op TickUnknown -> str_mem u (lister (core x)) = true) -> cond_of u i (core x') = cond_of u i (core x)).
Proof.
  intros HI Hi Hlive Hidle. destruct o as [o| |]; simpl.
  - simpl in Hidle. destruct (lead x).
    + assert (Hl : o = TickTimeout -> now (core x) <= h + timeout_ms) by (intros E; apply Hlive; rewrite E; reflexivity).
      pose proof (live_kept_step c ah (core x) o i h HI Hi Hl Hidle) as [S1 [S2 _]].
      destruct (step c true ah (core x) o) as [s' r]. simpl in *. split; [exact S1|].
      intros u Hu. apply S2. intros E. apply Hu. rewrite E; reflexivity.
    + destruct HI as [I1 _].
      destruct o as [j|u j q|u j n| | |dt|u|u]; simpl;
        try (split; [exists h; split; [exact Hi|left; reflexivity]|intros; reflexivity]).
      * split; [|intros; reflexivity]. destruct (String.eqb_spec j i) as [->|Hne].
        -- exists (now (core x)). rewrite (alookup_aset_same String.eqb String.eqb_eq). split; [reflexivity|right; reflexivity].
        -- exists h. rewrite (alookup_aset_other String.eqb String.eqb_eq); [|exact Hne]. split; [exact Hi|left; reflexivity].
      * split; [|intros; reflexivity]. exists h. split; [|left; reflexivity].
        rewrite (alookup_filter_nodup String.eqb String.eqb_eq); [|exact I1]. rewrite Hi. simpl.
        specialize (Hlive eq_refl). destruct (now (core x) >? h + timeout_ms) eqn:E; [apply Z.gtb_lt in E; lia|reflexivity].
  - destruct (lead x); simpl; (split; [exists h; split; [exact Hi|left; reflexivity]|intros; reflexivity]).
  - destruct (lead x); simpl; (split; [exists h; split; [exact Hi|left; reflexivity]|intros; reflexivity]).
Qed.

Lemma lister_sstep c lf ah x o u :
  str_mem u (lister (core x)) = true -> o <> Op (ClusterGone u) -> str_mem u (lister (core (fst (sstep c lf ah x o)))) = true.
Proof.
  intros Hu Ho. destruct o as [o| |]; simpl.
  - destruct (lead x).
    + assert (Ho' : o <> ClusterGone u) by (intros E; apply Ho; rewrite E; reflexivity).
      pose proof (lister_step c lf ah (core x) o u Hu Ho') as H. destruct (step c lf ah (core x) o) as [s' r]. exact H.
    + destruct o as [j|u' j q|u' j n| | |dt|u'|u']; simpl; try exact Hu.
      * apply str_mem_In. apply filter_In. split; [apply str_mem_In; exact Hu|].
        destruct (String.eqb_spec u u') as [->|Hne]; [exfalso; apply Ho; reflexivity|reflexivity].
      * destruct (str_mem u' (lister (core x))); [exact Hu|]. simpl. destruct (String.eqb u u'); [reflexivity|exact Hu].
  - destruct (lead x); simpl; exact Hu.
  - destruct (lead x); simpl; exact Hu.
Qed.

Fixpoint slive_along (c : cfg) (ah : bool) (i : string) (x : srv) (ops : list sop) : Prop :=
  match ops with
  | [] => True
  | o :: r => (o = Op TickTimeout -> exists h, sget i (hb (core x)) = Some h /\ now (core x) <= h + timeout_ms)
              /\ slive_along c ah i (fst (sstep c true ah x o)) r
  end.

(* over every history in which the replica loses and regains its shard any number of times, with
   heartbeats arriving while it leads nothing and clean-up passes at any point: an instance whose
   heartbeat is at most 3 s old at every timeout pass keeps its cache entry and its persisted condition *)
Lemma takeover_keeps_live c ah i u ops : forall x h,
  Inv true (core x) -> sget i (hb (core x)) = Some h -> slive_along c ah i x ops -> Forall (sidle i) ops ->
  str_mem u (lister (core x)) = true -> Forall (fun o => o <> Op (ClusterGone u)) ops ->
  let x' := srun_state c true ah x ops in
  (exists h', sget i (hb (core x')) = Some h') /\ cond_of u i (core x') = cond_of u i (core x).
Proof.
  induction ops as [|o r IH]; intros x h HI Hi Hl Hid Hu Hg; simpl.
  - split; [exists h; exact Hi|reflexivity].
  - simpl in Hl. destruct Hl as [Hl1 Hl2]. inversion Hid as [|? ? Ho Hr]; subst. inversion Hg as [|? ? Hgo Hgr]; subst.
    assert (Hlive : o = Op TickTimeout -> now (core x) <= h + timeout_ms).
    { intros E. destruct (Hl1 E) as [h2 [E1 E2]]. rewrite Hi in E1; inversion E1; subst; exact E2. }
    pose proof (live_kept_sstep c ah x o i h HI Hi Hlive Ho) as [[h' [S1 _]] S2].
    pose proof (Inv_sstep c true ah x o HI) as HI'.
    pose proof (lister_sstep c true ah x o u Hu Hgo) as Hu'.
    destruct (IH _ h' HI' S1 Hl2 Hr Hu' Hgr) as [R1 R2].
    split; [exact R1|]. rewrite R2. apply S2. intros _; exact Hu.
Qed.

(* ------------------------------------------------------------------ refutations for the code before the repairs *)
Open Scope string_scope.
Definition cfg0 : cfg := mkCfg ["a"; "b"] 10.

(* label taken from the previous condition (lf = false): the timeout of a client with an empty
   identity removes the first-report condition of an instance whose heartbeat is 0 ms old *)
Lemma live_kept_refuted :
  let ops := [Heartbeat ""; Heartbeat "g1"; Report "a" "g1" 50; Advance 1500; Heartbeat "g1"; Advance 1800; Heartbeat "g1"] in
  let s := run_state cfg0 false false (init cfg0) ops in
  sget "g1" (hb s) = Some (now s) /\ cond_of "a" "g1" s = Some (50, "")
  /\ cond_of "a" "g1" (fst (step cfg0 false false s TickTimeout)) = None.
Proof. vm_compute. repeat split; reflexivity. Qed.

(* DoAcquire not recording the client (ah = false): what is counted for an instance outside the cache
   survives every later pass, and the survivor is refused the capacity *)
Lemma reclaimed_refuted :
  let ops := [Heartbeat "g1"; Acquire "a" "g1" 5; Advance 3500; TickTimeout; Acquire "a" "g1" 5;
              Advance 4000; TickTimeout; TickUnknown; Advance 40000; TickTimeout; TickUnknown; Heartbeat "g2"] in
  let s := run_state cfg0 true false (init cfg0) ops in
  sget "g1" (hb s) = None /\ count_of "a" "g1" s = Some 5
  /\ snd (step cfg0 true false s (Acquire "a" "g2" 6)) = RAcc false.
Proof. vm_compute. repeat split; reflexivity. Qed.

(* ------------------------------------------------------------------ upstream removal by the unknown-condition pass *)
(* an upstream that left the lister and has a condition (its state condition included) of an instance
   outside the cache is deleted as a whole: conditions, recorded sum, counted in-flight *)
Lemma orphan_removed c lf ah s u : orphan s u = true ->
  let s' := fst (step c lf ah s TickUnknown) in
  (forall i, cond_of u i s' = None) /\ sget u (sums s') = None /\ (forall i, count_of u i s' = None).
Proof.
  intros Ho. simpl. split; [|split].
  - intros i. unfold cond_of; simpl. apply (alookup_filter_none key_eqb key_eqb_spec).
    intros v _. simpl. rewrite Ho. simpl. apply Bool.andb_false_r.
  - pose proof (alookup_filter String.eqb String.eqb_eq (fun x => negb (orphan s x)) u (sums s) (V:=Z)) as HF.
    cbv beta in HF. rewrite HF, Ho. reflexivity.
  - intros i. unfold count_of; simpl. rewrite count_tu, Ho. reflexivity.
Qed.
