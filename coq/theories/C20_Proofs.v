(* C20 — proofs: for every kind registered by rest.go and every pair (stored, submitted) the model of
   rest.BeforeCreate / rest.BeforeUpdate + strategy meets the property. *)
From KG Require Import Prelude C20_Model C20_Spec C20_Check.
From Coq Require Import ZifyBool.
Open Scope Z_scope.
Arguments payload_eqb : simpl never.
Arguments kv_eqb : simpl never.
Arguments Z.add : simpl never.
Arguments Z.ltb : simpl never.

(* observable value of a member *)
Definition psem (p : payload) : Z * list Z := (ps p, sem (pc p)).

Lemma zz_eqb_iff a b : zz_eqb a b = true <-> a = b.
Proof.
  destruct a as [a1 a2], b as [b1 b2]; unfold zz_eqb; simpl.
  rewrite Bool.andb_true_iff, !Z.eqb_eq. split; [intros [-> ->]; reflexivity|intros E; inversion E; tauto].
Qed.

Lemma payload_sem_eqb_iff a b : payload_eqb Semantic a b = true <-> psem a = psem b.
Proof.
  unfold payload_eqb, psem, coll_eqb, coll_sem_eqb.
  rewrite Bool.andb_true_iff, Z.eqb_eq, (list_eqb_eq Z.eqb Z.eqb_eq).
  split; [intros [-> ->]; reflexivity|intros E; inversion E; tauto].
Qed.

Lemma kv_sem_eqb_iff (a b : coll (Z * Z)) : kv_eqb Semantic a b = true <-> sem a = sem b.
Proof. unfold kv_eqb, coll_eqb, coll_sem_eqb. apply (list_eqb_eq zz_eqb zz_eqb_iff). Qed.

Lemma payload_sem_refl p : payload_eqb Semantic p p = true.
Proof. apply payload_sem_eqb_iff; reflexivity. Qed.
Lemma kv_sem_refl (l : coll (Z * Z)) : kv_eqb Semantic l l = true.
Proof. apply kv_sem_eqb_iff; reflexivity. Qed.

Lemma wrap64_small g : 0 <= g < max_int64 -> wrap64 (g + 1) = g + 1.
Proof. unfold wrap64, max_int64, two64; intros Hg. rewrite Z.mod_small; lia. Qed.

Definition unchanged (old new : obj) : Prop :=
  psem (spec new) = psem (spec old) /\ sem (annotations new) = sem (annotations old).

Lemma unchanged_dec old new :
  (payload_eqb Semantic (spec new) (spec old) && kv_eqb Semantic (annotations new) (annotations old))%bool = true
  <-> unchanged old new.
Proof. unfold unchanged. rewrite Bool.andb_true_iff, payload_sem_eqb_iff, kv_sem_eqb_iff. tauto. Qed.

(* ---------- main resource ---------- *)
Lemma main_update_shape c old new :
  0 <= gen old < max_int64 ->
  exists r, before_update_main c old new = Stored r
    /\ spec r = spec new /\ annotations r = annotations new /\ labels r = labels new /\ meta_rest r = meta_rest new
    /\ status r = (if strat_sub c then status old else status new)
    /\ gen r = (if (payload_eqb Semantic (spec new) (spec old) && kv_eqb Semantic (annotations new) (annotations old))%bool
                then gen old else gen old + 1).
Proof.
  intros Hg. unfold before_update_main, before_update_main_mode, code_mode, prepare_update, validate_update.
  destruct (strat_sub c); simpl;
    destruct (payload_eqb Semantic (spec new) (spec old)); simpl;
    destruct (kv_eqb Semantic (annotations new) (annotations old)); simpl;
    rewrite ?wrap64_small by exact Hg;
    match goal with |- context [if ?b then Rejected else _] => replace b with false by lia end;
    eexists; split; try reflexivity; simpl; repeat split; reflexivity.
Qed.

Lemma generation_iff k old new :
  0 <= gen old < max_int64 ->
  exists r, before_update_main (cfg k) old new = Stored r
    /\ spec r = spec new /\ annotations r = annotations new
    /\ (gen r = gen old + 1 <-> ~ unchanged old new)
    /\ (unchanged old new -> gen r = gen old)
    /\ (gen r = gen old \/ gen r = gen old + 1).
Proof.
  intros Hg. destruct (main_update_shape (cfg k) old new Hg) as (r & Hr & Hs & Ha & _ & _ & _ & Hgen).
  exists r. split; [exact Hr|]. split; [exact Hs|]. split; [exact Ha|].
  pose proof (unchanged_dec old new) as Hd.
  destruct (payload_eqb Semantic (spec new) (spec old) && kv_eqb Semantic (annotations new) (annotations old))%bool.
  - assert (Hu : unchanged old new) by (apply Hd; reflexivity).
    repeat split; try lia; tauto.
  - assert (Hu : ~ unchanged old new) by (intros Hu; apply Hd in Hu; discriminate).
    repeat split; try lia; tauto.
Qed.

Lemma main_update_keeps_status k old new r :
  served_sub (cfg k) = true -> before_update_main (cfg k) old new = Stored r -> status r = status old.
Proof.
  destruct k; simpl; [|discriminate]. intros _.
  unfold before_update_main, before_update_main_mode, prepare_update, validate_update; simpl.
  destruct (negb _ || negb _)%bool; simpl;
    match goal with |- context [if ?b then Rejected else _] => destruct b end; intros E; inversion E; reflexivity.
Qed.

(* ---------- status subresource ---------- *)
Lemma status_update_keeps k old new :
  served_sub (cfg k) = true -> 0 <= gen old ->
  exists r, before_update_status (cfg k) old new = Stored r
    /\ spec r = spec old /\ labels r = labels old /\ gen r = gen old
    /\ status r = status new /\ annotations r = annotations new /\ meta_rest r = meta_rest new.
Proof.
  intros Hs Hg. unfold before_update_status, validate_update, prepare_update_status. rewrite Hs. simpl.
  replace ((gen old <? 0) || (gen old <? gen old))%bool with false by lia.
  eexists; split; [reflexivity|]; simpl; repeat split; reflexivity.
Qed.

Lemma status_only_when_served k old new : served_sub (cfg k) = false -> before_update_status (cfg k) old new = NoEndpoint.
Proof. intros Hs. unfold before_update_status. rewrite Hs. reflexivity. Qed.

(* ---------- create ---------- *)
Lemma create_shape k new :
  exists r, before_create (cfg k) new = Stored r
    /\ gen r = 1 /\ spec r = spec new /\ labels r = labels new /\ annotations r = annotations new
    /\ (served_sub (cfg k) = true -> status r = zero_payload).
Proof.
  unfold before_create, prepare_create. eexists; split; [reflexivity|].
  destruct k; simpl; repeat split; try reflexivity; discriminate.
Qed.

(* ---------- the executable specification holds of the model on every input ---------- *)
(* Canonicalize of the registered strategies is the identity: the stored object is the prepared one *)
Lemma then_canonicalize_id out : then_canonicalize out = out.
Proof. destruct out; reflexivity. Qed.

Lemma model_meets_spec k op old new :
  0 <= gen old < max_int64 ->
  clauses op (served_sub (cfg k)) old (model_out k op old new) = [true; true; true; true].
Proof.
  intros Hg. destruct op; unfold model_out, step_create, step_update_main, step_update_status; rewrite then_canonicalize_id.
  - destruct (create_shape k new) as (r & Hr & Hg1 & _ & _ & _ & Hst). rewrite Hr. simpl.
    rewrite Hg1. simpl. destruct (served_sub (cfg k)) eqn:Hs; [rewrite (Hst eq_refl)|]; reflexivity.
  - destruct (main_update_shape (cfg k) old new Hg) as (r & Hr & Hs & Ha & _ & _ & Hst & Hgen).
    rewrite Hr. simpl. unfold same_payload, same_kv. rewrite Hs, Ha, Hgen.
    assert (Hm : (if served_sub (cfg k) then payload_eqb Semantic (status r) (status old) else true) = true).
    { destruct k; simpl in *; [rewrite Hst; apply payload_sem_refl|reflexivity]. }
    rewrite Hm.
    destruct (payload_eqb Semantic (spec new) (spec old) && kv_eqb Semantic (annotations new) (annotations old))%bool;
      rewrite Z.eqb_refl; reflexivity.
  - destruct (served_sub (cfg k)) eqn:Hs.
    + destruct (status_update_keeps k old new Hs (proj1 Hg)) as (r & Hr & Hsp & Hl & Hgn & _).
      rewrite Hr. simpl. unfold same_payload, same_kv. rewrite Hsp, Hl, Hgn, payload_sem_refl, kv_sem_refl, Z.eqb_refl. reflexivity.
    + rewrite (status_only_when_served k old new Hs). reflexivity.
Qed.

(* ---------- the comparison of commit 1d76359 (reflect.DeepEqual on .Interface() values) ---------- *)
(* stored object read back from storage: no annotations, no servers; the client sends "annotations": {} *)
Definition wit_old : obj :=
  {| gen := 5; labels := CNil; annotations := CNil; meta_rest := CNil; spec := {| ps := 1; pc := CNil |}; status := zero_payload |}.
Definition wit_new : obj :=
  {| gen := 5; labels := CNil; annotations := CList []; meta_rest := CNil; spec := {| ps := 1; pc := CNil |}; status := zero_payload |}.

Lemma generation_refuted_for_representation_equality :
  exists k old new r,
    0 <= gen old < max_int64 /\ before_update_main_mode Representation (cfg k) old new = Stored r
    /\ unchanged old new /\ gen r = gen old + 1.
Proof.
  exists KUpstreamCluster, wit_old, wit_new.
  eexists. split; [vm_compute; split; [discriminate|reflexivity]|].
  split; [vm_compute; reflexivity|]. split; [split; reflexivity|]. reflexivity.
Qed.


(* ---------- the composed step: stored object before vs stored object after ---------- *)
Definition stored_unchanged (old r : obj) : Prop :=
  psem (spec r) = psem (spec old) /\ sem (annotations r) = sem (annotations old).

Lemma stored_generation_iff_stored_change k old new :
  0 <= gen old < max_int64 ->
  exists r, step_update_main (cfg k) old new = Stored r
    /\ (gen r = gen old + 1 <-> ~ stored_unchanged old r)
    /\ (stored_unchanged old r -> gen r = gen old)
    /\ (gen r = gen old \/ gen r = gen old + 1)
    /\ (served_sub (cfg k) = true -> status r = status old).
Proof.
  intros Hg. unfold step_update_main. rewrite then_canonicalize_id.
  destruct (generation_iff k old new Hg) as (r & Hr & Hs & Ha & Hiff & Hsame & Hor).
  exists r. split; [exact Hr|].
  assert (Heq : stored_unchanged old r <-> unchanged old new).
  { unfold stored_unchanged, unchanged. rewrite Hs, Ha. tauto. }
  split; [rewrite Heq; exact Hiff|]. split; [intros H; apply Hsame, Heq, H|]. split; [exact Hor|].
  intros Hsub. eapply main_update_keeps_status; eassumption.
Qed.

Lemma stored_status_update k old new :
  served_sub (cfg k) = true -> 0 <= gen old ->
  exists r, step_update_status (cfg k) old new = Stored r
    /\ spec r = spec old /\ labels r = labels old /\ gen r = gen old
    /\ status r = status new /\ annotations r = annotations new /\ meta_rest r = meta_rest new.
Proof. intros Hs Hg. unfold step_update_status. rewrite then_canonicalize_id. apply status_update_keeps; assumption. Qed.

Lemma stored_create k new :
  exists r, step_create (cfg k) new = Stored r
    /\ gen r = 1 /\ spec r = spec new /\ labels r = labels new /\ annotations r = annotations new
    /\ (served_sub (cfg k) = true -> status r = zero_payload).
Proof. unfold step_create. rewrite then_canonicalize_id. apply create_shape. Qed.
