(* C14 — specification as executable checkers over OBSERVATIONS: the sequence of endpoints returned
   by Pop() (and, for policies without an explicit subset, the upstream order each picker was handed).

   Property text: "While the set of ready endpoints of a policy is stable, over any N consecutive picks
   each of its k endpoints is chosen floor(N/k) or ceil(N/k) times when the policy lists its upstream
   subset explicitly (strict round-robin), and within a constant independent of N of N/k otherwise;
   this holds when picks are made concurrently.  No ready endpoint is starved and none is favoured." *)
From KG Require Import Prelude C14_Model.
Open Scope Z_scope.

Definition fc_ok (k w c : Z) : bool := (w / k <=? c) && (c <=? ceil_div w k).

Definition bump (eps cnts : list Z) (x : Z) : list Z :=
  map (fun p => if fst p =? x then snd p + 1 else snd p) (combine eps cnts).

(* every prefix of [l]: each ready endpoint has been chosen floor(w/k) or ceil(w/k) times *)
Fixpoint prefixes_ok (chk : Z -> Z -> bool) (eps cnts : list Z) (w : Z) (l : list Z) : bool :=
  match l with
  | [] => true
  | x :: r => let cnts' := bump eps cnts x in
              forallb (chk (w + 1)) cnts' && prefixes_ok chk eps cnts' (w + 1) r
  end.

(* windows = prefixes of suffixes; [n] = how many suffixes (starting at 0, 1, ...) are examined *)
Fixpoint suffixes_ok (n : nat) (chk : Z -> Z -> bool) (eps : list Z) (l : list Z) : bool :=
  match n with
  | O => true
  | S m => prefixes_ok chk eps (map (fun _ => 0) eps) 0 l &&
           match l with [] => true | _ :: r => suffixes_ok m chk eps r end
  end.

Definition window_starts (k : Z) (l : list Z) : nat :=
  if (Z.of_nat (List.length l) <=? 64) then List.length l else Z.to_nat (2 * k + 2).

(* strict round-robin over every window (all windows up to 64 picks; beyond that every window that
   starts at one of the first 2k+2 picks) *)
Definition strict_ok (eps : list Z) (l : list Z) : bool :=
  let k := Z.of_nat (List.length eps) in
  if k <=? 0 then true else suffixes_ok (window_starts k l) (fc_ok k) eps l.

(* within a constant independent of N: |k*count - w| <= P*(k-1), P = number of distinct orders used *)
Fixpoint distinct (l : list eplist) : list eplist :=
  match l with
  | [] => []
  | x :: r => if existsb (eplist_eqb x) r then distinct r else x :: distinct r
  end.
Definition near_ok (k P w c : Z) : bool := (k * c - w <=? P * (k - 1)) && (w - k * c <=? P * (k - 1)).
Definition unordered_ok (eps : list Z) (orders : list eplist) (l : list Z) : bool :=
  let k := Z.of_nat (List.length eps) in
  let P := Z.of_nat (List.length (distinct orders)) in
  if k <=? 0 then true else suffixes_ok (window_starts k l) (near_ok k P) eps l.

(* crossing 2^64 changes any count by at most 1 *)
Definition wrap_chk (k w c : Z) : bool := (w / k - 1 <=? c) && (c <=? ceil_div w k + 1).
Definition wrap_ok (eps : list Z) (l : list Z) : bool :=
  let k := Z.of_nat (List.length eps) in
  if k <=? 0 then true else suffixes_ok (window_starts k l) (wrap_chk k) eps l.

(* only ready endpoints are ever returned, and with at least one ready endpoint Pop never fails *)
Definition only_ready_ok (eps : list Z) (l : list Z) : bool :=
  match eps with
  | [] => forallb (fun x => x =? -1) l
  | _ => forallb (fun x => zin x eps) l
  end.

(* concurrent pickers: the global order of picks is read off the trace of goroutine ids *)
Fixpoint take_nth (g : nat) (q : list (list Z)) : option (Z * list (list Z)) :=
  match q, g with
  | [], _ => None
  | [] :: _, O => None
  | (x :: r) :: t, O => Some (x, r :: t)
  | h :: t, S g' => match take_nth g' t with Some (x, t') => Some (x, h :: t') | None => None end
  end.
Fixpoint global_seq (tr : list Z) (q : list (list Z)) : list Z :=
  match tr with
  | [] => []
  | g :: r => match take_nth (Z.to_nat g) q with
              | Some (x, q') => x :: global_seq r q'
              | None => -1 :: global_seq r q
              end
  end.
