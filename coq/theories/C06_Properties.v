(* C06 — property theorems (statements only; proofs live in C06_Proofs.v).

   Vocabulary: [trace c init_st calls] is the list of events (clock reading in ns, tokens asked,
   granted?) produced by a NEW bucket of configuration c = (qps, burst) on the calls
   (reading, n); NS = 10^9, cap c = burst * NS, so "burst + qps*T" reads cap c + qps c * T[ns]
   against NS * (tokens granted).  A window is any w with  trace = l1 ++ w ++ l2. *)
From KG Require Import Prelude C06_Model C06_Spec C06_Check C06_Proofs.
Open Scope Z_scope.

(* windows (t_i, t_j]: after call e (at t_i), the requests admitted up to t_j are at most
   burst + qps*(t_j - t_i), for every arrival pattern with non-decreasing clock readings *)
Theorem C06_upper : forall c calls l1 e w l2,
  cfg_ok c -> 1 <= burst c -> qps c <= NS -> all_one calls ->
  sorted_from zero_time (trace c init_st calls) = true ->
  trace c init_st calls = l1 ++ e :: w ++ l2 -> w <> [] ->
  NS * gsum w <= cap c + qps c * (end_time (etime e) w - etime e).
Proof. exact upper_open. Qed.
Print Assumptions C06_upper.

(* closed windows [t_i, t_j] (first and last call included), any amounts n >= 0 (AllowN):
   strictly less than burst + qps*(t_j - t_i + 1ns) *)
Theorem C06_upper_closed : forall c calls l1 w l2,
  cfg_ok c -> nonneg_calls calls ->
  trace c init_st calls = l1 ++ w ++ l2 -> w <> [] -> sorted_from (first_time w) (tl w) = true ->
  NS * gsum w < cap c + qps c * (end_time (first_time w) (tl w) - first_time w + 1).
Proof.
  intros c calls l1 w l2 Hc Hn E Hw Hs.
  pose proof (upper_closed_any c init_st calls l1 w l2 Hc (init_inv c Hc) Hn E Hw) as H.
  rewrite (fwd_sorted _ _ Hs) in H. exact H.
Qed.
Print Assumptions C06_upper_closed.

(* ANY clock readings (callers read the clock before taking the limiter's lock, so the readings
   seen under the lock may step back): the bound holds with the extra term qps * (sum of the
   backward steps inside the window) *)
Theorem C06_upper_skew : forall c calls l1 w l2,
  cfg_ok c -> nonneg_calls calls ->
  trace c init_st calls = l1 ++ w ++ l2 -> w <> [] ->
  NS * gsum w < cap c + qps c * ((end_time (first_time w) (tl w) - first_time w)
                                 + back (first_time w) (tl w) + 1).
Proof.
  intros c calls l1 w l2 Hc Hn E Hw.
  pose proof (upper_closed_any c init_st calls l1 w l2 Hc (init_inv c Hc) Hn E Hw) as H.
  rewrite fwd_span_back in H. exact H.
Qed.
Print Assumptions C06_upper_skew.

(* any number of concurrent callers, repaired code (the clock is read while the bucket's lock is held):
   in order of decision the readings never step back and the reading of a call lies between its
   invocation and its completion (call_of).  Then for every interval [a, b] the requests admitted
   entirely inside it number at most burst + qps*(b - a + 1ns) — for every schedule *)
Theorem C06_upper_concurrent : forall c calls l a b,
  cfg_ok c -> all_one calls ->
  (match trace c init_st calls with [] => true | e :: r => sorted_from (etime e) r end) = true ->
  Forall2 call_of (trace c init_st calls) l -> a <= b ->
  NS * conc_count a b l <= cap c + qps c * (b - a + 1).
Proof. exact upper_concurrent. Qed.
Print Assumptions C06_upper_concurrent.

Theorem C06_spec_conc : forall c calls l,
  cfg_ok c -> all_one calls ->
  (match trace c init_st calls with [] => true | e :: r => sorted_from (etime e) r end) = true ->
  Forall2 call_of (trace c init_st calls) l -> conc_ok c l = true.
Proof. exact spec_conc. Qed.
Print Assumptions C06_spec_conc.

(* the UNREPAIRED code (clock read before the limiter's lock) breaks exactly this: readings
   0,100,50,150,100,200,150,250 ms applied in that order under (qps 10, burst 1) admit 5 requests
   whose calls lie inside [0, 250 ms], against 1 + 10*0.25 = 3.5 *)
Theorem C06_stale_clock_refuted :
  let c := {| qps := 10; burst := 1 |} in
  let ms := 1000000 in
  let calls := [(0, 1); (100 * ms, 1); (50 * ms, 1); (150 * ms, 1); (100 * ms, 1); (200 * ms, 1); (150 * ms, 1); (250 * ms, 1)] in
  cfg_ok c /\ gsum (trace c init_st calls) = 5 /\
  NS * 5 > cap c + qps c * (250 * ms - 0 + 1).
Proof. split; [unfold cfg_ok, cap, max_dur, NS; simpl; lia|]. split; vm_compute; reflexivity. Qed.
Print Assumptions C06_stale_clock_refuted.

(* without the 1 ns the closed-window bound is false (by 1e-9 token): qps 3, burst 1,
   requests at 0 and 333333333 ns are both admitted, 2 > 1 + 3 * 0.333333333 *)
Theorem C06_upper_closed_strict_refuted :
  exists c calls, cfg_ok c /\ all_one calls /\ sorted_from 0 (trace c init_st calls) = true /\
    NS * gsum (trace c init_st calls)
    > cap c + qps c * (end_time 0 (trace c init_st calls) - first_time (trace c init_st calls)).
Proof. exact closed_strict_refuted. Qed.
Print Assumptions C06_upper_closed_strict_refuted.

(* never stricter: t ns after the last call (at reading cl) the bucket holds more than
   min(burst, qps*t) - qps*1ns tokens *)
Theorem C06_lower_tokens : forall c pre cl n t,
  cfg_ok c -> nonneg_calls pre -> 0 <= n -> 0 <= t ->
  Z.min (cap c) (qps c * t) - qps c + 1
  <= snd (advance c (run_state c init_st (pre ++ [(cl, n)])) (cl + t)).
Proof. exact lower_tokens_after_idle. Qed.
Print Assumptions C06_lower_tokens.

(* ... hence the next min(burst, floor(qps*t)) requests are all admitted, however they are spaced *)
Theorem C06_lower : forall c pre cl n t post,
  cfg_ok c -> nonneg_calls pre -> 0 <= n -> 0 <= t -> all_one post ->
  sorted_from (cl + t) (trace c (run_state c init_st (pre ++ [(cl, n)])) post) = true ->
  Z.of_nat (List.length post) <= Z.min (burst c) (qps c * t / NS) ->
  all_granted (trace c (run_state c init_st (pre ++ [(cl, n)])) post).
Proof. exact lower_after_idle. Qed.
Print Assumptions C06_lower.

(* a NEW bucket (creation or effective Resize) admits [burst] requests at once *)
Theorem C06_fresh : forall c calls,
  cfg_ok c -> all_one calls ->
  (forall t n r, calls = (t, n) :: r -> 0 <= t /\ sorted_from t (trace c init_st calls) = true) ->
  Z.of_nat (List.length calls) <= burst c ->
  all_granted (trace c init_st calls).
Proof. exact lower_fresh. Qed.
Print Assumptions C06_fresh.

(* what is not admitted is answered 429 (dispatcher), what is admitted is forwarded *)
Theorem C06_rejects_rest : forall c s now up,
  dispatch_status (snd (allow_n c s now 1)) up = if snd (allow_n c s now 1) then up else 429.
Proof. exact rejects_rest. Qed.
Print Assumptions C06_rejects_rest.

(* every history of TryAcquire / Resize calls: Resize with the values in force changes nothing,
   any other Resize installs a new full bucket, and every stretch between two effective
   reconfigurations satisfies the three clauses of C06_Spec *)
Theorem C06_resize : forall q b ops,
  cfg_std {| qps := q; burst := b |} -> Forall (op_ok cfg_std) ops ->
  let segs := segments {| qps := q; burst := b |} [] (model_tr (rtb_new q b) ops) in
  all_segments closed_ok segs = true /\ all_segments open_ok segs = true /\ all_segments lower_ok segs = true.
Proof. exact history_ok. Qed.
Print Assumptions C06_resize.

(* the per-cluster limiter map (upstreamLimiter): whatever happens to the sibling schemas, the requests for
   schema [name] are decided exactly as by its own bucket, for which a re-sync of the spec is a Resize to the
   values the new spec gives it (a no-op when they are unchanged) *)
Theorem C06_sync_by_name : forall name ops u r, holds u name r ->
  Forall (fun o => match o with USync spec => sync_ok name spec | UTry _ => True end) ops ->
  urun u name ops = rtb_tries r (map (proj_op name) ops).
Proof. exact sync_by_name. Qed.
Print Assumptions C06_sync_by_name.

(* ... hence the window bounds and the lower bound run ACROSS re-syncs that change, add or remove only
   siblings: stretches end only at effective reconfigurations of the schema itself *)
Theorem C06_sync_windows : forall name spec0 q b ops,
  NoDup (map fst spec0) -> alookup name spec0 = Some (STb q b) ->
  cfg_std {| qps := q; burst := b |} -> Forall (usync_std name) ops ->
  let pops := map (proj_op name) ops in
  let tr := model_tr (rtb_new q b) pops in
  urun (usync ulim_new spec0) name ops = try_decisions tr /\
  let segs := segments {| qps := q; burst := b |} [] tr in
  all_segments closed_ok segs = true /\ all_segments open_ok segs = true /\ all_segments lower_ok segs = true.
Proof. exact sync_windows. Qed.
Print Assumptions C06_sync_windows.

(* reconfiguration quantified over the PREVIOUS TYPE of the schema: for every state of the limiter map in
   which [name] is not a token bucket (absent -> exempt default, or a limiter of another type in any state),
   a Sync that makes it tokenBucket(q, b) installs a NEW full bucket: from then on its requests obey all
   window bounds and the lower bound (also across later sibling-only re-syncs) *)
Theorem C06_type_change_installs_bucket : forall name u spec q b ops,
  not_bucket u name -> NoDup (map fst spec) -> alookup name spec = Some (STb q b) ->
  cfg_std {| qps := q; burst := b |} -> Forall (usync_std name) ops ->
  let tr := model_tr (rtb_new q b) (map (proj_op name) ops) in
  urun (usync u spec) name ops = try_decisions tr /\
  let segs := segments {| qps := q; burst := b |} [] tr in
  all_segments closed_ok segs = true /\ all_segments open_ok segs = true /\ all_segments lower_ok segs = true.
Proof. exact type_change_installs_bucket. Qed.
Print Assumptions C06_type_change_installs_bucket.

(* ... and that hypothesis holds after every effective Sync that gives [name] another type, whatever it was
   before (in particular a token bucket in any state), and for a new map *)
Theorem C06_other_type_not_bucket : forall u name spec k, NoDup (map fst spec) ->
  spec_eqb (uspec u) spec = false -> alookup name spec = Some (SOther k) -> not_bucket (usync u spec) name.
Proof. exact sync_to_other_not_bucket. Qed.
Print Assumptions C06_other_type_not_bucket.

(* request level (dispatcher): every request a policy routes to the schema takes one token whatever its kind
   (get, list, create, ..., and what the server calls long running: watch, pods/log, pods/exec, proxy); the
   history is decided like the TryAcquire trace with the same clock readings, satisfies the window bounds and
   the lower bound counted over ALL kinds, and what is not admitted is answered 429 *)
Theorem C06_request_kind_irrelevant : forall q b reqs, cfg_std {| qps := q; burst := b |} ->
  Forall (fun p : rkind * Z => 0 <= snd p) reqs ->
  let ops := map (fun p : rkind * Z => OTry (snd p)) reqs in
  map fst (req_run (rtb_new q b) reqs) = try_decisions (model_tr (rtb_new q b) ops) /\
  Forall (fun a : bool * Z => snd a = if fst a then 200 else 429) (req_run (rtb_new q b) reqs) /\
  let segs := segments {| qps := q; burst := b |} [] (model_tr (rtb_new q b) ops) in
  all_segments closed_ok segs = true /\ all_segments open_ok segs = true /\ all_segments lower_ok segs = true.
Proof. exact request_kind_irrelevant. Qed.
Print Assumptions C06_request_kind_irrelevant.

(* the model satisfies the executable specification that the check evaluates on the real decisions *)
Theorem C06_spec_closed : forall c calls, cfg_ok c -> nonneg_calls calls ->
  closed_ok c (trace c init_st calls) = true.
Proof. exact spec_closed. Qed.
Print Assumptions C06_spec_closed.

Theorem C06_spec_open : forall c calls, cfg_ok c -> 1 <= burst c -> qps c <= NS ->
  Forall (fun p => 0 <= fst p) calls -> open_ok c (trace c init_st calls) = true.
Proof. exact spec_open. Qed.
Print Assumptions C06_spec_open.

Theorem C06_spec_lower : forall c calls, cfg_ok c -> Forall (fun p => 0 <= fst p) calls ->
  lower_ok c (trace c init_st calls) = true.
Proof. exact spec_lower. Qed.
Print Assumptions C06_spec_lower.

(* the O(n^2) checkers mean what the property says: all windows *)
Theorem C06_closed_ok_iff : forall c l,
  closed_ok c l = true <->
  (forall l1 w l2, l = l1 ++ w ++ l2 -> w <> [] ->
     NS * gsum w <= cap c + qps c * (fwd (first_time w) (tl w) + 1)).
Proof. exact closed_ok_iff. Qed.
Print Assumptions C06_closed_ok_iff.

Theorem C06_open_all_iff : forall c l,
  open_all c l = true <->
  (forall l1 e w l2, l = l1 ++ e :: w ++ l2 -> w <> [] ->
     NS * gsum w <= cap c + qps c * (end_time (etime e) w - etime e)).
Proof. exact open_all_iff. Qed.
Print Assumptions C06_open_all_iff.

(* ---------- non-vacuity ---------- *)
Definition ex_c := {| qps := 10; burst := 3 |}.
Definition ex_calls : list (Z * Z) :=
  [(0, 1); (0, 1); (0, 1); (0, 1); (100000000, 1); (100000001, 1); (300000000, 1); (300000000, 1); (300000000, 1)].

Example C06_upper_nonvacuous :
  cfg_ok ex_c /\ 1 <= burst ex_c /\ qps ex_c <= NS /\ all_one ex_calls /\
  sorted_from zero_time (trace ex_c init_st ex_calls) = true /\
  map eok (trace ex_c init_st ex_calls) = [true; true; true; false; true; false; true; true; false].
Proof.
  split; [unfold cfg_ok, cap, max_dur, NS; simpl; lia|]. split; [simpl; lia|]. split; [unfold NS; simpl; lia|].
  split; [repeat constructor|]. split; vm_compute; reflexivity.
Qed.

(* idle 0.25 s under (10, 3) after draining: floor(10*0.25) = 2 requests are owed and granted, the third is not *)
Example C06_lower_nonvacuous :
  let pre := [(0, 1); (0, 1)] in
  let post := [(250000000, 1); (250000000, 1)] in
  Z.of_nat (List.length post) <= Z.min (burst ex_c) (qps ex_c * 250000000 / NS) /\
  sorted_from (0 + 250000000) (trace ex_c (run_state ex_c init_st (pre ++ [(0, 1)])) post) = true /\
  map eok (trace ex_c (run_state ex_c init_st (pre ++ [(0, 1)])) (post ++ [(250000000, 1)])) = [true; true; false].
Proof. vm_compute. repeat split; try reflexivity. intros H; discriminate H. Qed.

(* two overlapping calls: caller 1 is invoked at 0 and completes at 5, caller 2 runs inside it *)
Example C06_concurrent_nonvacuous :
  let calls := [(2, 1); (3, 1); (3, 1); (3, 1); (4, 1)] in
  let l := [ {| cinv := 0; cresp := 5; cadm := true |}; {| cinv := 3; cresp := 3; cadm := true |};
             {| cinv := 1; cresp := 6; cadm := true |}; {| cinv := 3; cresp := 4; cadm := false |};
             {| cinv := 4; cresp := 4; cadm := false |} ] in
  (match trace ex_c init_st calls with [] => true | e :: r => sorted_from (etime e) r end) = true /\
  Forall2 call_of (trace ex_c init_st calls) l /\ conc_count 0 6 l = 3.
Proof.
  split; [vm_compute; reflexivity|]. split; [|vm_compute; reflexivity].
  repeat constructor; simpl; lia.
Qed.

Open Scope string_scope.
(* (qps 1, burst 3) with two siblings: a sibling is changed, one is added, one removed — the bucket keeps
   refusing (one stretch of 10 events); only the change of "tb" itself gives a new bucket *)
Example C06_sync_nonvacuous :
  let spec0 := [("mi", SOther 5); ("tb", STb 1 3); ("tb2", STb 100 50)] in
  let ops := [UTry 0; UTry 0; UTry 0; UTry 0;
              USync [("mi", SOther 6); ("tb", STb 1 3); ("tb2", STb 100 50)]; UTry 1; UTry 1;
              USync [("new", SOther 1); ("mi", SOther 6); ("tb", STb 1 3); ("tb2", STb 100 50)]; UTry 2; UTry 2;
              USync [("tb", STb 1 3); ("new", SOther 1)]; UTry 3; UTry 3;
              USync [("tb", STb 1 2); ("new", SOther 1)]; UTry 4; UTry 4; UTry 4] in
  Forall (usync_std "tb") ops /\
  urun (usync ulim_new spec0) "tb" ops
  = [true; true; true; false; false; false; false; false; false; false; true; true; false] /\
  map (fun p => List.length (snd p))
      (segments {| qps := 1; burst := 3 |} [] (model_tr (rtb_new 1 3) (map (proj_op "tb") ops))) = [10%nat; 3%nat].
Proof.
  split; [|split; vm_compute; reflexivity].
  repeat (apply Forall_cons; [first [ (simpl; lia) |
    (split; [repeat (constructor; [simpl; intuition discriminate|]); constructor |
             eexists; eexists; split; [reflexivity|unfold cfg_std, cfg_ok, cap, max_dur, NS; simpl; lia]]) ]|]).
  constructor.
Qed.
Close Scope string_scope.

(* (qps 1, burst 3): list, watch, pods/log, pods/exec, get at one instant: the first three are admitted,
   the rest get 429 — the watch and the log request take tokens like any other *)
Example C06_request_nonvacuous :
  req_run (rtb_new 1 3) [(KList, 0); (KWatch, 0); (KLog, 0); (KExec, 0); (KGet, 0); (KWatch, 1000000000)]
  = [(true, 200); (true, 200); (true, 200); (false, 429); (false, 429); (true, 200)]
  /\ cfg_std {| qps := 1; burst := 3 |}.
Proof. split; [vm_compute; reflexivity|unfold cfg_std, cfg_ok, cap, max_dur, NS; simpl; lia]. Qed.

Open Scope string_scope.
(* "tb" starts as max-in-flight(2): everything is admitted; changed in place to tokenBucket(1, 4): exactly 4 of
   the next 7 requests are admitted; to max-in-flight and back: a new full bucket again *)
Example C06_type_change_nonvacuous :
  let u := usync ulim_new [("tb", SOther 2); ("mi1", SOther 5)] in
  not_bucket u "tb" /\
  urun u "tb" [UTry 0; UTry 0; UTry 0;
               USync [("tb", STb 1 4); ("mi1", SOther 5)]; UTry 1; UTry 1; UTry 1; UTry 1; UTry 1; UTry 1; UTry 1;
               USync [("tb", SOther 3); ("mi1", SOther 5)]; UTry 2; UTry 2;
               USync [("tb", STb 1 4); ("mi1", SOther 5)]; UTry 3; UTry 3; UTry 3; UTry 3; UTry 3]
  = [true; true; true;  true; true; true; true; false; false; false;  true; true;  true; true; true; true; false].
Proof.
  split; [|vm_compute; reflexivity].
  apply (sync_to_other_not_bucket ulim_new "tb" _ 2); [|reflexivity|reflexivity].
  repeat (constructor; [simpl; intuition discriminate|]); constructor.
Qed.
Close Scope string_scope.

Example C06_resize_nonvacuous :
  let ops := [OTry 0; OTry 0; OResize 10 1; OTry 1; OResize 5 2; OTry 2; OTry 2; OTry 2] in
  rtb_run (rtb_new 10 1) ops = [true; false; false; false; true; true; true; false]
  /\ List.length (segments {| qps := 10; burst := 1 |} [] (model_tr (rtb_new 10 1) ops)) = 2%nat.
Proof. vm_compute. split; reflexivity. Qed.
