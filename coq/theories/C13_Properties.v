(* C13 — property theorems (statements only; proofs live in C13_Proofs.v). *)
From KG Require Import Prelude C13_Model C13_Spec C13_Proofs.
Open Scope Z_scope.

(* every name maps to exactly one shard in [0, N), for every N >= 1 that fits the uint32 conversion *)
Theorem C13_range : forall name n, 1 <= n < two32 ->
  exists z, shard_id name n = Some z /\ 0 <= z < n.
Proof. exact shard_id_range. Qed.
Print Assumptions C13_range.

(* with a single shard every upstream, whatever bytes its name holds, is shard 0 *)
Theorem C13_single_shard : forall name, shard_id name 1 = Some 0.
Proof. exact single_shard. Qed.
Print Assumptions C13_single_shard.

(* gateway side (clientSets.ShardIDFor) and server side (util.GetShardID) compute the same shard *)
Theorem C13_both_sides : forall name n, n <> 0 -> gw_shard_id name n = shard_id name n.
Proof. exact both_sides. Qed.
Print Assumptions C13_both_sides.

(* a call for an upstream whose shard this server does not lead is refused and changes no store *)
Theorem C13_guard : forall s o u,
  op_upstream o = Some u -> is_leader s (shard_of s u) = false ->
  stores (fst (step s o)) = stores s /\ refusal o (snd (step s o)) = true.
Proof. exact guard. Qed.
Print Assumptions C13_guard.

(* an allocate (status update) or acquire call is answered OK only by the leader of the upstream's shard *)
Theorem C13_serve_only_leader : forall s o u i,
  (o = OUpdate u i \/ o = OAcquire u i) -> snd (step s o) = ROk -> is_leader s (shard_of s u) = true.
Proof. exact serve_only_leader. Qed.
Print Assumptions C13_serve_only_leader.

(* over every history of leadership changes and calls, all five spec clauses hold at every step:
   guard, serve-only-as-leader, refusal names the leader, store dropped on loss of leadership,
   state of an upstream lives only in its own shard *)
Theorem C13_history : forall id n ops, 1 <= n < two32 -> id <> EmptyString ->
  hist_ok n [] (model_hist (init id n) ops) = [true; true; true; true; true].
Proof. exact history_ok. Qed.
Print Assumptions C13_history.

(* the racing leaderCheck leaves a store behind that nobody leads; the next leaderCheck discards it
   (this is what C13_history's drop clause demands of every ordinary leaderCheck) *)
Example C13_race_healed :
  let ops := [OStartLeading 0; OClusterSet "a"; OLeaderCheckRace 0] in
  map fst (stores (run_state (init "me" 1) ops)) = [0]
  /\ leaders (run_state (init "me" 1) ops) = []
  /\ stores (run_state (init "me" 1) (ops ++ [OLeaderCheck])) = [].
Proof. vm_compute. repeat split; reflexivity. Qed.

(* non-vacuity: a concrete history in which leadership is gained, used, lost and a call is refused *)
Example C13_history_nonvacuous :
  let ops := [OStartLeading 0; OStartLeading 1; OClusterSet "a"; OUpdate "a" "gw1";
              ONewLeader 0 "other"; OUpdate "a" "gw2"; OLeaderCheck] in
  map fst (run (init "me" 2) ops) = [RNil; RNil; RNil; ROk; RNil; RNotLeader; RNil]
  /\ stores (run_state (init "me" 2) ops) = [(1, [])].
Proof. vm_compute. split; reflexivity. Qed.

(* gateway side: after any history of server-info answers (any shard counts, any subset of the
   shards listed, in any order, repeated or failing syncs), every ClientFor call addresses the
   leader named for the upstream's shard fnv32a(name) mod N by the latest announcement that lists
   that shard, N being the shard count of the latest announcement; when no announcement ever
   listed the shard, or none was received, nobody is addressed *)
Theorem C13_gateway_follows_announcement : forall ops, Forall ann_ok ops ->
  gw_hist_ok 0 [] (gw_model_hist gw_init ops) = true.
Proof. exact gw_follows. Qed.
Print Assumptions C13_gateway_follows_announcement.

Local Open Scope string_scope.
(* non-vacuity: shard 1 not announced at first (a gap), then announced; the shard count changes *)
Example C13_gateway_nonvacuous :
  let ops := [GClientFor "a"; GSync 3 [(0, "s0"); (2, "s2")]; GClientFor "a"; GClientFor "c"; GClientFor "kube-2";
              GSyncFail; GSync 3 [(1, "s1"); (0, "s9")]; GClientFor "a"; GClientFor "c"; GClientFor "kube-2";
              GSync 2 [(1, "t1")]; GClientFor "a"; GClientFor "kube-2"] in
  Forall ann_ok ops /\
  map (fun u => (shard_id u 3, shard_id u 2)) ["a"; "c"; "kube-2"] = [(Some 1, Some 0); (Some 2, Some 0); (Some 0, Some 1)] /\
  gw_run gw_init ops = [GErr; GNil; GErr; GTo "s2"; GTo "s0"; GNil; GNil; GTo "s1"; GTo "s2"; GTo "s9";
                        GNil; GTo "s9"; GTo "t1"].
Proof. split; [repeat constructor; discriminate|]. vm_compute. split; reflexivity. Qed.
