(* C02 — implementation model: what the gateway does to the header set of a
   request between the Go HTTP server and the upstream's HTTP server.

   Mirrors, branch by branch (file references are to /repo):
     k8s.io/apiserver (kubewharf fork) endpoints/filters/authentication.go  WithAuthentication
     pkg/gateway/endpoints/filters/impersonation.go   buildImpersonationRequests,
                                                      WithNoLoggingImpersonation, clearImpersonationHeaders
     pkg/util/reverseproxy/reverseproxy.go            Director, removeConnectionHeaders, hopHeaders, X-Forwarded-For
     k8s.io/client-go transport/round_trippers.go     userAgentRoundTripper, bearerAuthRoundTripper
     pkg/transport/dynamic_impersonate.go             WrapRequest, headerKeyEscape
   and, as a *model of net/http* (validated by the correspondence run only):
     textproto.CanonicalMIMEHeaderKey, httpguts.ValidHeaderFieldValue, the
     trimming of field values on the wire, url.PathUnescape.

   A header set is an association list  canonical key -> values; a key may occur in
   several entries, its values are the concatenation in list order (so Header.Add
   is an append).  Go maps have no key order: all comparisons go through [norm]. *)
From KG Require Import Prelude.
Open Scope Z_scope.
Open Scope string_scope.
Open Scope list_scope.
Infix "+++" := String.append (right associativity, at level 60).

(* ------------------------------------------------------------------ bytes *)
Definition nb (a : ascii) : N := N_of_ascii a.
Definition in_range (a : ascii) (lo hi : N) : bool := (N.leb lo (nb a) && N.leb (nb a) hi)%bool.
Definition is_upper (a : ascii) : bool := in_range a 65 90.
Definition is_lower (a : ascii) : bool := in_range a 97 122.
Definition is_digit (a : ascii) : bool := in_range a 48 57.
Definition is_alnum (a : ascii) : bool := (is_upper a || is_lower a || is_digit a)%bool.
Definition upper_ascii (a : ascii) : ascii := if is_lower a then ascii_of_N (nb a - 32)%N else a.
Definition is_ows (a : ascii) : bool := (Ascii.eqb a " " || N.eqb (nb a) 9)%bool.

Fixpoint char_in (a : ascii) (s : string) : bool :=
  match s with
  | EmptyString => false
  | String b r => if Ascii.eqb a b then true else char_in a r
  end.

(* net/http isTokenTable = textproto.validHeaderFieldByte = legalHeaderKeyBytes of dynamic_impersonate.go *)
Definition is_token_byte (a : ascii) : bool := (is_alnum a || char_in a "!#$%&'*+-.^_`|~")%bool.

(* bytewise lexicographic order (Go's sort.Strings) *)
Fixpoint str_leb (a b : string) : bool :=
  match a, b with
  | EmptyString, _ => true
  | String _ _, EmptyString => false
  | String x a', String y b' =>
      if N.ltb (nb x) (nb y) then true
      else if N.ltb (nb y) (nb x) then false else str_leb a' b'
  end.

Fixpoint str_drop (n : nat) (s : string) : string :=
  match n, s with
  | O, _ => s
  | S n', String _ r => str_drop n' r
  | S _, EmptyString => EmptyString
  end.

Fixpoint drop_ows (s : string) : string :=
  match s with
  | String a r => if is_ows a then drop_ows r else s
  | EmptyString => EmptyString
  end.
(* textproto.TrimString / httpguts.trimOWS on values that carry no CR/LF *)
Definition trim_ows (s : string) : string := str_rev (drop_ows (str_rev (drop_ows s))).

(* strings.Split(s, c) for a one-byte separator *)
Fixpoint split_on (c : ascii) (s : string) : list string :=
  match s with
  | EmptyString => [EmptyString]
  | String a r =>
      if Ascii.eqb a c then EmptyString :: split_on c r
      else match split_on c r with
           | x :: t => String a x :: t
           | [] => [String a EmptyString]
           end
  end.

Fixpoint join (sep : string) (l : list string) : string :=
  match l with
  | [] => EmptyString
  | [x] => x
  | x :: r => x +++ sep +++ join sep r
  end.

(* ------------------------------------------------------------------ percent codec *)
Definition hex_digit (n : N) : ascii := ascii_of_N (if N.ltb n 10 then 48 + n else 55 + n)%N.
Definition hex_hi (a : ascii) : ascii := hex_digit (N.div (nb a) 16).
Definition hex_lo (a : ascii) : ascii := hex_digit (N.modulo (nb a) 16).
Definition unhex (a : ascii) : option N :=
  if is_digit a then Some (nb a - 48)%N
  else if in_range a 97 102 then Some (nb a - 87)%N
  else if in_range a 65 70 then Some (nb a - 55)%N
  else None.

(* url.escape: [should] is the shouldEscape table of the mode, [plus] = query mode (space <-> '+') *)
Fixpoint escape (should : ascii -> bool) (plus : bool) (s : string) : string :=
  match s with
  | EmptyString => EmptyString
  | String c r =>
      if (plus && Ascii.eqb c " ")%bool then String "+" (escape should plus r)
      else if should c then String "%" (String (hex_hi c) (String (hex_lo c) (escape should plus r)))
      else String c (escape should plus r)
  end.

(* url.unescape: None = EscapeError (a '%' not followed by two hex digits) *)
Fixpoint unescape (plus : bool) (s : string) : option string :=
  match s with
  | EmptyString => Some EmptyString
  | String c r =>
      if Ascii.eqb c "%" then
        match r with
        | String a (String b r') =>
            match unhex a, unhex b, unescape plus r' with
            | Some x, Some y, Some t => Some (String (ascii_of_N (16 * x + y)%N) t)
            | _, _, _ => None
            end
        | _ => None
        end
      else
        match unescape plus r with
        | Some t => Some (String (if (plus && Ascii.eqb c "+")%bool then " "%char else c) t)
        | None => None
        end
  end.

(* dynamic_impersonate.go: shouldEscape / headerKeyEscape *)
Definition hk_should_escape (a : ascii) : bool := (negb (is_token_byte a) || Ascii.eqb a "%")%bool.
Definition header_key_escape (k : string) : string := escape hk_should_escape false k.

(* impersonation.go unescapeExtraKey: PathUnescape, the encoded key itself when malformed *)
Definition unescape_extra_key (e : string) : string :=
  match unescape false e with Some k => k | None => e end.

(* ------------------------------------------------------------------ header keys *)
Fixpoint canon_loop (upper : bool) (s : string) : string :=
  match s with
  | EmptyString => EmptyString
  | String c r =>
      let c' := if (upper && is_lower c)%bool then upper_ascii c
                else if (negb upper && is_upper c)%bool then lower_ascii c else c in
      String c' (canon_loop (Ascii.eqb c' "-") r)
  end.
Fixpoint all_token (s : string) : bool :=
  match s with
  | EmptyString => true
  | String c r => (is_token_byte c && all_token r)%bool
  end.
(* textproto.CanonicalMIMEHeaderKey: keys with a non-token byte are left alone *)
Definition canonical_key (s : string) : string := if all_token s then canon_loop true s else s.

(* ------------------------------------------------------------------ header sets *)
Definition headers := list (string * list string).

Definition h_values (k : string) (h : headers) : list string :=
  flat_map (fun e => if String.eqb (fst e) k then snd e else []) h.
Definition h_has (k : string) (h : headers) : bool := existsb (fun e => String.eqb (fst e) k) h.
(* Header.Get: first value or "" *)
Definition h_get (k : string) (h : headers) : string :=
  match h_values k h with v :: _ => v | [] => EmptyString end.
Definition h_del (k : string) (h : headers) : headers := filter (fun e => negb (String.eqb (fst e) k)) h.
Definition h_set (k v : string) (h : headers) : headers := h_del k h ++ [(k, [v])].
Definition h_add (k v : string) (h : headers) : headers := h ++ [(k, [v])].

(* canonical presentation: distinct keys in bytewise order, values merged in order *)
Fixpoint insert_key (k : string) (l : list string) : list string :=
  match l with
  | [] => [k]
  | x :: r => if String.eqb k x then l else if str_leb k x then k :: l else x :: insert_key k r
  end.
Definition sorted_keys (h : headers) : list string := fold_right insert_key [] (map fst h).
Definition norm (h : headers) : headers := map (fun k => (k, h_values k h)) (sorted_keys h).

(* ------------------------------------------------------------------ identities and the authorizer *)
Record identity := mkId {
  uname : string;
  ugroups : list string;
  uextra : list (string * list string);     (* user.Info.GetExtra(): key -> values *)
}.

(* one authorizer question of the impersonation filter: verb "impersonate" on
   (resource, namespace, name, subresource) *)
Record imp_item := mkItem { it_res : string; it_ns : string; it_name : string; it_sub : string }.
Definition item_eqb (a b : imp_item) : bool :=
  (String.eqb (it_res a) (it_res b) && String.eqb (it_ns a) (it_ns b) &&
   String.eqb (it_name a) (it_name b) && String.eqb (it_sub a) (it_sub b))%bool.

Inductive imp_req :=
| RSa (ns name : string)      (* Kind ServiceAccount *)
| RUser (name : string)
| RGroup (g : string)
| RExtra (key value : string).

Definition item_of (r : imp_req) : imp_item :=
  match r with
  | RSa ns n => mkItem "serviceaccounts" ns n ""
  | RUser n => mkItem "users" "" n ""
  | RGroup g => mkItem "groups" "" g ""
  | RExtra k v => mkItem "userextras" "" v k
  end.

(* --- serviceaccount.SplitUsername: "system:serviceaccount:<ns>:<name>", ns a DNS-1123 label,
       name a DNS-1123 subdomain *)
Definition is_dns_char (a : ascii) : bool := (is_lower a || is_digit a || Ascii.eqb a "-")%bool.
Definition is_dns_alnum (a : ascii) : bool := (is_lower a || is_digit a)%bool.
Fixpoint all_chars (f : ascii -> bool) (s : string) : bool :=
  match s with EmptyString => true | String c r => (f c && all_chars f r)%bool end.
Definition first_char_ok (f : ascii -> bool) (s : string) : bool :=
  match s with String c _ => f c | EmptyString => false end.
(* regexp [a-z0-9]([-a-z0-9]*[a-z0-9])? *)
Definition dns_label_fmt (s : string) : bool :=
  (all_chars is_dns_char s && first_char_ok is_dns_alnum s && first_char_ok is_dns_alnum (str_rev s))%bool.
Definition is_dns_label (s : string) : bool := (Nat.leb (String.length s) 63 && dns_label_fmt s)%bool.
Definition is_dns_subdomain (s : string) : bool :=
  (Nat.leb (String.length s) 253 && forallb dns_label_fmt (split_on "." s))%bool.

Definition sa_prefix : string := "system:serviceaccount:".
Definition split_sa_username (u : string) : option (string * string) :=
  if has_prefix u sa_prefix then
    match split_on ":" (str_drop (String.length sa_prefix) u) with
    | [ns; name] => if (is_dns_label ns && is_dns_subdomain name)%bool then Some (ns, name) else None
    | _ => None
    end
  else None.

Definition H_AUTH := "Authorization".
Definition H_USER := "Impersonate-User".
Definition H_GROUP := "Impersonate-Group".
Definition H_EXTRA := "Impersonate-Extra-".
Definition H_IMP := "Impersonate-".

(* --- buildImpersonationRequests; None = the error "requested ... without impersonating a user" *)
Definition extra_reqs (h : headers) : list imp_req :=
  flat_map (fun e =>
    if has_prefix (fst e) H_EXTRA then
      let key := unescape_extra_key (to_lower (str_drop (String.length H_EXTRA) (fst e))) in
      map (RExtra key) (snd e)
    else []) h.
Definition has_extra_hdr (h : headers) : bool := existsb (fun e => has_prefix (fst e) H_EXTRA) h.

Definition build_imp_requests (h : headers) : option (list imp_req) :=
  let requested := h_get H_USER h in
  let has_user := negb (String.eqb requested EmptyString) in
  let ureq := if has_user then
                match split_sa_username requested with
                | Some (ns, n) => [RSa ns n]
                | None => [RUser requested]
                end
              else [] in
  let greq := map RGroup (h_values H_GROUP h) in
  let has_groups := match h_values H_GROUP h with [] => false | _ => true end in
  if ((has_groups || has_extra_hdr h) && negb has_user)%bool then None
  else Some (ureq ++ greq ++ extra_reqs h).

(* clearImpersonationHeaders (as repaired by 64b3650): the whole Impersonate-* family *)
Definition clear_imp (h : headers) : headers :=
  filter (fun e => negb (has_prefix (canonical_key (fst e)) H_IMP)) h.

(* userExtra[key] = append(userExtra[key], value) *)
Fixpoint ext_add (k v : string) (e : list (string * list string)) : list (string * list string) :=
  match e with
  | [] => [(k, [v])]
  | (k', vs) :: r => if String.eqb k' k then (k', vs ++ [v]) :: r else (k', vs) :: ext_add k v r
  end.

Definition G_AUTHENTICATED := "system:authenticated".
Definition G_UNAUTHENTICATED := "system:unauthenticated".
Definition U_ANONYMOUS := "system:anonymous".

(* the loop body of WithNoLoggingImpersonation over the (all allowed) requests *)
Record acc := mkAcc { a_user : string; a_groups : list string; a_extra : list (string * list string) }.
Definition imp_step (groups_specified : bool) (a : acc) (r : imp_req) : acc :=
  match r with
  | RSa ns n =>
      mkAcc (sa_prefix +++ ns +++ ":" +++ n)
            (if groups_specified then a_groups a
             else ["system:serviceaccounts"; "system:serviceaccounts:" +++ ns])
            (a_extra a)
  | RUser n => mkAcc n (a_groups a) (a_extra a)
  | RGroup g => mkAcc (a_user a) (a_groups a ++ [g]) (a_extra a)
  | RExtra k v => mkAcc (a_user a) (a_groups a) (ext_add k v (a_extra a))
  end.

Definition finish_groups (username : string) (groups : list string) : list string :=
  if negb (String.eqb username U_ANONYMOUS) then
    if existsb (fun g => (String.eqb g G_AUTHENTICATED || String.eqb g G_UNAUTHENTICATED)%bool) groups
    then groups else groups ++ [G_AUTHENTICATED]
  else
    if existsb (fun g => String.eqb g G_UNAUTHENTICATED) groups
    then groups else groups ++ [G_UNAUTHENTICATED].

Definition impersonated (h : headers) (reqs : list imp_req) : identity :=
  let gs := match h_values H_GROUP h with [] => false | _ => true end in
  let a := fold_left (imp_step gs) reqs (mkAcc EmptyString [] []) in
  mkId (a_user a) (finish_groups (a_user a) (a_groups a)) (a_extra a).

(* ------------------------------------------------------------------ reverse proxy (request side) *)
Definition lower_eqb (a b : string) : bool := String.eqb (to_lower a) (to_lower b).
Definition is_ascii_str (s : string) : bool := all_chars (fun c => N.ltb (nb c) 128) s.
(* httpguts.HeaderValuesContainsToken *)
Definition value_has_token (tok v : string) : bool :=
  existsb (fun p => let t := trim_ows p in (is_ascii_str t && lower_eqb t tok)%bool) (split_on "," v).
Definition values_have_token (tok : string) (vs : list string) : bool := existsb (value_has_token tok) vs.

(* httpstream.IsUpgradeRequest: some Connection value contains "upgrade" (case-insensitive substring) *)
Fixpoint contains (s p : string) : bool :=
  if has_prefix s p then true else
  match s with
  | EmptyString => false
  | String _ r => contains r p
  end.
Definition is_upgrade_request (h : headers) : bool :=
  existsb (fun v => contains (to_lower v) "upgrade") (h_values "Connection" h).

Definition hop_headers : list string :=
  ["Connection"; "Proxy-Connection"; "Keep-Alive"; "Proxy-Authenticate"; "Proxy-Authorization";
   "Te"; "Trailer"; "Transfer-Encoding"; "Upgrade"].

(* removeConnectionHeaders: h.Del(name) for every non-empty, trimmed element of every Connection value *)
Definition connection_named (h : headers) : list string :=
  flat_map (fun v => flat_map (fun p => let t := trim_ows p in
                                        if String.eqb t EmptyString then [] else [canonical_key t])
                              (split_on "," v))
           (h_values "Connection" h).
Definition del_all (ks : list string) (h : headers) : headers := fold_left (fun acc k => h_del k acc) ks h.

(* ReverseProxy.ServeHTTP up to transport.RoundTrip, for a request that is not an upgrade;
   [client_ip] is the host part of req.RemoteAddr *)
Definition reverse_proxy_headers (client_ip : string) (h : headers) : headers :=
  let h1 := if h_has "User-Agent" h then h else h_set "User-Agent" EmptyString h in   (* Director *)
  let h2 := del_all (connection_named h1) h1 in
  let h3 := del_all hop_headers h2 in
  let h4 := if values_have_token "trailers" (h_values "Te" h) then h_set "Te" "trailers" h3 else h3 in
  let prior := h_values "X-Forwarded-For" h4 in
  let xff := match prior with [] => client_ip | _ => join ", " prior +++ ", " +++ client_ip end in
  h_set "X-Forwarded-For" xff h4.

(* ------------------------------------------------------------------ per-endpoint transport wrappers *)
Definition gateway_user_agent : string := "<gateway-user-agent>".
(* client-go userAgentRoundTripper *)
Definition user_agent_wrapper (h : headers) : headers :=
  if negb (String.eqb (h_get "User-Agent" h) EmptyString) then h else h_set "User-Agent" gateway_user_agent h.
(* client-go bearerAuthRoundTripper: skips itself when an Authorization header is present *)
Definition bearer_wrapper (token : string) (h : headers) : headers :=
  if negb (String.eqb (h_get H_AUTH h) EmptyString) then h else h_set H_AUTH ("Bearer " +++ token) h.

(* dynamicImpersonatingRoundTripper.WrapRequest (with the empty-name refusal of the repair
   C02_empty_username.diff); None = error, nothing is sent *)
Definition add_extra (h : headers) (e : string * list string) : headers :=
  fold_left (fun acc v => h_add (canonical_key (H_EXTRA +++ header_key_escape (fst e))) v acc) (snd e) h.
Definition wrap_request (id : identity) (h : headers) : option headers :=
  if negb (String.eqb (h_get H_USER h) EmptyString) then Some h
  else if String.eqb (uname id) EmptyString then None
  else
    let h1 := h_set H_USER (uname id) h in
    let h2 := fold_left (fun acc g => h_add H_GROUP g acc) (ugroups id) h1 in
    Some (fold_left add_extra (uextra id) h2).

(* ------------------------------------------------------------------ the wire (model of net/http) *)
(* httpguts.ValidHeaderFieldValue: no control byte except HTAB, no DEL *)
Definition valid_value_byte (a : ascii) : bool :=
  (N.eqb (nb a) 9 || (N.leb 32 (nb a) && negb (N.eqb (nb a) 127)))%bool.
Definition valid_value (v : string) : bool := all_chars valid_value_byte v.
Definition all_values_valid (h : headers) : bool := forallb (fun e => forallb valid_value (snd e)) h.
(* the client writes, and the server reads, field values without leading/trailing blanks *)
Definition wire (h : headers) : headers := map (fun e => (fst e, map trim_ows (snd e))) h.

(* ------------------------------------------------------------------ the pipeline *)
Inductive outcome :=
| Forwarded (h : headers)     (* header set received by the upstream's HTTP server *)
| Answered (code : Z)         (* the gateway answered itself; the upstream saw nothing *)
| NotModelled.                (* unreachable in [pipeline]; kept for models that stop at [filters] *)

Definition send (token client_ip : string) (id : identity) (h : headers) : outcome :=
  let h1 := reverse_proxy_headers client_ip h in
  (* wrappers, outermost first: user agent, bearer token, (debug), impersonation, http.Transport *)
  let h2 := user_agent_wrapper h1 in
  let h3 := bearer_wrapper token h2 in
  match wrap_request id h3 with
  | None => Answered 502                       (* RoundTrip error -> proxyErrorResponder *)
  | Some h4 => if all_values_valid h4 then Forwarded (wire h4) else Answered 502
  end.

(* ------------------------------------------------------------------ transport generations of an endpoint
   pkg/clusters/endpoint.go: an EndpointInfo keeps its rest config (WrapTransport = the dynamic impersonating
   round tripper, set by addOrUpdateEndpoint) and the proxy transport built from it; createTransport builds a new
   transport from the STORED config and leaves that config alone; ResetTransport (called by GatewayHealthCheck
   after repeated hanging probes) is createTransport again. *)
Record endpoint := mkEp {
  ep_wrap : bool;      (* the stored proxyConfig carries WrapTransport *)
  ep_imp : bool;       (* the current ProxyTransport contains the impersonating round tripper *)
}.
Definition create_transport (e : endpoint) : endpoint := mkEp (ep_wrap e) (ep_wrap e).
Definition reset_transport (e : endpoint) : endpoint := create_transport e.
Definition new_endpoint : endpoint := create_transport (mkEp true false).
Fixpoint after_resets (n : nat) (e : endpoint) : endpoint :=
  match n with O => e | S k => after_resets k (reset_transport e) end.

(* [send] through a given transport generation: without the impersonating round tripper no WrapRequest happens *)
Definition send_with (impersonating : bool) (token client_ip : string) (id : identity) (h : headers) : outcome :=
  let h3 := bearer_wrapper token (user_agent_wrapper (reverse_proxy_headers client_ip h)) in
  match (if impersonating then wrap_request id h3 else Some h3) with
  | None => Answered 502
  | Some h4 => if all_values_valid h4 then Forwarded (wire h4) else Answered 502
  end.

(* the filters in front of the dispatcher.
   [h]: header set handed to the chain by the Go server; [id]: what the authenticator returned;
   [authz]: the authorizer's answer per impersonation item *)
Inductive filtered :=
| Pass (h : headers) (id : identity)     (* reaches the dispatcher with this header set and context user *)
| Refuse (code : Z)
| Upgrade.

Definition filters_core (h : headers) (id : identity) (authz : imp_item -> bool) : filtered :=
  let h1 := h_del H_AUTH h in                                   (* WithAuthentication, success *)
  match build_imp_requests h1 with
  | None => Refuse 500                                          (* responsewriters.InternalError *)
  | Some [] => Pass (clear_imp h1) id                           (* nothing to impersonate *)
  | Some reqs =>
      if forallb (fun r => authz (item_of r)) reqs
      then Pass (clear_imp h1) (impersonated h1 reqs)
      else Refuse 403                                           (* responsewriters.Forbidden *)
  end.

(* [filters] singles out connection upgrades for models that do not follow them further (C04) *)
Definition filters (h : headers) (id : identity) (authz : imp_item -> bool) : filtered :=
  if is_upgrade_request h then Upgrade else filters_core h id authz.

(* ------------------------------------------------------------------ connection upgrades (exec / attach / port-forward)
   k8s.io/apimachinery/pkg/util/proxy UpgradeAwareHandler.tryUpgrade: the request is cloned with ALL its headers
   (Connection and Upgrade are forwarded on this path by design), X-Forwarded-For is appended, the endpoint's
   upgrade transport (the dynamicImpersonatingRoundTripper found by unwrapUpgradeRequestRoundTripper in
   pkg/clusters/clusterinfo.go) wraps it with WrapRequest, and http.Request.Write sends it on a freshly dialled
   connection.  The client-go bearer / user-agent wrappers are NOT on this path: no Authorization header is added
   (the gateway's credential is then the TLS client certificate, if any). *)
Definition default_go_user_agent : string := "Go-http-client/1.1".
Definition upgrade_headers (client_ip : string) (h : headers) : headers :=      (* utilnet.AppendForwardedForHeader *)
  h_set "X-Forwarded-For"
        (match h_values "X-Forwarded-For" h with [] => client_ip | p => join ", " p +++ ", " +++ client_ip end) h.
(* http.Request.Write: the first User-Agent value, Go's default when the header is absent, none when it is empty.
   (Request.Write treats User-Agent separately from the other headers, so it is modelled before WrapRequest.) *)
Definition request_write_headers (h : headers) : headers :=
  if h_has "User-Agent" h
  then (if String.eqb (h_get "User-Agent" h) EmptyString then h_del "User-Agent" h
        else h_set "User-Agent" (h_get "User-Agent" h) h)
  else h_set "User-Agent" default_go_user_agent h.

Definition upgrade_send (client_ip : string) (id : identity) (h : headers) : outcome :=
  match wrap_request id (request_write_headers (upgrade_headers client_ip h)) with
  | None => Answered 502                       (* DialForUpgrade error -> proxyErrorResponder *)
  | Some h2 => Forwarded (wire h2)
  end.

Definition pipeline (token client_ip : string) (h : headers) (id : identity) (authz : imp_item -> bool) : outcome :=
  match filters_core h id authz with
  | Pass h1 id1 => if is_upgrade_request h then upgrade_send client_ip id1 h1 else send token client_ip id1 h1
  | Refuse code => Answered code
  | Upgrade => NotModelled
  end.

(* the pipeline of a request forwarded through endpoint [e] (its current transport generation) *)
Definition pipeline_ep (e : endpoint) (token client_ip : string) (h : headers) (id : identity) (authz : imp_item -> bool) : outcome :=
  match filters_core h id authz with
  | Pass h1 id1 => if is_upgrade_request h then upgrade_send client_ip id1 h1
                   else send_with (ep_imp e) token client_ip id1 h1
  | Refuse code => Answered code
  | Upgrade => NotModelled
  end.
