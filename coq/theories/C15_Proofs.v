(* C15 — proofs: deletion / removal cancel exactly the subtree of the context tree that belongs to
   what was removed, names stop resolving, removed things are never picked again, done is forever. *)
From KG Require Import Prelude C15_Model.
From Coq Require Import ZifyBool ZifyNat.
Open Scope Z_scope.

(* ---------- find / lookup lemmas ---------- *)
Lemma find_map_key {A} (key : A -> Z) (f : A -> A) (k : Z) (l : list A) :
  (forall x, key (f x) = key x) ->
  find (fun x => key x =? k) (map f l) = option_map f (find (fun x => key x =? k) l).
Proof.
  intros Hk. induction l as [|x r IH]; simpl; [reflexivity|].
  rewrite Hk. destruct (key x =? k); [reflexivity|exact IH].
Qed.

Lemma find_app {A} (p : A -> bool) (a b : list A) :
  find p (a ++ b) = match find p a with Some x => Some x | None => find p b end.
Proof. induction a as [|x r IH]; simpl; [reflexivity|]. destruct (p x); [reflexivity|exact IH]. Qed.

Lemma zlook_zdel {A} n m (l : list (Z * A)) : zlook n (zdel m l) = if n =? m then None else zlook n l.
Proof.
  induction l as [|[k v] r IH]; simpl; [destruct (n =? m); reflexivity|].
  destruct (m =? k) eqn:Emk.
  - rewrite IH. destruct (n =? m) eqn:Enm; [reflexivity|].
    assert (n =? k = false) by lia. rewrite H. reflexivity.
  - simpl. destruct (n =? k) eqn:Enk.
    + assert (n =? m = false) by lia. rewrite H. reflexivity.
    + exact IH.
Qed.

Definition look_is (l : list (Z * Z)) (n o : Z) : bool :=
  match zlook n l with Some o' => o' =? o | None => false end.

Lemma unbind_look o : forall ns l n,
  zlook n (unbind_all o ns l) = if zmem n ns && look_is l n o then None else zlook n l.
Proof.
  unfold unbind_all. induction ns as [|m r IH]; intros l n; simpl; [reflexivity|].
  rewrite IH. unfold look_is.
  destruct (zlook m l) as [o'|] eqn:Em.
  - destruct (o' =? o) eqn:Eo.
    + (* m unbound *)
      rewrite zlook_zdel. destruct (n =? m) eqn:Enm.
      * assert (n = m) by lia. subst n. rewrite Em, Eo. rewrite andb_false_r. simpl. reflexivity.
      * simpl. reflexivity.
    + destruct (n =? m) eqn:Enm; simpl; [|reflexivity].
      assert (n = m) by lia. subst n. rewrite Em, Eo. rewrite !andb_false_r. reflexivity.
  - destruct (n =? m) eqn:Enm; simpl; [|reflexivity].
    assert (n = m) by lia. subst n. rewrite Em. rewrite !andb_false_r. reflexivity.
Qed.

Lemma zmem_In x l : zmem x l = true <-> In x l.
Proof.
  unfold zmem. rewrite existsb_exists. split.
  - intros [y [Hy He]]. apply Z.eqb_eq in He. subst. exact Hy.
  - intros H. exists x. split; [exact H|apply Z.eqb_refl].
Qed.

(* ---------- deletion ---------- *)
Section Delete.
  Variables (rc : bool) (s : st) (name o : Z) (c : clo).
  Hypothesis Hres : resolve s name = Some o.
  Hypothesis Hcl : find_cl s o = Some c.
  Hypothesis Hprim : primary c = name.

  Let s' := fst (step rc s (ODelete name)).

  Lemma delete_shape :
    s' = mkSt (unbind_all o (cnames c) (names s))
              (map (fun x => if cobj x =? o then mkCl (cobj x) (cnames x) true else x) (clos s))
              (eps s) (reqs s) (next s).
  Proof.
    unfold s'. simpl. unfold delete. rewrite Hres, Hcl, Hprim. rewrite Z.eqb_refl. reflexivity.
  Qed.

  (* every name of the cluster that was bound to it stops resolving *)
  Lemma delete_names n : In n (cnames c) -> resolve s n = Some o -> resolve s' n = None.
  Proof.
    intros Hin Hn. rewrite delete_shape. unfold resolve in *. simpl. rewrite unbind_look.
    apply zmem_In in Hin. rewrite Hin. unfold look_is. rewrite Hn, Z.eqb_refl. reflexivity.
  Qed.

  (* ... and no name resolves to the deleted object any more *)
  Lemma delete_no_name n : In n (cnames c) -> resolve s' n <> Some o.
  Proof.
    intros Hin. rewrite delete_shape. unfold resolve. simpl. rewrite unbind_look.
    apply zmem_In in Hin. rewrite Hin. unfold look_is. simpl.
    destruct (zlook n (names s)) as [o'|] eqn:E; [|discriminate].
    destruct (o' =? o) eqn:Eo; [discriminate|]. intros H. inversion H. lia.
  Qed.

  Lemma delete_find_cl o2 :
    find_cl s' o2 = option_map (fun x => if cobj x =? o then mkCl (cobj x) (cnames x) true else x) (find_cl s o2).
  Proof.
    rewrite delete_shape. unfold find_cl. simpl.
    apply (find_map_key cobj). intros x. destruct (cobj x =? o); reflexivity.
  Qed.

  Lemma cobj_found o2 c2 : find_cl s o2 = Some c2 -> cobj c2 = o2.
  Proof. unfold find_cl. intros H. apply find_some in H. destruct H as [_ H]. lia. Qed.

  Lemma delete_cl_done : cl_done s' o = true.
  Proof.
    unfold cl_done. rewrite delete_find_cl, Hcl. simpl. rewrite (cobj_found _ _ Hcl), Z.eqb_refl. reflexivity.
  Qed.

  Lemma delete_cl_other o2 : o2 <> o -> cl_done s' o2 = cl_done s o2.
  Proof.
    intros Hne. unfold cl_done. rewrite delete_find_cl. destruct (find_cl s o2) as [c2|] eqn:E; [|reflexivity].
    simpl. rewrite (cobj_found _ _ E). assert (o2 =? o = false) by lia. rewrite H. reflexivity.
  Qed.

  Lemma delete_eps : eps s' = eps s.
  Proof. rewrite delete_shape. reflexivity. Qed.
  Lemma delete_reqs : reqs s' = reqs s.
  Proof. rewrite delete_shape. reflexivity. Qed.

  (* every endpoint context (hence probe context) of the cluster is done *)
  Lemma delete_ep_done e : ecl e = o -> ep_done s' e = true.
  Proof. intros He. unfold ep_done. rewrite He, delete_cl_done. reflexivity. Qed.

  Lemma delete_probe_done e : ecl e = o -> probe_done s' e = true.
  Proof.
    intros He. unfold probe_done. destruct (pparent e); [rewrite (delete_ep_done e He)|rewrite He, delete_cl_done];
      apply orb_true_r.
  Qed.

  Lemma delete_ep_other e : ecl e <> o -> ep_done s' e = ep_done s e.
  Proof. intros He. unfold ep_done. rewrite delete_cl_other by exact He. reflexivity. Qed.

  Lemma delete_find_ep eo : find_ep s' eo = find_ep s eo.
  Proof. unfold find_ep. rewrite delete_eps. reflexivity. Qed.

  (* probing of them stops *)
  Lemma delete_no_probe eo e : find_ep s eo = Some e -> ecl e = o -> snd (step rc s' (OTick eo)) = [].
  Proof.
    intros Hf He. simpl. rewrite delete_find_ep, Hf. rewrite (delete_probe_done e He). reflexivity.
  Qed.

  (* every request in flight on an endpoint of the cluster has a done context *)
  Lemma delete_req_done r eo e :
    In r (reqs s') -> rep r = Some eo -> find_ep s eo = Some e -> ecl e = o -> req_done s' r = true.
  Proof.
    intros _ Hrep Hf He. unfold req_done, ep_done_obj. rewrite Hrep, delete_find_ep, Hf.
    rewrite (delete_ep_done e He). apply orb_true_r.
  Qed.

  (* requests of other clusters: context unchanged *)
  Lemma delete_req_other r :
    (forall eo e, rep r = Some eo -> find_ep s eo = Some e -> ecl e <> o) -> req_done s' r = req_done s r.
  Proof.
    intros H. unfold req_done, ep_done_obj. destruct (rep r) as [eo|]; [|reflexivity].
    rewrite delete_find_ep. destruct (find_ep s eo) as [e|] eqn:E; [|reflexivity].
    rewrite (delete_ep_other e (H eo e eq_refl E)). reflexivity.
  Qed.

  (* other cluster objects are untouched, their names keep resolving *)
  Lemma delete_clo_other c2 : In c2 (clos s) -> cobj c2 <> o -> In c2 (clos s').
  Proof.
    intros Hin Hne. rewrite delete_shape. simpl. apply in_map_iff. exists c2.
    assert (cobj c2 =? o = false) by lia. rewrite H. tauto.
  Qed.

  Lemma delete_name_other n o2 : resolve s n = Some o2 -> o2 <> o -> resolve s' n = Some o2.
  Proof.
    intros Hn Hne. rewrite delete_shape. unfold resolve in *. simpl. rewrite unbind_look.
    unfold look_is. rewrite Hn. assert (o2 =? o = false) by lia. rewrite H, andb_false_r. reflexivity.
  Qed.

  Lemma live_ep_cl st0 o0 n e : live_ep st0 o0 n = Some e -> ecl e = o0 /\ elive e = true /\ ename e = n /\ In e (eps st0).
  Proof.
    unfold live_ep. intros H. apply find_some in H. destruct H as [Hin H].
    apply andb_prop in H. destruct H as [H H3]. apply andb_prop in H. destruct H as [H1 H2].
    repeat split; try lia; assumption.
  Qed.

  (* with the context check in Pop: no endpoint of the deleted cluster is ready any more *)
  Lemma delete_none_ready ups : ready_names true s' o ups = [].
  Proof.
    unfold ready_names. induction ups as [|n r IH]; simpl; [reflexivity|].
    destruct (live_ep s' o n) as [e|] eqn:E; [|exact IH].
    destruct (live_ep_cl _ _ _ _ E) as [He _]. rewrite He, delete_cl_done. simpl. rewrite !andb_false_r. exact IH.
  Qed.

  (* a request that resolved the cluster before the deletion and is dispatched after it: 503, nothing forwarded *)
  Lemma delete_stale_pick id r choice :
    find_rq s' id = Some r -> rcl r = o -> rph r = PBefore ->
    step true s' (OPick id choice) = (upd_rq s' id (fun r => set_ph r (PDone R503)), []).
  Proof.
    intros Hf Hc Hp. simpl. rewrite Hf, Hp, Hc. rewrite delete_none_ready. reflexivity.
  Qed.

  (* a request arriving for one of its names is answered 503 at once *)
  Lemma delete_new_request id n sub :
    In n (cnames c) -> resolve s n = Some o -> find_rq s' id = None ->
    reqs (fst (step rc s' (OStart id n sub))) = reqs s' ++ [mkRq id (-1) sub None (PDone R503) false].
  Proof.
    intros Hin Hn Hf. simpl. rewrite Hf. rewrite (delete_names n Hin Hn). reflexivity.
  Qed.
End Delete.

(* ---------- endpoint removal ---------- *)
Lemma ensure_same par e :
  eobj (ensure par e) = eobj e /\ ecl (ensure par e) = ecl e /\ ename (ensure par e) = ename e
  /\ elive (ensure par e) = elive e /\ ecancel (ensure par e) = ecancel e /\ ehealthy (ensure par e) = ehealthy e
  /\ edisabled (ensure par e) = edisabled e.
Proof. destruct e as [a b c d f g h i j]. unfold ensure. simpl. destruct h; [|destruct i]; simpl; repeat split; reflexivity. Qed.

Lemma ensure_parent par e : pparent e = PEp -> par = PEp -> pparent (ensure par e) = PEp.
Proof. intros H ->. destruct e as [a b c d f g h i j]. unfold ensure. simpl in *. destruct h; [|destruct i]; simpl; auto. Qed.

Lemma update_ep_same o sv e :
  eobj (update_ep o sv e) = eobj e /\ ecl (update_ep o sv e) = ecl e /\ ename (update_ep o sv e) = ename e
  /\ elive (update_ep o sv e) = elive e /\ ecancel (update_ep o sv e) = ecancel e
  /\ ehealthy (update_ep o sv e) = ehealthy e.
Proof.
  unfold update_ep. destruct ((ecl e =? o) && elive e && zmem (ename e) (map fst sv)); [|repeat split; reflexivity].
  match goal with |- context [ensure ?p ?x] => destruct (ensure_same p x) as [H1 [H2 [H3 [H4 [H5 [H6 _]]]]]] end.
  simpl in *. repeat split; assumption.
Qed.

Lemma update_ep_id o sv e : (ecl e <> o \/ elive e = false) -> update_ep o sv e = e.
Proof.
  intros H. unfold update_ep. destruct H as [H|H].
  - assert (E : ecl e =? o = false) by lia. rewrite E. reflexivity.
  - rewrite H, andb_false_r. reflexivity.
Qed.

(* removal is unconditional: whatever the rest of the list (an unusable server included) *)

Section Remove.
  Variables (rc : bool) (s : st) (name : Z) (aliases : list Z) (sv : list (Z * bool)) (o : Z) (c : clo).
  Hypothesis Hres : resolve s name = Some o.
  Hypothesis Hcl : find_cl s o = Some c.
  Hypothesis Hprim : primary c = name.
  Hypothesis Hconf : conflict s o (name :: aliases) = false.
  (* every probe context was derived from its endpoint's context (true in every reachable state: pp_run) *)
  Hypothesis Hpp : forall e, In e (eps s) -> pparent e = PEp.

  Let want := map fst sv.
  Let svp := usable_prefix sv.
  Let s' := fst (step rc s (OUpsert name aliases sv)).
  Let added := filter (fun n => negb (zmem n (live_names s o))) (dedup (map fst svp)).

  Lemma remove_eps : eps s' = map (update_ep o svp) (map (drop_ep o want) (eps s)) ++ fresh_eps (next s) o svp added.
  Proof.
    unfold s'. simpl. unfold upsert. rewrite Hres, Hcl, Hprim, Z.eqb_refl, Hconf. reflexivity.
  Qed.
  Lemma remove_reqs : reqs s' = reqs s.
  Proof.
    unfold s'. simpl. unfold upsert. rewrite Hres, Hcl, Hprim, Z.eqb_refl, Hconf. reflexivity.
  Qed.
  Lemma remove_clos : clos s' = map (fun x => if cobj x =? o then mkCl (cobj x) (pick (all_usable sv) (name :: aliases) (cnames x)) (ccancel x) else x) (clos s).
  Proof.
    unfold s'. simpl. unfold upsert. rewrite Hres, Hcl, Hprim, Z.eqb_refl, Hconf. reflexivity.
  Qed.

  Lemma drop_ep_key e : eobj (drop_ep o want e) = eobj e.
  Proof. unfold drop_ep. destruct ((ecl e =? o) && elive e && negb (zmem (ename e) want)); reflexivity. Qed.

  Lemma remove_find_ep eo e : find_ep s eo = Some e -> find_ep s' eo = Some (update_ep o svp (drop_ep o want e)).
  Proof.
    intros H. unfold find_ep in *. rewrite remove_eps, find_app.
    rewrite (find_map_key eobj (update_ep o svp) eo); [|intros x; apply update_ep_same].
    rewrite (find_map_key eobj (drop_ep o want) eo (eps s) drop_ep_key). rewrite H. reflexivity.
  Qed.

  Lemma find_ep_In eo e : find_ep s eo = Some e -> In e (eps s).
  Proof. unfold find_ep. intros H. apply find_some in H. tauto. Qed.

  (* no cluster context changes *)
  Lemma remove_cl_done o2 : cl_done s' o2 = cl_done s o2.
  Proof.
    unfold cl_done, find_cl. rewrite remove_clos.
    rewrite (find_map_key cobj); [|intros x; destruct (cobj x =? o); reflexivity].
    destruct (find (fun x => cobj x =? o2) (clos s)) as [c2|]; [|reflexivity].
    simpl. destruct (cobj c2 =? o); reflexivity.
  Qed.

  (* the removed endpoint: out of the map, its context done, its probe context done — whatever path
     (new endpoint, or update after a disable / a late enable) started the probe loop — and never probed *)
  Lemma remove_gone eo e :
    find_ep s eo = Some e -> ecl e = o -> elive e = true -> zmem (ename e) want = false ->
    exists e', find_ep s' eo = Some e' /\ elive e' = false /\ ecancel e' = true /\ ep_done s' e' = true
               /\ probe_done s' e' = true /\ snd (step rc s' (OTick eo)) = [].
  Proof.
    intros Hf He Hl Hw.
    set (d := mkEp (eobj e) (ecl e) (ename e) false true (ehealthy e) (edisabled e) (eprobing e) (pparent e)).
    assert (Hd : drop_ep o want e = d).
    { unfold drop_ep, d.
      assert (E : (ecl e =? o) && elive e && negb (zmem (ename e) want) = true).
      { rewrite Hl, Hw. assert (E1 : ecl e =? o = true) by lia. rewrite E1. reflexivity. }
      rewrite E. reflexivity. }
    assert (Hu : update_ep o svp d = d) by (apply update_ep_id; right; reflexivity).
    assert (Hf' : find_ep s' eo = Some d) by (rewrite (remove_find_ep eo e Hf), Hd, Hu; reflexivity).
    assert (Hdone : ep_done s' d = true) by (unfold ep_done; simpl; apply orb_true_r).
    assert (Hp : probe_done s' d = true).
    { unfold probe_done. simpl. rewrite (Hpp e (find_ep_In eo e Hf)). rewrite Hdone. apply orb_true_r. }
    exists d. split; [exact Hf'|]. split; [reflexivity|]. split; [reflexivity|]. split; [exact Hdone|].
    split; [exact Hp|]. simpl. rewrite Hf', Hp. reflexivity.
  Qed.

  (* requests in flight on it have a done context *)
  Lemma remove_req_done r eo e :
    In r (reqs s') -> rep r = Some eo ->
    find_ep s eo = Some e -> ecl e = o -> elive e = true -> zmem (ename e) want = false ->
    req_done s' r = true.
  Proof.
    intros _ Hrep Hf He Hl Hw. destruct (remove_gone eo e Hf He Hl Hw) as [e' [Hf' [_ [_ [Hd _]]]]].
    unfold req_done, ep_done_obj. rewrite Hrep, Hf', Hd. apply orb_true_r.
  Qed.

  (* siblings and endpoints of other clusters: same object (identity, URL, map membership, cancel flag,
     health), same context; an endpoint of another cluster or one that had left the map is the same record *)
  Lemma remove_sibling eo e :
    find_ep s eo = Some e -> (ecl e <> o \/ zmem (ename e) want = true \/ elive e = false) ->
    exists e', find_ep s' eo = Some e' /\ eobj e' = eobj e /\ ecl e' = ecl e /\ ename e' = ename e
               /\ elive e' = elive e /\ ecancel e' = ecancel e /\ ehealthy e' = ehealthy e
               /\ ep_done s' e' = ep_done s e
               /\ ((ecl e <> o \/ elive e = false) -> e' = e).
  Proof.
    intros Hf Hk.
    assert (E : drop_ep o want e = e).
    { unfold drop_ep.
      assert (E0 : (ecl e =? o) && elive e && negb (zmem (ename e) want) = false).
      { destruct Hk as [H|[H|H]].
        - assert (H0 : ecl e =? o = false) by lia. rewrite H0. reflexivity.
        - rewrite H. apply andb_false_r.
        - rewrite H. rewrite andb_false_r. reflexivity. }
      rewrite E0. reflexivity. }
    exists (update_ep o svp e). rewrite (remove_find_ep eo e Hf), E.
    destruct (update_ep_same o svp e) as [H1 [H2 [H3 [H4 [H5 H6]]]]].
    split; [reflexivity|]. repeat (split; [assumption|]). split.
    - unfold ep_done. rewrite H2, H5, remove_cl_done. reflexivity.
    - intros H. apply update_ep_id. exact H.
  Qed.

  Lemma remove_req_other r :
    match rep r with
    | Some eo => exists e, find_ep s eo = Some e /\ (ecl e <> o \/ zmem (ename e) want = true \/ elive e = false)
    | None => True
    end -> req_done s' r = req_done s r.
  Proof.
    intros H. unfold req_done, ep_done_obj. destruct (rep r) as [eo|]; [|reflexivity].
    destruct H as [e [Hf Hk]]. destruct (remove_sibling eo e Hf Hk) as [e' [Hf' [_ [_ [_ [_ [_ [_ [Hd _]]]]]]]]].
    rewrite Hf, Hf', Hd. reflexivity.
  Qed.

  (* what Pop can return afterwards is live: never the removed object (its record is not live) *)
  Lemma remove_not_pickable n e :
    live_ep s' o n = Some e -> elive e = true /\ In e (eps s').
  Proof.
    intros H. unfold live_ep in H. apply find_some in H. destruct H as [Hin H].
    apply andb_prop in H. destruct H as [H _]. apply andb_prop in H. destruct H as [_ H]. tauto.
  Qed.
End Remove.

(* ---------- done is forever; objects never come back ---------- *)
Definition cl_ext (l l' : list clo) : Prop :=
  forall o c, find (fun c => cobj c =? o) l = Some c ->
    exists c', find (fun c => cobj c =? o) l' = Some c' /\ (ccancel c = true -> ccancel c' = true).
Definition ep_ext (l l' : list epo) : Prop :=
  forall eo e, find (fun e => eobj e =? eo) l = Some e ->
    exists e', find (fun e => eobj e =? eo) l' = Some e' /\ ecl e' = ecl e
               /\ (ecancel e = true -> ecancel e' = true) /\ (elive e = false -> elive e' = false).

Lemma cl_ext_refl l : cl_ext l l.
Proof. intros o c H. exists c. tauto. Qed.
Lemma cl_ext_app l x : cl_ext l (l ++ x).
Proof. intros o c H. exists c. rewrite find_app, H. tauto. Qed.
Lemma cl_ext_map l f :
  (forall x, cobj (f x) = cobj x) -> (forall x, ccancel x = true -> ccancel (f x) = true) -> cl_ext l (map f l).
Proof.
  intros Hk Hc o c H. exists (f c). rewrite (find_map_key cobj f o l Hk), H. split; [reflexivity|apply Hc].
Qed.

Lemma ep_ext_refl l : ep_ext l l.
Proof. intros eo e H. exists e. tauto. Qed.
Lemma ep_ext_app l x : ep_ext l (l ++ x).
Proof. intros eo e H. exists e. rewrite find_app, H. tauto. Qed.
Lemma ep_ext_map l f :
  (forall x, eobj (f x) = eobj x) -> (forall x, ecl (f x) = ecl x) ->
  (forall x, ecancel x = true -> ecancel (f x) = true) -> (forall x, elive x = false -> elive (f x) = false) ->
  ep_ext l (map f l).
Proof.
  intros Hk H1 H2 H3 eo e H. exists (f e). rewrite (find_map_key eobj f eo l Hk), H.
  split; [reflexivity|]. split; [apply H1|]. split; [apply H2|apply H3].
Qed.
Lemma ep_ext_trans a b c : ep_ext a b -> ep_ext b c -> ep_ext a c.
Proof.
  intros H1 H2 eo e H. destruct (H1 eo e H) as [e1 [Hf1 [Hc1 [Hk1 Hl1]]]].
  destruct (H2 eo e1 Hf1) as [e2 [Hf2 [Hc2 [Hk2 Hl2]]]]. exists e2.
  split; [exact Hf2|]. split; [congruence|]. split; [tauto|tauto].
Qed.

Ltac crack :=
  repeat match goal with
         | |- context [match ?x with _ => _ end] => destruct x eqn:?
         end; simpl.

Lemma clos_grows rc s op : cl_ext (clos s) (clos (fst (step rc s op))).
Proof.
  destruct op as [name aliases want|name|eo0 ok0|eo0|id0 host sub|id0 choice|id0|id0|id0|id0]; simpl; unfold upsert, delete, upd_rq; crack;
    try apply cl_ext_refl; try apply cl_ext_app;
    apply cl_ext_map; intros x; match goal with |- context [cobj x =? ?o] => destruct (cobj x =? o) end; simpl; auto.
Qed.

Lemma drop_ep_props o want :
  (forall x, eobj (drop_ep o want x) = eobj x) /\ (forall x, ecl (drop_ep o want x) = ecl x)
  /\ (forall x, ecancel x = true -> ecancel (drop_ep o want x) = true)
  /\ (forall x, elive x = false -> elive (drop_ep o want x) = false).
Proof.
  repeat split; intros x; unfold drop_ep;
    destruct ((ecl x =? o) && elive x && negb (zmem (ename x) want)); simpl; auto.
Qed.

Lemma eps_grows rc s op : ep_ext (eps s) (eps (fst (step rc s op))).
Proof.
  destruct op as [name aliases want|name|eo0 ok0|eo0|id0 host sub|id0 choice|id0|id0|id0|id0]; simpl; unfold upsert, delete, upd_rq; crack;
    try apply ep_ext_refl; try apply ep_ext_app.
  - match goal with |- ep_ext _ (map (update_ep ?o ?sv) (map (drop_ep ?o ?w) _) ++ _) =>
      destruct (drop_ep_props o w) as [H1 [H2 [H3 H4]]];
      pose proof (update_ep_same o sv) as Hu end.
    eapply ep_ext_trans; [apply ep_ext_map; eauto|].
    eapply ep_ext_trans; [|apply ep_ext_app].
    apply ep_ext_map; intros x; destruct (Hu x) as [U1 [U2 [U3 [U4 [U5 U6]]]]]; try assumption; congruence.
  - apply ep_ext_map; intros x; destruct (eobj x =? eo0); simpl; auto.
Qed.

Lemma cl_done_step rc s op o : cl_done s o = true -> cl_done (fst (step rc s op)) o = true.
Proof.
  unfold cl_done, find_cl. intros H. destruct (find (fun c => cobj c =? o) (clos s)) as [c|] eqn:E; [|discriminate].
  destruct (clos_grows rc s op o c E) as [c' [Hf Hc]]. rewrite Hf. apply Hc. exact H.
Qed.

Lemma ep_done_step rc s op eo : ep_done_obj s eo = true -> ep_done_obj (fst (step rc s op)) eo = true.
Proof.
  unfold ep_done_obj, find_ep. intros H. destruct (find (fun e => eobj e =? eo) (eps s)) as [e|] eqn:E; [|discriminate].
  destruct (eps_grows rc s op eo e E) as [e' [Hf [Hc [Hk _]]]]. rewrite Hf.
  unfold ep_done in *. rewrite Hc. apply orb_prop in H. destruct H as [H|H].
  - rewrite (cl_done_step rc s op _ H). reflexivity.
  - rewrite (Hk H). apply orb_true_r.
Qed.

Lemma not_live_step rc s op eo e :
  find_ep s eo = Some e -> elive e = false ->
  exists e', find_ep (fst (step rc s op)) eo = Some e' /\ elive e' = false.
Proof.
  intros Hf Hl. destruct (eps_grows rc s op eo e Hf) as [e' [Hf' [_ [_ Hl']]]]. exists e'. split; [exact Hf'|tauto].
Qed.

Lemma done_forever rc : forall ops s,
  (forall o, cl_done s o = true -> cl_done (run rc s ops) o = true)
  /\ (forall eo, ep_done_obj s eo = true -> ep_done_obj (run rc s ops) eo = true)
  /\ (forall eo e, find_ep s eo = Some e -> elive e = false ->
        exists e', find_ep (run rc s ops) eo = Some e' /\ elive e' = false).
Proof.
  induction ops as [|op r IH]; intros s; simpl.
  - split; [tauto|]. split; [tauto|]. intros eo e Hf Hl. exists e. tauto.
  - destruct (IH (fst (step rc s op))) as [I1 [I2 I3]]. split; [|split].
    + intros o H. apply I1. apply cl_done_step. exact H.
    + intros eo H. apply I2. apply ep_done_step. exact H.
    + intros eo e Hf Hl. destruct (not_live_step rc s op eo e Hf Hl) as [e1 [Hf1 Hl1]]. exact (I3 eo e1 Hf1 Hl1).
Qed.

(* a request that left the before-pick phase keeps its endpoint, so its context stays done *)
Lemma find_upd_rq s id id0 f r :
  (forall x, rid (f x) = rid x) -> find_rq s id = Some r ->
  find_rq (upd_rq s id0 f) id = Some (if rid r =? id0 then f r else r).
Proof.
  intros Hk Hf. unfold find_rq, upd_rq in *. simpl. rewrite (find_map_key rid); [rewrite Hf; reflexivity|].
  intros x. destruct (rid x =? id0); [apply Hk|reflexivity].
Qed.

Definition same_req (r r' : rq) : Prop :=
  rep r' = rep r /\ (rclient r = true -> rclient r' = true) /\ rph r' <> PBefore.

Lemma rid_found s id r : find_rq s id = Some r -> rid r = id.
Proof. unfold find_rq. intros H. apply find_some in H. destruct H as [_ H]. lia. Qed.

Lemma req_kept rc s op id r :
  find_rq s id = Some r -> rph r <> PBefore ->
  exists r', find_rq (fst (step rc s op)) id = Some r' /\ same_req r r'.
Proof.
  intros Hf Hp.
  assert (Hsame : same_req r r) by (unfold same_req; tauto).
  assert (Hset : forall p, p <> PBefore -> same_req r (set_ph r p)) by (intros p Hq; unfold same_req; simpl; tauto).
  destruct op as [name aliases want|name|eo0 ok0|eo0|id0 host sub|id0 choice|id0|id0|id0|id0]; simpl.
  - exists r. split; [|exact Hsame]. unfold upsert. crack; exact Hf.
  - exists r. split; [|exact Hsame]. unfold delete. crack; exact Hf.
  - exists r. split; [|exact Hsame]. crack; exact Hf.
  - exists r. split; [|exact Hsame]. crack; exact Hf.
  - exists r. split; [|exact Hsame]. unfold find_rq in *. crack; try exact Hf; rewrite find_app, Hf; reflexivity.
  - (* OPick: only a request in the before-pick phase moves *)
    destruct (find_rq s id0) as [r0|] eqn:E0; [|exists r; split; [exact Hf|exact Hsame]].
    destruct (rph r0) eqn:Ep0; try (exists r; split; [exact Hf|exact Hsame]).
    assert (Hne : rid r =? id0 = false).
    { destruct (rid r =? id0) eqn:Eid; [|reflexivity]. exfalso.
      assert (id0 = id) by (pose proof (rid_found _ _ _ Hf); lia). subst id0.
      rewrite Hf in E0. inversion E0; subst r0. contradiction. }
    crack; try (exists r; split; [exact Hf|exact Hsame]);
      (exists r; split; [|exact Hsame]; rewrite (find_upd_rq s id id0 _ r) by (try reflexivity; exact Hf); rewrite Hne; reflexivity).
  - destruct (find_rq s id0) as [r0|] eqn:E0; [|exists r; split; [exact Hf|exact Hsame]].
    destruct (rph r0); try (exists r; split; [exact Hf|exact Hsame]).
    destruct (req_done s r0); [exists r; split; [exact Hf|exact Hsame]|]. simpl.
    rewrite (find_upd_rq s id id0 _ r) by (try reflexivity; exact Hf).
    destruct (rid r =? id0); eexists; (split; [reflexivity|]); [apply Hset; discriminate|exact Hsame].
  - destruct (find_rq s id0) as [r0|] eqn:E0; [|exists r; split; [exact Hf|exact Hsame]].
    destruct (rph r0); try (exists r; split; [exact Hf|exact Hsame]);
      (destruct (req_done s r0); [exists r; split; [exact Hf|exact Hsame]|]; simpl;
       rewrite (find_upd_rq s id id0 _ r) by (try reflexivity; exact Hf);
       destruct (rid r =? id0); eexists; (split; [reflexivity|]); [apply Hset; discriminate|exact Hsame]).
  - destruct (find_rq s id0) as [r0|] eqn:E0; [|exists r; split; [exact Hf|exact Hsame]].
    destruct (rph r0); try (exists r; split; [exact Hf|exact Hsame]);
      (destruct (req_done s r0); [|exists r; split; [exact Hf|exact Hsame]]; simpl;
       rewrite (find_upd_rq s id id0 _ r) by (try reflexivity; exact Hf);
       destruct (rid r =? id0); eexists; (split; [reflexivity|]); [apply Hset; discriminate|exact Hsame]).
  - rewrite (find_upd_rq s id id0 _ r) by (try reflexivity; exact Hf).
    destruct (rid r =? id0); eexists; (split; [reflexivity|]); [unfold same_req; simpl; tauto|exact Hsame].
Qed.

Lemma req_done_step rc s op id r :
  find_rq s id = Some r -> rph r <> PBefore -> req_done s r = true ->
  exists r', find_rq (fst (step rc s op)) id = Some r' /\ rph r' <> PBefore /\ req_done (fst (step rc s op)) r' = true.
Proof.
  intros Hf Hp Hd. destruct (req_kept rc s op id r Hf Hp) as [r' [Hf' [Hr [Hc Hp']]]].
  exists r'. split; [exact Hf'|]. split; [exact Hp'|].
  unfold req_done in *. rewrite Hr. apply orb_prop in Hd. destruct Hd as [H|H].
  - rewrite (Hc H). reflexivity.
  - destruct (rep r) as [eo|]; [|discriminate]. rewrite (ep_done_step rc s op eo H). apply orb_true_r.
Qed.

(* ---------- object identities are unique ---------- *)
Definition wf (s : st) : Prop :=
  NoDup (map eobj (eps s)) /\ (forall e, In e (eps s) -> eobj e < next s).

Lemma fresh_range base o sv ns e : In e (fresh_eps base o sv ns) -> base <= eobj e < base + Z.of_nat (List.length ns).
Proof.
  revert base. induction ns as [|n r IH]; intros base Hin; simpl in *; [destruct Hin|].
  destruct Hin as [<-|Hin]; [|specialize (IH _ Hin); lia].
  match goal with |- context [ensure ?p ?x] => destruct (ensure_same p x) as [H1 _] end. rewrite H1. simpl. lia.
Qed.

Lemma fresh_length base o sv ns : List.length (fresh_eps base o sv ns) = List.length ns.
Proof. revert base. induction ns as [|n r IH]; intros base; simpl; [reflexivity|]. rewrite IH. reflexivity. Qed.

Lemma fresh_nodup base o sv ns : NoDup (map eobj (fresh_eps base o sv ns)).
Proof.
  revert base. induction ns as [|n r IH]; intros base; simpl; [constructor|].
  constructor; [|apply IH]. intros Hin. apply in_map_iff in Hin. destruct Hin as [e [He Hin]].
  pose proof (fresh_range _ _ _ _ _ Hin).
  match type of He with context [ensure ?p ?x] => destruct (ensure_same p x) as [H1 _] end.
  rewrite H1 in He. simpl in He. lia.
Qed.

Lemma nodup_app_ids (a b : list epo) (bound : Z) :
  NoDup (map eobj a) -> NoDup (map eobj b) -> (forall e, In e a -> eobj e < bound) ->
  (forall e, In e b -> bound <= eobj e) -> NoDup (map eobj (a ++ b)).
Proof.
  intros Ha Hb Hlt Hge. rewrite map_app. induction a as [|x r IH]; simpl; [exact Hb|].
  inversion Ha as [|? ? Hx Hr]; subst. constructor.
  - intros Hin. apply in_app_or in Hin. destruct Hin as [Hin|Hin]; [exact (Hx Hin)|].
    apply in_map_iff in Hin. destruct Hin as [e [He Hin]].
    pose proof (Hge e Hin). pose proof (Hlt x (or_introl eq_refl)). lia.
  - apply IH; [exact Hr|]. intros e He. apply Hlt. right; exact He.
Qed.

Lemma wf_init : wf init.
Proof. split; [constructor|intros e []]. Qed.

Lemma wf_step rc s op : wf s -> wf (fst (step rc s op)).
Proof.
  intros [Hnd Hlt].
  destruct op as [name aliases want|name|eo0 ok0|eo0|id0 host sub|id0 choice|id0|id0|id0|id0]; simpl;
    try (unfold upd_rq; crack; split; assumption).
  - unfold upsert. crack; try (split; assumption).
    + (* sync: drop + fresh *)
      match goal with |- wf (mkSt _ _ (map (update_ep ?o ?sv) (map (drop_ep ?o ?w) _) ++ fresh_eps _ _ _ ?added) _ _) =>
        set (ad := added); destruct (drop_ep_props o w) as [Hk _];
        assert (Hk2 : forall x, eobj (update_ep o sv (drop_ep o w x)) = eobj x)
          by (intros x; destruct (update_ep_same o sv (drop_ep o w x)) as [U _]; rewrite U; apply Hk) end.
      split; simpl.
      * apply (nodup_app_ids _ _ (next s)).
        -- rewrite !map_map. erewrite map_ext; [exact Hnd|]. intros x. apply Hk2.
        -- apply fresh_nodup.
        -- intros e He. rewrite map_map in He. apply in_map_iff in He. destruct He as [x [<- Hx]]. rewrite Hk2. apply Hlt. exact Hx.
        -- intros e He. pose proof (fresh_range _ _ _ _ _ He). lia.
      * intros e He. apply in_app_or in He. destruct He as [He|He].
        -- rewrite map_map in He. apply in_map_iff in He. destruct He as [x [<- Hx]]. rewrite Hk2. pose proof (Hlt x Hx). lia.
        -- pose proof (fresh_range _ _ _ _ _ He). lia.
    + (* create *)
      split; simpl.
      * apply (nodup_app_ids _ _ (next s + 1)); [exact Hnd|apply fresh_nodup| |].
        -- intros e He. pose proof (Hlt e He). lia.
        -- intros e He. pose proof (fresh_range _ _ _ _ _ He). lia.
      * intros e He. apply in_app_or in He. rewrite fresh_length. destruct He as [He|He].
        -- pose proof (Hlt e He). lia.
        -- pose proof (fresh_range _ _ _ _ _ He). lia.
  - unfold delete. crack; split; assumption.
  - crack; try (split; assumption). split; simpl.
    + rewrite map_map. erewrite map_ext; [exact Hnd|]. intros x. destruct (eobj x =? eo0); reflexivity.
    + intros e' He. apply in_map_iff in He. destruct He as [x [<- Hx]].
      destruct (eobj x =? eo0); simpl; apply Hlt; exact Hx.
Qed.

Lemma wf_run rc : forall ops s, wf s -> wf (run rc s ops).
Proof. induction ops as [|o r IH]; intros s H; simpl; [exact H|]. apply IH. apply wf_step. exact H. Qed.

Lemma find_ep_unique s e : wf s -> In e (eps s) -> find_ep s (eobj e) = Some e.
Proof.
  intros [Hnd _] Hin. unfold find_ep. induction (eps s) as [|x r IH]; [destruct Hin|].
  simpl in *. inversion Hnd as [|? ? Hx Hr]; subst. destruct Hin as [->|Hin].
  - rewrite Z.eqb_refl. reflexivity.
  - destruct (eobj x =? eobj e) eqn:E.
    + exfalso. apply Hx. apply in_map_iff. exists e. split; [lia|exact Hin].
    + apply IH; assumption.
Qed.

(* ---------- what Pop can return ---------- *)
Lemma ready_In rc s o ups n :
  In n (ready_names rc s o ups) ->
  exists e, live_ep s o n = Some e /\ ehealthy e = true /\ (rc = true -> ep_done s e = false).
Proof.
  unfold ready_names. rewrite filter_In. intros [_ H].
  destruct (live_ep s o n) as [e|]; [|discriminate]. exists e. split; [reflexivity|].
  apply andb_prop in H. destruct H as [Hh Hc]. apply andb_prop in Hh. destruct Hh as [_ Hh]. split; [exact Hh|].
  intros ->. unfold ep_done. destruct (cl_done s (ecl e) || ecancel e); [discriminate|reflexivity].
Qed.

Lemma pick_events rc s id choice ev :
  wf s -> In ev (snd (step rc s (OPick id choice))) ->
  exists e, find_ep s (eobj e) = Some e /\ elive e = true /\ ehealthy e = true
            /\ (rc = true -> ep_done s e = false)
            /\ (if ep_done s e then ev = EDoomed (eobj e) else ev = EContact (eobj e)).
Proof.
  intros Hwf. cbn [step].
  destruct (find_rq s id) as [r|]; [|intros H; destruct H].
  destruct (rph r); try (intros H; destruct H; fail).
  set (ups := match rsub r with [] => live_names s (rcl r) | z :: l => z :: l end).
  destruct (ready_names rc s (rcl r) ups) as [|x rd] eqn:Er; [intros H; destruct H|].
  destruct (nth_error (x :: rd) (Nat.modulo choice (List.length (x :: rd)))) as [n|] eqn:En; [|intros H; destruct H].
  assert (Hin : In n (x :: rd)) by (eapply nth_error_In; exact En).
  rewrite <- Er in Hin. destruct (ready_In _ _ _ _ _ Hin) as [e [Hl [Hh Hc]]].
  rewrite Hl. cbn [snd]. intros [<-|[]].
  unfold live_ep in Hl. pose proof (find_some _ _ Hl) as [Hine Hb].
  apply andb_prop in Hb. destruct Hb as [Hb _]. apply andb_prop in Hb. destruct Hb as [_ Hlive].
  exists e. split; [apply find_ep_unique; assumption|]. split; [exact Hlive|]. split; [exact Hh|].
  split; [exact Hc|]. destruct (ep_done s e); reflexivity.
Qed.

(* ---------- a request is cut only when its own context is done ---------- *)
Lemma cut_needs_done rc s id r :
  find_rq s id = Some r -> req_done s r = false -> step rc s (OCancelSeen id) = (s, []).
Proof.
  intros Hf Hd. simpl. rewrite Hf. destruct (rph r); try reflexivity; rewrite Hd; reflexivity.
Qed.

(* ... and a request whose context is done can neither get response headers nor complete *)
Lemma done_cannot_finish rc s id r :
  find_rq s id = Some r -> req_done s r = true ->
  step rc s (OHeaders id) = (s, []) /\ step rc s (OFinish id) = (s, []).
Proof.
  intros Hf Hd. simpl. rewrite Hf. split; destruct (rph r); try reflexivity; rewrite Hd; reflexivity.
Qed.

(* ---------- every probe context is derived from its endpoint's context ---------- *)
Definition pp_ok (s : st) : Prop := forall e, In e (eps s) -> pparent e = PEp.

Lemma fresh_parent base o sv ns e : In e (fresh_eps base o sv ns) -> pparent e = PEp.
Proof.
  revert base. induction ns as [|n r IH]; intros base Hin; simpl in Hin; [destruct Hin|].
  destruct Hin as [<-|Hin]; [apply ensure_parent; reflexivity|exact (IH _ Hin)].
Qed.

Lemma pp_step rc s op : pp_ok s -> pp_ok (fst (step rc s op)).
Proof.
  intros Hp.
  destruct op as [name aliases sv|name|eo0 ok0|eo0|id0 host sub|id0 choice|id0|id0|id0|id0]; simpl;
    try (unfold upd_rq; crack; exact Hp).
  - unfold upsert. crack; try exact Hp.
    + intros e He. simpl in He. apply in_app_or in He. destruct He as [He|He]; [|exact (fresh_parent _ _ _ _ _ He)].
      rewrite map_map in He. apply in_map_iff in He. destruct He as [x [<- Hx]].
      assert (Hd : pparent (drop_ep z (map fst sv) x) = PEp).
      { unfold drop_ep. destruct ((ecl x =? z) && elive x && negb (zmem (ename x) (map fst sv))); simpl; apply Hp; exact Hx. }
      unfold update_ep. match goal with |- context [if ?c then _ else _] => destruct c end; [|exact Hd].
      apply ensure_parent; [exact Hd|reflexivity].
    + intros e He. simpl in He. apply in_app_or in He. destruct He as [He|He]; [exact (Hp e He)|exact (fresh_parent _ _ _ _ _ He)].
  - unfold delete. crack; exact Hp.
  - crack; try exact Hp. intros e' He. simpl in He. apply in_map_iff in He. destruct He as [x [<- Hx]].
    destruct (eobj x =? eo0); simpl; apply Hp; exact Hx.
Qed.

Lemma pp_run rc : forall ops s, pp_ok s -> pp_ok (run rc s ops).
Proof. induction ops as [|o r IH]; intros s H; simpl; [exact H|]. apply IH. apply pp_step. exact H. Qed.

Lemma pp_init : pp_ok init.
Proof. intros e []. Qed.

(* ---------- deleting an object that never owned its name ---------- *)
Lemma delete_foreign rc s name :
  match resolve s name with
  | None => True
  | Some o => match find_cl s o with Some c => primary c <> name | None => True end
  end -> step rc s (ODelete name) = (s, []).
Proof.
  intros H. simpl. unfold delete. destruct (resolve s name) as [o|]; [|reflexivity].
  destruct (find_cl s o) as [c|]; [|reflexivity].
  assert (E : primary c =? name = false) by lia. rewrite E. reflexivity.
Qed.

(* ... and such an object is never admitted: an upsert under a name bound to another cluster's object, or
   claiming a server name bound to another object, changes nothing *)
Lemma upsert_rejected rc s name aliases sv :
  match resolve s name with
  | None => conflict s (next s) (name :: aliases) = true
  | Some o => match find_cl s o with
              | Some c => primary c <> name \/ conflict s o (name :: aliases) = true
              | None => True end
  end -> step rc s (OUpsert name aliases sv) = (s, []).
Proof.
  intros H. simpl. unfold upsert. destruct (resolve s name) as [o|].
  - destruct (find_cl s o) as [c|]; [|reflexivity]. destruct H as [H|H].
    + assert (E : primary c =? name = false) by lia. rewrite E. reflexivity.
    + rewrite H, orb_true_r. reflexivity.
  - rewrite H. reflexivity.
Qed.
